------------------------------- MODULE C11Mem -------------------------------
(***************************************************************************)
(* Operational, view-based release/acquire memory model used by all        *)
(* lock-free specifications (DESIGN.md 3.7).                               *)
(*                                                                         *)
(*  - every location holds the sequence of messages written to it          *)
(*    (modification order = append order); a message is [val, view];       *)
(*  - a thread has a current view  tv[t] : Loc -> index  and may read any  *)
(*    message of l with index >= tv[t][l]  (THE STALE READ);               *)
(*  - an acquire read joins the message view, a release write attaches the *)
(*    writer's view; relaxed writes carry only the view of the writer's    *)
(*    last release fence; relaxed reads accumulate into acqv[t] which an   *)
(*    acquire fence joins into tv[t];                                      *)
(*  - read-modify-writes read the LATEST message and continue its release  *)
(*    sequence (the new message also carries the view of the one read);    *)
(*  - SeqCst accesses additionally synchronise through one global view sc  *)
(*    (slightly stronger than C11 - an assumption stated in the evidence). *)
(*                                                                         *)
(* Not modelled: load buffering / out-of-thin-air, writes placed in the    *)
(* middle of the modification order, compiler transformations.  Plain      *)
(* (non-atomic) cells are locations accessed with ord = "Plain", treated   *)
(* as relaxed; data races on them are detected with the ghost read marks   *)
(* of `MarkRead` / `RaceFreeWrite` and the staleness test `IsLatest`.      *)
(*                                                                         *)
(* With every ordering set to "SeqCst" the model is plain interleaving.    *)
(***************************************************************************)
EXTENDS Naturals, Sequences, FiniteSets

CONSTANTS Loc,       \* set of locations (use tuples, e.g. <<"wp", 0>>)
          Thr        \* set of threads

VARIABLES mem,   \* [Loc -> Seq([val, view])]
          tv,    \* [Thr -> View]    current view
          acqv,  \* [Thr -> View]    views of messages read relaxed (for acquire fences)
          relv,  \* [Thr -> View]    view at the last release fence
          sc     \* View             global SeqCst view

memvars == <<mem, tv, acqv, relv, sc>>

Max(a, b) == IF a >= b THEN a ELSE b
View0 == [l \in Loc |-> 1]
Join(a, b) == [l \in Loc |-> Max(a[l], b[l])]
Bump(v, l, i) == [v EXCEPT ![l] = Max(v[l], i)]

IsAcq(o) == o \in {"Acquire", "AcqRel", "SeqCst"}
IsRel(o) == o \in {"Release", "AcqRel", "SeqCst"}
IsSC(o)  == o = "SeqCst"
Orderings == {"Relaxed", "Acquire", "Release", "AcqRel", "SeqCst"}

MemInit(init) ==   \* init : [Loc -> value]
    /\ mem = [l \in Loc |-> << [val |-> init[l], view |-> View0] >>]
    /\ tv = [t \in Thr |-> View0]
    /\ acqv = [t \in Thr |-> View0]
    /\ relv = [t \in Thr |-> View0]
    /\ sc = View0

Latest(l) == Len(mem[l])
LatestVal(l) == mem[l][Len(mem[l])].val
ValAt(l, i) == mem[l][i].val

\* the view a thread reads with (SeqCst accesses first join the global SC view)
BaseView(t, o) == IF IsSC(o) THEN Join(tv[t], sc) ELSE tv[t]

\* indices thread t may read from location l with ordering o
Readable(t, l, o) == BaseView(t, o)[l] .. Len(mem[l])

\* is index i the newest message of l (no stale read / no unsynchronised newer write)?
IsLatest(l, i) == i = Len(mem[l])
\* would a plain read of l by t be free of a race with an earlier write?
SeesLatest(t, l) == tv[t][l] = Len(mem[l])

\* ---- load -----------------------------------------------------------------
Load(t, l, o, i) ==
    /\ i \in Readable(t, l, o)
    /\ LET m == mem[l][i]
           b == Bump(BaseView(t, o), l, i)
           n == IF IsAcq(o) THEN Join(b, m.view) ELSE b
       IN /\ tv' = [tv EXCEPT ![t] = n]
          /\ acqv' = [acqv EXCEPT ![t] = Join(@, m.view)]
          /\ sc' = IF IsSC(o) THEN Join(sc, n) ELSE sc
    /\ UNCHANGED <<mem, relv>>

\* ---- store ----------------------------------------------------------------
Store(t, l, o, v) ==
    LET i == Len(mem[l]) + 1
        n == Bump(BaseView(t, o), l, i)
        mv == IF IsRel(o) THEN n ELSE Bump(relv[t], l, i)
    IN /\ mem' = [mem EXCEPT ![l] = Append(@, [val |-> v, view |-> mv])]
       /\ tv' = [tv EXCEPT ![t] = n]
       /\ sc' = IF IsSC(o) THEN Join(sc, n) ELSE sc
       /\ UNCHANGED <<acqv, relv>>

\* ---- read-modify-write (swap, fetch_*, successful CAS): reads the latest --
Rmw(t, l, o, newval) ==
    LET j == Len(mem[l])
        m == mem[l][j]
        i == j + 1
        b == Bump(BaseView(t, o), l, i)
        n == IF IsAcq(o) THEN Join(b, m.view) ELSE b
        mv0 == IF IsRel(o) THEN n ELSE Bump(relv[t], l, i)
        mv == Join(mv0, m.view)        \* release sequence continues through RMWs
    IN /\ mem' = [mem EXCEPT ![l] = Append(@, [val |-> newval, view |-> mv])]
       /\ tv' = [tv EXCEPT ![t] = n]
       /\ acqv' = [acqv EXCEPT ![t] = Join(@, m.view)]
       /\ sc' = IF IsSC(o) THEN Join(sc, n) ELSE sc
       /\ UNCHANGED relv

\* ---- compare-exchange (strong).  ok <=> it read `expected`, which is only ----
\* ---- possible from the latest message; a failure is a load with `of`.     ----
CasChoices(t, l, os, of, expected) ==
    { i \in Readable(t, l, of) : mem[l][i].val # expected \/ i = Len(mem[l]) }

Cas(t, l, os, of, expected, newval, i) ==
    /\ i \in CasChoices(t, l, os, of, expected)
    /\ IF mem[l][i].val = expected
       THEN Rmw(t, l, os, newval)
       ELSE Load(t, l, of, i)

CasOk(l, expected, i) == mem[l][i].val = expected

\* ---- fences ---------------------------------------------------------------
Fence(t, o) ==
    LET a == IF IsAcq(o) THEN Join(tv[t], acqv[t]) ELSE tv[t]
        b == IF IsSC(o) THEN Join(a, sc) ELSE a
    IN /\ tv' = [tv EXCEPT ![t] = b]
       /\ relv' = [relv EXCEPT ![t] = IF IsRel(o) THEN b ELSE @]
       /\ sc' = IF IsSC(o) THEN b ELSE sc
       /\ UNCHANGED <<mem, acqv>>

\* ---- plain (non-atomic) cells with race detection ----------------------------
\* A plain read of l is modelled as a relaxed read plus a ghost read-mark appended to the
\* ghost location g (one per cell).  A plain write is race free iff every earlier write AND
\* every earlier read-mark of the cell happens-before it.
PlainRead(t, l, g, i) ==
    /\ i \in Readable(t, l, "Relaxed")
    /\ LET gi == Len(mem[g]) + 1
       IN /\ mem' = [mem EXCEPT ![g] = Append(@, [val |-> 0, view |-> View0])]
          /\ tv' = [tv EXCEPT ![t] = Bump(Bump(@, l, i), g, gi)]
    /\ acqv' = [acqv EXCEPT ![t] = Join(@, mem[l][i].view)]
    /\ UNCHANGED <<relv, sc>>

WriteRaceFree(t, l, g) == tv[t][l] = Len(mem[l]) /\ tv[t][g] = Len(mem[g])

\* ---- a step that touches no memory ------------------------------------------
MemSkip == UNCHANGED memvars

\* bound for state constraints: total number of messages
MemSize == LET S == {<<l, Len(mem[l])>> : l \in Loc} IN Cardinality(S)
=============================================================================
