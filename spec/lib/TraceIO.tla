------------------------------ MODULE TraceIO ------------------------------
(***************************************************************************)
(* Shared plumbing of all trace specifications (DESIGN.md 2.1 layer 3,    *)
(* 3.4).  The recorded trace is an ndjson file whose path is given in the  *)
(* environment variable TRACE.  A trace specification has a variable `l`   *)
(* (position of the next record to be explained) and consumes one record   *)
(* per non-silent step.  Because silent steps may be composed in, the      *)
(* verdict is not taken from the diameter but from TLC register 42, which  *)
(* holds the furthest position reached (needs -workers 1).                 *)
(***************************************************************************)
EXTENDS Naturals, Sequences, TLC, Json, IOUtils

Rec == ndJsonDeserialize(IOEnv.TRACE)
NRec == Len(Rec)

\* conjunct of every TraceInit
TraceRegInit == TLCSet(42, 1)

\* used as CONSTRAINT: always TRUE, remembers the furthest position
TraceProgress(l) ==
    IF TLCGet(42) < l THEN TLCSet(42, l) ELSE TRUE

\* used as POSTCONDITION
TraceAccepted ==
    LET m == TLCGet(42) IN
    IF m > NRec
    THEN PrintT(<<"TRACE_ACCEPTED", NRec>>)
    ELSE /\ PrintT(<<"TRACE_REJECTED", m, ToJson(Rec[m])>>)
         /\ FALSE
=============================================================================
