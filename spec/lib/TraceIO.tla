------------------------------ MODULE TraceIO ------------------------------
(***************************************************************************)
(* Shared plumbing of all trace specifications (DESIGN.md 2.1 layer 3,    *)
(* 3.4).  The recorded trace is an ndjson file whose path is given in the  *)
(* environment variable TRACE.  A trace specification has a variable `l`   *)
(* (position of the next record to be explained) and consumes one record   *)
(* per non-silent step.  Because silent steps may be composed in, the      *)
(* verdict is not taken from the diameter but from TLC register 42, which  *)
(* holds the furthest position reached (needs -workers 1).                 *)
(***************************************************************************)
EXTENDS Naturals, Sequences, TLC, Json, IOUtils

Rec == ndJsonDeserialize(IOEnv.TRACE)
NRec == Len(Rec)

\* conjunct of every TraceInit
TraceRegInit == TLCSet(42, 1)

\* used as CONSTRAINT: always TRUE, remembers the furthest position
TraceProgress(l) ==
    IF TLCGet(42) < l THEN TLCSet(42, l) ELSE TRUE

\* ---- alternatives ---------------------------------------------------------------------------
\* Calls that OVERLAPPED in a concurrent execution have no recorded order.  The check writes every
\* linearization that respects the recorded real-time order as one alternative of a group
\*     {"k":"alt","nx":n,"to":0}  records of alternative 1  {"k":"altjoin","nx":0,"to":m}
\*     {"k":"alt","nx":n',"to":0} records of alternative 2  {"k":"altjoin","nx":0,"to":m'} ...
\* (nx: distance to the next alternative's alt record, 0 for the last; to: distance to the first
\* record after the group; lib/vp.py alt_block).  A trace specification adds the disjunct
\*     AltJump == IsAltRec(l) /\ l' \in AltTargets(l) /\ UNCHANGED vars
\* so that TLC explores the alternatives from the same specification state; the trace is accepted
\* if SOME alternative of every group is explained (a history is linearizable iff one is).
IsAltRec(l) == l <= NRec /\ Rec[l].k \in {"alt", "altjoin"}
AltTargets(l) ==
    IF Rec[l].k = "alt"
    THEN {l + 1} \cup (IF Rec[l].nx > 0 THEN {l + Rec[l].nx} ELSE {})
    ELSE {l + Rec[l].to}

\* used as POSTCONDITION
TraceAccepted ==
    LET m == TLCGet(42) IN
    IF m > NRec
    THEN PrintT(<<"TRACE_ACCEPTED", NRec>>)
    ELSE /\ PrintT(<<"TRACE_REJECTED", m, ToJson(Rec[m])>>)
         /\ FALSE
=============================================================================
