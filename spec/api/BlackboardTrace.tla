--------------------------- MODULE BlackboardTrace ---------------------------
(* Trace specification: explains the ndjson traces recorded by drv-blackboard *)
(* (pattern "bb") from real Writer / Reader / EntryHandle(Mut) objects by the  *)
(* observation-driven actions of Blackboard.tla.  Every record is one         *)
(* completed API call with its arguments, its result, the decoded value read  *)
(* and the registry counters of the real service after the call.  A record    *)
(* that is not a call the program could make (ids out of range, handle in the *)
(* wrong state) is unexplainable; everything the PROPERTY demands of a call   *)
(* is judged by the invariants of Blackboard.tla on the state after it.       *)
EXTENDS Blackboard, TraceIO

VARIABLE l
tvars == <<vars, l>>

DummyCfg == [nkeys |-> 1, rreq |-> 1, nreq |-> 1, reff |-> 1, neff |-> 1]
NoUniv(c) == [W |-> {}, R |-> {}, N |-> {}, K |-> {}, Q |-> {}, maxv |-> 0]

TraceInit ==
    /\ l = 1
    /\ InitWith(DummyCfg)
    /\ ocnt = <<0, 0, 1>>
    /\ TraceRegInit

CfgOf(e) == [nkeys |-> e.nkeys, rreq |-> e.rreq, nreq |-> e.nreq, reff |-> e.reff, neff |-> e.neff]

Op(e) ==
    CASE e.a = "open"   -> OpenNode(e.n, e.x, e.y, e.res)
      [] e.a = "close"  -> CloseNode(e.n) /\ e.res = "ok"
      [] e.a = "cw"     -> CreateWriter(e.o, e.n, e.res)
      [] e.a = "dw"     -> DropWriter(e.o, e.res)
      [] e.a = "we"     -> WEntry(e.o, e.key, e.x, e.res)
      [] e.a = "wd"     -> WDrop(e.o, e.key, e.res)
      [] e.a = "upd"    -> Update(e.o, e.key, e.v, e.res)
      [] e.a = "loan"   -> Loan(e.o, e.key, e.res)
      [] e.a = "lw"     -> LoanWrite(e.o, e.key, e.v, e.res)
      [] e.a = "commit" -> Commit(e.o, e.key, e.res)
      [] e.a = "ccopy"  -> CommitCopy(e.o, e.key, e.v, e.res)
      [] e.a = "disc"   -> Discard(e.o, e.key, e.res)
      [] e.a = "cr"     -> CreateReader(e.o, e.n, e.res)
      [] e.a = "dr"     -> DropReader(e.o, e.res)
      [] e.a = "re"     -> REntry(e.o, e.key, e.x, e.res)
      [] e.a = "rd"     -> RDrop(e.o, e.key, e.res)
      [] e.a = "get"    -> Get(e.o, e.key, e.v, e.kk, e.whole = 1, e.res)
      [] OTHER -> FALSE

Consume ==
    /\ l <= NRec
    /\ l' = l + 1
    /\ LET e == Rec[l] IN
       CASE e.k = "reset" -> /\ e.pat = "bb"
                             /\ e.cres = "ok"      \* creating the service within the supported range succeeds
                             /\ Reset(CfgOf(e))
                             /\ ocnt' = <<e.nw, e.nr, e.nn>>
         [] e.k = "op"    -> Op(e) /\ ocnt' = <<e.nw, e.nr, e.nn>>
         [] e.k = "end"   -> UNCHANGED vars
         [] OTHER -> FALSE

TraceNext == Consume
TraceSpec == TraceInit /\ [][TraceNext]_tvars

Progress == TraceProgress(l)
Accepted == TraceAccepted
=============================================================================
