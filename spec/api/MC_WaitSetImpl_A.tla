---- MODULE MC_WaitSetImpl_A ----
EXTENDS WaitSetImpl
====
