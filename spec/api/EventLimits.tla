----------------------------- MODULE EventLimits -----------------------------
(***************************************************************************)
(* Limit layer of the event pattern (property layer of C08, event part).   *)
(*                                                                         *)
(* One event service created by node 1 with max_notifiers = cfg.fq,        *)
(* max_listeners = cfg.lq, max_nodes = cfg.nq (0 is documented to be       *)
(* adjusted to 1) and event_id_max_value = cfg.idmax (0 allowed).  For     *)
(* every limit an INSIDE clause (below the limit the call succeeds - and a *)
(* notification really reaches every listener) and a BEYOND clause (one    *)
(* too many is rejected with the specific documented error, changes        *)
(* nothing - no registry entry, no event at any listener - and the call    *)
(* succeeds again as soon as one unit is freed).  Deadline and the         *)
(* automatic notifier_created / dropped / dead events are out of scope     *)
(* (switched off by the driver).                                           *)
(*                                                                         *)
(* Like Blackboard.tla the actions are observation driven (they take the   *)
(* result the call really had); the clauses are invariants over the state  *)
(* and the record `last` of the last call.                                 *)
(*                                                                         *)
(* Anchors: port/notifier.rs (add_notifier_id, EventIdOutOfBounds),        *)
(* port/listener.rs (add_listener_id), service/builder/event.rs            *)
(* (adjust_attributes_to_meaningful_values, verify_service_configuration), *)
(* service/dynamic_config/mod.rs (register_node_id).                       *)
(***************************************************************************)
EXTENDS Naturals, FiniteSets, Sequences, TLC

CONSTANTS FIds, LIds, NIds      \* program-level ids of notifiers, listeners, nodes (node 1 = creator)

VARIABLES
    cfg,      \* [fq, lq, nq, idmax, feff, leff, neff, ideff] requested limits / limits the static config reports
    nodes,    \* nodes that hold the service open
    fport,    \* [FIds -> BOOLEAN] notifier alive
    fnode,    \* [FIds -> node | 0]
    fdef,     \* [FIds -> Nat] default event id of the notifier
    lport,    \* [LIds -> BOOLEAN] listener alive
    lnode,    \* [LIds -> node | 0]
    pending,  \* [LIds -> SUBSET Nat] event ids notified and not yet collected
    last,     \* the last call
    ocnt      \* <<notifiers, listeners, nodes>> reported by the real service after the call

bvars == <<cfg, nodes, fport, fnode, fdef, lport, lnode, pending>>
vars == <<bvars, last, ocnt>>

Eff(x) == IF x = 0 THEN 1 ELSE x
FMax == Eff(cfg.fq)
LMax == Eff(cfg.lq)
NMax == Eff(cfg.nq)
IdMax == cfg.idmax

RegF == {i \in FIds : fport[i]}
RegL == {j \in LIds : lport[j]}
Pinned == {fnode[i] : i \in RegF} \cup {lnode[j] : j \in RegL}
Counts == <<Cardinality(RegF), Cardinality(RegL), Cardinality(nodes)>>

L(a, o, n, x, y, x3, x4, res, exp) ==
    [a |-> a, o |-> o, n |-> n, x |-> x, y |-> y, x3 |-> x3, x4 |-> x4, res |-> res, exp |-> exp,
     cnt |-> 0, expcnt |-> 0, ids |-> {}, pend |-> {}]

InitWith(c) ==
    /\ cfg = c
    /\ nodes = {1}
    /\ fport = [i \in FIds |-> FALSE]
    /\ fnode = [i \in FIds |-> 0]
    /\ fdef = [i \in FIds |-> 0]
    /\ lport = [j \in LIds |-> FALSE]
    /\ lnode = [j \in LIds |-> 0]
    /\ pending = [j \in LIds |-> {}]
    /\ last = L("reset", 0, 1, 0, 0, 0, 0, "ok", {"ok"})

Reset(c) ==
    /\ cfg' = c
    /\ nodes' = {1}
    /\ fport' = [i \in FIds |-> FALSE]
    /\ fnode' = [i \in FIds |-> 0]
    /\ fdef' = [i \in FIds |-> 0]
    /\ lport' = [j \in LIds |-> FALSE]
    /\ lnode' = [j \in LIds |-> 0]
    /\ pending' = [j \in LIds |-> {}]
    /\ last' = L("reset", 0, 1, 0, 0, 0, 0, "ok", {"ok"})

-----------------------------------------------------------------------------
\* event().max_notifiers(rf).max_listeners(rl).max_nodes(rn).event_id_max_value(rid).open()
\* (0 = requirement not stated)

ExpOpen(rf, rl, rn, rid) ==
    LET e1 == IF rf > FMax THEN {"DoesNotSupportRequestedAmountOfNotifiers"} ELSE {}
        e2 == IF rl > LMax THEN {"DoesNotSupportRequestedAmountOfListeners"} ELSE {}
        e3 == IF rn > NMax THEN {"DoesNotSupportRequestedAmountOfNodes"} ELSE {}
        e4 == IF rid > IdMax THEN {"DoesNotSupportRequestedMaxEventId"} ELSE {}
        e5 == IF Cardinality(nodes) >= NMax THEN {"ExceedsMaxNumberOfNodes"} ELSE {}
        e == e1 \cup e2 \cup e3 \cup e4 \cup e5
    IN IF e = {} THEN {"ok"} ELSE e      \* which of several applicable refusals is reported is left open

OpenNode(n, rf, rl, rn, rid, res) ==
    /\ n \in NIds \ nodes
    /\ nodes' = IF res = "ok" THEN nodes \cup {n} ELSE nodes
    /\ last' = L("open", 0, n, rf, rl, rn, rid, res, ExpOpen(rf, rl, rn, rid))
    /\ UNCHANGED <<cfg, fport, fnode, fdef, lport, lnode, pending>>

CloseNode(n) ==
    /\ n \in nodes \ {1}
    /\ n \notin Pinned
    /\ nodes' = nodes \ {n}
    /\ last' = L("close", 0, n, 0, 0, 0, 0, "ok", {"ok"})
    /\ UNCHANGED <<cfg, fport, fnode, fdef, lport, lnode, pending>>

ExpCreateNotifier == IF Cardinality(RegF) >= FMax THEN {"ExceedsMaxSupportedNotifiers"} ELSE {"ok"}

\* notifier_builder().default_event_id(d).create(): the default id is not checked here
CreateNotifier(i, n, d, res) ==
    /\ i \in FIds \ RegF
    /\ n \in nodes
    /\ last' = L("cn", i, n, d, 0, 0, 0, res, ExpCreateNotifier)
    /\ IF res = "ok"
       THEN /\ fport' = [fport EXCEPT ![i] = TRUE]
            /\ fnode' = [fnode EXCEPT ![i] = n]
            /\ fdef' = [fdef EXCEPT ![i] = d]
       ELSE UNCHANGED <<fport, fnode, fdef>>
    /\ UNCHANGED <<cfg, nodes, lport, lnode, pending>>

DropNotifier(i, res) ==
    /\ fport[i]
    /\ fport' = [fport EXCEPT ![i] = FALSE]
    /\ fnode' = [fnode EXCEPT ![i] = 0]
    /\ fdef' = [fdef EXCEPT ![i] = 0]
    /\ last' = L("dn", i, 0, 0, 0, 0, 0, res, {"ok"})
    /\ UNCHANGED <<cfg, nodes, lport, lnode, pending>>

ExpCreateListener == IF Cardinality(RegL) >= LMax THEN {"ExceedsMaxSupportedListeners"} ELSE {"ok"}

CreateListener(j, n, res) ==
    /\ j \in LIds \ RegL
    /\ n \in nodes
    /\ last' = L("cl", j, n, 0, 0, 0, 0, res, ExpCreateListener)
    /\ IF res = "ok"
       THEN /\ lport' = [lport EXCEPT ![j] = TRUE]
            /\ lnode' = [lnode EXCEPT ![j] = n]
            /\ pending' = [pending EXCEPT ![j] = {}]
       ELSE UNCHANGED <<lport, lnode, pending>>
    /\ UNCHANGED <<cfg, nodes, fport, fnode, fdef>>

DropListener(j, res) ==
    /\ lport[j]
    /\ lport' = [lport EXCEPT ![j] = FALSE]
    /\ lnode' = [lnode EXCEPT ![j] = 0]
    /\ pending' = [pending EXCEPT ![j] = {}]
    /\ last' = L("dl", j, 0, 0, 0, 0, 0, res, {"ok"})
    /\ UNCHANGED <<cfg, nodes, fport, fnode, fdef>>

\* mode 0: notify() with the notifier's default id, mode 1: notify_with_custom_event_id(id);
\* cnt = number of listeners the call reports to have notified
Notify(i, id, mode, res, cnt) ==
    /\ fport[i]
    /\ LET eid == IF mode = 0 THEN fdef[i] ELSE id
           exp == IF eid > IdMax THEN {"EventIdOutOfBounds"} ELSE {"ok"}
       IN /\ pending' = IF res = "ok"
                        THEN [j \in LIds |-> IF lport[j] THEN pending[j] \cup {eid} ELSE pending[j]]
                        ELSE pending
          /\ last' = [L("nt", i, 0, id, mode, 0, 0, res, exp) EXCEPT !.cnt = cnt, !.expcnt = Cardinality(RegL)]
    /\ UNCHANGED <<cfg, nodes, fport, fnode, fdef, lport, lnode>>

\* try_wait until nothing is left: ids = the set of event ids collected
Wait(j, ids, res) ==
    /\ lport[j]
    /\ pending' = [pending EXCEPT ![j] = {}]
    /\ last' = [L("wt", j, 0, 0, 0, 0, 0, res, {"ok"}) EXCEPT !.ids = ids, !.pend = pending[j]]
    /\ UNCHANGED <<cfg, nodes, fport, fnode, fdef, lport, lnode>>

-----------------------------------------------------------------------------
\* the clauses

TypeOK ==
    /\ nodes \subseteq NIds /\ 1 \in nodes
    /\ \A i \in FIds : fport[i] \in BOOLEAN
    /\ \A j \in LIds : lport[j] \in BOOLEAN /\ (~lport[j] => pending[j] = {})

\* inside: below the limit (and with an event id up to and including the maximum) the call succeeds
InsideSucceeds == last.exp = {"ok"} => last.res = "ok"
\* beyond: one too many is rejected with the specific documented error
BeyondRejected == "ok" \notin last.exp => last.res \in last.exp
\* ... has no side effect: the registry of the real service is what it was (and see NoPhantomEvent)
RefusalHasNoSideEffect == last.res # "ok" => ocnt = Counts
CountsExact == ocnt = Counts
NotifiersBounded == Cardinality(RegF) <= FMax
ListenersBounded == Cardinality(RegL) <= LMax
NodesBounded == Cardinality(nodes) <= NMax
\* 0 notifiers / listeners / nodes are adjusted to 1, everything else is taken as requested
LimitAdjusted == cfg.feff = FMax /\ cfg.leff = LMax /\ cfg.neff = NMax /\ cfg.ideff = cfg.idmax
\* a notification inside the limit reaches every listener (sequential history) ...
NotifyReachesAll == (last.a = "nt" /\ last.res = "ok") => last.cnt = last.expcnt
Delivered == last.a = "wt" => (last.res = "ok" /\ last.pend \subseteq last.ids)
\* ... a refused one (EventIdOutOfBounds) reaches nobody
NoPhantomEvent == last.a = "wt" => last.ids \subseteq last.pend

-----------------------------------------------------------------------------
\* model checking

CONSTANTS CfgSet, Univ(_), Faulty

MCInit == \E c \in CfgSet : InitWith(c) /\ ocnt = <<0, 0, 1>>

Ok == {"ok"}
Refusals(S) == S \ Ok
UU == Univ(cfg)          \* [F, L, N, Q (requirement values), D (event ids)]

NotifierResults ==
    IF Faulty = "notifier_gt" /\ Cardinality(RegF) = FMax THEN Ok
    ELSE IF Faulty = "wrong_variant" /\ ExpCreateNotifier # Ok THEN {"ExceedsMaxSupportedListeners"}
    ELSE ExpCreateNotifier
ListenerResults == IF Faulty = "listener_extra" THEN ExpCreateListener \cup Ok ELSE ExpCreateListener
NotifyResults(eid) ==
    IF Faulty = "id_ge" /\ eid = IdMax THEN {"EventIdOutOfBounds"}
    ELSE IF eid > IdMax THEN {"EventIdOutOfBounds"} ELSE Ok
Leftover == IF Faulty = "leftover" /\ last'.res # "ok" /\ last'.a = "cl" THEN 1 ELSE 0
Obs == ocnt' = <<Counts'[1], Counts'[2] + Leftover, Counts'[3]>>

MCOpenOk == \E n \in UU.N, q \in UU.Q : "ok" \in ExpOpen(q[1], q[2], q[3], q[4])
                /\ OpenNode(n, q[1], q[2], q[3], q[4], "ok") /\ Obs
MCOpenRefused == \E n \in UU.N, q \in UU.Q : \E res \in Refusals(ExpOpen(q[1], q[2], q[3], q[4])) :
                OpenNode(n, q[1], q[2], q[3], q[4], res) /\ Obs
MCClose == \E n \in UU.N : CloseNode(n) /\ Obs
MCCreateNotifierOk == \E i \in UU.F, n \in UU.N, d \in UU.D : "ok" \in NotifierResults /\ CreateNotifier(i, n, d, "ok") /\ Obs
MCCreateNotifierRefused == \E i \in UU.F, n \in UU.N : \E res \in Refusals(NotifierResults) : CreateNotifier(i, n, 0, res) /\ Obs
MCDropNotifier == \E i \in UU.F : DropNotifier(i, "ok") /\ Obs
MCCreateListenerOk == \E j \in UU.L, n \in UU.N : "ok" \in ListenerResults /\ CreateListener(j, n, "ok") /\ Obs
MCCreateListenerRefused == \E j \in UU.L, n \in UU.N : \E res \in Refusals(ListenerResults) : CreateListener(j, n, res) /\ Obs
MCDropListener == \E j \in UU.L : DropListener(j, "ok") /\ Obs
MCNotifyOk == \E i \in UU.F, id \in UU.D, mode \in {0, 1} :
                LET eid == IF mode = 0 THEN fdef[i] ELSE id IN
                "ok" \in NotifyResults(eid) /\ Notify(i, IF mode = 0 THEN 0 ELSE id, mode, "ok", Cardinality(RegL)) /\ Obs
MCNotifyRefused == \E i \in UU.F, id \in UU.D, mode \in {0, 1} :
                LET eid == IF mode = 0 THEN fdef[i] ELSE id IN
                \E res \in Refusals(NotifyResults(eid)) : Notify(i, IF mode = 0 THEN 0 ELSE id, mode, res, 0) /\ Obs
MCWait == \E j \in UU.L : Wait(j, IF Faulty = "phantom" THEN pending[j] \cup {IdMax + 1} ELSE pending[j], "ok") /\ Obs

MCNext ==
    \/ MCOpenOk \/ MCOpenRefused \/ MCClose
    \/ MCCreateNotifierOk \/ MCCreateNotifierRefused \/ MCDropNotifier
    \/ MCCreateListenerOk \/ MCCreateListenerRefused \/ MCDropListener
    \/ MCNotifyOk \/ MCNotifyRefused \/ MCWait
MCSpec == MCInit /\ [][MCNext]_vars
\* the fingerprint keeps everything the invariants read (not the arguments only the generator needs)
MCView == <<bvars, ocnt, last.a, last.res, last.exp, last.cnt, last.expcnt, last.ids, last.pend>>
=============================================================================
