SPECIFICATION GSpec
CONSTANTS
 NL = 2
 NS = 2
 NG = 3
 Cap = 2
 MaxSteps = 0
 Emit = "none"
INVARIANTS TypeOK NeverDetached Exact NothingLost AttachRefusedCleanly
CHECK_DEADLOCK FALSE
