---- MODULE MC_ReqResGen ----
EXTENDS ReqResGen
====
