-------------------------- MODULE ReqResConcTrace --------------------------
(***************************************************************************)
(* Trace specification for CONCURRENT executions of drv-reqres (`conc`):   *)
(* a sequential prefix (`op` records), then one client thread and one      *)
(* server thread whose API calls overlap in time (`call` / `ret` records   *)
(* in the total order of the deterministic scheduler), then a sequential   *)
(* suffix.                                                                 *)
(*                                                                         *)
(* A call is an INTERVAL: between its `call` and its `ret` record the      *)
(* thread takes the internal steps the code can take inside that call      *)
(* (implicit update_connections, skipping of closed requests, dropping of  *)
(* stale responses, ...) and exactly ONE step of the property layer that   *)
(* has the recorded result (DoStep; the result is taken from the `ret`     *)
(* record the `call` record points to: call.d).  Steps of the two threads  *)
(* interleave freely inside overlapping intervals.  The property layer     *)
(* therefore demands that every port call takes effect atomically at some  *)
(* point between its invocation and its return, for the other port, e.g.   *)
(* a request becomes visible to the server together with its open response *)
(* channel.  Chunk identities are not bound in concurrent runs (TrackIds = *)
(* FALSE: WHEN a released chunk becomes reusable is not fixed by C11).     *)
(***************************************************************************)
EXTENDS ReqResTrace

VARIABLE fl      \* [thread -> [pos |-> position of its open call record (0: idle), done |-> main step taken]]
cvars == <<vars, l, fl>>

Threads == {0, 1}
IdleT == [pos |-> 0, done |-> FALSE]
AllIdle == \A t \in Threads : fl[t].pos = 0
RetOf(t) == Rec[fl[t].pos + Rec[fl[t].pos].d]

ConcInit == TraceInit /\ fl = [t \in Threads |-> IdleT]

\* sequential parts
SeqStep == AllIdle /\ (Consume \/ Silent) /\ UNCHANGED fl

CallStep ==
    /\ l <= NRec /\ Ev.k = "call" /\ Ev.t \in Threads /\ Ev.d > 0
    /\ fl[Ev.t].pos = 0
    /\ fl' = [fl EXCEPT ![Ev.t] = [pos |-> l, done |-> FALSE]]
    /\ l' = l + 1
    /\ UNCHANGED vars

RetStep ==
    /\ l <= NRec /\ Ev.k = "ret" /\ Ev.t \in Threads
    /\ fl[Ev.t].pos # 0 /\ fl[Ev.t].done
    /\ fl[Ev.t].pos + Rec[fl[Ev.t].pos].d = l
    /\ fl' = [fl EXCEPT ![Ev.t] = IdleT]
    /\ l' = l + 1
    /\ UNCHANGED vars

\* the one step of the property layer that explains the call of thread t
DoStep(t) ==
    /\ fl[t].pos # 0 /\ ~fl[t].done
    /\ LET e == RetOf(t) IN e.bad = 0 /\ Op(e)
    /\ fl' = [fl EXCEPT ![t].done = TRUE]
    /\ UNCHANGED l

\* internal steps inside the call of thread t (before its main step)
SilentIn(t) ==
    /\ fl[t].pos # 0 /\ ~fl[t].done
    /\ SilentFor(RetOf(t))
    /\ UNCHANGED <<l, fl>>

ConcNext == SeqStep \/ CallStep \/ RetStep \/ (\E t \in Threads : DoStep(t) \/ SilentIn(t))
ConcSpec == ConcInit /\ [][ConcNext]_cvars
=============================================================================
