--------------------------- MODULE EventLimitsTrace ---------------------------
(* Trace specification: explains the ndjson traces recorded by drv-blackboard  *)
(* (pattern "ev") from real Notifier / Listener objects by the observation-    *)
(* driven actions of EventLimits.tla; the clauses of C08 are the invariants of *)
(* EventLimits.tla, evaluated on the state after every recorded call.          *)
EXTENDS EventLimits, TraceIO

VARIABLE l
tvars == <<vars, l>>

DummyCfg == [fq |-> 1, lq |-> 1, nq |-> 1, idmax |-> 0, feff |-> 1, leff |-> 1, neff |-> 1, ideff |-> 0]
NoUniv(c) == [F |-> {}, L |-> {}, N |-> {}, Q |-> {}, D |-> {}]

TraceInit ==
    /\ l = 1
    /\ InitWith(DummyCfg)
    /\ ocnt = <<0, 0, 1>>
    /\ TraceRegInit

CfgOf(e) == [fq |-> e.fq, lq |-> e.lq, nq |-> e.nq, idmax |-> e.idmax,
             feff |-> e.feff, leff |-> e.leff, neff |-> e.neff, ideff |-> e.ideff]
SetOf(s) == {s[i] : i \in DOMAIN s}

Op(e) ==
    CASE e.a = "open"  -> OpenNode(e.n, e.x, e.y, e.x3, e.x4, e.res)
      [] e.a = "close" -> CloseNode(e.n) /\ e.res = "ok"
      [] e.a = "cn"    -> CreateNotifier(e.o, e.n, e.x, e.res)
      [] e.a = "dn"    -> DropNotifier(e.o, e.res)
      [] e.a = "cl"    -> CreateListener(e.o, e.n, e.res)
      [] e.a = "dl"    -> DropListener(e.o, e.res)
      [] e.a = "nt"    -> Notify(e.o, e.x, e.y, e.res, e.cnt)
      [] e.a = "wt"    -> Wait(e.o, SetOf(e.ids), e.res)
      [] OTHER -> FALSE

Consume ==
    /\ l <= NRec
    /\ l' = l + 1
    /\ LET e == Rec[l] IN
       CASE e.k = "reset" -> /\ e.pat = "ev"
                             /\ e.cres = "ok"      \* creating the service within the supported range succeeds
                             /\ Reset(CfgOf(e))
                             /\ ocnt' = <<e.nf, e.nl, e.nn>>
         [] e.k = "op"    -> Op(e) /\ ocnt' = <<e.nf, e.nl, e.nn>>
         [] e.k = "end"   -> UNCHANGED vars
         [] OTHER -> FALSE

TraceNext == Consume
TraceSpec == TraceInit /\ [][TraceNext]_tvars

Progress == TraceProgress(l)
Accepted == TraceAccepted
=============================================================================
