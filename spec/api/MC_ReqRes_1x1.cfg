SPECIFICATION Spec
CONSTANTS
 NC = 1
 NS = 1
 MA = 1
 ML = 1
 RB = 1
 MB = 1
 MLR = 1
 OQ = FALSE
 OP = FALSE
 FF = FALSE
 MSV = 1
 MCL = 1
 NREQ = 3
 NRESP = 6
 MaxN = 2
 MaxJ = 2
 PoolFifo = FALSE
 MinChunk = TRUE
 AllowKnown = TRUE
 Filter = TRUE
 AvoidDeadReuse = FALSE
 TrackIds = FALSE
VIEW view
INVARIANTS TypeOK EachServerGetsRequestOnce RequestConservation Routing OrderAtMostOnce CloseObserved Limits RefExact LoanFromFree NoLeak SingleHolder ChunksSufficeReqModuloKnown ChunksSufficeRespModuloKnown
PROPERTY RoutingAction
CHECK_DEADLOCK FALSE
