---------------------------- MODULE MC_Blackboard ----------------------------
(* Model-checking instances of Blackboard.tla: limit values 0..2 for          *)
(* max_readers / max_nodes, 2 existing keys + 1 missing key, 2 writer ids,    *)
(* 3 reader ids, 3 nodes.  The MF_* configurations plant one defect each and  *)
(* MUST be refuted (vacuity guard of the invariants).                         *)
EXTENDS Blackboard

Cfg(nk, r, n) == [nkeys |-> nk, rreq |-> r, nreq |-> n, reff |-> Eff(r), neff |-> Eff(n)]
CfgQuick == {Cfg(2, r, n) : r \in 0..2, n \in 0..2}
CfgSmall == {Cfg(1, 1, 2), Cfg(2, 2, 1)}
CfgDeep == {Cfg(2, r, n) : r \in {0, 3, 4}, n \in {2, 4}}
=============================================================================
