---------------------------- MODULE MC_Blackboard ----------------------------
(* Model-checking instances of Blackboard.tla.  One TLC run explores several  *)
(* scenarios; a scenario is a service configuration together with the         *)
(* universe of program-level ids explored for it (MCUniv):                    *)
(*   readers : max_readers 0 / 2 (deep: 3, 4), one more reader id, one writer, *)
(*             one existing and one missing key                               *)
(*   nodes   : max_nodes 0 / 2 (3), 3 (4) nodes, opener requirements 0 / 2 / 3*)
(*   values  : one key, updates / loans / discards up to version 2, a reader   *)
(*   handles : two keys + a missing one, two writer ids, handle exclusivity    *)
(* MF_Blackboard_*.cfg plant one defect each and MUST be refuted (vacuity     *)
(* guard of the invariants).                                                  *)
EXTENDS Blackboard

Cfg(nk, r, n) == [nkeys |-> nk, rreq |-> r, nreq |-> n, reff |-> Eff(r), neff |-> Eff(n)]
U(W, R, N, K, Q, m) == [W |-> W, R |-> R, N |-> N, K |-> K, Q |-> Q, maxv |-> m]

CfgQuick == {Cfg(1, 0, 1), Cfg(1, 2, 1), Cfg(1, 1, 0), Cfg(1, 1, 2), Cfg(1, 1, 1), Cfg(2, 1, 1)}
CfgDeep == CfgQuick \cup {Cfg(1, 3, 1), Cfg(1, 4, 1), Cfg(1, 1, 3), Cfg(1, 1, 4), Cfg(1, 2, 2)}
CfgLimits == {Cfg(1, 0, 1), Cfg(1, 2, 1), Cfg(1, 1, 0), Cfg(1, 1, 2), Cfg(2, 1, 1)}     \* limit layer only (C08)
CfgFault == {Cfg(1, 1, 2)}

MCUniv(c) ==
    IF c = Cfg(1, 1, 1) THEN U({1}, {1}, {1}, {1}, {0}, 2)                            \* values
    ELSE IF c = Cfg(2, 1, 1) THEN U({1, 2}, {}, {1}, {1, 2, 3}, {0}, 0)               \* handles (key 3 is missing)
    ELSE IF c = Cfg(1, 2, 2) THEN U({}, {1, 2, 3}, {1, 2, 3}, {1}, {0}, 0)            \* readers x nodes (deep)
    ELSE IF c.nreq = 1 /\ c.rreq >= 3 THEN U({}, 1..(c.rreq + 1), {1}, {1}, {0}, 0)   \* readers (deep)
    ELSE IF c.nreq = 1 THEN U({1}, 1..(Eff(c.rreq) + 1), {1}, {1, 2}, {0}, 0)         \* readers (key 2 is missing)
    ELSE U({}, {1}, 1..(Eff(c.nreq) + 1), {1}, {0, Eff(c.nreq) + 1}, 0)               \* nodes
FaultUniv(c) == U({1, 2}, {1, 2}, {1, 2}, {1}, {0}, 2)
=============================================================================
