---- MODULE MC_DropOrder_event6 ----
EXTENDS DropOrderGen
====
