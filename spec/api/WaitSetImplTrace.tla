-------------------------- MODULE WaitSetImplTrace --------------------------
(* Conformance of the implementation-shaped layer: the same records as for    *)
(* WaitSetTrace, but every observed value (result, len(), map sizes, the      *)
(* guards a callback id resolves to, the run result) must be the one          *)
(* WaitSetImpl.tla COMPUTES.  A rejection here is DRIFT (the model no longer  *)
(* describes the code), never a violation.                                    *)
EXTENDS WaitSetImpl, TraceIO

VARIABLE l
tvars == <<pending, svc, att, cap, fill, proc, obs, rset, dq, nidx, a2d, d2a, cnt, gd, todo, rcap, l>>

ToSet(seq) == {seq[i] : i \in 1..Len(seq)}
SvcMap(sv) == [x \in L |-> IF x <= Len(sv) THEN sv[x] ELSE 0]

TraceInit ==
    /\ l = 1
    /\ IInit
    /\ TraceRegInit

ObsMatches(e) ==
    /\ obs'.got = e.r
    /\ obs'.len = e.len
    /\ e.m = -1 \/ obs'.m = e.m

Consume ==
    /\ l <= NRec
    /\ l' = l + 1
    /\ LET e == Rec[l] IN
       CASE e.k = "reset" -> /\ e.nl <= NL /\ e.ng <= NG
                             /\ IReset(e.cap, IF e.svc = "selfd" THEN e.cap ELSE 9999, SvcMap(e.sv), e.fill)
         [] e.k = "end"   -> /\ ~proc.on
                             /\ e.len = 0
                             /\ UNCHANGED <<pending, svc, att, cap, fill, proc, obs, rset, dq, nidx, a2d, d2a, cnt, gd, todo, rcap>>
         [] e.k = "op" /\ e.a = "attach" /\ e.ty = "n" -> IAttachN(e.g, e.l) /\ ObsMatches(e)
         [] e.k = "op" /\ e.a = "attach" /\ e.ty = "d" -> IAttachD(e.g, e.l, e.c) /\ ObsMatches(e)
         [] e.k = "op" /\ e.a = "attach" /\ e.ty = "i" -> IAttachI(e.g, e.c) /\ ObsMatches(e)
         [] e.k = "op" /\ e.a = "drop"     -> /\ IDrop(e.g)
                                              /\ obs'.len = e.len
                                              /\ e.m = -1 \/ obs'.m = e.m
         [] e.k = "op" /\ e.a = "notify"   -> IF e.in = 1 THEN INotifyIn(e.s) ELSE INotify(e.s)
         [] e.k = "op" /\ e.a = "drain"    -> Drain(e.l) /\ UNCHANGED ivars
         [] e.k = "op" /\ e.a = "recreate" -> IRecreate(e.l)
         [] e.k = "op" /\ e.a = "pbegin"   -> IPBegin
         [] e.k = "op" /\ e.a = "cb"       -> /\ e.filler = 0
                                              /\ \E id \in todo : /\ EvGuards(id) = ToSet(e.ev)
                                                                  /\ DlGuards(id) = ToSet(e.dl)
                                                                  /\ ICbId(id)
         [] e.k = "op" /\ e.a = "pend"     -> /\ IPEnd
                                              /\ obs'.r = e.r
                                              /\ (e.stop > 0) = (e.r = "StopRequest")
                                              /\ e.stop > 0 => proc.ncb = e.stop
         [] OTHER -> FALSE

TraceNext == Consume
TraceSpec == TraceInit /\ [][TraceNext]_tvars

Progress == TraceProgress(l)
Accepted == TraceAccepted
=============================================================================
