SPECIFICATION GSpec
CONSTANTS
 Patterns = {"pubsub6", "pubsub7", "pubsub8", "event6", "event8", "reqres8", "reqres8n", "bb6", "bb8"}
 Emit = FALSE
VIEW StateView
INVARIANTS TypeOK RcAgrees NoUseAfterFree BorrowsAlive ReleasedOnce NothingLeft Reusable UseDefined ListingConsistent NothingLeftObserved ReusableObserved NoCrash CanProgress
CHECK_DEADLOCK FALSE
