SPECIFICATION MCSpec
CONSTANTS
 PubIds = {1, 2}
 SubIds = {1}
 Q <- QV
 BufChoices = {1}
 ReqChoices = {1}
 NChunks = 4
 MaxIds = 3
 AllowKnown <- FalseValue
CHECK_DEADLOCK FALSE
VIEW NoOutView
INVARIANTS TypeOK Order LossOverflow LossNoOverflow Recipients FaultyPairQuiet RefExact FreeIffZero ChunkUnique NoLeak Conservation ChunksSuffice UsedBound CqFits LoanInside LimitsRespected
PROPERTIES HasSamplesIff BeyondUnchanged
