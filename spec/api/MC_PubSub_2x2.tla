---- MODULE MC_PubSub_2x2 ----
(* Thorough instance: 2 x 2 behind the VIEW that hides the ghost history (SysView).  NChunks = 9.  *)
EXTENDS PubSub
QV == [maxpubs |-> 2, maxsubs |-> 2, bufmax |-> 2, hist |-> 1, borrow |-> 1, loan |-> 1, overflow |-> TRUE, strategy |-> "discard", expbuf |-> 64]
====
