---------------------------- MODULE ReqResTrace ----------------------------
(***************************************************************************)
(* Trace specification: explains the events recorded by drv-reqres from    *)
(* the real Client / Server / PendingResponse / ActiveRequest / RequestMut *)
(* / ResponseMut objects by the property layer ReqRes.                     *)
(* One trace file holds runs of ONE configuration (the constants); every   *)
(* run starts with a `reset` record that repeats the configuration and the *)
(* chunk counts the running code published in the dynamic config.          *)
(* Internal steps of the code (implicit update_connections, skipping of    *)
(* closed requests, dropping of stale responses, loss of data of dead      *)
(* ports) are silent steps; they are only offered where the code can take  *)
(* them: inside the API call recorded next.                                *)
(***************************************************************************)
EXTENDS ReqRes, TraceIO

VARIABLE l
tvars == <<vars, l>>

Ev == Rec[l]

ResetAll ==
    /\ cst' = [c \in Clients |-> "none"]
    /\ sst' = [s \in Servers |-> "none"]
    /\ cview' = [c \in Clients |-> {}]
    /\ sview' = [s \in Servers |-> {}]
    /\ cexp' = [c \in Clients |-> {}]
    /\ pool' = [c \in Clients |-> <<>>]
    /\ nextn' = [c \in Clients |-> 0]
    /\ loans' = [c \in Clients |-> {}]
    /\ pend' = [c \in Clients |-> {}]
    /\ reqq' = [c \in Clients |-> [s \in Servers |-> <<>>]]
    /\ qref' = [c \in Clients |-> <<>>]
    /\ areq' = [s \in Servers |-> {}]
    /\ rst' = [s \in Servers |-> [c \in Clients |-> [ch \in Chans |-> Closed]]]
    /\ rq' = [s \in Servers |-> [c \in Clients |-> [ch \in Chans |-> <<>>]]]
    /\ held' = [c \in Clients |-> {}]
    /\ rloans' = [s \in Servers |-> {}]
    /\ closedA' = {}
    /\ delivered' = {}
    /\ gone' = {}
    /\ kd' = {}
    /\ out' = OutR("init")

ConfigMatches(e) ==
    /\ e.nc = NC /\ e.ns = NS /\ e.ma = MA /\ e.ml = ML /\ e.rb = RB /\ e.mb = MB /\ e.mlr = MLR
    /\ e.oq = OQ /\ e.op = OP /\ e.ff = FF /\ e.msv = MSV /\ e.mcl = MCL
    /\ e.nreq = NREQ /\ e.nresp = NRESP

R(e) == out'.r = e.r

Op(e) ==
    CASE e.a = "Skip" -> UNCHANGED vars
      [] e.a = "CreateClient" -> CreateClient(e.c) /\ R(e) /\ (e.r = "ok" => e.v = NREQ)
      [] e.a = "CreateServer" -> CreateServer(e.s) /\ R(e) /\ (e.r = "ok" => e.v = NRESP)
      [] e.a = "DropClient" -> DropClient(e.c) /\ R(e)
      [] e.a = "DropServer" -> DropServer(e.s) /\ R(e)
      [] e.a = "UpdateClient" -> UpdateClient(e.c) /\ R(e)
      [] e.a = "UpdateServer" -> UpdateServer(e.s) /\ R(e)
      [] e.a = "LoanRequest" ->
            LoanRequest(e.c) /\ R(e) /\ (e.r = "ok" => out'.n = e.n /\ out'.ch = e.ch /\ out'.x = e.x)
      [] e.a = "SendRequest" ->
            SendRequest(e.c, e.n) /\ R(e) /\ (e.r = "ok" => out'.ch = e.ch /\ out'.v = e.v /\ out'.x = e.x)
      [] e.a = "SendCopy" ->
            SendCopy(e.c) /\ R(e)
            /\ (e.r = "ok" => out'.n = e.n /\ out'.ch = e.ch /\ out'.x = e.x /\ out'.v = e.v)
      [] e.a = "DropRequest" -> DropRequest(e.c, e.n) /\ R(e)
      [] e.a = "DropPending" -> DropPending(e.c, e.n) /\ R(e)
      [] e.a = "ReceiveResponse" ->
            ReceiveResponse(e.c, e.n) /\ R(e)
            /\ (e.r = "some" => /\ e.ok = 1 /\ e.pc = e.c /\ e.pn = e.n
                                /\ out'.n = e.pn /\ out'.s = e.ps /\ out'.j = e.pj)
      [] e.a = "DropResponse" -> DropResponse(e.c, e.s, e.n, e.j) /\ R(e)
      [] e.a = "IsConnectedP" -> IsConnectedP(e.c, e.n) /\ R(e)
      [] e.a = "HasResponse" -> HasResponse(e.c, e.n) /\ R(e)
      [] e.a = "DisconnectHint" -> DisconnectHint(e.c, e.n) /\ R(e)
      [] e.a = "ProbeRequestLoans" -> ProbeRequestLoans(e.c) /\ R(e) /\ out'.v = e.v
      [] e.a = "ReceiveRequest" ->
            ReceiveRequest(e.s) /\ R(e)
            \* v: ActiveRequest::is_connected right after the receive (2: not observed - concurrent executions)
            /\ (e.r = "some" => /\ e.ok = 1 /\ out'.s = e.c /\ out'.n = e.n /\ out'.ch = e.ch
                                /\ (e.v = 2 \/ out'.v = e.v))
      [] e.a = "HasRequests" -> HasRequests(e.s) /\ R(e)
      [] e.a = "LoanResponse" ->
            LoanResponse(e.s, e.c, e.n) /\ R(e) /\ (e.r = "ok" => out'.j = e.j /\ out'.x = e.x)
      [] e.a = "SendResponse" -> SendResponse(e.s, e.c, e.n, e.j) /\ R(e)
      [] e.a = "SendCopyResponse" -> SendCopyResponse(e.s, e.c, e.n) /\ R(e) /\ (e.r = "ok" => out'.j = e.j)
      [] e.a = "DropResponseLoan" -> DropResponseLoan(e.s, e.c, e.n, e.j) /\ R(e)
      [] e.a = "DropActive" -> DropActive(e.s, e.c, e.n) /\ R(e)
      [] e.a = "IsConnectedA" -> IsConnectedA(e.s, e.c, e.n) /\ R(e)
      [] e.a = "HasDisconnectHint" -> HasDisconnectHint(e.s, e.c, e.n) /\ R(e)
      [] e.a = "ProbeResponseLoans" -> ProbeResponseLoans(e.s, e.c, e.n) /\ R(e) /\ out'.v = e.v
      [] OTHER -> FALSE

TraceInit == Init /\ l = 1 /\ TraceRegInit

Consume ==
    /\ l <= NRec
    /\ l' = l + 1
    /\ LET e == Ev IN
       CASE e.k = "reset" -> ConfigMatches(e) /\ ResetAll
         [] e.k = "op" -> e.bad = 0 /\ Op(e)
         [] e.k = "end" -> /\ e.teardown = "ok"
                           /\ \A t \in kd : PrintT(<<"KNOWN_DEFECT", e.run, t>>)
                           /\ UNCHANGED vars
         [] OTHER -> FALSE

\* API calls of a client / server that start with update_connections
ClientSyncs == {"SendRequest", "SendCopy", "ReceiveResponse", "UpdateClient"}
ServerSyncs == {"ReceiveRequest", "HasRequests", "SendResponse", "SendCopyResponse", "UpdateServer"}

\* internal steps the code can take inside the API call recorded as e
SilentFor(e) ==
    \/ /\ e.a \in ClientSyncs /\ cst[e.c] = "alive" /\ ~SyncedC(e.c) /\ UpdateClient(e.c)
    \/ /\ e.a \in ServerSyncs /\ sst[e.s] = "alive" /\ ~SyncedS(e.s) /\ UpdateServer(e.s)
    \/ /\ e.a = "ReceiveResponse"
       /\ \E p \in pend[e.c] : p.n = e.n /\ \E s \in Servers : DropStale(e.c, s, p.ch)
    \/ /\ e.a \in ClientSyncs /\ \E s \in Servers : ExpireGone(e.c, s)
    \/ /\ e.a = "ReceiveRequest" /\ \E c \in Clients : SkipClosed(e.s, c)
    \/ /\ e.a \in ServerSyncs /\ \E c \in Clients : LoseDead(e.s, c)

Silent ==
    /\ l <= NRec
    /\ Ev.k = "op"
    /\ SilentFor(Ev)
    /\ UNCHANGED l

\* overlapping calls of concurrent executions: alternatives, see TraceIO.tla
AltJump == IsAltRec(l) /\ l' \in AltTargets(l) /\ UNCHANGED vars

TraceNext == Consume \/ Silent \/ AltJump
TraceSpec == TraceInit /\ [][TraceNext]_tvars

Progress == TraceProgress(l)
Accepted == TraceAccepted
=============================================================================
