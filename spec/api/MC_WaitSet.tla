---- MODULE MC_WaitSet ----
(* Property layer closed with the ideal implementation (quick instance); the check generates the
   same instance (and larger ones) under work/ with bin/check C20. *)
EXTENDS WaitSetGen
====
