------------------------------- MODULE PubSub -------------------------------
(***************************************************************************)
(* Publish-subscribe of iceoryx2 at the level of its public API            *)
(* (properties C01 delivery, C02 sample lifetime, C08 limits).             *)
(*                                                                         *)
(* One action per public API call.  The bodies follow what the code does   *)
(* (publisher.rs send_sample / force_update_connections /                  *)
(* deliver_sample_history, sender.rs deliver_offset / allocate /           *)
(* retrieve_returned_chunks / remove_connection, receiver.rs receive /     *)
(* update_connection / prepare_connection_removal,                         *)
(* zero_copy_connection/common.rs try_send / blocking_send / receive /     *)
(* release / reclaim / acquire_used_offsets) wherever the property fixes   *)
(* the outcome, and are nondeterministic wherever it does not (which       *)
(* connection a receive serves, which free chunk a loan returns, which of  *)
(* several applicable creation errors is reported, which borrow-free       *)
(* expired connection is sacrificed when the expired-connection buffer     *)
(* overflows).                                                             *)
(*                                                                         *)
(* A call that runs user code in the middle (SampleMut::send invoking the  *)
(* unable-to-deliver / backpressure handler between the reclaim of the     *)
(* returned chunks and the push into a full buffer) exists twice: as ONE   *)
(* action (Send, handler without side effects) and SPLIT into one action   *)
(* per critical section (SendBegin, Deliver, BpCall, BpRet, SendEnd) so    *)
(* that calls made from inside the handler - or, in the model checking     *)
(* instances with ConcurrentSub, by a subscriber running concurrently -    *)
(* are explained between the sub-steps.                                    *)
(*                                                                         *)
(* Ports are INSTANCES: publisher p in PubIds and subscriber s in SubIds   *)
(* are created at most once ("new" -> "live" -> "dead"); a reconnect is a  *)
(* new instance.  A connection therefore belongs to exactly one pair and   *)
(* needs no incarnation counter.                                           *)
(*                                                                         *)
(* Connection record conn[<<p,s>>]:                                        *)
(*   pa   the publisher has its sender side attached (entry in             *)
(*        Sender::connections, created in update_connection)               *)
(*   sa   the subscriber has its receiver side attached (it ran            *)
(*        update_connections while p was registered)                       *)
(*   sq   submission queue (sample ids, oldest first)                      *)
(*   bor  ids received and not yet released (Sample objects alive)         *)
(*   cq   ids released by the subscriber, not yet reclaimed by p           *)
(* sq, bor, cq together are the connection's used-chunk list.              *)
(*                                                                         *)
(* Connection updates happen only when the peer registry changed since the *)
(* port's last update (pdirty / sdirty = the change counter comparison of  *)
(* Container::update_state).                                               *)
(*                                                                         *)
(* FAULTS (environment actions): BreakSeg(p) - the data segment of a live  *)
(* publisher disappears from the system (new receivers cannot map it);     *)
(* Occupy(p,s) - the sender side of the connection p->s is taken by a      *)
(* foreign sender before p attached.  Specified behaviour: the faulty pair *)
(* delivers nothing, EVERY OTHER PAIR BEHAVES AS WITHOUT THE FAULT, the    *)
(* call that ran the failing update returns ConnectionFailure iff the      *)
(* port's degradation handler answers DegradeAndFail (pdeg/sdeg = "fail"). *)
(*                                                                         *)
(* Chunk layer: ck[p] maps every sample id of p that still has a holder    *)
(* to [c |-> chunk index, rc |-> reference counter]; the counter is        *)
(* updated exactly where the code calls borrow_chunk / release_chunk.      *)
(* pn[p] is the number of chunks of p's data segment READ FROM THE RUNNING *)
(* CODE (dynamic config number_of_samples).                                *)
(***************************************************************************)
EXTENDS Naturals, Integers, Sequences, FiniteSets, TLC

CONSTANTS PubIds, SubIds,       \* instance numbers
          Q,                    \* model checking: the service's QoS record (see QosOK)
          BufChoices, ReqChoices, \* model checking: arguments tried by CreateSubscriber
          NChunks,              \* model checking: chunks per data segment, read from the code
          MaxIds                \* model checking: bound on the number of successful loans

VARIABLES cfg,      \* QoS of the service of the current run
          pst, pn,  \* publisher instance state ("new","live","dead"), number of chunks
          pdeg, pdirty, \* degradation mode ("warn","ignore","fail"), subscriber registry changed since last update
          segb,     \* fault: data segment of the publisher was removed from the system
          sst, sbuf, sreq, \* subscriber state ("new","live","abandoned","dead"), buffer, history request
          sdeg, sdirty,
          conn,
          occ,      \* fault: the sender side of the connection is occupied by a foreign sender
          hist, loans, ck, nextid,
          snd,      \* the send call in progress (split form), see NoSend
          out,      \* observable result of the last call
          slog, regAt, rcvd, evicted,  \* ghost history (property layer)
          xlost,    \* ghost: expired connections sacrificed because the expired-connection buffer was full
          kd        \* tags of KNOWN-DEFECT shapes an execution went through (see AllowKnown)

sysvars   == <<cfg, pst, pn, pdeg, pdirty, segb, sst, sbuf, sreq, sdeg, sdirty, conn, occ, hist, loans, ck, nextid, snd>>
ghostvars == <<slog, regAt, rcvd, evicted, xlost, kd>>
vars      == <<cfg, pst, pn, pdeg, pdirty, segb, sst, sbuf, sreq, sdeg, sdirty, conn, occ, hist, loans, ck, nextid, snd,
               out, slog, regAt, rcvd, evicted, xlost, kd>>

Pairs == PubIds \X SubIds

-----------------------------------------------------------------------------
\* helpers
Min2(a, b) == IF a < b THEN a ELSE b
Max2(a, b) == IF a < b THEN b ELSE a
Min3(a, b, c) == Min2(a, Min2(b, c))
Range(f) == {f[i] : i \in DOMAIN f}
LastN(q, n) == SubSeq(q, Len(q) - n + 1, Len(q))
B(b) == IF b THEN 1 ELSE 0
Card(S) == Cardinality(S)

RECURSIVE IsSubseq(_, _)
IsSubseq(a, b) ==
    IF a = <<>> THEN TRUE
    ELSE IF b = <<>> THEN FALSE
    ELSE IF Head(a) = Head(b) THEN IsSubseq(Tail(a), Tail(b))
    ELSE IsSubseq(a, Tail(b))
NoDup(q) == \A i, j \in DOMAIN q : i # j => q[i] # q[j]
IsSuffix(a, b) == Len(a) <= Len(b) /\ a = LastN(b, Len(a))

DegModes == {"warn", "ignore", "fail"}
QosOK(q) == /\ q.maxpubs \in Nat \ {0} /\ q.maxsubs \in Nat \ {0} /\ q.bufmax \in Nat \ {0}
            /\ q.hist \in Nat /\ q.borrow \in Nat \ {0} /\ q.loan \in Nat
            /\ q.overflow \in BOOLEAN
            /\ q.strategy \in {"discard", "retry_fail", "retry_discard"}
            /\ q.expbuf \in Nat

EmptyConn == [pa |-> FALSE, sa |-> FALSE, sq |-> <<>>, bor |-> {}, cq |-> {}]
C(p, s) == conn[<<p, s>>]
Registered(s) == sst[s] \in {"live", "abandoned"}
LiveP == {p \in PubIds : pst[p] = "live"}
RegS == {s \in SubIds : Registered(s)}
Used(c) == Range(c.sq) \cup c.bor \cup c.cq

\* chunk map: apply a delta (ids -> Int) to the reference counters; an id whose counter
\* reaches zero is deallocated (release_chunk: deallocate_bucket when the old value was 1)
Apply(m, d(_)) ==
    LET dom == {x \in DOMAIN m : m[x].rc + d(x) # 0}
    IN  TLCEval([x \in dom |-> [c |-> m[x].c, rc |-> m[x].rc + d(x)]])
ChunksInUse(p) == {ck[p][x].c : x \in DOMAIN ck[p]}
FreeChunks(p) == (0 .. pn[p] - 1) \ ChunksInUse(p)

\* The specification follows the DOCUMENTATION / the property statements.  In two places the code
\* deviates (both confirmed on the real code, listed in known_findings.json); an execution may go through
\* exactly these two shapes if AllowKnown holds, and is then TAGGED in `kd`:
\*  "sample-lost" (C01)  a publisher is dropped while a registered subscriber has not yet attached its
\*      receiver side to their connection (no receive / has_samples / update_connections since the
\*      publisher was created): the samples waiting for that subscriber are discarded with the connection,
\*      although send counted the subscriber as recipient.  Documented behaviour: they stay receivable.
\*  "borrow-per-connection" (C08)  a receive succeeds although the subscriber already holds
\*      subscriber_max_borrowed_samples samples, because the serving connection itself is below the limit
\*      (the limit is enforced per publisher connection).  Documented behaviour: ExceedsMaxBorrows.
\*  "expired-buffer-panic" (C08)  a consequence of the previous shape: the subscriber holds samples of more
\*      vanished publishers than its expired-connection buffer (>= subscriber_max_borrowed_samples) has
\*      entries; its next connection update aborts the process (fatal_panic "Expired connection buffer
\*      exceeded ... still borrowed").  Within the documented borrow limit this state is unreachable.
\* Nothing else is excused.  AllowKnown is TRUE for trace validation (the checks report every tag through
\* ctx.report with its narrow signature) and overridden with FALSE in every model-checking instance, which
\* therefore verifies the documented behaviour.
AllowKnown == TRUE
TrueValue == TRUE
FalseValue == FALSE
KD_SampleLost == "sample-lost"
KD_BorrowPerConn == "borrow-per-connection"
KD_ExpiredPanic == "expired-buffer-panic"

\* model checking switches (overridden per instance)
FaultsOn == FALSE           \* BreakSeg / Occupy are part of the next-state relation
SplitSendOn == FALSE        \* the split form of send is part of the next-state relation
ConcurrentSub == FALSE      \* subscriber calls may happen between ANY two sub-steps of a split send
DegChoices == {"warn"}      \* degradation modes tried by the create actions
CqExtra == 1                \* completion queue capacity minus (buffer + max borrow), READ FROM THE CODE

NoOut == [a |-> "none"]
EmptyMap == [x \in {} |-> 0]
NoSend == [on |-> FALSE, p |-> 0, id |-> 0, pend |-> {}, acc |-> {}, rej |-> {}, blk |-> {},
           fail |-> FALSE, err |-> FALSE, cur |-> 0, ph |-> "idle", k |-> 0]
Idle == ~snd.on
\* calls of a subscriber are possible outside of a send, from inside the unable-to-deliver handler, and
\* (model checking only) concurrently to a send
NestOK == ~snd.on \/ snd.ph = "call" \/ ConcurrentSub

-----------------------------------------------------------------------------
\* initial state / reset
InitWith(q) ==
    /\ cfg = q
    /\ pst = TLCEval([p \in PubIds |-> "new"])
    /\ pn = TLCEval([p \in PubIds |-> 0])
    /\ pdeg = TLCEval([p \in PubIds |-> "warn"])
    /\ pdirty = TLCEval([p \in PubIds |-> FALSE])
    /\ segb = TLCEval([p \in PubIds |-> FALSE])
    /\ sst = TLCEval([s \in SubIds |-> "new"])
    /\ sbuf = TLCEval([s \in SubIds |-> 0])
    /\ sreq = TLCEval([s \in SubIds |-> 0])
    /\ sdeg = TLCEval([s \in SubIds |-> "warn"])
    /\ sdirty = TLCEval([s \in SubIds |-> FALSE])
    /\ conn = TLCEval([x \in Pairs |-> EmptyConn])
    /\ occ = TLCEval([x \in Pairs |-> FALSE])
    /\ hist = TLCEval([p \in PubIds |-> <<>>])
    /\ loans = TLCEval([p \in PubIds |-> {}])
    /\ ck = TLCEval([p \in PubIds |-> EmptyMap])
    /\ nextid = 1
    /\ snd = NoSend
    /\ out = NoOut
    /\ slog = TLCEval([p \in PubIds |-> <<>>])
    /\ regAt = TLCEval([x \in Pairs |-> 0])
    /\ rcvd = TLCEval([x \in Pairs |-> <<>>])
    /\ evicted = TLCEval([x \in Pairs |-> {}])
    /\ xlost = {}
    /\ kd = {}

Reset(q) ==
    /\ cfg' = q
    /\ pst' = TLCEval([p \in PubIds |-> "new"])
    /\ pn' = TLCEval([p \in PubIds |-> 0])
    /\ pdeg' = TLCEval([p \in PubIds |-> "warn"])
    /\ pdirty' = TLCEval([p \in PubIds |-> FALSE])
    /\ segb' = TLCEval([p \in PubIds |-> FALSE])
    /\ sst' = TLCEval([s \in SubIds |-> "new"])
    /\ sbuf' = TLCEval([s \in SubIds |-> 0])
    /\ sreq' = TLCEval([s \in SubIds |-> 0])
    /\ sdeg' = TLCEval([s \in SubIds |-> "warn"])
    /\ sdirty' = TLCEval([s \in SubIds |-> FALSE])
    /\ conn' = TLCEval([x \in Pairs |-> EmptyConn])
    /\ occ' = TLCEval([x \in Pairs |-> FALSE])
    /\ hist' = TLCEval([p \in PubIds |-> <<>>])
    /\ loans' = TLCEval([p \in PubIds |-> {}])
    /\ ck' = TLCEval([p \in PubIds |-> EmptyMap])
    /\ nextid' = 1
    /\ snd' = NoSend
    /\ out' = NoOut
    /\ slog' = TLCEval([p \in PubIds |-> <<>>])
    /\ regAt' = TLCEval([x \in Pairs |-> 0])
    /\ rcvd' = TLCEval([x \in Pairs |-> <<>>])
    /\ evicted' = TLCEval([x \in Pairs |-> {}])
    /\ xlost' = {}
    /\ kd' = {}

\* every live port of the other kind notices a registry change at its next update
MarkSubs == TLCEval([s \in SubIds |-> IF sst[s] = "live" THEN TRUE ELSE sdirty[s]])
MarkPubs == TLCEval([p \in PubIds |-> IF pst[p] = "live" THEN TRUE ELSE pdirty[p]])

-----------------------------------------------------------------------------
\* publisher side connection update (update_connections -> force_update_connections, only when the
\* subscriber registry changed since the last update)
PaSubs(p) == {s \in SubIds : C(p, s).pa}
Stale(p)  == IF pdirty[p] THEN {s \in PaSubs(p) : ~Registered(s)} ELSE {}   \* receiver vanished: remove_connection
NewAll(p) == IF pdirty[p] THEN {s \in RegS : ~C(p, s).pa} ELSE {}           \* registered, not yet connected
\* fault: the connection cannot be established (sender side already occupied); it stays unconnected,
\* the degradation handler decides whether the update reports a failure; all other connections are
\* updated as usual
OccFaulty(p) == {s \in NewAll(p) : occ[<<p, s>>]}
NewS(p)   == NewAll(p) \ OccFaulty(p)
PubFails(p) == pdeg[p] = "fail" /\ OccFaulty(p) # {}
\* history replay: the newest min(history_request, buffer) samples, oldest first
HPart(p, s) == LastN(hist[p], Min3(sreq[s], sbuf[s], Len(hist[p])))
\* deliver_sample_history calls retrieve_returned_chunks before every history sample
ReclaimOnUpdate(p) == \E s \in NewS(p) : HPart(p, s) # <<>>

ConnAfterUpdate(p, s, reclaim) ==
    LET c == C(p, s) IN
    IF s \in Stale(p) THEN EmptyConn
    ELSE IF s \in NewS(p) THEN [c EXCEPT !.pa = TRUE, !.sq = HPart(p, s), !.bor = {}, !.cq = {}]
    ELSE IF c.pa /\ reclaim THEN [c EXCEPT !.cq = {}]
    ELSE c

DUpdate(p, reclaim, x) ==
    - (IF reclaim THEN Card({s \in PaSubs(p) \ Stale(p) : x \in C(p, s).cq}) ELSE 0)
    - Card({s \in Stale(p) : x \in Used(C(p, s))})
    + Card({s \in NewS(p) : x \in Range(HPart(p, s))})

\* subscriber side connection update (only when the publisher registry changed since the last update):
\* attaches the receiver side to every registered publisher whose data segment can be mapped, and moves
\* the connections of vanished publishers that still hold data or borrows into the expired-connection
\* buffer of max(subscriber_expired_connection_buffer, max_borrowed_samples) entries.  When that buffer
\* is full a connection WITHOUT BORROWS is sacrificed (documented loss: its undelivered samples); a
\* connection from which samples are still held is never dropped.
SegFaulty(s) == IF sdirty[s] THEN {p \in LiveP : segb[p] /\ ~C(p, s).sa} ELSE {}
SubFails(s) == sdeg[s] = "fail" /\ SegFaulty(s) # {}
ExpAll(s) == {p \in PubIds : pst[p] = "dead" /\ conn[<<p, s>>] # EmptyConn}
WithBorrows(s) == {p \in ExpAll(s) : C(p, s).bor # {}}
ExpCap == Max2(cfg.expbuf, cfg.borrow)
KeepChoices(s) ==
    IF ~sdirty[s] \/ Card(ExpAll(s)) <= ExpCap THEN {ExpAll(s)}
    ELSE {K \in SUBSET ExpAll(s) : Card(K) = ExpCap /\ WithBorrows(s) \subseteq K}
SubUpd(s, K) ==
    TLCEval([x \in Pairs |->
        IF x[2] # s \/ ~sdirty[s] THEN conn[x]
        ELSE IF pst[x[1]] = "live"
             THEN (IF segb[x[1]] /\ ~conn[x].sa THEN conn[x] ELSE [conn[x] EXCEPT !.sa = TRUE])
        ELSE IF x[1] \in ExpAll(s) \ K THEN EmptyConn
        ELSE conn[x]])
Sacrificed(s, K) == IF sdirty[s] THEN {<<p, s>> : p \in ExpAll(s) \ K} ELSE {}

-----------------------------------------------------------------------------
\* actions

CreatePublisher(p, n, d) ==
    /\ Idle
    /\ pst[p] = "new"
    /\ d \in DegModes
    /\ IF Card(LiveP) >= cfg.maxpubs
       THEN /\ out' = [a |-> "create_pub", p |-> p, deg |-> d, r |-> "ExceedsMaxSupportedPublishers"]
            /\ UNCHANGED <<sysvars, ghostvars>>
       ELSE /\ pst' = [pst EXCEPT ![p] = "live"]
            /\ pn' = [pn EXCEPT ![p] = n]
            /\ pdeg' = [pdeg EXCEPT ![p] = d]
            /\ pdirty' = [pdirty EXCEPT ![p] = FALSE]
            /\ sdirty' = MarkSubs
            \* force_update_connections of the new port: connects to every registered subscriber,
            \* the history is still empty
            /\ conn' = TLCEval([x \in Pairs |-> IF x[1] = p /\ Registered(x[2])
                                         THEN [conn[x] EXCEPT !.pa = TRUE] ELSE conn[x]])
            /\ out' = [a |-> "create_pub", p |-> p, deg |-> d, r |-> "ok"]
            /\ UNCHANGED <<cfg, segb, sst, sbuf, sreq, sdeg, occ, hist, loans, ck, nextid, snd, ghostvars>>

\* precondition: every loan was returned before (the driver drops them first)
\* The sender sides go away; a connection that still holds data or borrows survives on the subscriber side
\* (expired connection) and stays receivable.  Known-defect shape "sample-lost": the connections whose
\* receiver side is not attached yet are destroyed together with their samples.  A connection the
\* subscriber could never attach to because the data segment is gone (fault) delivers nothing.
MustLose(p) == {s \in SubIds : segb[p] /\ C(p, s).pa /\ ~C(p, s).sa}
Unattached(p) == {s \in SubIds \ MustLose(p) : C(p, s).pa /\ ~C(p, s).sa /\ sst[s] = "live" /\ C(p, s).sq # <<>>}
DropPublisher(p) ==
    /\ Idle
    /\ pst[p] = "live"
    /\ loans[p] = {}
    /\ pst' = [pst EXCEPT ![p] = "dead"]
    /\ sdirty' = MarkSubs
    /\ \E lose \in (IF AllowKnown /\ Unattached(p) # {} THEN {FALSE, TRUE} ELSE {FALSE}) :
        /\ conn' = TLCEval([x \in Pairs |->
                      IF x[1] # p THEN conn[x]
                      ELSE LET c == conn[x] IN
                           IF x[2] \in MustLose(p) \/ (lose /\ x[2] \in Unattached(p)) THEN EmptyConn
                           ELSE IF c.pa /\ sst[x[2]] = "live" /\ (c.sq # <<>> \/ c.bor # {})
                           THEN [c EXCEPT !.pa = FALSE, !.sa = TRUE, !.cq = {}]
                           ELSE IF c.pa /\ c.sa /\ sst[x[2]] = "abandoned"
                           THEN [c EXCEPT !.pa = FALSE, !.cq = {}]
                           ELSE EmptyConn])
        /\ kd' = IF lose THEN kd \cup {KD_SampleLost} ELSE kd
    /\ hist' = [hist EXCEPT ![p] = <<>>]
    /\ ck' = [ck EXCEPT ![p] = EmptyMap]
    /\ out' = [a |-> "drop_pub", p |-> p]
    /\ UNCHANGED <<cfg, pn, pdeg, pdirty, segb, sst, sbuf, sreq, sdeg, occ, loans, nextid, snd,
                   slog, regAt, rcvd, evicted, xlost>>

SubCreateErrors(b, r) ==
    (IF b > cfg.bufmax THEN {"BufferSizeExceedsMaxSupportedBufferSizeOfService"} ELSE {})
    \cup (IF r > cfg.hist THEN {"HistoryRequestExceedsHistorySizeOfService"} ELSE {})
    \cup (IF r > b THEN {"HistoryRequestExceedsBufferSizeOfSubscriber"} ELSE {})
    \cup (IF Card(RegS) >= cfg.maxsubs THEN {"ExceedsMaxSupportedSubscribers"} ELSE {})

\* the new port attaches to every registered publisher whose data segment can be mapped; a failure of
\* this first update is only logged, whatever the degradation handler says
CreateSubscriber(s, b, r, d) ==
    /\ Idle
    /\ sst[s] = "new"
    /\ b >= 1
    /\ d \in DegModes
    /\ IF SubCreateErrors(b, r) # {}
       THEN /\ \E e \in SubCreateErrors(b, r) : out' = [a |-> "create_sub", s |-> s, buf |-> b, req |-> r, deg |-> d, r |-> e]
            /\ UNCHANGED <<sysvars, ghostvars>>
       ELSE /\ sst' = [sst EXCEPT ![s] = "live"]
            /\ sbuf' = [sbuf EXCEPT ![s] = b]
            /\ sreq' = [sreq EXCEPT ![s] = r]
            /\ sdeg' = [sdeg EXCEPT ![s] = d]
            /\ sdirty' = [sdirty EXCEPT ![s] = FALSE]
            /\ pdirty' = MarkPubs
            /\ conn' = TLCEval([x \in Pairs |-> IF x[2] = s /\ pst[x[1]] = "live" /\ ~segb[x[1]]
                                         THEN [conn[x] EXCEPT !.sa = TRUE] ELSE conn[x]])
            /\ regAt' = TLCEval([x \in Pairs |-> IF x[2] = s THEN Len(slog[x[1]]) ELSE regAt[x]])
            /\ out' = [a |-> "create_sub", s |-> s, buf |-> b, req |-> r, deg |-> d, r |-> "ok"]
            /\ UNCHANGED <<cfg, pst, pn, pdeg, segb, occ, hist, loans, ck, nextid, snd, slog, rcvd, evicted, xlost, kd>>

\* Samples may still be alive (they keep the receiver alive); the publisher reclaims everything
\* the vanished subscriber owned at its next connection update.
DropSubscriber(s) ==
    /\ Idle
    /\ sst[s] = "live"
    /\ sst' = [sst EXCEPT ![s] = "dead"]
    /\ pdirty' = MarkPubs
    /\ conn' = TLCEval([x \in Pairs |->
                  IF x[2] # s THEN conn[x]
                  ELSE IF conn[x].pa THEN [conn[x] EXCEPT !.sa = FALSE] ELSE EmptyConn])
    /\ out' = [a |-> "drop_sub", s |-> s]
    /\ UNCHANGED <<cfg, pst, pn, pdeg, segb, sbuf, sreq, sdeg, sdirty, occ, hist, loans, ck, nextid, snd, ghostvars>>

\* the subscriber is leaked (Abandonable::abandon): it stays registered and attached for ever
AbandonSubscriber(s) ==
    /\ Idle
    /\ sst[s] = "live"
    /\ sst' = [sst EXCEPT ![s] = "abandoned"]
    /\ out' = [a |-> "abandon_sub", s |-> s]
    /\ UNCHANGED <<cfg, pst, pn, pdeg, pdirty, segb, sbuf, sreq, sdeg, sdirty, conn, occ, hist, loans, ck, nextid, snd,
                   ghostvars>>

\* ---- faults (environment) ----
BreakSeg(p) ==
    /\ Idle
    /\ pst[p] = "live"
    /\ ~segb[p]
    /\ segb' = [segb EXCEPT ![p] = TRUE]
    /\ out' = [a |-> "break_seg", p |-> p]
    /\ UNCHANGED <<cfg, pst, pn, pdeg, pdirty, sst, sbuf, sreq, sdeg, sdirty, conn, occ, hist, loans, ck, nextid, snd,
                   ghostvars>>

Occupy(p, s) ==
    /\ Idle
    /\ pst[p] = "live" /\ sst[s] = "live"
    /\ ~C(p, s).pa
    /\ ~occ[<<p, s>>]
    /\ occ' = [occ EXCEPT ![<<p, s>>] = TRUE]
    /\ out' = [a |-> "occupy", p |-> p, s |-> s]
    /\ UNCHANGED <<cfg, pst, pn, pdeg, pdirty, segb, sst, sbuf, sreq, sdeg, sdirty, conn, hist, loans, ck, nextid, snd,
                   ghostvars>>

\* retrieve_returned_chunks: reclaim the completion queue of every connection of p
Reclaimed(p) == TLCEval([x \in Pairs |-> IF x[1] = p /\ conn[x].pa THEN [conn[x] EXCEPT !.cq = {}] ELSE conn[x]])
DReclaim(p, x) == - Card({s \in PaSubs(p) : x \in C(p, s).cq})

\* Loan: `c` is the chunk the allocator hands out (any chunk without a holder)
Loan(p, c) ==
    /\ Idle
    /\ pst[p] = "live"
    /\ conn' = Reclaimed(p)
    /\ IF Card(loans[p]) >= cfg.loan
       THEN /\ out' = [a |-> "loan", p |-> p, r |-> "ExceedsMaxLoans", id |-> 0]
            /\ ck' = [ck EXCEPT ![p] = Apply(@, LAMBDA x : DReclaim(p, x))]
            /\ UNCHANGED <<loans, nextid>>
       ELSE LET m == Apply(ck[p], LAMBDA x : DReclaim(p, x)) IN
            /\ c \notin {m[x].c : x \in DOMAIN m}            \* LoanFromFree
            /\ ck' = [ck EXCEPT ![p] = TLCEval([x \in DOMAIN m \cup {nextid} |->
                                           IF x = nextid THEN [c |-> c, rc |-> 1] ELSE m[x]])]
            /\ loans' = [loans EXCEPT ![p] = @ \cup {nextid}]
            /\ nextid' = nextid + 1
            /\ out' = [a |-> "loan", p |-> p, r |-> "ok", id |-> nextid]
    /\ UNCHANGED <<cfg, pst, pn, pdeg, pdirty, segb, sst, sbuf, sreq, sdeg, sdirty, occ, hist, snd, ghostvars>>

DropLoan(p, id) ==
    /\ Idle
    /\ id \in loans[p]
    /\ loans' = [loans EXCEPT ![p] = @ \ {id}]
    /\ ck' = [ck EXCEPT ![p] = Apply(@, LAMBDA x : - B(x = id))]
    /\ out' = [a |-> "drop_loan", p |-> p, id |-> id]
    /\ UNCHANGED <<cfg, pst, pn, pdeg, pdirty, segb, sst, sbuf, sreq, sdeg, sdirty, conn, occ, hist, nextid, snd, ghostvars>>

\* loan until failure, then drop everything that was loaned by the probe
\* cs = chunk indices handed out to the probe loans
ProbeLoans(p, cs) ==
    /\ Idle
    /\ pst[p] = "live"
    /\ conn' = Reclaimed(p)
    /\ LET m == Apply(ck[p], LAMBDA x : DReclaim(p, x))
           k == IF cfg.loan > Card(loans[p]) THEN cfg.loan - Card(loans[p]) ELSE 0 IN
       /\ ck' = [ck EXCEPT ![p] = m]
       /\ Len(cs) = k
       /\ NoDup(cs)
       /\ Range(cs) \cap {m[x].c : x \in DOMAIN m} = {}
       /\ out' = [a |-> "probe", p |-> p, cnt |-> k, r |-> "ExceedsMaxLoans"]
    /\ UNCHANGED <<cfg, pst, pn, pdeg, pdirty, segb, sst, sbuf, sreq, sdeg, sdirty, occ, hist, loans, nextid, snd, ghostvars>>

\* explicit Publisher::update_connections
UpdatePub(p) ==
    /\ Idle
    /\ pst[p] = "live"
    /\ LET rec == ReclaimOnUpdate(p) IN
       /\ conn' = TLCEval([x \in Pairs |-> IF x[1] = p THEN ConnAfterUpdate(p, x[2], rec) ELSE conn[x]])
       /\ ck' = [ck EXCEPT ![p] = Apply(@, LAMBDA x : DUpdate(p, rec, x))]
    /\ pdirty' = [pdirty EXCEPT ![p] = FALSE]
    /\ out' = [a |-> "update_pub", p |-> p, r |-> IF PubFails(p) THEN "ConnectionFailure" ELSE "ok"]
    /\ UNCHANGED <<cfg, pst, pn, pdeg, segb, sst, sbuf, sreq, sdeg, sdirty, occ, hist, loans, nextid, snd, ghostvars>>

\* a send whose connection update fails (fault + DegradeAndFail): the healthy connections are updated,
\* nothing is delivered or added to the history, the sample is released
SendFailsUpdate(p, id, release) ==
    LET rec == ReclaimOnUpdate(p) IN
    /\ conn' = TLCEval([x \in Pairs |-> IF x[1] = p THEN ConnAfterUpdate(p, x[2], rec) ELSE conn[x]])
    /\ ck' = [ck EXCEPT ![p] = Apply(@, LAMBDA x : DUpdate(p, rec, x) - B(release /\ x = id))]
    /\ pdirty' = [pdirty EXCEPT ![p] = FALSE]

\* SampleMut::send as one action (the unable-to-deliver handler has no side effects: it answers Retry
\* once and then gives up)
Send(p, id) ==
    /\ Idle
    /\ pst[p] = "live"
    /\ id \in loans[p]
    /\ IF PubFails(p)
       THEN /\ SendFailsUpdate(p, id, TRUE)
            /\ loans' = [loans EXCEPT ![p] = @ \ {id}]
            /\ out' = [a |-> "send", p |-> p, id |-> id, r |-> "ConnectionFailure", n |-> 0, blk |-> 0]
            /\ UNCHANGED <<hist, slog, evicted>>
       ELSE
       LET row1(s) == ConnAfterUpdate(p, s, TRUE)
           T == {s \in SubIds : row1(s).pa}
           Full(s) == Len(row1(s).sq) >= sbuf[s]
           Accept(s) == ~Full(s) \/ cfg.overflow
           Ev(s) == IF Full(s) /\ cfg.overflow THEN Head(row1(s).sq) ELSE 0
           acc == {s \in T : Accept(s)}
           rej == T \ acc
           \* the unable-to-deliver handler runs only while a receiver is attached (is_connected)
           blk == IF cfg.strategy = "discard" THEN {} ELSE {s \in rej : row1(s).sa}
           hev == IF cfg.hist > 0 /\ Len(hist[p]) >= cfg.hist THEN Head(hist[p]) ELSE 0
           res == IF cfg.strategy = "retry_fail" /\ blk # {} THEN "UnableToDeliver" ELSE "ok"
           d(x) == DUpdate(p, TRUE, x)
                   + B(x = id /\ cfg.hist > 0) - B(hev # 0 /\ x = hev)
                   + (IF x = id THEN Card(acc) ELSE 0)
                   - Card({s \in T : Ev(s) # 0 /\ Ev(s) = x})
                   - B(x = id)
       IN
       /\ conn' = TLCEval([x \in Pairs |->
                     IF x[1] # p THEN conn[x]
                     ELSE LET s == x[2] IN
                          IF s \in acc
                          THEN [row1(s) EXCEPT !.sq = Append(IF Full(s) THEN Tail(@) ELSE @, id)]
                          ELSE row1(s)])
       /\ hist' = [hist EXCEPT ![p] = IF cfg.hist = 0 THEN <<>>
                                      ELSE Append(IF hev # 0 THEN Tail(@) ELSE @, id)]
       /\ ck' = [ck EXCEPT ![p] = Apply(@, d)]
       /\ pdirty' = [pdirty EXCEPT ![p] = FALSE]
       /\ loans' = [loans EXCEPT ![p] = @ \ {id}]
       /\ out' = [a |-> "send", p |-> p, id |-> id, r |-> res, n |-> IF res = "ok" THEN Card(acc) ELSE 0, blk |-> Card(blk)]
       /\ slog' = [slog EXCEPT ![p] = Append(@, [id |-> id, acc |-> acc, rej |-> rej,
                                                  n |-> IF res = "ok" THEN Card(acc) ELSE -1])]
       /\ evicted' = TLCEval([x \in Pairs |-> IF x[1] = p /\ x[2] \in T /\ Ev(x[2]) # 0
                                       THEN evicted[x] \cup {Ev(x[2])} ELSE evicted[x]])
    /\ UNCHANGED <<cfg, pst, pn, pdeg, segb, sst, sbuf, sreq, sdeg, sdirty, occ, nextid, snd, regAt, rcvd, xlost, kd>>

\* ---- SampleMut::send, split: one action per critical section ----
\* SendBegin  update_connections (+ history replay to new connections), add_sample_to_history,
\*            retrieve_returned_chunks
\* Deliver(s) deliver_offset_to_connection_impl for one connection whose delivery needs no handler call
\*            (silent: nothing is observable before the call returns)
\* BpCall     the unable-to-deliver handler is invoked for connection s (buffer full, no safe overflow,
\*            receiver attached); while it runs, calls of subscribers are explained by their own actions
\* BpRet(a)   the handler returns Retry / DiscardData / DiscardDataAndFail; after Retry the buffer is
\*            examined again, after DiscardData try_send is attempted once more (common.rs blocking_send)
\* SendEnd    the SampleMut is released, the call returns
SP == snd.p
SFull(s) == Len(C(SP, s).sq) >= sbuf[s]

SendBegin(p, id) ==
    /\ Idle
    /\ pst[p] = "live"
    /\ id \in loans[p]
    /\ IF PubFails(p)
       THEN /\ SendFailsUpdate(p, id, FALSE)
            /\ snd' = [NoSend EXCEPT !.on = TRUE, !.p = p, !.id = id, !.err = TRUE]
            /\ hist' = hist
       ELSE LET row1(s) == ConnAfterUpdate(p, s, TRUE)
                hev == IF cfg.hist > 0 /\ Len(hist[p]) >= cfg.hist THEN Head(hist[p]) ELSE 0
                d(x) == DUpdate(p, TRUE, x) + B(x = id /\ cfg.hist > 0) - B(hev # 0 /\ x = hev) IN
            /\ conn' = TLCEval([x \in Pairs |-> IF x[1] = p THEN row1(x[2]) ELSE conn[x]])
            /\ hist' = [hist EXCEPT ![p] = IF cfg.hist = 0 THEN <<>>
                                           ELSE Append(IF hev # 0 THEN Tail(@) ELSE @, id)]
            /\ ck' = [ck EXCEPT ![p] = Apply(@, d)]
            /\ pdirty' = [pdirty EXCEPT ![p] = FALSE]
            /\ snd' = [NoSend EXCEPT !.on = TRUE, !.p = p, !.id = id, !.pend = {s \in SubIds : row1(s).pa}]
    /\ out' = [a |-> "send_begin", p |-> p, id |-> id]
    /\ UNCHANGED <<cfg, pst, pn, pdeg, segb, sst, sbuf, sreq, sdeg, sdirty, occ, loans, nextid, ghostvars>>

\* the offset is pushed into the connection of s (try_send succeeded)
Push(s) ==
    LET c == C(SP, s)
        ev == IF SFull(s) THEN Head(c.sq) ELSE 0 IN
    /\ conn' = [conn EXCEPT ![<<SP, s>>] = [@ EXCEPT !.sq = Append(IF SFull(s) THEN Tail(@) ELSE @, snd.id)]]
    /\ ck' = [ck EXCEPT ![SP] = Apply(@, LAMBDA x : B(x = snd.id) - B(ev # 0 /\ x = ev))]
    /\ evicted' = IF ev # 0 THEN [evicted EXCEPT ![<<SP, s>>] = @ \cup {ev}] ELSE evicted
    /\ snd' = [snd EXCEPT !.acc = @ \cup {s}, !.pend = @ \ {s}, !.ph = "idle", !.cur = 0, !.k = 0]
Rej(s, fail) ==
    /\ snd' = [snd EXCEPT !.rej = @ \cup {s}, !.pend = @ \ {s}, !.ph = "idle", !.cur = 0, !.k = 0,
                          !.fail = @ \/ fail]
    /\ UNCHANGED <<conn, ck, evicted>>
NeedsHandler(s) == SFull(s) /\ ~cfg.overflow /\ cfg.strategy # "discard" /\ C(SP, s).sa

Deliver(s) ==
    /\ snd.on /\ ~snd.err
    /\ \/ snd.ph = "idle" /\ s \in snd.pend
       \/ snd.ph = "wait" /\ snd.cur = s
    /\ IF ~SFull(s) \/ cfg.overflow THEN Push(s)
       ELSE /\ ~NeedsHandler(s)
            /\ Rej(s, FALSE)
    /\ out' = [a |-> "deliver", s |-> s]
    /\ UNCHANGED <<cfg, pst, pn, pdeg, pdirty, segb, sst, sbuf, sreq, sdeg, sdirty, occ, hist, loans, nextid,
                   slog, regAt, rcvd, xlost, kd>>

BpCall(s) ==
    /\ snd.on /\ ~snd.err
    /\ \/ snd.ph = "idle" /\ s \in snd.pend
       \/ snd.ph = "wait" /\ snd.cur = s
    /\ NeedsHandler(s)
    /\ snd' = [snd EXCEPT !.ph = "call", !.cur = s, !.k = @ + 1, !.blk = @ \cup {s}]
    /\ out' = [a |-> "bp", s |-> s, ri |-> snd.k]
    /\ UNCHANGED <<cfg, pst, pn, pdeg, pdirty, segb, sst, sbuf, sreq, sdeg, sdirty, conn, occ, hist, loans, ck, nextid,
                   ghostvars>>

BpRet(act) ==
    /\ snd.on /\ snd.ph = "call"
    /\ LET s == snd.cur IN
       CASE act = "retry"   -> IF SFull(s) /\ C(SP, s).sa
                               THEN snd' = [snd EXCEPT !.ph = "wait"] /\ UNCHANGED <<conn, ck, evicted>>
                               ELSE Push(s)
         [] act = "discard" -> IF SFull(s) THEN Rej(s, FALSE) ELSE Push(s)
         [] act = "fail"    -> cfg.strategy = "retry_fail" /\ Rej(s, TRUE)
         [] OTHER -> FALSE
    /\ out' = [a |-> "bp_ret", act |-> act]
    /\ UNCHANGED <<cfg, pst, pn, pdeg, pdirty, segb, sst, sbuf, sreq, sdeg, sdirty, occ, hist, loans, nextid,
                   slog, regAt, rcvd, xlost, kd>>

SendEnd ==
    /\ snd.on /\ snd.pend = {} /\ snd.ph = "idle"
    /\ LET p == snd.p
           id == snd.id
           res == IF snd.err THEN "ConnectionFailure" ELSE IF snd.fail THEN "UnableToDeliver" ELSE "ok" IN
       /\ loans' = [loans EXCEPT ![p] = @ \ {id}]
       /\ ck' = [ck EXCEPT ![p] = Apply(@, LAMBDA x : - B(x = id))]
       /\ slog' = IF snd.err THEN slog
                  ELSE [slog EXCEPT ![p] = Append(@, [id |-> id, acc |-> snd.acc, rej |-> snd.rej,
                                                      n |-> IF res = "ok" THEN Card(snd.acc) ELSE -1])]
       /\ out' = [a |-> "send_end", p |-> p, id |-> id, r |-> res, n |-> IF res = "ok" THEN Card(snd.acc) ELSE 0,
                  blk |-> Card(snd.blk)]
    /\ snd' = NoSend
    /\ UNCHANGED <<cfg, pst, pn, pdeg, pdirty, segb, sst, sbuf, sreq, sdeg, sdirty, conn, occ, hist, nextid,
                   regAt, rcvd, evicted, xlost, kd>>

\* connections of s from which a receive is possible after its connection update (cn)
WithData(cn, s) == {p \in PubIds : cn[<<p, s>>].sa /\ cn[<<p, s>>].sq # <<>>}
BorrowedBy(s) == UNION {C(p, s).bor : p \in PubIds}
\* documented: a subscriber borrows at most cfg.borrow samples in parallel
Eligible(cn, s) == IF Card(BorrowedBy(s)) < cfg.borrow THEN WithData(cn, s) ELSE {}
\* known-defect shape "borrow-per-connection": the limit is only enforced per connection
EligibleKnown(cn, s) == IF AllowKnown /\ Eligible(cn, s) = {}
                        THEN {p \in WithData(cn, s) : Card(C(p, s).bor) < cfg.borrow} ELSE {}

\* Subscriber::receive; p = the connection that is served (unspecified which one)
Receive(s, p) ==
    /\ NestOK
    /\ sst[s] = "live"
    /\ \E K \in KeepChoices(s) :
       LET cn == SubUpd(s, K) IN
       /\ xlost' = xlost \cup Sacrificed(s, K)
       /\ IF SubFails(s)
          THEN /\ conn' = cn /\ rcvd' = rcvd /\ kd' = kd
               /\ out' = [a |-> "recv", s |-> s, r |-> "ConnectionFailure", p |-> 0, id |-> 0]
          ELSE IF Eligible(cn, s) \cup EligibleKnown(cn, s) # {}
          THEN /\ p \in Eligible(cn, s) \cup EligibleKnown(cn, s)
               /\ LET id == Head(cn[<<p, s>>].sq) IN
                  /\ conn' = [cn EXCEPT ![<<p, s>>] = [@ EXCEPT !.sq = Tail(@), !.bor = @ \cup {id}]]
                  /\ rcvd' = [rcvd EXCEPT ![<<p, s>>] = Append(@, id)]
                  /\ out' = [a |-> "recv", s |-> s, r |-> "some", p |-> p, id |-> id]
               /\ kd' = IF Eligible(cn, s) = {} THEN kd \cup {KD_BorrowPerConn} ELSE kd
          ELSE /\ conn' = cn
               /\ rcvd' = rcvd
               /\ kd' = kd
               /\ out' = [a |-> "recv", s |-> s, r |-> IF WithData(cn, s) # {} THEN "ExceedsMaxBorrows" ELSE "none",
                          p |-> 0, id |-> 0]
    /\ sdirty' = [sdirty EXCEPT ![s] = FALSE]
    /\ UNCHANGED <<cfg, pst, pn, pdeg, pdirty, segb, sst, sbuf, sreq, sdeg, occ, hist, loans, ck, nextid, snd,
                   slog, regAt, evicted>>

\* drop of a Sample; also legal after the subscriber was dropped (the Sample keeps the receiver
\* alive) - then it has an effect only while the publisher has not yet removed the connection
DropSample(s, id) ==
    /\ NestOK
    /\ sst[s] \in {"live", "dead"}
    /\ IF \E p \in PubIds : id \in C(p, s).bor
       THEN LET p == CHOOSE q \in PubIds : id \in C(q, s).bor
                c == C(p, s)
                c2 == [c EXCEPT !.bor = @ \ {id}, !.cq = IF c.pa THEN @ \cup {id} ELSE @] IN
            conn' = [conn EXCEPT ![<<p, s>>] =
                        IF ~c2.pa /\ c2.sq = <<>> /\ c2.bor = {} THEN EmptyConn ELSE c2]
       ELSE /\ sst[s] = "dead"
            /\ conn' = conn
    /\ out' = [a |-> "drop_sample", s |-> s, id |-> id]
    /\ UNCHANGED <<cfg, pst, pn, pdeg, pdirty, segb, sst, sbuf, sreq, sdeg, sdirty, occ, hist, loans, ck, nextid, snd,
                   ghostvars>>

UpdateSub(s) ==
    /\ NestOK
    /\ sst[s] = "live"
    /\ \E K \in KeepChoices(s) :
       /\ conn' = SubUpd(s, K)
       /\ xlost' = xlost \cup Sacrificed(s, K)
    /\ sdirty' = [sdirty EXCEPT ![s] = FALSE]
    /\ out' = [a |-> "update_sub", s |-> s, r |-> IF SubFails(s) THEN "ConnectionFailure" ELSE "ok"]
    /\ UNCHANGED <<cfg, pst, pn, pdeg, pdirty, segb, sst, sbuf, sreq, sdeg, occ, hist, loans, ck, nextid, snd,
                   slog, regAt, rcvd, evicted, kd>>

\* known-defect shape "expired-buffer-panic": the connection update of s aborts the process
PanicExpiredBorrows(s) ==
    /\ AllowKnown
    /\ sst[s] = "live" /\ sdirty[s]
    /\ Card(WithBorrows(s)) > ExpCap
    /\ kd' = kd \cup {KD_ExpiredPanic}
    /\ out' = [a |-> "panic", s |-> s]
    /\ UNCHANGED <<sysvars, slog, regAt, rcvd, evicted, xlost>>

HasSamples(s) ==
    /\ NestOK
    /\ sst[s] = "live"
    /\ \E K \in KeepChoices(s) :
       LET cn == SubUpd(s, K) IN
       /\ conn' = cn
       /\ xlost' = xlost \cup Sacrificed(s, K)
       /\ out' = IF SubFails(s) THEN [a |-> "has", s |-> s, r |-> "ConnectionFailure", v |-> 0]
                 ELSE [a |-> "has", s |-> s, r |-> "ok", v |-> B(WithData(cn, s) # {})]
    /\ sdirty' = [sdirty EXCEPT ![s] = FALSE]
    /\ UNCHANGED <<cfg, pst, pn, pdeg, pdirty, segb, sst, sbuf, sreq, sdeg, occ, hist, loans, ck, nextid, snd,
                   slog, regAt, rcvd, evicted, kd>>

-----------------------------------------------------------------------------
\* model checking: next-state relation over small instances
MinOf(S) == CHOOSE x \in S : \A y \in S : x <= y
NextNewP == {p \in PubIds : pst[p] = "new" /\ \A q \in PubIds : q < p => pst[q] # "new"}
NextNewS == {s \in SubIds : sst[s] = "new" /\ \A q \in SubIds : q < s => sst[q] # "new"}

MCLoan(p) ==
    /\ nextid <= MaxIds \/ Card(loans[p]) >= cfg.loan
    /\ LET m == Apply(ck[p], LAMBDA x : DReclaim(p, x))
           free == (0 .. pn[p] - 1) \ {m[x].c : x \in DOMAIN m} IN
       IF free # {} THEN Loan(p, MinOf(free)) ELSE Loan(p, pn[p])  \* pn[p]: out of memory (see LoanInside)

KSmallest(S, k) == {x \in S : Card({y \in S : y < x}) < k}
SortedSeq(S) == [i \in 1 .. Card(S) |-> CHOOSE x \in S : Card({y \in S : y < x}) = i - 1]
MCProbe(p) ==
    LET m == Apply(ck[p], LAMBDA x : DReclaim(p, x))
        free == (0 .. pn[p] - 1) \ {m[x].c : x \in DOMAIN m}
        k == IF cfg.loan > Card(loans[p]) THEN cfg.loan - Card(loans[p]) ELSE 0 IN
    /\ Card(free) >= k
    /\ ProbeLoans(p, SortedSeq(KSmallest(free, k)))

\* one named action per API call (TLC's coverage is reported per name)
ACreatePublisher == \E p \in NextNewP, d \in DegChoices : CreatePublisher(p, NChunks, d)
ADropPublisher == \E p \in PubIds : DropPublisher(p)
ACreateSubscriber == \E s \in NextNewS, b \in BufChoices, r \in ReqChoices, d \in DegChoices : CreateSubscriber(s, b, r, d)
ADropSubscriber == \E s \in SubIds : DropSubscriber(s)
ALoan == \E p \in PubIds : pst[p] = "live" /\ MCLoan(p)
ASend == \E p \in PubIds : \E id \in loans[p] : Send(p, id)
ADropLoan == \E p \in PubIds : \E id \in loans[p] : DropLoan(p, id)
AReceive == \E s \in SubIds, p \in PubIds : Receive(s, p)
ADropSample == \E s \in SubIds : \E p \in PubIds : \E id \in C(p, s).bor : DropSample(s, id)
AUpdatePub == \E p \in PubIds : UpdatePub(p)
AUpdateSub == \E s \in SubIds : UpdateSub(s)
AHasSamples == \E s \in SubIds : HasSamples(s)
AProbeLoans == \E p \in PubIds : pst[p] = "live" /\ MCProbe(p)
ABreakSeg == FaultsOn /\ \E p \in PubIds : BreakSeg(p)
AOccupy == FaultsOn /\ \E p \in PubIds, s \in SubIds : Occupy(p, s)
ASendBegin == SplitSendOn /\ cfg.strategy # "discard" /\ ~cfg.overflow /\ \E p \in PubIds : \E id \in loans[p] : SendBegin(p, id)
ADeliver == \E s \in SubIds : Deliver(s)
ABpCall == \E s \in SubIds : snd.k < 2 /\ BpCall(s)
ABpRet == \E act \in {"retry", "discard", "fail"} : (act = "retry" => snd.k < 2) /\ BpRet(act)
ASendEnd == SendEnd

MCNext ==
    \/ ACreatePublisher \/ ADropPublisher \/ ACreateSubscriber \/ ADropSubscriber
    \/ ALoan \/ ASend \/ ADropLoan \/ AReceive \/ ADropSample
    \/ AUpdatePub \/ AUpdateSub \/ AHasSamples \/ AProbeLoans
    \/ ABreakSeg \/ AOccupy
    \/ ASendBegin \/ ADeliver \/ ABpCall \/ ABpRet \/ ASendEnd

MCInit == InitWith(Q)
MCSpec == MCInit /\ [][MCNext]_vars

\* VIEWs: the last result `out` is never part of the fingerprint (it is a function of the transition,
\* the action properties over it are still evaluated on every transition); the deeper instances also
\* hide the ghost history
NoOutView == <<sysvars, ghostvars>>
SysView == sysvars

-----------------------------------------------------------------------------
\* invariants

\* pairs of instances that both exist(ed) - everything else is still in its initial state
ActivePairs == {x \in Pairs : pst[x[1]] # "new" /\ sst[x[2]] # "new"}

ConnOK(c) == /\ c.pa \in BOOLEAN /\ c.sa \in BOOLEAN
             /\ NoDup(c.sq)
             /\ Range(c.sq) \cap c.bor = {} /\ Range(c.sq) \cap c.cq = {} /\ c.bor \cap c.cq = {}
TypeOK ==
    /\ QosOK(cfg)
    /\ \A p \in PubIds : pst[p] \in {"new", "live", "dead"} /\ pdeg[p] \in DegModes /\ pdirty[p] \in BOOLEAN
                         /\ segb[p] \in BOOLEAN
    /\ \A s \in SubIds : sst[s] \in {"new", "live", "abandoned", "dead"} /\ sdeg[s] \in DegModes /\ sdirty[s] \in BOOLEAN
    /\ \A x \in Pairs : x \in ActivePairs \/ conn[x] = EmptyConn
    /\ \A x \in Pairs : occ[x] \in BOOLEAN
    /\ \A x \in ActivePairs : ConnOK(conn[x])
    /\ \A p \in PubIds : \A x \in DOMAIN ck[p] : ck[p][x].rc >= 1
    /\ \A p \in PubIds : pst[p] # "live" => loans[p] = {} /\ hist[p] = <<>> /\ DOMAIN ck[p] = {}
    /\ snd.on \in BOOLEAN /\ snd.ph \in {"idle", "call", "wait"}
    /\ snd.on => /\ pst[snd.p] = "live" /\ snd.id \in loans[snd.p]
                 /\ snd.acc \cap snd.rej = {} /\ snd.pend \cap (snd.acc \cup snd.rej) = {}
                 /\ (snd.ph # "idle" => snd.cur \in snd.pend)

\* ---- C01 ----
\* (stated at the boundaries of the outermost call: while a send is in progress its sample is in some
\* buffers and not yet in the log)
\* what subscriber s is entitled to see from publisher p: the requested part of the history as of
\* its registration, followed by everything sent afterwards
SentIds(p) == [i \in DOMAIN slog[p] |-> slog[p][i].id]
Expected(p, s) ==
    LET n == regAt[<<p, s>>]
        k == Min2(Min3(sreq[s], sbuf[s], cfg.hist), n) IN
    SubSeq(SentIds(p), n - k + 1, Len(slog[p]))
\* the pair has (had) a connection whose content is still observable by s
Observable(p, s) == sst[s] = "live" /\ (C(p, s).pa \/ (pst[p] = "dead" /\ C(p, s).sa))

Order ==
    Idle =>
    \A x \in ActivePairs : /\ NoDup(rcvd[x])
                     /\ IsSubseq(rcvd[x], Expected(x[1], x[2]))

LossOverflow ==
    Idle /\ cfg.overflow =>
    \A x \in ActivePairs : Observable(x[1], x[2]) =>
        LET E == Expected(x[1], x[2])
            q == conn[x].sq IN
        /\ IsSuffix(q, E)                                       \* nothing newer than the buffer is lost
        /\ \A y \in Range(E) \ Range(q) : y \in Range(rcvd[x]) \/ y \in evicted[x]
        /\ Range(rcvd[x]) \cap evicted[x] = {}
        /\ Len(q) + Len(rcvd[x]) >= Min2(sbuf[x[2]], Len(E))    \* evicted only when the buffer was full

LogEntry(p, y) == slog[p][CHOOSE i \in DOMAIN slog[p] : slog[p][i].id = y]
LossNoOverflow ==
    Idle /\ ~cfg.overflow =>
    \A x \in ActivePairs : Observable(x[1], x[2]) =>
        LET E == Expected(x[1], x[2])
            q == conn[x].sq IN
        /\ evicted[x] = {}
        /\ IsSubseq(rcvd[x] \o q, E)
        /\ \A y \in Range(E) \ (Range(q) \cup Range(rcvd[x])) :
              \* missing only if that send found the buffer full and did not count s as recipient
              /\ x[2] \in LogEntry(x[1], y).rej
              /\ x[2] \notin LogEntry(x[1], y).acc

Recipients ==
    \A p \in PubIds : \A i \in DOMAIN slog[p] :
        LET e == slog[p][i] IN
        /\ e.acc \cap e.rej = {}
        /\ e.n >= 0 => e.n = Card(e.acc)
        /\ e.n < 0 => cfg.strategy = "retry_fail" /\ e.rej # {} /\ ~cfg.overflow
        /\ cfg.overflow => e.rej = {}

\* has_samples <=> some attached connection (active or expired) holds data
HasSamplesIff ==
    [][out'.a = "has" /\ out'.r = "ok" =>
          ((out'.v = 1) <=> (\E p \in PubIds : conn'[<<p, out'.s>>].sa /\ conn'[<<p, out'.s>>].sq # <<>>))]_vars

\* a fault of one pair never removes a sample from, or adds one to, another pair: with faults the
\* delivery invariants above are stated over ALL pairs; the faulty pair itself only ever delivers nothing
FaultyPairQuiet ==
    \A x \in ActivePairs : (occ[x] /\ ~conn[x].pa) => conn[x].sq = <<>> /\ conn[x].bor = {} /\ rcvd[x] = <<>>

\* ---- C02 ----
Holders(p, x) ==
    B(x \in loans[p]) + B(x \in Range(hist[p])) + Card({s \in SubIds : C(p, s).pa /\ x \in Used(C(p, s))})
HeldIds(p) == loans[p] \cup Range(hist[p]) \cup UNION {Used(C(p, s)) : s \in PaSubs(p)}

RefExact == \A p \in LiveP : \A x \in DOMAIN ck[p] : ck[p][x].rc = Holders(p, x)
FreeIffZero == \A p \in LiveP : DOMAIN ck[p] = HeldIds(p)   \* allocated <=> at least one holder
ChunkUnique == \A p \in LiveP : \A x, y \in DOMAIN ck[p] : x # y => ck[p][x].c # ck[p][y].c
NoLeak == \A p \in LiveP : HeldIds(p) = {} => Card(FreeChunks(p)) = pn[p]
Conservation == \A p \in LiveP : Card(FreeChunks(p)) + Card(DOMAIN ck[p]) = pn[p]

\* ---- C08 ----
ChunksSuffice == \A p \in LiveP : Card(DOMAIN ck[p]) <= pn[p]
\* what a receiver can own at most: a full buffer, its borrows, and one more sample that was pushed after
\* it had returned all of these between the sender's reclaim and its push
UsedBound == \A p \in LiveP : \A s \in PaSubs(p) : Card(Used(C(p, s))) <= sbuf[s] + cfg.borrow + 1
\* a release never fails for lack of queue space: the completion queue (capacity buffer + max borrow +
\* CqExtra, CqExtra read from the running code) holds everything the receiver can return between two reclaims
CqFits == \A p \in LiveP : \A s \in PaSubs(p) : Card(C(p, s).cq) <= sbuf[s] + cfg.borrow + CqExtra
\* inside: a publisher below its loan limit can always loan up to the limit (never OutOfMemory); a loan
\* first reclaims what the receivers returned
IdsAfterReclaim(p) == {x \in DOMAIN ck[p] : ck[p][x].rc + DReclaim(p, x) # 0}
LoanInside == \A p \in LiveP : pn[p] - Card(IdsAfterReclaim(p)) >= cfg.loan - Card(loans[p])
LimitsRespected ==
    /\ Card(LiveP) <= cfg.maxpubs
    /\ Card(RegS) <= cfg.maxsubs
    /\ \A p \in PubIds : Card(loans[p]) <= cfg.loan /\ Len(hist[p]) <= cfg.hist
    /\ \A x \in ActivePairs : Card(conn[x].bor) <= cfg.borrow
    /\ KD_BorrowPerConn \notin kd => \A s \in SubIds : Card(BorrowedBy(s)) <= cfg.borrow
    /\ \A x \in ActivePairs : conn[x].pa \/ conn[x].sa => Len(conn[x].sq) <= sbuf[x[2]]
    /\ \A s \in SubIds : sst[s] = "live" /\ ~sdirty[s] => Card(ExpAll(s)) <= ExpCap
\* beyond: a rejected call has no side effect on anything observable
Errors == {"ExceedsMaxSupportedPublishers", "ExceedsMaxSupportedSubscribers", "ExceedsMaxLoans",
           "ExceedsMaxBorrows", "BufferSizeExceedsMaxSupportedBufferSizeOfService",
           "HistoryRequestExceedsHistorySizeOfService", "HistoryRequestExceedsBufferSizeOfSubscriber"}
\* (the connection update that precedes a rejected receive may sacrifice expired connections - masked)
ObsOf(ps, ss, sb, sr, hi, lo, ni, cn, mask) ==
    <<ps, ss, sb, sr, hi, lo, ni, [x \in Pairs |-> IF x \in mask THEN <<>> ELSE <<cn[x].sq, cn[x].bor>>]>>
BeyondUnchanged ==
    [][("r" \in DOMAIN out' /\ out'.r \in Errors /\ out'.a # "probe") =>
          ObsOf(pst', sst', sbuf', sreq', hist', loans', nextid', conn', xlost' \ xlost)
          = ObsOf(pst, sst, sbuf, sreq, hist, loans, nextid, conn, xlost' \ xlost)]_vars
\* beyond, then one unit freed: the same call succeeds (state predicates used by the trap/cover runs)
CanLoan(p) == pst[p] = "live" /\ Card(loans[p]) < cfg.loan
=============================================================================
