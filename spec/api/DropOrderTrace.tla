--------------------------- MODULE DropOrderTrace ---------------------------
(* Trace specification of C17: explains the records of drv-droporder (one run  *)
(* = one drop order executed in a child process) by DropOrder.tla.              *)
EXTENDS DropOrder, TraceIO

VARIABLE l
tvars == <<pat, live, rc, nrel, sent, phase, bad, l>>

ToSet(seq) == {seq[i] : i \in 1..Len(seq)}

TraceInit ==
    /\ l = 1
    /\ DInit("pubsub6")
    /\ TraceRegInit

Reset(p) ==
    /\ p \in AllPatterns
    /\ pat' = p
    /\ live' = Graphs[p].objs
    /\ rc' = [o \in Graphs[p].objs |-> 1 + Cardinality({q \in Graphs[p].par : q[2] = o})]
    /\ nrel' = [o \in Graphs[p].objs |-> 0] /\ sent' = {} /\ phase' = "run"
    /\ bad' = NoBad

Consume ==
    /\ l <= NRec
    /\ l' = l + 1
    /\ LET e == Rec[l] IN
       CASE e.k = "reset" -> Reset(e.pat)
         [] e.k = "op" /\ e.a = "setup" -> Setup(ToSet(e.vals))
         [] e.k = "op" /\ e.a = "drop"  -> e.o \in Obj /\ Drop(e.o, e.how, e.r, e.v)
         [] e.k = "op" /\ e.a = "obs"   -> Obs(e.nodes, e.svc)
         [] e.k = "op" /\ e.a = "use"   -> e.o \in Obj /\ Use(e.o, e.r, e.v, e.n)
         [] e.k = "op" /\ e.a = "final" -> Final(e.nodes, e.svc, e.left, e.recreate)
         [] e.k = "end" -> End(e.status)
         [] OTHER -> FALSE

TraceNext == Consume
TraceSpec == TraceInit /\ [][TraceNext]_tvars

Progress == TraceProgress(l)
Accepted == TraceAccepted
=============================================================================
