--------------------------- MODULE PubSubWitness ---------------------------
(* Target states for the generation direction (DESIGN.md 2.2): each target   *)
(* is stated negated as a "trap" invariant; TLC's counterexample is the      *)
(* shortest behaviour reaching it, printed through the ALIAS as the sequence *)
(* of `out` records = the program the driver replays on the real API.        *)
EXTENDS PubSub, Json

TraceAlias == [o |-> ToJson(out)]

\* overflow interleaved with partial reads: received, then one evicted, then a newer one received
T_OverflowPartial ==
    \E x \in Pairs : LET E == Expected(x[1], x[2]) IN
        \E i, j, k \in DOMAIN E : /\ i < j /\ j < k
                                  /\ E[i] \in Range(rcvd[x]) /\ E[j] \in evicted[x] /\ E[k] \in Range(rcvd[x])
\* without overflow: a sample skipped at a full buffer, a newer one received later
T_SkipThenReceive ==
    \E x \in Pairs : LET E == Expected(x[1], x[2]) IN
        \E j, k \in DOMAIN E : /\ j < k /\ E[k] \in Range(rcvd[x])
                               /\ E[j] \notin Range(rcvd[x]) /\ E[j] \notin Range(conn[x].sq)
\* late joiner: first the two newest history samples in send order, then a live one
T_LateJoiner ==
    \E x \in Pairs : /\ regAt[x] >= 2 /\ Len(rcvd[x]) >= 3
                     /\ rcvd[x][1] = SentIds(x[1])[regAt[x] - 1]
                     /\ rcvd[x][2] = SentIds(x[1])[regAt[x]]
\* publisher dropped with samples in flight: one received after its death, more waiting
T_PubDroppedInFlight ==
    /\ out.a = "recv" /\ out.r = "some" /\ pst[out.p] = "dead"
    /\ conn[<<out.p, out.s>>].sq # <<>>
T_ReconnectSub ==
    \E p \in PubIds : \E s1, s2 \in SubIds :
        /\ s1 # s2 /\ sst[s1] = "dead" /\ rcvd[<<p, s1>>] # <<>> /\ rcvd[<<p, s2>>] # <<>>
        /\ regAt[<<p, s2>>] >= 1
T_ReconnectPub ==
    \E s \in SubIds : \E p1, p2 \in PubIds :
        /\ p1 # p2 /\ pst[p1] = "dead" /\ rcvd[<<p1, s>>] # <<>> /\ rcvd[<<p2, s>>] # <<>>
T_TwoPubs ==
    \E s \in SubIds : \E p1, p2 \in LiveP :
        /\ p1 # p2 /\ rcvd[<<p1, s>>] # <<>> /\ rcvd[<<p2, s>>] # <<>>
        /\ conn[<<p1, s>>].sq # <<>> /\ conn[<<p2, s>>].sq # <<>>
\* every subscriber at full buffer and full borrow while the history is full and all loans are out
T_Saturated ==
    \E p \in LiveP :
        /\ Card(loans[p]) = cfg.loan /\ Len(hist[p]) = cfg.hist /\ Card(RegS) = cfg.maxsubs
        /\ \A s \in RegS : /\ C(p, s).pa /\ sbuf[s] = cfg.bufmax
                           /\ Len(C(p, s).sq) = sbuf[s] /\ Card(C(p, s).bor) = cfg.borrow
\* a vanished subscriber still owns borrowed samples and buffer entries on the publisher side
T_StaleOwner ==
    \E p \in LiveP : \E s \in SubIds :
        sst[s] = "dead" /\ C(p, s).pa /\ C(p, s).bor # {} /\ C(p, s).sq # <<>>
\* a sample evicted from the history while a late joiner still holds it
T_HistoryEvictHeld ==
    \E p \in LiveP : \E s \in SubIds : \E id \in C(p, s).bor :
        /\ id \notin Range(hist[p]) /\ regAt[<<p, s>>] >= 1
        /\ id = SentIds(p)[regAt[<<p, s>>]]

\* everything a receiver can return is on its way back: buffer + max borrow + 1 entries in the completion
\* queue (needs the split form of send: the receiver returned its full buffer and all borrows between the
\* sender's reclaim and its push, then received and returned the pushed sample as well)
T_CqFull ==
    \E x \in Pairs : conn[x].pa /\ Card(conn[x].cq) >= sbuf[x[2]] + cfg.borrow + 1
\* the exact worst case of the data segment: every chunk has a holder while all loans are out
T_ChunksExhausted ==
    \E p \in LiveP : Card(DOMAIN ck[p]) = pn[p] /\ Card(loans[p]) = cfg.loan /\ Card(RegS) = cfg.maxsubs
\* the expired-connection buffer overflowed: a connection with undelivered data was sacrificed while the
\* buffer is filled with connections from which samples are still held (and nothing else)
T_ExpiredDiscard ==
    \E s \in SubIds : /\ \E p \in PubIds : <<p, s>> \in xlost
                      /\ sst[s] = "live"
                      /\ Card({q \in PubIds : pst[q] = "dead" /\ C(q, s).bor # {} /\ C(q, s).sq = <<>>}) >= ExpCap

Trap_CqFull == ~T_CqFull
Trap_ChunksExhausted == ~T_ChunksExhausted
Trap_ExpiredDiscard == ~T_ExpiredDiscard
Trap_OverflowPartial == ~T_OverflowPartial
Trap_SkipThenReceive == ~T_SkipThenReceive
Trap_LateJoiner == ~T_LateJoiner
Trap_PubDroppedInFlight == ~T_PubDroppedInFlight
Trap_ReconnectSub == ~T_ReconnectSub
Trap_ReconnectPub == ~T_ReconnectPub
Trap_TwoPubs == ~T_TwoPubs
Trap_Saturated == ~T_Saturated
Trap_StaleOwner == ~T_StaleOwner
Trap_HistoryEvictHeld == ~T_HistoryEvictHeld
=============================================================================
