----------------------------- MODULE PubSubGen -----------------------------
(* Generation direction, random part: `tlc -simulate` over the model with a  *)
(* history variable; every behaviour of GenLen calls is printed as one JSON  *)
(* line (array of `out` records) and replayed by the driver on the real API. *)
EXTENDS PubSub, Json

CONSTANT GenLen
VARIABLE prog

GenInit == MCInit /\ prog = <<>>
GenNext == MCNext /\ prog' = Append(prog, out')
GenSpec == GenInit /\ [][GenNext]_<<vars, prog>>
Emit == Len(prog) = GenLen => PrintT(<<"BEHAVIOUR", ToJson(prog)>>)
=============================================================================
