SPECIFICATION MCSpec
CONSTANTS
 WIds = {1, 2}
 RIds = {1, 2, 3}
 NIds = {1, 2, 3}
 KeyIds = {1, 2, 3}
 CfgSet <- CfgQuick
 Univ <- MCUniv
 Faulty = "none"
CONSTRAINT Bounded
CHECK_DEADLOCK FALSE
VIEW MCView
INVARIANTS TypeOK OneWriter OneHandlePerKey InsideSucceeds BeyondRejected RefusalHasNoSideEffect CountsExact ReadersBounded NodesBounded LimitAdjusted ReadIsSomeWrite Monotone ReadSeesLatest FailureLeavesFirstUndisturbed
