---------------------------- MODULE DropOrderGen ----------------------------
(* DropOrder.tla closed with ideal observations: model checking of the        *)
(* reference-count clauses over ALL legal drop orders, and generation of the   *)
(* drop orders (all of them by breadth-first search with `hist` in the state,  *)
(* or a sample by -simulate) for the driver.                                   *)
EXTENDS DropOrder, TLC, Json

CONSTANTS Patterns,   \* the graphs explored by this instance
          Emit        \* TRUE: print every complete order

VARIABLE hist
gvars == <<pat, live, rc, nrel, sent, phase, bad, hist>>

GInit == (\E p \in Patterns : DInit(p)) /\ hist = <<>>

Sendable == {"LM", "LR"}

GDrop(o) ==
    /\ o \in Obj
    /\ \E how \in (IF o \in Sendable THEN {"drop", "send"} ELSE {"drop"}) :
          /\ Drop(o, how, "ok", 0)
          /\ hist' = Append(hist, [o |-> o, how |-> how])

GFinal ==
    /\ Final(0, 0, 0, "ok")
    /\ UNCHANGED hist

GEnd ==
    /\ phase = "final"
    /\ End("ok")
    /\ UNCHANGED hist

AllObjs == UNION {Graphs[p].objs : p \in DOMAIN Graphs}
GNext == (\E o \in AllObjs : GDrop(o)) \/ GFinal \/ GEnd
StateView == <<pat, live, rc, nrel, sent, phase, bad>>
GSpec == GInit /\ [][GNext]_gvars

\* every legal order can be completed: a state that is not finished has a successor
CanProgress == phase = "done" \/ ENABLED GNext

EmitOrder == (Emit /\ phase = "final") => PrintT("ORDER " \o ToJson([pat |-> pat, order |-> hist]))
=============================================================================
