SPECIFICATION ISpec
CONSTANTS
 NL = 2
 NS = 2
 NG = 3
 Cap = 9
 RCap = 9
 MaxIdx = 3
 InsertBeforeCheck = TRUE
 ReactorFullError = "AlreadyAttached"
 DropRemovesMaps = TRUE
CONSTRAINT IdxBound
INVARIANTS ImplTypeOK NeverDetached Exact NothingLost AttachRefusedCleanly
CHECK_DEADLOCK FALSE
