SPECIFICATION GSpec
CONSTANTS
 Pattern = "pubsub8"
 Emit = TRUE
INVARIANTS TypeOK RcAgrees NoUseAfterFree BorrowsAlive ReleasedOnce NothingLeft Reusable UseDefined ListingConsistent NothingLeftObserved ReusableObserved NoCrash CanProgress EmitOrder
CHECK_DEADLOCK FALSE
