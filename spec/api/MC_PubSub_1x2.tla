---- MODULE MC_PubSub_1x2 ----
(* Stand-alone instance for manual runs (tlc MC_PubSub_1x2).  The checks generate their instances  *)
(* under work/<ID>-<tier>/mc with NChunks READ FROM THE RUNNING CODE (lib/ps_common.py mc_phase);  *)
(* here NChunks is the value the pinned commit allocates: maxsubs*(bufmax+borrow)+hist+loan = 6.   *)
EXTENDS PubSub
QV == [maxpubs |-> 1, maxsubs |-> 2, bufmax |-> 1, hist |-> 1, borrow |-> 1, loan |-> 1, overflow |-> TRUE, strategy |-> "discard", expbuf |-> 64]
====
