SPECIFICATION TraceSpec
CONSTRAINT Progress
POSTCONDITION Accepted
CHECK_DEADLOCK FALSE
INVARIANTS UseDefined ListingConsistent NothingLeftObserved ReusableObserved NoCrash NoUseAfterFree ReleasedOnce NothingLeft
