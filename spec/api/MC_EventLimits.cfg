SPECIFICATION MCSpec
CONSTANTS
 FIds = {1, 2, 3}
 LIds = {1, 2, 3}
 NIds = {1, 2, 3}
 CfgSet <- CfgQuick
 Univ <- MCUniv
 Faulty = "none"
CHECK_DEADLOCK FALSE
VIEW MCView
INVARIANTS TypeOK NotifiersBounded ListenersBounded NodesBounded LimitAdjusted InsideSucceeds BeyondRejected RefusalHasNoSideEffect CountsExact NotifyReachesAll Delivered NoPhantomEvent
