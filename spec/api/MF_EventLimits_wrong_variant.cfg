SPECIFICATION MCSpec
CONSTANTS
 FIds = {1, 2, 3}
 LIds = {1, 2, 3}
 NIds = {1, 2, 3}
 CfgSet <- CfgFault
 Univ <- FaultUniv
 Faulty = "wrong_variant"
CHECK_DEADLOCK FALSE
INVARIANTS TypeOK NotifiersBounded ListenersBounded NodesBounded LimitAdjusted InsideSucceeds BeyondRejected RefusalHasNoSideEffect CountsExact NotifyReachesAll Delivered NoPhantomEvent
