SPECIFICATION GSpec
CONSTANTS
 Pattern = "event6"
 Emit = FALSE
INVARIANTS TypeOK RcAgrees NoUseAfterFree BorrowsAlive ReleasedOnce NothingLeft Reusable UseDefined ListingConsistent NothingLeftObserved ReusableObserved NoCrash CanProgress EmitOrder
CHECK_DEADLOCK FALSE
