---------------------------- MODULE MC_EventLimits ----------------------------
(* Model-checking instances of EventLimits.tla.  One TLC run explores several  *)
(* scenarios (configuration + universe of program-level ids, MCUniv):          *)
(*   notifiers : max_notifiers 0 / 2 (deep: 3, 4), one more notifier id        *)
(*   listeners : max_listeners 0 / 2 (3, 4), one more listener id, delivery    *)
(*   nodes     : max_nodes 0 / 2 (3, 4), one more node, opener requirements    *)
(*   ids       : event_id_max_value 0 / 2 (4), ids up to one above, default id *)
(* MF_EventLimits_*.cfg plant one defect each and MUST be refuted.             *)
EXTENDS EventLimits

Cfg(f, l, n, id) == [fq |-> f, lq |-> l, nq |-> n, idmax |-> id,
                     feff |-> Eff(f), leff |-> Eff(l), neff |-> Eff(n), ideff |-> id]
U(F, Ls, N, Q, D) == [F |-> F, L |-> Ls, N |-> N, Q |-> Q, D |-> D]
NoReq == {<<0, 0, 0, 0>>}

CfgQuick == {Cfg(0, 1, 1, 1), Cfg(2, 1, 1, 1), Cfg(1, 0, 1, 1), Cfg(1, 2, 1, 1),
             Cfg(1, 1, 0, 1), Cfg(1, 1, 2, 1), Cfg(1, 1, 1, 0), Cfg(1, 2, 1, 2)}
CfgDeep == CfgQuick \cup {Cfg(3, 1, 1, 1), Cfg(4, 1, 1, 1), Cfg(1, 3, 1, 1), Cfg(1, 4, 1, 0),
                          Cfg(1, 1, 3, 1), Cfg(1, 1, 4, 1), Cfg(1, 1, 1, 4), Cfg(2, 2, 2, 1)}
CfgFault == {Cfg(1, 1, 2, 1)}

MCUniv(c) ==
    IF c = Cfg(2, 2, 2, 1) THEN U(1..3, 1..3, 1..3, NoReq, {0, 2})                                   \* all together
    ELSE IF c.fq # 1 THEN U(1..(Eff(c.fq) + 1), {1}, {1}, NoReq, {1})                                \* notifiers
    ELSE IF c.nq # 1 THEN U({1}, {1}, 1..(Eff(c.nq) + 1),                                            \* nodes
                            {<<0, 0, 0, 0>>, <<2, 0, 0, 0>>, <<0, 2, 0, 0>>, <<0, 0, Eff(c.nq) + 1, 0>>,
                             <<0, 0, 0, 2>>, <<1, 1, Eff(c.nq), 1>>, <<2, 2, 0, 2>>}, {1})
    ELSE IF c.idmax # 1 THEN U({1}, 1..Eff(c.lq), {1}, NoReq, 0..(c.idmax + 1))                      \* ids
    ELSE U({1}, 1..(Eff(c.lq) + 1), {1}, NoReq, {0, 1})                                              \* listeners
FaultUniv(c) == U({1, 2}, {1, 2}, {1, 2}, NoReq, {0, 1, 2})
=============================================================================
