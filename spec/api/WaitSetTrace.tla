---------------------------- MODULE WaitSetTrace ----------------------------
(* Trace specification of C20: explains the records written by drv-waitset   *)
(* (attach results, the callbacks of every processing call, run results) by   *)
(* the property layer WaitSet.tla.  Every record maps to exactly one action;  *)
(* observed values are passed into the action and judged by the invariants    *)
(* NeverDetached / Exact / NothingLost / AttachRefusedCleanly (cfg).          *)
EXTENDS WaitSet, TraceIO

VARIABLE l
tvars == <<pending, svc, att, cap, fill, proc, obs, l>>

ToSet(seq) == {seq[i] : i \in 1..Len(seq)}

\* service map of a run, padded to NL listeners (unused listeners get service 0)
SvcMap(sv) == [x \in L |-> IF x <= Len(sv) THEN sv[x] ELSE 0]

Att(e) == CASE e.ty = "n" -> AttN(e.l)
            [] e.ty = "d" -> AttD(e.l, e.c)
            [] e.ty = "i" -> AttI(e.c)

TraceInit ==
    /\ l = 1
    /\ WSInit(0, [x \in L |-> 0], 0)
    /\ TraceRegInit

Consume ==
    /\ l <= NRec
    /\ l' = l + 1
    /\ LET e == Rec[l] IN
       CASE e.k = "reset" -> /\ e.nl <= NL /\ e.ng <= NG
                             /\ WSReset(e.cap, SvcMap(e.sv), e.fill)
         [] e.k = "end"   -> /\ ~proc.on
                             /\ e.len = 0
                             /\ e.m = -1 \/ e.m = 0
                             /\ UNCHANGED wsvars
         [] e.k = "op" /\ e.a = "attach"   -> e.ty \in {"n", "d", "i"} /\ Attach(e.g, Att(e), e.r, e.len, e.m)
         [] e.k = "op" /\ e.a = "drop"     -> DropGuard(e.g, e.len, e.m)
         [] e.k = "op" /\ e.a = "notify"   -> IF e.in = 1 THEN NotifyIn(e.s) ELSE Notify(e.s)
         [] e.k = "op" /\ e.a = "drain"    -> Drain(e.l)
         [] e.k = "op" /\ e.a = "recreate" -> Recreate(e.l)
         [] e.k = "op" /\ e.a = "sleep"    -> IF e.in = 1 THEN SleepIn ELSE Sleep
         [] e.k = "op" /\ e.a = "pbegin"   -> PBegin
         \* a callback that resolves to a filler (an attachment the model does not know) is foreign
         [] e.k = "op" /\ e.a = "cb"       -> IF e.filler = 1 THEN Cb({}, {})
                                              ELSE Cb(ToSet(e.ev), ToSet(e.dl))
         [] e.k = "op" /\ e.a = "pend"     -> PEnd(e.r, e.stop)
         [] OTHER -> FALSE

TraceNext == Consume
TraceSpec == TraceInit /\ [][TraceNext]_tvars

Progress == TraceProgress(l)
Accepted == TraceAccepted
=============================================================================
