---- MODULE MC_ReqRes ----
EXTENDS ReqRes
====
