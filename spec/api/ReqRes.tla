------------------------------- MODULE ReqRes -------------------------------
(***************************************************************************)
(* Request-response messaging pattern of iceoryx2 (C11; request-response   *)
(* parts of C08 and C02).                                                  *)
(*                                                                         *)
(* Port instances: client slots 1..NC, server slots 1..NS; a slot is used  *)
(* for ONE port instance (none -> alive -> dead).  A request is identified *)
(* by (c, n): n-th successful loan of client c; an active request by       *)
(* (s, c, n); a response by (s, c, n, j): j-th successful loan of that     *)
(* active request.                                                         *)
(*                                                                         *)
(* The module mirrors port/client.rs, port/server.rs, pending_response.rs, *)
(* active_request.rs, request_mut.rs, response_mut.rs and the channel      *)
(* state protocol of zero_copy_connection:                                 *)
(*   - per client a pool of response-channel ids (one per request chunk),  *)
(*   - LoanRequest pops a channel id and stamps (channel, request id),     *)
(*   - SendRequest: limit check, connection update, CAS CLOSED -> request  *)
(*     id on that channel of EVERY server connection, delivery on the      *)
(*     request connection (buffer MA, overflow OQ, otherwise discard),     *)
(*   - Server receive: skips requests whose channel no longer carries      *)
(*     their id unless fire-and-forget is enabled,                         *)
(*   - responses are pushed into (server, client, channel) WITHOUT looking *)
(*     at the channel state; the client filters by request id on receive,  *)
(*   - dropping a pending response: close channel (CAS id -> CLOSED), then *)
(*     return the channel id; dropping an active request: close from the   *)
(*     server side.                                                        *)
(* Where the property statement is silent the model is nondeterministic:   *)
(* which connection a receive serves first, fate of data of dead ports,    *)
(* has_response / has_requests in the presence of stale entries, the       *)
(* channel id / chunk chosen by a loan (PoolFifo / MinChunk select the     *)
(* code's deterministic choice for generation).                            *)
(*                                                                         *)
(* Results are left in `out` so that the trace specification can compare   *)
(* them with the recorded ones.  `kd` collects tags of KNOWN DEFECT shapes *)
(* that an execution went through (only possible if AllowKnown).           *)
(***************************************************************************)
EXTENDS Integers, Sequences, FiniteSets, TLC

CONSTANTS NC, NS,        \* client / server port instances
          MA,            \* max_active_requests_per_client
          ML,            \* max_loaned_requests
          RB,            \* max_response_buffer_size
          MB,            \* max_borrowed_responses_per_pending_response
          MLR,           \* server: max_loaned_responses_per_request
          OQ, OP,        \* safe overflow for requests / responses
          FF,            \* fire and forget requests
          MSV, MCL,      \* max_servers, max_clients
          NREQ, NRESP,   \* chunks of a client / server data segment (READ FROM THE RUNNING CODE)
          MaxN, MaxJ,    \* exploration bounds (requests per client, responses per active request)
          PoolFifo,      \* TRUE: channel ids are taken in the code's FIFO order; FALSE: any free id
          MinChunk,      \* TRUE: a loan takes the smallest free chunk id; FALSE: any free id
          AllowKnown,    \* TRUE: executions may go through the known-defect shapes (tagged in kd)
          Filter,        \* TRUE: receive filters by request id (FALSE only in must-fail instances)
          AvoidDeadReuse, \* TRUE: no client is created while an active request of a dead client exists
          TrackIds       \* TRUE: chunk identities are tracked; FALSE: chunks are only counted (id 0)

VARIABLES cst, sst,      \* port status: "none" | "alive" | "dead"
          cview, sview,  \* connections a port currently has (as of its last update_connections)
          cexp,          \* [c -> servers] expired response connections the client still holds
          pool,          \* [c -> Seq(channel id)]
          nextn,         \* [c -> number of requests created]
          loans,         \* [c -> set of unsent requests [n, ch, x]]
          pend,          \* [c -> set of pending responses [n, ch, x, last]]
          reqq,          \* [c -> [s -> Seq([n, ch, x])]]  request connection (submission queue)
          qref,          \* [c -> [n -> reference counter]] chunk reference counter of client c
          areq,          \* [s -> set of active requests [c, n, ch, x, conn, lc, nj]]
          rst,           \* [s -> [c -> [ch -> [n, hint]]]] channel state (n = 0: CLOSED)
          rq,            \* [s -> [c -> [ch -> Seq([n, j, x, q])]]] response connection (q: send order, ghost)
          held,          \* [c -> set of held responses [s, ch, n, j, x]]
          rloans,        \* [s -> set of unsent responses [c, n, j, x]]
          closedA,       \* ghost: active requests that were dropped  <<s, c, n>>
          delivered,     \* ghost: <<s, c, n>> request (c, n) entered the buffer of server s
          gone,          \* ghost: <<s, c, n>> left that buffer without being received (documented losses)
          kd,            \* tags of known-defect shapes passed
          out            \* result of the last action

vars == <<cst, sst, cview, sview, cexp, pool, nextn, loans, pend, reqq, qref, areq, rst, rq, held,
          rloans, closedA, delivered, gone, kd, out>>
\* everything except the ghosts / last result (VIEW of the MC instances)
view == <<cst, sst, cview, sview, cexp, pool, nextn, loans, pend, reqq, qref, areq, rst, rq, held,
          rloans>>

Clients == 1..NC
Servers == 1..NS
Chans == 0..(NREQ - 1)
Closed == [n |-> 0, hint |-> FALSE]

Out(r, n, ch, x, s, j, h, v) == [r |-> r, n |-> n, ch |-> ch, x |-> x, s |-> s, j |-> j, h |-> h, v |-> v]
OutR(r) == Out(r, 0, -1, 0, 0, 0, 0, 0)

AliveC == {c \in Clients : cst[c] = "alive"}
AliveS == {s \in Servers : sst[s] = "alive"}
SyncedC(c) == cview[c] = AliveS
SyncedS(s) == sview[s] = AliveC

Range(q) == {q[i] : i \in 1..Len(q)}
Count(q, P(_)) == Cardinality({i \in 1..Len(q) : P(q[i])})
Min(S) == CHOOSE m \in S : \A k \in S : m <= k
Get(f, m) == IF m \in DOMAIN f THEN f[m] ELSE 0
\* f + plus - minus on the candidate keys K, keys with count 0 removed
Adjust(f, K, plus(_), minus(_)) ==
    LET g == [m \in K |-> Get(f, m) + plus(m) - minus(m)]
    IN [m \in {k \in K : g[k] > 0} |-> g[m]]
B2N(b) == IF b THEN 1 ELSE 0

(* ---------------------------- derived holders ---------------------------- *)
\* request numbers of client c that anything still refers to
ReqServerHeld(c) == UNION {{e.n : e \in Range(reqq[c][s])} \cup {a.n : a \in {b \in areq[s] : b.c = c}}
                           : s \in Servers}
ReqHolders(c) == {l.n : l \in loans[c]} \cup {p.n : p \in pend[c]} \cup ReqServerHeld(c)
ReqInUse(c) == Cardinality(ReqHolders(c))
ReqChunkIds(c) == {l.x : l \in loans[c]} \cup {p.x : p \in pend[c]}
                  \cup UNION {{e.x : e \in Range(reqq[c][s])} \cup {a.x : a \in {b \in areq[s] : b.c = c}}
                              : s \in Servers}
RefDerived(c, n) ==
    B2N(\E l \in loans[c] : l.n = n) + B2N(\E p \in pend[c] : p.n = n)
    + Cardinality({s \in Servers : \E a \in areq[s] : a.c = c /\ a.n = n})
    + Cardinality({<<s, i>> \in Servers \X (1..MA) : i <= Len(reqq[c][s]) /\ reqq[c][s][i].n = n})

\* responses of server s that occupy a chunk of its data segment: <<c, n, j, x>>
RespQueued(s) == UNION {UNION {{<<c, e.n, e.j, e.x>> : e \in Range(rq[s][c][ch])} : ch \in Chans}
                        : c \in Clients}
RespHeld(s) == UNION {{<<c, r.n, r.j, r.x>> : r \in {t \in held[c] : t.s = s}} : c \in Clients}
RespLoaned(s) == {<<l.c, l.n, l.j, l.x>> : l \in rloans[s]}
RespHolders(s) == RespQueued(s) \cup RespHeld(s) \cup RespLoaned(s)
RespInUse(s) == Cardinality(RespHolders(s))
RespChunkIds(s) == {t[4] : t \in RespHolders(s)} \ {0}

PendOn(c, ch) == {p \in pend[c] : p.ch = ch}
\* entry e of rq[s][c][ch] answers a request whose pending response is gone (or another request)
IsStale(c, ch, e) == \A p \in PendOn(c, ch) : p.n # e.n
StaleExists(s) == \E c \in Clients, ch \in Chans : \E e \in Range(rq[s][c][ch]) : IsStale(c, ch, e)
HeldCount(c, s, ch) == Cardinality({r \in held[c] : r.s = s /\ r.ch = ch})
ArCount(s, c) == Cardinality({a \in areq[s] : a.c = c})
Storage(c) == cview[c] \cup cexp[c]        \* response connections in the client's storage

(* known-defect shapes (see checks/C11.py, reqres_parts.py) *)
\* a pending request whose chunk no server holds: not covered by the client chunk formula
ReqOomKnown(c) == \E p \in pend[c] : p.n \notin ReqServerHeld(c)
\* responses of closed streams are not reclaimed until the channel is reused
RespOomKnown(s) == StaleExists(s)

(* ------------------------------- initial state ---------------------------- *)
Init ==
    /\ cst = [c \in Clients |-> "none"]
    /\ sst = [s \in Servers |-> "none"]
    /\ cview = [c \in Clients |-> {}]
    /\ sview = [s \in Servers |-> {}]
    /\ cexp = [c \in Clients |-> {}]
    /\ pool = [c \in Clients |-> <<>>]
    /\ nextn = [c \in Clients |-> 0]
    /\ loans = [c \in Clients |-> {}]
    /\ pend = [c \in Clients |-> {}]
    /\ reqq = [c \in Clients |-> [s \in Servers |-> <<>>]]
    /\ qref = [c \in Clients |-> <<>>]
    /\ areq = [s \in Servers |-> {}]
    /\ rst = [s \in Servers |-> [c \in Clients |-> [ch \in Chans |-> Closed]]]
    /\ rq = [s \in Servers |-> [c \in Clients |-> [ch \in Chans |-> <<>>]]]
    /\ held = [c \in Clients |-> {}]
    /\ rloans = [s \in Servers |-> {}]
    /\ closedA = {}
    /\ delivered = {}
    /\ gone = {}
    /\ kd = {}
    /\ out = OutR("init")

(* ------------------------------- port lifecycle --------------------------- *)
DeadArExists == \E s \in Servers : \E a \in areq[s] : cst[a.c] = "dead"

CreateClient(c) ==
    /\ cst[c] = "none"
    /\ AvoidDeadReuse => ~DeadArExists
    /\ IF Cardinality(AliveC) >= MCL
       THEN /\ out' = OutR("ExceedsMaxSupportedClients")
            /\ UNCHANGED <<cst, sst, cview, sview, cexp, pool, nextn, loans, pend, reqq, qref, areq, rst,
                           rq, held, rloans, closedA, delivered, gone, kd>>
       ELSE /\ cst' = [cst EXCEPT ![c] = "alive"]
            /\ cview' = [cview EXCEPT ![c] = AliveS]
            /\ pool' = [pool EXCEPT ![c] = [i \in 1..NREQ |-> i - 1]]
            /\ out' = Out("ok", 0, -1, 0, 0, 0, 0, NREQ)
            /\ UNCHANGED <<sst, sview, cexp, nextn, loans, pend, reqq, qref, areq, rst, rq, held, rloans, closedA, delivered, gone, kd>>

CreateServer(s) ==
    /\ sst[s] = "none"
    /\ IF Cardinality(AliveS) >= MSV
       THEN /\ out' = OutR("ExceedsMaxSupportedServers")
            /\ UNCHANGED <<cst, sst, cview, sview, cexp, pool, nextn, loans, pend, reqq, qref, areq, rst,
                           rq, held, rloans, closedA, delivered, gone, kd>>
       ELSE /\ sst' = [sst EXCEPT ![s] = "alive"]
            /\ sview' = [sview EXCEPT ![s] = AliveC]
            /\ out' = Out("ok", 0, -1, 0, 0, 0, 0, NRESP)
            /\ UNCHANGED <<cst, cview, cexp, pool, nextn, loans, pend, reqq, qref, areq, rst, rq, held,
                           rloans, closedA, delivered, gone, kd>>

ClientIdle(c) == loans[c] = {} /\ pend[c] = {} /\ held[c] = {}
ServerIdle(s) == areq[s] = {} /\ rloans[s] = {}

\* the connection to a server that never attached is destroyed together with the client
DropClient(c) ==
    /\ cst[c] = "alive" /\ ClientIdle(c)
    /\ cst' = [cst EXCEPT ![c] = "dead"]
    /\ cview' = [cview EXCEPT ![c] = {}]
    /\ cexp' = [cexp EXCEPT ![c] = {}]
    /\ reqq' = [reqq EXCEPT ![c] = [s \in Servers |-> IF c \in sview[s] /\ sst[s] = "alive"
                                                       THEN reqq[c][s] ELSE <<>>]]
    /\ qref' = [qref EXCEPT ![c] = <<>>]
    /\ out' = OutR("ok")
    /\ UNCHANGED <<sst, sview, pool, nextn, loans, pend, areq, rst, rq, held, rloans, closedA, delivered, kd>>
    /\ gone' = gone \cup UNION {{<<s, c, e.n>> : e \in Range(reqq[c][s])} : s \in {t \in Servers : ~(c \in sview[t] /\ sst[t] = "alive")}}

DropServer(s) ==
    /\ sst[s] = "alive" /\ ServerIdle(s)
    /\ sst' = [sst EXCEPT ![s] = "dead"]
    /\ sview' = [sview EXCEPT ![s] = {}]
    \* responses to clients that never attached vanish with the connection
    /\ rq' = [rq EXCEPT ![s] = [c \in Clients |-> IF s \in cview[c] THEN rq[s][c]
                                                   ELSE [ch \in Chans |-> <<>>]]]
    /\ out' = OutR("ok")
    /\ UNCHANGED <<cst, cview, cexp, pool, nextn, loans, pend, reqq, qref, areq, rst, held, rloans, closedA, delivered, gone, kd>>

(* update_connections of a client: connect to new servers; for a vanished server reclaim every     *)
(* request chunk of that connection and keep the response connection as expired                  *)
DoUpdateClient(c) ==
    LET gone_ == cview[c] \ AliveS
        rel(m) == Cardinality({<<s, i>> \in gone_ \X (1..MA) : i <= Len(reqq[c][s]) /\ reqq[c][s][i].n = m})
    IN /\ cview' = [cview EXCEPT ![c] = AliveS]
       /\ cexp' = [cexp EXCEPT ![c] = cexp[c] \cup gone_]
       /\ reqq' = [reqq EXCEPT ![c] = [s \in Servers |-> IF s \in gone_ THEN <<>> ELSE reqq[c][s]]]
       /\ qref' = [qref EXCEPT ![c] = Adjust(qref[c], DOMAIN qref[c], LAMBDA m : 0, rel)]
       /\ gone' = gone \cup UNION {{<<s, c, e.n>> : e \in Range(reqq[c][s])} : s \in gone_}

UpdateClient(c) ==
    /\ cst[c] = "alive"
    /\ IF SyncedC(c) THEN UNCHANGED <<cview, cexp, reqq, qref, gone>> ELSE DoUpdateClient(c)
    /\ out' = OutR("ok")
    /\ UNCHANGED <<cst, sst, sview, pool, nextn, loans, pend, areq, rst, rq, held, rloans, closedA, delivered, kd>>

\* the client lets go of an expired connection (dead server) it holds nothing of
ExpireGone(c, s) ==
    /\ cst[c] = "alive" /\ s \in cexp[c]
    /\ \A r \in held[c] : r.s # s
    /\ cexp' = [cexp EXCEPT ![c] = cexp[c] \ {s}]
    /\ rq' = [rq EXCEPT ![s][c] = [ch \in Chans |-> <<>>]]
    /\ rst' = [rst EXCEPT ![s][c] = [ch \in Chans |-> Closed]]
    /\ UNCHANGED <<cst, sst, cview, sview, pool, nextn, loans, pend, reqq, qref, areq, held, rloans, closedA, delivered, gone, kd, out>>

(* update_connections of a server: a vanished client's response connection is removed (all its   *)
(* chunks are reclaimed)                                                                         *)
DoUpdateServer(s) ==
    LET gone_ == sview[s] \ AliveC
    IN /\ sview' = [sview EXCEPT ![s] = AliveC]
       /\ rq' = [rq EXCEPT ![s] = [c \in Clients |-> IF c \in gone_ THEN [ch \in Chans |-> <<>>] ELSE rq[s][c]]]
       /\ rst' = [rst EXCEPT ![s] = [c \in Clients |-> IF c \in gone_ THEN [ch \in Chans |-> Closed] ELSE rst[s][c]]]

UpdateServer(s) ==
    /\ sst[s] = "alive"
    /\ IF SyncedS(s) THEN UNCHANGED <<sview, rq, rst>> ELSE DoUpdateServer(s)
    /\ out' = OutR("ok")
    /\ UNCHANGED <<cst, sst, cview, cexp, pool, nextn, loans, pend, reqq, qref, areq, held, rloans, closedA, delivered, gone, kd>>

(* ------------------------------- client: requests ------------------------- *)
FreeReqIds(c) == (1..NREQ) \ ReqChunkIds(c)
PickCh(c) == IF PoolFifo THEN {Head(pool[c])} ELSE Range(pool[c])
PickReqX(c) == IF ~TrackIds THEN {0} ELSE IF MinChunk THEN {Min(FreeReqIds(c))} ELSE FreeReqIds(c)
Without(q, v) == SelectSeq(q, LAMBDA e : e # v)
SortedSeq(S) == [i \in 1..Cardinality(S) |-> CHOOSE v \in S : Cardinality({w \in S : w < v}) = i - 1]
\* returning a channel id: to the end of the FIFO (code), or into a canonical order when the order is irrelevant
PoolPut(q, ch) == IF PoolFifo THEN Append(q, ch) ELSE SortedSeq(Range(q) \cup {ch})

LoanRequest(c) ==
    /\ cst[c] = "alive"
    /\ nextn[c] < MaxN
    /\ IF Cardinality(loans[c]) >= ML
       THEN /\ out' = OutR("ExceedsMaxLoans")
            /\ UNCHANGED <<pool, nextn, loans, qref, kd>>
       ELSE IF ReqInUse(c) >= NREQ
       THEN \* inside the limits and nevertheless no memory: only as the known shape
            /\ AllowKnown /\ ReqOomKnown(c)
            /\ kd' = kd \cup {"req-oom-undelivered-pending"}
            /\ out' = OutR("OutOfMemory")
            /\ UNCHANGED <<pool, nextn, loans, qref>>
       ELSE \E ch \in PickCh(c), x \in PickReqX(c) :
            LET n == nextn[c] + 1 IN
            /\ loans' = [loans EXCEPT ![c] = @ \cup {[n |-> n, ch |-> ch, x |-> x]}]
            /\ pool' = [pool EXCEPT ![c] = Without(@, ch)]
            /\ nextn' = [nextn EXCEPT ![c] = n]
            /\ qref' = [qref EXCEPT ![c] = Adjust(@, DOMAIN @ \cup {n}, LAMBDA m : B2N(m = n), LAMBDA m : 0)]
            /\ out' = Out("ok", n, ch, x, 0, 0, 0, 0)
            /\ UNCHANGED kd
    /\ UNCHANGED <<cst, sst, cview, sview, cexp, pend, reqq, areq, rst, rq, held, rloans, closedA, delivered, gone>>

DropRequest(c, n) ==
    /\ cst[c] = "alive"
    /\ \E l \in loans[c] :
        /\ l.n = n
        /\ loans' = [loans EXCEPT ![c] = @ \ {l}]
        /\ pool' = [pool EXCEPT ![c] = PoolPut(@, l.ch)]
        /\ qref' = [qref EXCEPT ![c] = Adjust(@, DOMAIN @, LAMBDA m : 0, LAMBDA m : B2N(m = n))]
    /\ out' = OutR("ok")
    /\ UNCHANGED <<cst, sst, cview, sview, cexp, nextn, pend, reqq, areq, rst, rq, held, rloans,
                   closedA, delivered, gone, kd>>

\* one submission queue: [q, ev (evicted entries), ok]
Deliver(q, e, cap, ovf) ==
    IF Len(q) < cap THEN [q |-> Append(q, e), ev |-> <<>>, ok |-> TRUE]
    ELSE IF ovf /\ cap > 0 THEN [q |-> Append(Tail(q), e), ev |-> <<Head(q)>>, ok |-> TRUE]
    ELSE [q |-> q, ev |-> <<>>, ok |-> FALSE]

\* effect of sending the loaned request l of client c (shared by SendRequest and SendCopy)
SendEffect(c, l, fresh) ==
    LET e == [n |-> l.n, ch |-> l.ch, x |-> l.x]
        d == [s \in Servers |-> IF s \in cview[c] THEN Deliver(reqq[c][s], e, MA, OQ)
                                 ELSE [q |-> reqq[c][s], ev |-> <<>>, ok |-> FALSE]]
        plus(m) == IF m = l.n THEN Cardinality({s \in Servers : d[s].ok}) + B2N(fresh) ELSE 0
        minus(m) == Cardinality({s \in Servers : Len(d[s].ev) = 1 /\ d[s].ev[1].n = m})
    IN /\ reqq' = [reqq EXCEPT ![c] = [s \in Servers |-> d[s].q]]
       /\ qref' = [qref EXCEPT ![c] = Adjust(@, DOMAIN @ \cup {l.n}, plus, minus)]
       \* open the channel on every connection in the client's storage (CAS CLOSED -> request id)
       /\ rst' = [s \in Servers |-> [cc \in Clients |->
                    IF cc = c /\ s \in Storage(c) /\ rst[s][c][l.ch] = Closed
                    THEN [rst[s][c] EXCEPT ![l.ch] = [n |-> l.n, hint |-> FALSE]]
                    ELSE rst[s][cc]]]
       /\ pend' = [pend EXCEPT ![c] = @ \cup {[n |-> l.n, ch |-> l.ch, x |-> l.x,
                                               last |-> [s \in Servers |-> 0]]}]
       /\ out' = Out("ok", l.n, l.ch, l.x, 0, 0, 0, Cardinality({s \in Servers : d[s].ok}))
       /\ delivered' = delivered \cup {<<s, c, l.n>> : s \in {t \in Servers : d[t].ok}}
       /\ gone' = gone \cup {<<s, c, d[s].ev[1].n>> : s \in {t \in Servers : Len(d[t].ev) = 1}}

SendRequest(c, n) ==
    /\ cst[c] = "alive" /\ SyncedC(c)
    /\ \E l \in loans[c] :
        /\ l.n = n
        /\ loans' = [loans EXCEPT ![c] = @ \ {l}]
        /\ IF Cardinality(pend[c]) >= MA
           THEN \* the request is consumed: channel id and chunk go back
                /\ pool' = [pool EXCEPT ![c] = PoolPut(@, l.ch)]
                /\ qref' = [qref EXCEPT ![c] = Adjust(@, DOMAIN @, LAMBDA m : 0, LAMBDA m : B2N(m = n))]
                /\ out' = OutR("ExceedsMaxActiveRequests")
                /\ UNCHANGED <<reqq, rst, pend, delivered, gone>>
           ELSE /\ SendEffect(c, l, FALSE)
                /\ UNCHANGED pool
    /\ UNCHANGED <<cst, sst, cview, sview, cexp, nextn, areq, rq, held, rloans, closedA, kd>>

\* copy API = loan + send in one call
SendCopy(c) ==
    /\ cst[c] = "alive" /\ SyncedC(c)
    /\ nextn[c] < MaxN
    /\ IF Cardinality(loans[c]) >= ML
       THEN /\ out' = OutR("ExceedsMaxLoans")
            /\ UNCHANGED <<pool, nextn, loans, pend, reqq, qref, rst, kd, delivered, gone>>
       ELSE IF ReqInUse(c) >= NREQ
       THEN /\ AllowKnown /\ ReqOomKnown(c)
            /\ kd' = kd \cup {"req-oom-undelivered-pending"}
            /\ out' = OutR("OutOfMemory")
            /\ UNCHANGED <<pool, nextn, loans, pend, reqq, qref, rst, delivered, gone>>
       ELSE IF Cardinality(pend[c]) >= MA
       THEN \* loaned, then rejected by send: the channel id travels to the end of the pool
            /\ \E ch \in PickCh(c) : pool' = [pool EXCEPT ![c] = PoolPut(Without(@, ch), ch)]
            /\ out' = OutR("ExceedsMaxActiveRequests")
            /\ UNCHANGED <<nextn, loans, pend, reqq, qref, rst, kd, delivered, gone>>
       ELSE \E ch \in PickCh(c), x \in PickReqX(c) :
            LET l == [n |-> nextn[c] + 1, ch |-> ch, x |-> x] IN
            /\ pool' = [pool EXCEPT ![c] = Without(@, ch)]
            /\ nextn' = [nextn EXCEPT ![c] = l.n]
            /\ SendEffect(c, l, TRUE)
            /\ UNCHANGED <<loans, kd>>
    /\ UNCHANGED <<cst, sst, cview, sview, cexp, areq, rq, held, rloans, closedA>>

\* PendingResponse::drop: decrement, close the channel everywhere, THEN return the channel id
DropPending(c, n) ==
    /\ cst[c] = "alive"
    /\ \E p \in pend[c] :
        /\ p.n = n
        /\ pend' = [pend EXCEPT ![c] = @ \ {p}]
        /\ rst' = [s \in Servers |-> [cc \in Clients |->
                     IF cc = c /\ s \in Storage(c) /\ rst[s][c][p.ch].n = n
                     THEN [rst[s][c] EXCEPT ![p.ch] = Closed] ELSE rst[s][cc]]]
        /\ pool' = [pool EXCEPT ![c] = PoolPut(@, p.ch)]
        /\ qref' = [qref EXCEPT ![c] = Adjust(@, DOMAIN @, LAMBDA m : 0, LAMBDA m : B2N(m = n))]
    /\ out' = OutR("ok")
    /\ UNCHANGED <<cst, sst, cview, sview, cexp, nextn, loans, reqq, areq, rq, held, rloans,
                   closedA, delivered, gone, kd>>

DisconnectHint(c, n) ==
    /\ cst[c] = "alive"
    /\ \E p \in pend[c] :
        /\ p.n = n
        /\ rst' = [s \in Servers |-> [cc \in Clients |->
                     IF cc = c /\ s \in Storage(c) /\ rst[s][c][p.ch] = [n |-> n, hint |-> FALSE]
                     THEN [rst[s][c] EXCEPT ![p.ch] = [n |-> n, hint |-> TRUE]] ELSE rst[s][cc]]]
    /\ out' = OutR("ok")
    /\ UNCHANGED <<cst, sst, cview, sview, cexp, pool, nextn, loans, pend, reqq, qref, areq, rq, held,
                   rloans, closedA, delivered, gone, kd>>

IsConnectedP(c, n) ==
    /\ cst[c] = "alive"
    /\ \E p \in pend[c] :
        /\ p.n = n
        /\ out' = OutR(IF \E s \in Storage(c) : rst[s][c][p.ch].n = n THEN "true" ELSE "false")
    /\ UNCHANGED <<cst, sst, cview, sview, cexp, pool, nextn, loans, pend, reqq, qref, areq, rst, rq, held,
                   rloans, closedA, delivered, gone, kd>>

\* has_response looks at the raw channel: with stale entries only, the property leaves the answer open
HasResponse(c, n) ==
    /\ cst[c] = "alive"
    /\ \E p \in pend[c] :
        /\ p.n = n
        /\ LET own == \E s \in Storage(c) : \E e \in Range(rq[s][c][p.ch]) : e.n = n
               any == \E s \in Storage(c) : rq[s][c][p.ch] # <<>>
           IN \E b \in {"true", "false"} :
                /\ own => b = "true"
                /\ ~any => b = "false"
                /\ out' = OutR(b)
    /\ UNCHANGED <<cst, sst, cview, sview, cexp, pool, nextn, loans, pend, reqq, qref, areq, rst, rq, held,
                   rloans, closedA, delivered, gone, kd>>

(* the receive loop of a pending response on channel ch drops entries of other requests       *)
DropStale(c, s, ch) ==
    /\ Filter
    /\ cst[c] = "alive" /\ s \in Storage(c)
    /\ PendOn(c, ch) # {}
    /\ rq[s][c][ch] # <<>>
    /\ IsStale(c, ch, Head(rq[s][c][ch]))
    /\ HeldCount(c, s, ch) < MB
    /\ rq' = [rq EXCEPT ![s][c][ch] = Tail(@)]
    /\ UNCHANGED <<cst, sst, cview, sview, cexp, pool, nextn, loans, pend, reqq, qref, areq, rst, held,
                   rloans, closedA, delivered, gone, kd, out>>

ReceiveResponse(c, n) ==
    /\ cst[c] = "alive" /\ SyncedC(c)
    /\ \E p \in pend[c] :
        /\ p.n = n
        /\ LET ch == p.ch
               withData == {s \in Storage(c) : rq[s][c][ch] # <<>>}
               eligible == {s \in withData : HeldCount(c, s, ch) < MB}
           IN \/ \E s \in eligible :
                   LET e == Head(rq[s][c][ch]) IN
                   /\ Filter => e.n = n
                   /\ rq' = [rq EXCEPT ![s][c][ch] = Tail(@)]
                   /\ held' = [held EXCEPT ![c] = @ \cup {[s |-> s, ch |-> ch, n |-> e.n,
                                                            j |-> e.j, x |-> e.x]}]
                   /\ pend' = [pend EXCEPT ![c] = (@ \ {p}) \cup {[p EXCEPT !.last[s] = e.q]}]
                   /\ out' = Out("some", e.n, ch, e.x, s, e.j, 0, 0)
              \/ /\ eligible = {}
                 /\ \E r \in {"none", "ExceedsMaxBorrows"} :
                      /\ r = "ExceedsMaxBorrows" => withData # {}
                      /\ (r = "none" /\ withData # {}) => \E s \in withData : s \in cexp[c]
                      /\ out' = OutR(r)
                 /\ UNCHANGED <<rq, held, pend>>
    /\ UNCHANGED <<cst, sst, cview, sview, cexp, pool, nextn, loans, reqq, qref, areq, rst, rloans,
                   closedA, delivered, gone, kd>>

DropResponse(c, s, n, j) ==
    /\ cst[c] = "alive"
    /\ \E r \in held[c] :
        /\ r.s = s /\ r.n = n /\ r.j = j
        /\ held' = [held EXCEPT ![c] = @ \ {r}]
    /\ out' = OutR("ok")
    /\ UNCHANGED <<cst, sst, cview, sview, cexp, pool, nextn, loans, pend, reqq, qref, areq, rst, rq,
                   rloans, closedA, delivered, gone, kd>>

(* ------------------------------- server ----------------------------------- *)
\* the request at the head of reqq[c][s] can no longer be answered
HeadClosed(s, c) ==
    LET e == Head(reqq[c][s]) IN c \notin sview[s] \/ rst[s][c][e.ch].n # e.n

\* Server::receive skips such requests unless fire-and-forget is enabled
SkipClosed(s, c) ==
    /\ ~FF
    /\ sst[s] = "alive" /\ SyncedS(s)
    /\ reqq[c][s] # <<>> /\ HeadClosed(s, c)
    /\ ArCount(s, c) < MA
    /\ reqq' = [reqq EXCEPT ![c][s] = Tail(@)]
    /\ qref' = IF cst[c] = "alive"
               THEN [qref EXCEPT ![c] = Adjust(@, DOMAIN @, LAMBDA m : 0,
                                               LAMBDA m : B2N(m = Head(reqq[c][s]).n))]
               ELSE qref
    /\ UNCHANGED <<cst, sst, cview, sview, cexp, pool, nextn, loans, pend, areq, rst, rq, held, rloans, closedA, delivered, kd, out>>
    /\ gone' = gone \cup {<<s, c, Head(reqq[c][s]).n>>}

\* requests of a dead client may be lost at any time (expired connection handling)
LoseDead(s, c) ==
    /\ cst[c] = "dead" /\ reqq[c][s] # <<>>
    /\ reqq' = [reqq EXCEPT ![c][s] = Tail(@)]
    /\ UNCHANGED <<cst, sst, cview, sview, cexp, pool, nextn, loans, pend, qref, areq, rst, rq, held,
                   rloans, closedA, delivered, kd, out>>
    /\ gone' = gone \cup {<<s, c, Head(reqq[c][s]).n>>}

ReceiveRequest(s) ==
    /\ sst[s] = "alive" /\ SyncedS(s)
    /\ LET withData == {c \in Clients : reqq[c][s] # <<>>}
           eligible == {c \in withData : ArCount(s, c) < MA}
       IN \/ \E c \in eligible :
               LET e == Head(reqq[c][s]) IN
               /\ FF \/ ~HeadClosed(s, c)
               /\ \A a \in areq[s] : ~(a.c = c /\ a.n = e.n)
               /\ reqq' = [reqq EXCEPT ![c][s] = Tail(@)]
               /\ areq' = [areq EXCEPT ![s] = @ \cup {[c |-> c, n |-> e.n, ch |-> e.ch, x |-> e.x,
                                                        conn |-> c \in sview[s], lc |-> 0, nj |-> 0, sq |-> 0, lk |-> 0]}]
               /\ out' = Out("some", e.n, e.ch, e.x, c, 0, 0, B2N(~HeadClosed(s, c)))
          \/ /\ eligible = {}
             /\ \E r \in {"none", "ExceedsMaxBorrows"} :
                  /\ r = "ExceedsMaxBorrows" => withData # {}
                  /\ (r = "none" /\ withData # {}) => \E c \in withData : cst[c] = "dead"
                  /\ out' = OutR(r)
             /\ UNCHANGED <<reqq, areq>>
    /\ UNCHANGED <<cst, sst, cview, sview, cexp, pool, nextn, loans, pend, qref, rst, rq, held, rloans, closedA, delivered, gone, kd>>

HasRequests(s) ==
    /\ sst[s] = "alive" /\ SyncedS(s)
    /\ LET open == \E c \in sview[s] : \E i \in 1..Len(reqq[c][s]) :
                       rst[s][c][reqq[c][s][i].ch].n = reqq[c][s][i].n
           any == \E c \in Clients : reqq[c][s] # <<>>
       IN \E b \in {"true", "false"} :
            /\ (open \/ (FF /\ \E c \in sview[s] : reqq[c][s] # <<>>)) => b = "true"
            /\ ~any => b = "false"
            /\ out' = OutR(b)
    /\ UNCHANGED <<cst, sst, cview, sview, cexp, pool, nextn, loans, pend, reqq, qref, areq, rst, rq, held,
                   rloans, closedA, delivered, gone, kd>>

FreeRespIds(s) == (1..NRESP) \ RespChunkIds(s)
\* chunk id 0 = not observable (copy API)
PickRespX(s, observable) == IF ~observable \/ ~TrackIds THEN {0}
                            ELSE IF MinChunk THEN {Min(FreeRespIds(s))} ELSE FreeRespIds(s)
SenderLoanLimit == MLR * MA * MCL

\* outcome of the loan part: "ok" or an error. A failed allocation has no side effect (lk is a ghost that
\* counts them: in the known shape "loan-counter-not-restored" - repaired in /repo - every failed
\* allocation left the per-request loan counter incremented).
LoanOutcome(s, a) ==
    IF a.lc >= MLR THEN "ExceedsMaxLoans"
    ELSE IF Cardinality(rloans[s]) >= SenderLoanLimit THEN "ExceedsMaxLoans*"
    ELSE IF RespInUse(s) >= NRESP THEN "OutOfMemory*"
    ELSE "ok"
LeakWouldRefuse(a) == a.lc < MLR /\ a.lc + a.lk >= MLR

ReplaceAr(s, a, b) == [areq EXCEPT ![s] = (@ \ {a}) \cup {b}]

LoanFailure(s, a, o) ==
    IF o = "ExceedsMaxLoans"
    THEN /\ out' = OutR("ExceedsMaxLoans") /\ UNCHANGED <<areq, kd>>
    ELSE IF o = "ExceedsMaxLoans*"
    THEN /\ out' = OutR("ExceedsMaxLoans")
         /\ areq' = ReplaceAr(s, a, [a EXCEPT !.lk = @ + 1])
         /\ UNCHANGED kd
    ELSE \* inside the limits and nevertheless no memory: only as the known shape
         /\ AllowKnown /\ RespOomKnown(s)
         /\ areq' = ReplaceAr(s, a, [a EXCEPT !.lk = @ + 1])
         /\ kd' = kd \cup {"resp-oom-stale-responses"}
         /\ out' = OutR("OutOfMemory")
\* the loan is refused with ExceedsMaxLoans only because of earlier failed allocations
LoanRefusedByLeak(s, a) ==
    /\ AllowKnown /\ LeakWouldRefuse(a)
    /\ kd' = kd \cup {"loan-counter-not-restored"}
    /\ out' = OutR("ExceedsMaxLoans")
    /\ UNCHANGED areq

LoanResponse(s, c, n) ==
    /\ sst[s] = "alive"
    /\ \E a \in areq[s] :
        /\ a.c = c /\ a.n = n
        /\ a.nj < MaxJ
        /\ \/ LET o == LoanOutcome(s, a) IN
              IF o = "ok"
              THEN \E x \in PickRespX(s, TRUE) :
                   /\ rloans' = [rloans EXCEPT ![s] = @ \cup {[c |-> c, n |-> n, j |-> a.nj + 1, x |-> x]}]
                   /\ areq' = ReplaceAr(s, a, [a EXCEPT !.lc = @ + 1, !.nj = @ + 1])
                   /\ out' = Out("ok", n, a.ch, x, s, a.nj + 1, 0, 0)
                   /\ UNCHANGED kd
              ELSE LoanFailure(s, a, o) /\ UNCHANGED rloans
           \/ LoanRefusedByLeak(s, a) /\ UNCHANGED rloans
    /\ UNCHANGED <<cst, sst, cview, sview, cexp, pool, nextn, loans, pend, reqq, qref, rst, rq, held, closedA, delivered, gone>>

\* delivery of response e through active request a: no look at the channel state
RespDeliver(s, a, e) ==
    IF a.conn /\ a.c \in sview[s]
    THEN LET d == Deliver(rq[s][a.c][a.ch], e, RB, OP) IN
         /\ rq' = [rq EXCEPT ![s][a.c][a.ch] = d.q]
         /\ IF ~d.ok /\ \E t \in Range(rq[s][a.c][a.ch]) : IsStale(a.c, a.ch, t)
            THEN /\ AllowKnown /\ kd' = kd \cup {"stale-responses-block-buffer"}
            ELSE UNCHANGED kd
    ELSE UNCHANGED <<rq, kd>>

SendResponse(s, c, n, j) ==
    /\ sst[s] = "alive" /\ SyncedS(s)
    /\ \E a \in areq[s], l \in rloans[s] :
        /\ a.c = c /\ a.n = n /\ l.c = c /\ l.n = n /\ l.j = j
        /\ rloans' = [rloans EXCEPT ![s] = @ \ {l}]
        /\ areq' = ReplaceAr(s, a, [a EXCEPT !.lc = @ - 1, !.sq = @ + 1])
        /\ RespDeliver(s, a, [n |-> n, j |-> j, x |-> l.x, q |-> a.sq + 1])
    /\ out' = OutR("ok")
    /\ UNCHANGED <<cst, sst, cview, sview, cexp, pool, nextn, loans, pend, reqq, qref, rst, held,
                   closedA, delivered, gone>>

SendCopyResponse(s, c, n) ==
    /\ sst[s] = "alive" /\ SyncedS(s)
    /\ \E a \in areq[s] :
        /\ a.c = c /\ a.n = n
        /\ a.nj < MaxJ
        /\ \/ LET o == LoanOutcome(s, a) IN
              IF o = "ok"
              THEN /\ areq' = ReplaceAr(s, a, [a EXCEPT !.nj = @ + 1, !.sq = @ + 1])
                   /\ RespDeliver(s, a, [n |-> n, j |-> a.nj + 1, x |-> 0, q |-> a.sq + 1])
                   /\ out' = Out("ok", n, a.ch, 0, s, a.nj + 1, 0, 0)
              ELSE LoanFailure(s, a, o) /\ UNCHANGED rq
           \/ LoanRefusedByLeak(s, a) /\ UNCHANGED rq
    /\ UNCHANGED <<cst, sst, cview, sview, cexp, pool, nextn, loans, pend, reqq, qref, rst, held, rloans, closedA, delivered, gone>>

DropResponseLoan(s, c, n, j) ==
    /\ sst[s] = "alive"
    /\ \E a \in areq[s], l \in rloans[s] :
        /\ a.c = c /\ a.n = n /\ l.c = c /\ l.n = n /\ l.j = j
        /\ rloans' = [rloans EXCEPT ![s] = @ \ {l}]
        /\ areq' = ReplaceAr(s, a, [a EXCEPT !.lc = @ - 1])
    /\ out' = OutR("ok")
    /\ UNCHANGED <<cst, sst, cview, sview, cexp, pool, nextn, loans, pend, reqq, qref, rst, rq, held, closedA, delivered, gone, kd>>

\* ActiveRequest::drop: release the request chunk, close the channel from the server side
DropActive(s, c, n) ==
    /\ sst[s] = "alive"
    /\ \E a \in areq[s] :
        /\ a.c = c /\ a.n = n
        /\ \A l \in rloans[s] : ~(l.c = c /\ l.n = n)
        /\ areq' = [areq EXCEPT ![s] = @ \ {a}]
        /\ qref' = IF cst[c] = "alive"
                   THEN [qref EXCEPT ![c] = Adjust(@, DOMAIN @, LAMBDA m : 0, LAMBDA m : B2N(m = n))]
                   ELSE qref
        /\ rst' = IF a.conn /\ c \in sview[s] /\ rst[s][c][a.ch].n = n
                  THEN [rst EXCEPT ![s][c][a.ch] = Closed] ELSE rst
    /\ closedA' = closedA \cup {<<s, c, n>>}
    /\ UNCHANGED <<delivered, gone>>
    /\ out' = OutR("ok")
    /\ UNCHANGED <<cst, sst, cview, sview, cexp, pool, nextn, loans, pend, reqq, rq, held, rloans, kd>>

ArConnected(s, a) == a.conn /\ a.c \in sview[s] /\ rst[s][a.c][a.ch].n = a.n

IsConnectedA(s, c, n) ==
    /\ sst[s] = "alive"
    /\ \E a \in areq[s] :
        /\ a.c = c /\ a.n = n
        /\ out' = OutR(IF ArConnected(s, a) THEN "true" ELSE "false")
    /\ UNCHANGED <<cst, sst, cview, sview, cexp, pool, nextn, loans, pend, reqq, qref, areq, rst, rq, held,
                   rloans, closedA, delivered, gone, kd>>

HasDisconnectHint(s, c, n) ==
    /\ sst[s] = "alive"
    /\ \E a \in areq[s] :
        /\ a.c = c /\ a.n = n
        /\ out' = OutR(IF ArConnected(s, a) /\ rst[s][c][a.ch].hint THEN "true" ELSE "false")
    /\ UNCHANGED <<cst, sst, cview, sview, cexp, pool, nextn, loans, pend, reqq, qref, areq, rst, rq, held,
                   rloans, closedA, delivered, gone, kd>>

(* loan-to-exhaustion probes (DESIGN.md C02): loan until failure, drop everything *)
ProbeRequestLoans(c) ==
    /\ cst[c] = "alive"
    /\ LET room == ML - Cardinality(loans[c])
           free == NREQ - ReqInUse(c)
           k == IF free >= room THEN room ELSE free
       IN /\ IF free >= room
             THEN /\ out' = Out("ExceedsMaxLoans", 0, -1, 0, 0, 0, 0, room) /\ UNCHANGED kd
             ELSE /\ AllowKnown /\ ReqOomKnown(c)
                  /\ kd' = kd \cup {"req-oom-undelivered-pending"}
                  /\ out' = Out("OutOfMemory", 0, -1, 0, 0, 0, 0, free)
          \* every loan of the probe takes a channel id and returns it to the END of the pool
          /\ pool' = [pool EXCEPT ![c] = IF PoolFifo THEN SubSeq(@, k + 1, Len(@)) \o SubSeq(@, 1, k) ELSE @]
    /\ UNCHANGED <<cst, sst, cview, sview, cexp, nextn, loans, pend, reqq, qref, areq, rst, rq, held,
                   rloans, closedA, delivered, gone>>

ProbeResponseLoans(s, c, n) ==
    /\ sst[s] = "alive"
    /\ \E a \in areq[s] :
        /\ a.c = c /\ a.n = n
        /\ LET room == IF MLR > a.lc THEN MLR - a.lc ELSE 0
               sroom == IF SenderLoanLimit > Cardinality(rloans[s]) THEN SenderLoanLimit - Cardinality(rloans[s]) ELSE 0
               free == NRESP - RespInUse(s)
               lroom == IF MLR > a.lc + a.lk THEN MLR - a.lc - a.lk ELSE 0
           IN \/ IF room <= sroom /\ room <= free
                 THEN /\ out' = Out("ExceedsMaxLoans", 0, -1, 0, 0, 0, 0, room) /\ UNCHANGED <<areq, kd>>
                 ELSE IF free < sroom
                 THEN /\ AllowKnown /\ RespOomKnown(s)
                      /\ areq' = ReplaceAr(s, a, [a EXCEPT !.lk = @ + 1])
                      /\ kd' = kd \cup {"resp-oom-stale-responses"}
                      /\ out' = Out("OutOfMemory", 0, -1, 0, 0, 0, 0, free)
                 ELSE /\ areq' = ReplaceAr(s, a, [a EXCEPT !.lk = @ + 1])
                      /\ out' = Out("ExceedsMaxLoans", 0, -1, 0, 0, 0, 0, sroom)
                      /\ UNCHANGED kd
              \/ /\ AllowKnown /\ a.lk > 0 /\ lroom < room /\ lroom <= sroom /\ lroom <= free
                 /\ kd' = kd \cup {"loan-counter-not-restored"}
                 /\ out' = Out("ExceedsMaxLoans", 0, -1, 0, 0, 0, 0, lroom)
                 /\ UNCHANGED areq
    /\ UNCHANGED <<cst, sst, cview, sview, cexp, pool, nextn, loans, pend, reqq, qref, rst, rq, held, rloans,
                   closedA, delivered, gone>>

(* ------------------------------- next-state ------------------------------- *)
Internal ==
    \/ \E c \in Clients, s \in Servers : ExpireGone(c, s) \/ SkipClosed(s, c) \/ LoseDead(s, c)
    \/ \E c \in Clients, s \in Servers, ch \in Chans : DropStale(c, s, ch)

\* implicit update_connections inside the API calls that need a synced view
ImplicitUpdate ==
    \/ \E c \in Clients : cst[c] = "alive" /\ ~SyncedC(c) /\ UpdateClient(c)
    \/ \E s \in Servers : sst[s] = "alive" /\ ~SyncedS(s) /\ UpdateServer(s)

\* every API call is a top-level disjunct with constant bounds (TLC reports coverage per action)
Next ==
    \/ \E c \in Clients, s \in Servers : ExpireGone(c, s)
    \/ \E c \in Clients, s \in Servers : SkipClosed(s, c)
    \/ \E c \in Clients, s \in Servers : LoseDead(s, c)
    \/ \E c \in Clients, s \in Servers, ch \in Chans : DropStale(c, s, ch)
    \/ \E c \in Clients : CreateClient(c)
    \/ \E c \in Clients : DropClient(c)
    \/ \E c \in Clients : UpdateClient(c)
    \/ \E c \in Clients : LoanRequest(c)
    \/ \E c \in Clients : SendCopy(c)
    \/ \E c \in Clients, n \in 1..MaxN : SendRequest(c, n)
    \/ \E c \in Clients, n \in 1..MaxN : DropRequest(c, n)
    \/ \E c \in Clients, n \in 1..MaxN : DropPending(c, n)
    \/ \E c \in Clients, n \in 1..MaxN : ReceiveResponse(c, n)
    \/ \E c \in Clients, n \in 1..MaxN : IsConnectedP(c, n)
    \/ \E c \in Clients, n \in 1..MaxN : HasResponse(c, n)
    \/ \E c \in Clients, n \in 1..MaxN : DisconnectHint(c, n)
    \/ \E c \in Clients, s \in Servers, n \in 1..MaxN, j \in 1..MaxJ : DropResponse(c, s, n, j)
    \/ \E s \in Servers : CreateServer(s)
    \/ \E s \in Servers : DropServer(s)
    \/ \E s \in Servers : UpdateServer(s)
    \/ \E s \in Servers : ReceiveRequest(s)
    \/ \E s \in Servers : HasRequests(s)
    \/ \E s \in Servers, c \in Clients, n \in 1..MaxN : LoanResponse(s, c, n)
    \/ \E s \in Servers, c \in Clients, n \in 1..MaxN : SendCopyResponse(s, c, n)
    \/ \E s \in Servers, c \in Clients, n \in 1..MaxN : DropActive(s, c, n)
    \/ \E s \in Servers, c \in Clients, n \in 1..MaxN : IsConnectedA(s, c, n)
    \/ \E s \in Servers, c \in Clients, n \in 1..MaxN : HasDisconnectHint(s, c, n)
    \/ \E s \in Servers, c \in Clients, n \in 1..MaxN, j \in 1..MaxJ : SendResponse(s, c, n, j)
    \/ \E s \in Servers, c \in Clients, n \in 1..MaxN, j \in 1..MaxJ : DropResponseLoan(s, c, n, j)
Spec == Init /\ [][Next]_vars

(* =============================== invariants ================================ *)
TypeOK ==
    /\ \A c \in Clients : cst[c] \in {"none", "alive", "dead"} /\ cview[c] \subseteq Servers
    /\ \A s \in Servers : sst[s] \in {"none", "alive", "dead"} /\ sview[s] \subseteq Clients

\* EachServerGetsRequestOnce: a request is never twice in the hands of one server (queued or active)
\* and never active at a server again after its active request was dropped
EachServerGetsRequestOnce ==
    \A c \in Clients, s \in Servers :
        /\ \A i, k \in 1..Len(reqq[c][s]) : i # k => reqq[c][s][i].n # reqq[c][s][k].n
        /\ \A a \in areq[s] : a.c = c =>
             /\ \A i \in 1..Len(reqq[c][s]) : reqq[c][s][i].n # a.n
             /\ <<s, c, a.n>> \notin closedA
        /\ \A i \in 1..Len(reqq[c][s]) : <<s, c, reqq[c][s][i].n>> \notin closedA
        /\ \A a, b \in areq[s] : (a.c = b.c /\ a.n = b.n) => a = b

\* ... and conservation: a request that entered the buffer of a server is queued there, active there,
\* was finished there, or left the buffer by one of the documented ways -- exactly one of these
RequestConservation ==
    \A t \in delivered :
        LET s == t[1] c == t[2] n == t[3]
            q == \E i \in 1..Len(reqq[c][s]) : reqq[c][s][i].n = n
            a == \E b \in areq[s] : b.c = c /\ b.n = n
        IN B2N(q) + B2N(a) + B2N(t \in closedA) + B2N(t \in gone) = 1

\* Routing: whatever a client holds came through the pending response of the request it answers.
\* (A held response records in n the request it answers and in ch the channel = pending response it
\* came through; the pending response (c, n) is the only one that ever owned (ch, n).)
Routing ==
    \A c \in Clients : \A r \in held[c] :
        /\ \A p \in pend[c] : p.ch = r.ch => p.n >= r.n
        /\ r.n \in 1..nextn[c]
\* the stronger, history-based form is checked on the action: the response returned by
\* ReceiveResponse(c, n) answers request n of client c
RoutingAction ==
    [][\A c \in Clients : \A r \in held'[c] \ held[c] :
          \E p \in pend[c] : p.ch = r.ch /\ p.n = r.n]_vars

\* OrderAtMostOnce per (request, server): what is still queued for a pending response is strictly
\* increasing and newer than what it already returned
OrderAtMostOnce ==
    \A c \in Clients : \A p \in pend[c] : \A s \in Servers :
        LET own == SelectSeq(rq[s][c][p.ch], LAMBDA e : e.n = p.n) IN
        /\ \A i \in 1..Len(own) : own[i].q > p.last[s]
        /\ \A i, k \in 1..Len(own) : i < k => own[i].q < own[k].q

\* CloseObserved: a dropped end is visible at the other end
CloseObserved ==
    \* pending response gone  =>  no active request of it is connected
    /\ \A s \in Servers : \A a \in areq[s] :
         (cst[a.c] # "alive" \/ \A p \in pend[a.c] : p.n # a.n) => ~ArConnected(s, a)
    \* active request dropped  =>  that server's connection does not keep the stream connected
    /\ \A c \in Clients : \A p \in pend[c] : \A s \in Servers :
         <<s, c, p.n>> \in closedA => rst[s][c][p.ch].n # p.n
    \* a channel carries at most the id of the pending response that owns it
    /\ \A c \in Clients, s \in Servers, ch \in Chans :
         rst[s][c][ch].n # 0 => \E p \in pend[c] : p.ch = ch /\ p.n = rst[s][c][ch].n

\* Limits (shared with C08)
Limits ==
    /\ \A c \in Clients :
         /\ Cardinality(pend[c]) <= MA
         /\ Cardinality(loans[c]) <= ML
         /\ \A s \in Servers : Len(reqq[c][s]) <= MA /\ ArCount(s, c) <= MA
         /\ \A s \in Servers, ch \in Chans : Len(rq[s][c][ch]) <= RB /\ HeldCount(c, s, ch) <= MB
         /\ Len(pool[c]) + Cardinality(loans[c]) + Cardinality(pend[c]) = (IF cst[c] = "alive" THEN NREQ ELSE Len(pool[c]))
    /\ \A s \in Servers : \A a \in areq[s] :
         Cardinality({l \in rloans[s] : l.c = a.c /\ l.n = a.n}) <= MLR

\* chunk layer ---------------------------------------------------------------
\* RefExact: the reference counter equals the number of holders
RefExact ==
    \A c \in AliveC :
        /\ DOMAIN qref[c] = ReqHolders(c)
        /\ \A n \in DOMAIN qref[c] : qref[c][n] = RefDerived(c, n)
\* LoanFromFree: distinct requests / responses never share a chunk
LoanFromFree ==
    /\ \A c \in AliveC : Cardinality(ReqChunkIds(c) \ {0}) = ReqInUse(c) \/ 0 \in ReqChunkIds(c)
    /\ \A s \in AliveS : \A t, u \in RespHolders(s) : (t[4] # 0 /\ t[4] = u[4]) => t = u
\* NoLeak: without holders everything is free (FreeIffZero is structural: free = not referenced)
NoLeak ==
    /\ \A c \in AliveC : ReqHolders(c) = {} => (qref[c] = <<>> /\ Len(pool[c]) = NREQ)
    /\ \A c \in AliveC : ReqInUse(c) <= NREQ
    /\ \A s \in AliveS : RespInUse(s) <= NRESP
\* every response exists once
SingleHolder ==
    \A s \in Servers :
        /\ Cardinality(RespHolders(s)) =
             Cardinality(rloans[s]) + Cardinality(UNION {{<<c, r>> : r \in {t \in held[c] : t.s = s}} : c \in Clients})
             + Cardinality({<<c, ch, i>> \in Clients \X Chans \X (1..RB) : i <= Len(rq[s][c][ch])})

\* C08 "inside the limits no OutOfMemory" -- the closed formulas of static_config/request_response.rs
ChunksSufficeReq == \A c \in AliveC : Cardinality(loans[c]) < ML => ReqInUse(c) < NREQ
ChunksSufficeResp == \A s \in AliveS : (\E a \in areq[s] : a.lc < MLR) => RespInUse(s) < NRESP
\* ... and the same modulo the known shapes
ChunksSufficeReqModuloKnown ==
    \A c \in AliveC : (Cardinality(loans[c]) < ML /\ ReqInUse(c) >= NREQ) => ReqOomKnown(c)
ChunksSufficeRespModuloKnown ==
    \A s \in AliveS : ((\E a \in areq[s] : a.lc < MLR) /\ RespInUse(s) >= NRESP) => RespOomKnown(s)
NoKnownDefect == kd = {}
=============================================================================
