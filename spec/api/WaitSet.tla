------------------------------- MODULE WaitSet -------------------------------
(***************************************************************************)
(* Property layer of C20: "WaitSet dispatch is exact".                     *)
(*                                                                         *)
(* Abstract objects                                                        *)
(*   listeners 1..NL   attachable objects with one level-triggered flag    *)
(*                     `pending[l]` (TRUE from a notify until the owner    *)
(*                     drains the listener with try_wait; exactly how the  *)
(*                     code signals readiness: the notifier writes one     *)
(*                     byte into the listener's socket unless one is       *)
(*                     already in flight, try_wait empties the socket)     *)
(*   guard slots 1..NG the places where the application keeps the guards   *)
(*                     returned by attach_*; att[g] describes the          *)
(*                     attachment a live guard stands for                  *)
(*        kind "n"  attach_notification(listener l)                        *)
(*        kind "d"  attach_deadline(listener l, duration class c)          *)
(*        kind "i"  attach_interval(duration class c)                      *)
(*   duration classes  "s" = expired at every processing call (1 ns in the *)
(*                     driver, which sleeps before every processing call), *)
(*                     "l" = never expires within a run (1 h);             *)
(*                     intervals only: "m" = a period P of 120 ms, written *)
(*                     "M" once the driver has slept longer than 1.5 P     *)
(*                     since the instant at which the previous processing  *)
(*                     call examined the deadlines (actions Sleep /        *)
(*                     SleepIn): at least one period boundary lies in      *)
(*                     between, so the NEXT call must report the tick - in *)
(*                     particular when the sleep happened inside a         *)
(*                     callback of the previous call ("an event that       *)
(*                     arrives while the wait set is processing is not     *)
(*                     lost but reported by the next call") - unless the   *)
(*                     rest of that call already reported it; a mid        *)
(*                     interval that is not marked may fire (time passes). *)
(*                                                                         *)
(* A processing call (wait_and_process_once_with_timeout) is split into    *)
(*   PBegin            the call is entered: the set of attachments that    *)
(*                     MUST be reported and the set that MAY be reported   *)
(*                     are fixed                                           *)
(*   Cb(evs, dls)      one invocation of the user callback; evs / dls are  *)
(*                     the sets of live guards g for which                 *)
(*                     id.has_event_from(g) / id.has_missed_deadline(g)    *)
(*                     returned true (OBSERVED values)                     *)
(*   NotifyIn(s)       a notification sent from inside the callback        *)
(*   PEnd(r, stopAt)   the call returned r; stopAt = k > 0 iff the k-th    *)
(*                     callback returned CallbackProgression::Stop         *)
(* The order of callbacks is not fixed by the property and is left open.   *)
(*                                                                         *)
(* All observation actions accept ANY observed value; the property's       *)
(* clauses are the invariants below, evaluated on the explained trace (V1) *)
(* and on the implementation-shaped model WaitSetImpl (V2).                *)
(*                                                                         *)
(* What the statement leaves open is nondeterministic here:                *)
(*   - a deadline attachment of class "s" whose listener has an event      *)
(*     pending: the event is reported, the missed deadline MAY be reported *)
(*     (the code resets the deadline when the event is seen; whether 1 ns  *)
(*     passes again before the deadlines are examined is timing);          *)
(*   - which error is returned when an attach is both a duplicate and over *)
(*     capacity;                                                           *)
(*   - the order of callbacks, and which ready attachments are skipped     *)
(*     after the callback asked to stop.                                   *)
(***************************************************************************)
EXTENDS Integers, FiniteSets, Sequences

CONSTANTS NL, NG

VARIABLES pending,   \* [1..NL -> BOOLEAN]
          svc,       \* [1..NL -> service index]: a notifier notifies every listener of its service
          att,       \* [1..NG -> attachment record]
          cap,       \* capacity of the wait set that is left for the modelled guard slots
          fill,      \* number of further attachments the application holds (never ready; they
                     \* only matter for "the wait set is empty")
          proc,      \* state of the processing call in progress
          obs        \* judgement of the last observation

wsvars == <<pending, svc, att, cap, fill, proc, obs>>

L == 1..NL
G == 1..NG
Classes == {"s", "l"}
None == [k |-> "-", l |-> 0, c |-> "-"]
AttN(l) == [k |-> "n", l |-> l, c |-> "-"]
AttD(l, c) == [k |-> "d", l |-> l, c |-> c]
AttI(c) == [k |-> "i", l |-> 0, c |-> c]

Live(a) == {g \in G : a[g] # None}
NumAtt(a) == Cardinality(Live(a))
NumDeadline(a) == Cardinality({g \in G : a[g].k = "d"})
ListenerAttached(l) == \E g \in G : att[g].k \in {"n", "d"} /\ att[g].l = l

Idle == [on |-> FALSE, empty |-> FALSE, must |-> {}, may |-> {}, done |-> {}, ncb |-> 0, bad |-> FALSE]
NoObs == [k |-> "-"]

\* ---- what a processing call has to report ---------------------------------
Must == {<<g, "ev">> : g \in {h \in G : att[h].k \in {"n", "d"} /\ pending[att[h].l]}}
        \cup {<<g, "ev">> : g \in {h \in G : att[h].k = "i" /\ att[h].c \in {"s", "M"}}}
        \cup {<<g, "dl">> : g \in {h \in G : att[h].k = "d" /\ att[h].c = "s" /\ ~pending[att[h].l]}}
May  == {<<g, "dl">> : g \in {h \in G : att[h].k = "d" /\ att[h].c = "s" /\ pending[att[h].l]}}
        \cup {<<g, "ev">> : g \in {h \in G : att[h].k = "i" /\ att[h].c = "m"}}
\* the mid intervals the driver has slept over: due at the next examination of the deadlines
MarkDue(a) == [g \in G |-> IF a[g].k = "i" /\ a[g].c = "m" THEN AttI("M") ELSE a[g]]
ClearDue(a) == [g \in G |-> IF a[g].k = "i" /\ a[g].c = "M" THEN AttI("m") ELSE a[g]]

\* ---- initial state / reset ---------------------------------------------------
WSInit(c, sv, f) ==
    /\ pending = [l \in L |-> FALSE]
    /\ svc = sv
    /\ att = [g \in G |-> None]
    /\ cap = c
    /\ fill = f
    /\ proc = Idle
    /\ obs = NoObs

WSReset(c, sv, f) ==
    /\ pending' = [l \in L |-> FALSE]
    /\ svc' = sv
    /\ att' = [g \in G |-> None]
    /\ cap' = c
    /\ fill' = f
    /\ proc' = Idle
    /\ obs' = NoObs

\* ---- attach --------------------------------------------------------------------
AllowedResults(a) ==
    LET dup  == a.k \in {"n", "d"} /\ ListenerAttached(a.l)
        full == NumAtt(att) >= cap
    IN  IF dup /\ full THEN {"AlreadyAttached", "InsufficientCapacity"}
        ELSE IF dup THEN {"AlreadyAttached"}
        ELSE IF full THEN {"InsufficientCapacity"}
        ELSE {"ok"}

\* r = observed result, len = observed WaitSet::len(), m = observed number of entries of the
\* descriptor<->deadline maps (-1 = not observable in this build)
Attach(g, a, r, len, m) ==
    /\ ~proc.on
    /\ att[g] = None
    /\ att' = IF r = "ok" THEN [att EXCEPT ![g] = a] ELSE att
    /\ obs' = [k |-> "attach", allowed |-> AllowedResults(a), got |-> r,
               len |-> len, explen |-> NumAtt(att'), m |-> m, expm |-> 2 * NumDeadline(att')]
    /\ UNCHANGED <<pending, svc, cap, fill, proc>>

DropGuard(g, len, m) ==
    /\ ~proc.on
    /\ att[g] # None
    /\ att' = [att EXCEPT ![g] = None]
    /\ obs' = [k |-> "drop", len |-> len, explen |-> NumAtt(att'), m |-> m, expm |-> 2 * NumDeadline(att')]
    /\ UNCHANGED <<pending, svc, cap, fill, proc>>

\* ---- events --------------------------------------------------------------------
Notify(s) ==
    /\ ~proc.on
    /\ pending' = [l \in L |-> pending[l] \/ svc[l] = s]
    /\ obs' = NoObs
    /\ UNCHANGED <<svc, att, cap, fill, proc>>

\* the application consumes the events of a listener outside of the wait set
Drain(l) ==
    /\ ~proc.on
    /\ pending' = [pending EXCEPT ![l] = FALSE]
    /\ obs' = NoObs
    /\ UNCHANGED <<svc, att, cap, fill, proc>>

\* the listener is dropped and a new one created on the same service: descriptor reuse;
\* only possible while no guard refers to it (Rust lifetimes)
Recreate(l) ==
    /\ ~proc.on
    /\ ~ListenerAttached(l)
    /\ pending' = [pending EXCEPT ![l] = FALSE]
    /\ obs' = NoObs
    /\ UNCHANGED <<svc, att, cap, fill, proc>>

\* the driver sleeps longer than 1.5 periods of the mid class, outside of / inside a callback
Sleep ==
    /\ ~proc.on
    /\ att' = MarkDue(att)
    /\ obs' = NoObs
    /\ UNCHANGED <<pending, svc, cap, fill, proc>>
SleepIn ==
    /\ proc.on /\ proc.ncb > 0
    /\ att' = MarkDue(att)
    /\ obs' = NoObs
    /\ UNCHANGED <<pending, svc, cap, fill, proc>>

\* ---- processing call -----------------------------------------------------------
PBegin ==
    /\ ~proc.on
    /\ proc' = [on |-> TRUE, empty |-> Live(att) = {} /\ fill = 0, must |-> Must, may |-> May,
                done |-> {}, ncb |-> 0, bad |-> FALSE]
    /\ obs' = NoObs
    /\ att' = ClearDue(att)        \* the deadlines are examined now: a marked tick is owed by THIS call
    /\ UNCHANGED <<pending, svc, cap, fill>>

Cb(evs, dls) ==
    /\ proc.on
    /\ LET res == {<<g, "ev">> : g \in evs} \cup {<<g, "dl">> : g \in dls}
           drained == {att[g].l : g \in {h \in evs : att[h].k \in {"n", "d"}}}
       IN /\ proc' = [proc EXCEPT !.done = @ \cup res, !.ncb = @ + 1,
                                  !.bad = @ \/ Cardinality(res) # 1]
          \* the driver drains the listener inside the callback that reports its event
          /\ pending' = [l \in L |-> IF l \in drained THEN FALSE ELSE pending[l]]
    \* a tick that became due by a sleep inside an earlier callback of THIS call and is reported now is not owed
    \* any more (an implementation may examine the deadlines before or after the descriptor callbacks)
    /\ att' = [g \in G |-> IF g \in evs /\ att[g].k = "i" /\ att[g].c = "M" THEN AttI("m") ELSE att[g]]
    /\ obs' = NoObs
    /\ UNCHANGED <<svc, cap, fill>>

NotifyIn(s) ==
    /\ proc.on
    /\ proc.ncb > 0
    /\ pending' = [l \in L |-> pending[l] \/ svc[l] = s]
    /\ obs' = NoObs
    /\ UNCHANGED <<svc, att, cap, fill, proc>>

ExpectedRunResult(stopAt) ==
    IF proc.empty THEN "NoAttachments"
    ELSE IF stopAt > 0 THEN "StopRequest" ELSE "AllEventsHandled"

PEnd(r, stopAt) ==
    /\ proc.on
    /\ obs' = [k |-> "pend",
               miss |-> IF stopAt > 0 THEN {} ELSE proc.must \ proc.done,
               extra |-> proc.done \ (proc.must \cup proc.may),
               dup |-> proc.ncb # Cardinality(proc.done),
               bad |-> proc.bad,
               r |-> r, expr |-> ExpectedRunResult(stopAt),
               overrun |-> (stopAt > 0 /\ proc.ncb # stopAt) \/ (proc.empty /\ proc.ncb # 0)]
    /\ proc' = Idle
    /\ UNCHANGED <<pending, svc, att, cap, fill>>

\* ---- the clauses of the property ---------------------------------------------------
TypeOK ==
    /\ pending \in [L -> BOOLEAN]
    /\ \A g \in G : att[g] = None \/ att[g].k \in {"n", "d", "i"}
    /\ \A g, h \in G : (g # h /\ att[g].k \in {"n", "d"} /\ att[h].k \in {"n", "d"}) => att[g].l # att[h].l
    /\ NumAtt(att) <= cap

\* every callback id belongs to exactly one guard that is attached right now
\* (never a dropped guard, never a foreign object, never two guards at once)
NeverDetached ==
    /\ proc.on => ~proc.bad
    /\ obs.k = "pend" => ~obs.bad

\* nothing is reported that is not ready, nothing is reported twice, and the call returns the
\* documented result (and stops when asked to)
Exact ==
    /\ proc.on => proc.done \subseteq (proc.must \cup proc.may)
    /\ obs.k = "pend" => /\ obs.extra = {}
                         /\ ~obs.dup
                         /\ obs.r = obs.expr
                         /\ ~obs.overrun

\* every attachment that was ready when the call was entered has been reported when the call
\* returns AllEventsHandled; since `pending` survives a call that did not report it (stop,
\* arrival during processing) this is also "reported by the next call"
NothingLost ==
    obs.k = "pend" => obs.miss = {}

\* refused attach: documented error, and no trace of the attempt in the observable bookkeeping;
\* the bookkeeping always reflects exactly the live attachments (also after a guard drop)
AttachRefusedCleanly ==
    /\ obs.k = "attach" => /\ obs.got \in obs.allowed
                           /\ obs.len = obs.explen
                           /\ obs.m = -1 \/ obs.m = obs.expm
    /\ obs.k = "drop" => /\ obs.len = obs.explen
                         /\ obs.m = -1 \/ obs.m = obs.expm
=============================================================================
