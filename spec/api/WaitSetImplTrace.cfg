SPECIFICATION TraceSpec
CONSTANTS
 NL = 4
 NG = 6
 NS = 1
 Cap = 0
 RCap = 0
 MaxIdx = 0
 InsertBeforeCheck = TRUE
 ReactorFullError = "AlreadyAttached"
 DropRemovesMaps = TRUE
CONSTRAINT Progress
POSTCONDITION Accepted
CHECK_DEADLOCK FALSE
