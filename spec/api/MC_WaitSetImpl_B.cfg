SPECIFICATION ISpec
CONSTANTS
 NL = 2
 NS = 2
 NG = 3
 Cap = 2
 RCap = 2
 MaxIdx = 4
 InsertBeforeCheck = TRUE
 ReactorFullError = "AlreadyAttached"
 DropRemovesMaps = TRUE
CONSTRAINT IdxBound
INVARIANTS ImplTypeOK NeverDetached Exact NothingLost
CHECK_DEADLOCK FALSE
