---------------------------- MODULE BlackboardGen ----------------------------
(* Generation direction: `tlc -simulate` over the documented behaviour of      *)
(* Blackboard.tla (MCNext) with a history variable; every walk of GenLen calls *)
(* is printed as one JSON line {cfg, steps} and executed by drv-blackboard on  *)
(* the real API (values and results are NOT part of the program: the driver    *)
(* records what really happens, BlackboardTrace.tla judges it).                *)
EXTENDS Blackboard, Json

CONSTANT GenLen
VARIABLE prog

Step == [a |-> last'.a, o |-> last'.o, n |-> last'.n, key |-> last'.key, x |-> last'.x, y |-> last'.y]
GenInit == MCInit /\ prog = <<>>
GenNext == MCNext /\ prog' = Append(prog, Step)
GenSpec == GenInit /\ [][GenNext]_<<vars, prog>>
Emit == Len(prog) = GenLen => PrintT(<<"BEHAVIOUR", ToJson([cfg |-> cfg, steps |-> prog])>>)
=============================================================================
