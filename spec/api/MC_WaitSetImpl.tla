---- MODULE MC_WaitSetImpl ----
(* Implementation-shaped layer, counter capacity and reactor capacity reachable, parameters as in
   the current code (after the repair of attach_deadline / CapacityExceeded). *)
EXTENDS WaitSetImpl
====
