---- MODULE MC_DropOrder_pubsub8 ----
EXTENDS DropOrderGen
====
