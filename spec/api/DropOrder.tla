------------------------------ MODULE DropOrder ------------------------------
(***************************************************************************)
(* Property layer of C17: "orderly shutdown in any order leaves nothing    *)
(* behind".                                                                *)
(*                                                                         *)
(* An object graph (variable pat, fixed per run) consists of API objects    *)
(*   node          N1 N2      service handle (port factory)  S1 S2         *)
(*   ports         P U  NO LI  C V  W R                                    *)
(*   secondary     LM (loaned sample)  RS (received sample)                *)
(*                 PR (pending response) AR (active request)               *)
(*                 RSP (received response) LR (loaned response)            *)
(*                 EM (entry handle mut)  EH (entry handle)                *)
(*   wait set      WS and guard G                                          *)
(* Every object has a CORE (its reference-counted shared state: SharedNode,*)
(* SharedServiceState, the port's shared state ...).  parent[o] is the     *)
(* core an object's core holds a counted reference to (a tree), Borrows[o] *)
(* are the objects o borrows at compile time (the wait-set guard): a       *)
(* borrowed object cannot be dropped before the borrower, every other      *)
(* order is legal.                                                         *)
(*                                                                         *)
(*   rc[o]   reference count of the core of o:                             *)
(*           (1 if the API object is alive) + (number of alive child cores)*)
(*   a core is released - and the system resources it stands for are       *)
(*   removed - when its count drops to zero; releasing a core drops its    *)
(*   reference to the parent core (cascade).                               *)
(*                                                                         *)
(* Model-checked clauses (all drop orders = all behaviours):               *)
(*   NoUseAfterFree  every core a live object needs (its ancestors) is     *)
(*                   alive - "a dependent object holds what it needs"      *)
(*   ReleasedOnce    no core is released twice                             *)
(*   NothingLeft     when everything is dropped every core is released     *)
(*   Reusable        then, and only then, the names can be created again   *)
(* Observations of the real code (trace): results of drops, of a use of    *)
(* every survivor after each drop, which nodes / services are listed, the  *)
(* leftovers in the isolated domain, re-creation, and how the child        *)
(* process ended.  They are judged by UseDefined / ListingConsistent /     *)
(* NothingLeft / Reusable / NoCrash.                                       *)
(***************************************************************************)
EXTENDS Integers, FiniteSets, Sequences


\* ---- the object graphs ----------------------------------------------------------
Tree(pairs) == pairs          \* set of <<child, parent>>

Graphs ==
  [ pubsub6 |-> [ objs |-> {"N1", "S1", "P", "U", "LM", "RS"},
                  par  |-> {<<"S1", "N1">>, <<"P", "S1">>, <<"U", "S1">>, <<"LM", "P">>, <<"RS", "U">>},
                  bor  |-> {} ],
    pubsub8 |-> [ objs |-> {"N1", "N2", "S1", "S2", "P", "U", "LM", "RS"},
                  par  |-> {<<"S1", "N1">>, <<"S2", "N2">>, <<"P", "S1">>, <<"U", "S2">>, <<"LM", "P">>, <<"RS", "U">>},
                  bor  |-> {} ],
    \* the same node opens the service twice (per-node registration counter)
    pubsub7 |-> [ objs |-> {"N1", "S1", "S2", "P", "U", "LM", "RS"},
                  par  |-> {<<"S1", "N1">>, <<"S2", "N1">>, <<"P", "S1">>, <<"U", "S2">>, <<"LM", "P">>, <<"RS", "U">>},
                  bor  |-> {} ],
    event6  |-> [ objs |-> {"N1", "S1", "NO", "LI", "WS", "G"},
                  par  |-> {<<"S1", "N1">>, <<"NO", "S1">>, <<"LI", "S1">>},
                  bor  |-> {<<"G", "LI">>, <<"G", "WS">>} ],
    event8  |-> [ objs |-> {"N1", "N2", "S1", "S2", "NO", "LI", "WS", "G"},
                  par  |-> {<<"S1", "N1">>, <<"S2", "N2">>, <<"NO", "S1">>, <<"LI", "S2">>},
                  bor  |-> {<<"G", "LI">>, <<"G", "WS">>} ],
    reqres8 |-> [ objs |-> {"N1", "S1", "C", "V", "PR", "AR", "RSP", "LR"},
                  par  |-> {<<"S1", "N1">>, <<"C", "S1">>, <<"V", "S1">>, <<"PR", "C">>, <<"AR", "V">>,
                            <<"RSP", "C">>, <<"LR", "V">>},
                  bor  |-> {} ],
    reqres8n |-> [ objs |-> {"N1", "N2", "S1", "S2", "C", "V", "PR", "AR"},
                  par  |-> {<<"S1", "N1">>, <<"S2", "N2">>, <<"C", "S1">>, <<"V", "S2">>, <<"PR", "C">>, <<"AR", "V">>},
                  bor  |-> {} ],
    bb6     |-> [ objs |-> {"N1", "S1", "W", "R", "EM", "EH"},
                  par  |-> {<<"S1", "N1">>, <<"W", "S1">>, <<"R", "S1">>, <<"EM", "W">>, <<"EH", "R">>},
                  bor  |-> {} ],
    bb8     |-> [ objs |-> {"N1", "N2", "S1", "S2", "W", "R", "EM", "EH"},
                  par  |-> {<<"S1", "N1">>, <<"S2", "N2">>, <<"W", "S1">>, <<"R", "S2">>, <<"EM", "W">>, <<"EH", "R">>},
                  bor  |-> {} ] ]

VARIABLES pat,       \* name of the object graph of this run (a key of Graphs)
          live,      \* API objects not yet dropped
          rc,        \* reference count of every core
          nrel,      \* how often every core has been released
          sent,      \* values published / requested / responded / written so far (data integrity)
          phase,     \* "run" | "final" | "done"
          bad        \* first observation that contradicts the property ("" = none)

dvars == <<pat, live, rc, nrel, sent, phase, bad>>

Gr == Graphs[pat]
Obj == Gr.objs
HasParent(o) == \E p \in Gr.par : p[1] = o
Parent(o) == (CHOOSE p \in Gr.par : p[1] = o)[2]
Children(o) == {p[1] : p \in {q \in Gr.par : q[2] = o}}
Borrows(o) == {p[2] : p \in {q \in Gr.bor : q[1] = o}}

Nodes == Obj \cap {"N1", "N2"}
Handles == Obj \cap {"S1", "S2"}
Ports == Obj \cap {"P", "U", "NO", "LI", "C", "V", "W", "R"}
Secondary == Obj \cap {"LM", "RS", "PR", "AR", "RSP", "LR", "EM", "EH"}

RECURSIVE Ancestors(_)
Ancestors(o) == IF HasParent(o) THEN {Parent(o)} \cup Ancestors(Parent(o)) ELSE {}
NodeOf(o) == IF o \in Nodes THEN o
             ELSE IF Ancestors(o) \cap Nodes = {} THEN "-"
             ELSE CHOOSE n \in Ancestors(o) \cap Nodes : TRUE


NoBad == [kind |-> "-", what |-> ""]
InitRc == [o \in Obj |-> 1 + Cardinality(Children(o))]
AllPatterns == DOMAIN Graphs

DInit(p) ==
    /\ pat = p
    /\ live = Obj
    /\ rc = InitRc
    /\ nrel = [o \in Obj |-> 0]
    /\ sent = {}
    /\ phase = "run"
    /\ bad = NoBad

\* cascade: the reference of o's core is given up; if the count reaches zero the core is released
\* and gives up its reference to the parent core
RECURSIVE Unref(_, _)
Unref(st, o) ==
    LET c == st.rc[o] - 1
        st1 == [rc |-> [st.rc EXCEPT ![o] = c], nrel |-> st.nrel]
    IN IF c > 0 THEN st1
       ELSE LET st2 == [rc |-> st1.rc, nrel |-> [st1.nrel EXCEPT ![o] = @ + 1]]
            IN IF HasParent(o) THEN Unref(st2, Parent(o)) ELSE st2

CanDrop(o) == o \in live /\ \A x \in live : o \notin Borrows(x)

DropCore(o) ==
    /\ phase = "run"
    /\ CanDrop(o)
    /\ live' = live \ {o}
    /\ LET st == Unref([rc |-> rc, nrel |-> nrel], o) IN rc' = st.rc /\ nrel' = st.nrel

CoreAlive(o) == rc[o] > 0

\* ---- what must / may be visible -------------------------------------------------------
OnNode(n) == {o \in Obj : NodeOf(o) = n}
\* node n is registered with the service: certainly while a handle or port of n is alive, certainly
\* not when no object of n that refers to the service is alive; open while only secondary objects
\* (samples, pending responses ...) are left
SvcObjs(n) == OnNode(n) \ Nodes
RegMust(n) == (SvcObjs(n) \cap (Handles \cup Ports)) \cap live # {}
RegMay(n) == SvcObjs(n) \cap live # {}
SvcMust == \E n \in Nodes : RegMust(n)
SvcMay == \E n \in Nodes : RegMay(n)
NodeMust(n) == n \in live \/ RegMust(n)
NodeMay(n) == OnNode(n) \cap live # {}
NodesMin == Cardinality({n \in Nodes : NodeMust(n)})
NodesMax == Cardinality({n \in Nodes : NodeMay(n)})
RegMin == Cardinality({n \in Nodes : RegMust(n)})
RegMax == Cardinality({n \in Nodes : RegMay(n)})

Flag(kind, msg) == bad' = IF bad = NoBad THEN [kind |-> kind, what |-> msg] ELSE bad

\* ---- observed actions (trace) -----------------------------------------------------------
\* r = result of the drop ("ok" or, for a loaned sample / response that is SENT instead of dropped,
\* "ok" / "err:<Error>")
Drop(o, how, r, v) ==
    /\ DropCore(o)
    /\ LET owner == IF HasParent(o) THEN Parent(o) ELSE o
           okres == IF how = "drop" THEN {"ok"}
                    ELSE IF owner \in live THEN {"ok"}
                    ELSE {"ok", "err:ConnectionBrokenSinceSenderNoLongerExists"}
       IN IF r \in okres THEN bad' = bad ELSE Flag("drop", o \o " -> " \o r)
    \* a loaned sample / response that is sent joins the values the receivers may see (v = its payload)
    /\ sent' = IF how = "send" /\ r = "ok" THEN sent \cup {v} ELSE sent
    /\ UNCHANGED <<pat, phase>>

\* after every drop: Node::list and Service::does_exist as seen from inside the domain
Obs(nodes, svc) ==
    /\ phase = "run"
    /\ IF nodes < NodesMin \/ nodes > NodesMax THEN Flag("listing", "nodes")
       ELSE IF (svc = 1 /\ ~SvcMay) \/ (svc = 0 /\ SvcMust) THEN Flag("listing", "service")
       ELSE bad' = bad
    /\ UNCHANGED <<pat, live, rc, nrel, sent, phase>>

\* use of a survivor.  r = "ok" | "none" | "some" | "err:…";  v = value sent / seen (0 = none);
\* n = auxiliary count (nodes registered with the service for handles)
PortOf(o) == IF o \in Secondary THEN Parent(o) ELSE o
Use(o, r, v, n) ==
    /\ phase = "run"
    /\ o \in live
    /\ LET senderGone == PortOf(o) \notin live
           ok ==
             CASE o \in Nodes -> r = "ok"
               [] o \in Handles -> r = "ok" /\ n >= RegMin /\ n <= RegMax
               [] o \in {"P", "C", "NO", "W"} -> r = "ok"                 \* sending ports
               [] o \in {"U", "V", "LI"} -> r = "none" \/ (r = "some" /\ v \in sent)
               [] o = "R" -> r = "some" /\ v \in sent
               [] o \in {"RS", "RSP"} -> r = "some" /\ v \in sent /\ v = n   \* n = value seen at setup
               [] o \in {"LM", "LR"} -> r = "ok" /\ v = n                 \* written value read back
               [] o = "EM" -> r = "ok"
               [] o = "EH" -> r = "some" /\ v \in sent
               [] o = "PR" -> r = "none" \/ (r = "some" /\ v \in sent)
               [] o = "AR" -> r = "ok" \/ (senderGone /\ r = "err:ConnectionBrokenSinceSenderNoLongerExists")
               [] o = "WS" -> r = (IF "G" \in live THEN "AllEventsHandled" ELSE "NoAttachments")
               [] o = "G" -> r = "ok"
               [] OTHER -> FALSE
       IN IF ok THEN bad' = bad ELSE Flag("use", o \o " -> " \o r)
    /\ sent' = IF o \in {"P", "C", "AR", "EM", "W"} /\ r = "ok" THEN sent \cup {v} ELSE sent
    /\ UNCHANGED <<pat, live, rc, nrel, phase>>

\* values produced while the graph was built
Setup(vals) ==
    /\ phase = "run" /\ live = Obj /\ sent = {}
    /\ sent' = vals
    /\ UNCHANGED <<pat, live, rc, nrel, phase, bad>>

\* everything dropped: what is left in the domain (nodes / services listed, files, shm entries that
\* are not the documented persistent ones) and the re-creation of the same names
Final(nodes, svc, leftovers, recreate) ==
    /\ phase = "run"
    /\ live = {}
    /\ phase' = "final"
    /\ IF nodes # 0 \/ svc # 0 \/ leftovers # 0 THEN Flag("left", "nodes / services / files left behind")
       ELSE IF recreate # "ok" THEN Flag("recreate", recreate)
       ELSE bad' = bad
    /\ UNCHANGED <<pat, live, rc, nrel, sent>>

\* how the child process ended: "ok", "panic", "signal:N", "hang", "exit:N"
End(status) ==
    /\ phase' = "done"
    /\ IF status # "ok" THEN Flag("crash", status)
       ELSE IF phase # "final" THEN Flag("crash", "stopped early")
       ELSE bad' = bad
    /\ UNCHANGED <<pat, live, rc, nrel, sent>>

\* ---- clauses -----------------------------------------------------------------------------
TypeOK ==
    /\ live \subseteq Obj
    /\ \A o \in Obj : rc[o] >= 0 /\ nrel[o] \in 0..2

RcAgrees == \A o \in Obj :
    rc[o] = (IF o \in live THEN 1 ELSE 0) + Cardinality({c \in Children(o) : rc[c] > 0})

NoUseAfterFree == \A o \in live : \A a \in Ancestors(o) : CoreAlive(a)
BorrowsAlive == \A o \in live : Borrows(o) \subseteq live
ReleasedOnce == \A o \in Obj : nrel[o] <= 1 /\ (nrel[o] = 1) = (rc[o] = 0)
NothingLeft == live = {} => \A o \in Obj : rc[o] = 0 /\ nrel[o] = 1
\* the names can be created again exactly when no core of the graph is alive any more
Reusable == (\A o \in Obj : ~CoreAlive(o)) = (live = {})

\* judgement of the observations (trace)
UseDefined == bad.kind \notin {"use", "drop"}       \* a live object works or fails with a documented error
ListingConsistent == bad.kind # "listing"          \* nodes / service visible exactly as long as they are used
NothingLeftObserved == bad.kind # "left"
ReusableObserved == bad.kind # "recreate"
NoCrash == bad.kind # "crash"                      \* no panic, abort or hang in any drop or use
=============================================================================
