----------------------------- MODULE WaitSetGen -----------------------------
(***************************************************************************)
(* The property layer WaitSet.tla closed with an IDEAL implementation:     *)
(* every observation is one the property allows.  Used                     *)
(*   (1) to model-check the property layer itself (the clauses must hold   *)
(*       for the ideal implementation, every action must be reachable),    *)
(*   (2) to GENERATE programs for the driver (DESIGN.md 2.2):              *)
(*         state cover - breadth-first search with `hist` outside of the   *)
(*                       VIEW prints one shortest behaviour per reachable  *)
(*                       abstract state,                                   *)
(*         -simulate   - random deep behaviours.                           *)
(* `hist` is the sequence of application-level commands of the behaviour.  *)
(***************************************************************************)
EXTENDS WaitSet, TLC, Json

CONSTANTS NS,         \* number of event services; listener l belongs to service ((l-1) % NS) + 1
          Cap,        \* capacity of the wait set in this instance
          MaxSteps,   \* bound on Len(hist); 0 = hist not recorded (exhaustive model checking)
          Emit        \* "none" | "all" (print the behaviour of every state where a call just ended) | "end"

VARIABLE hist

gvars == <<pending, svc, att, cap, fill, proc, obs, hist>>
SvcOf == [l \in L |-> ((l - 1) % NS) + 1]
S == 1..NS

Log(c) == IF MaxSteps = 0 THEN hist' = hist ELSE hist' = Append(hist, c)
Room == MaxSteps = 0 \/ Len(hist) < MaxSteps

GInit == WSInit(Cap, SvcOf, 0) /\ hist = <<>>

After(g, a, r) == IF r = "ok" THEN [att EXCEPT ![g] = a] ELSE att

GAttach(g, a) ==
    /\ Room
    /\ \E r \in AllowedResults(a) :
          Attach(g, a, r, NumAtt(After(g, a, r)), 2 * NumDeadline(After(g, a, r)))
    /\ Log([a |-> "attach", g |-> g, ty |-> a.k, l |-> a.l, c |-> a.c])

GDrop(g) ==
    /\ Room
    /\ att[g] # None
    /\ LET a2 == [att EXCEPT ![g] = None] IN DropGuard(g, NumAtt(a2), 2 * NumDeadline(a2))
    /\ Log([a |-> "drop", g |-> g])

GNotify(s) == Room /\ Notify(s) /\ Log([a |-> "notify", s |-> s])
GDrain(l) == Room /\ pending[l] /\ Drain(l) /\ Log([a |-> "drain", l |-> l])
GRecreate(l) == Room /\ Recreate(l) /\ Log([a |-> "recreate", l |-> l])

GPBegin == Room /\ PBegin /\ Log([a |-> "pbegin"])

GCb ==
    /\ Room
    /\ proc.on
    /\ \E x \in (proc.must \cup proc.may) \ proc.done :
          Cb(IF x[2] = "ev" THEN {x[1]} ELSE {}, IF x[2] = "dl" THEN {x[1]} ELSE {})
    /\ Log([a |-> "cb"])

GNotifyIn(s) == Room /\ NotifyIn(s) /\ Log([a |-> "notify", s |-> s])

GPEnd ==
    /\ Room
    /\ proc.on
    /\ \/ /\ proc.empty
          /\ PEnd("NoAttachments", 0)
          /\ Log([a |-> "pend", stop |-> 0])
       \/ /\ ~proc.empty
          /\ proc.must \subseteq proc.done
          /\ PEnd("AllEventsHandled", 0)
          /\ Log([a |-> "pend", stop |-> 0])
       \/ /\ ~proc.empty
          /\ proc.ncb > 0
          /\ PEnd("StopRequest", proc.ncb)
          /\ Log([a |-> "pend", stop |-> proc.ncb])

GNext ==
    \/ \E g \in G, l \in L : GAttach(g, AttN(l))
    \/ \E g \in G, l \in L, c \in Classes : GAttach(g, AttD(l, c))
    \/ \E g \in G, c \in Classes : GAttach(g, AttI(c))
    \/ \E g \in G : GDrop(g)
    \/ \E s \in S : GNotify(s) \/ GNotifyIn(s)
    \/ \E l \in L : GDrain(l) \/ GRecreate(l)
    \/ GPBegin \/ GCb \/ GPEnd

GSpec == GInit /\ [][GNext]_gvars

AbstractView == <<pending, svc, att, cap, fill, proc, obs>>

\* ---- generation: printing behaviours (always TRUE) -------------------------------
EmitBehaviour ==
    CASE Emit = "all" -> (obs.k = "pend" /\ Len(hist) > 0) => PrintT("BEHAVIOUR " \o ToJson(hist))
      [] Emit = "end" -> (MaxSteps > 0 /\ Len(hist) >= MaxSteps) => PrintT("BEHAVIOUR " \o ToJson(hist))
      [] OTHER -> TRUE
=============================================================================
