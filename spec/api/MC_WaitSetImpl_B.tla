---- MODULE MC_WaitSetImpl_B ----
EXTENDS WaitSetImpl
====
