----------------------------- MODULE WaitSetImpl -----------------------------
(***************************************************************************)
(* Implementation-shaped layer of C20: the bookkeeping of                  *)
(* iceoryx2/src/waitset.rs, stepped jointly with the property layer        *)
(* WaitSet.tla.  The observations the property layer judges (attach        *)
(* results, len(), map sizes, the guards each callback id resolves to) are *)
(* COMPUTED here the way the code computes them:                           *)
(*                                                                         *)
(*   rset   descriptors attached to the reactor (a listener's descriptor   *)
(*          is its index: a re-created listener gets the lowest free       *)
(*          descriptor, i.e. the one just closed - descriptor reuse)       *)
(*   dq     deadline queue: records [idx, c]; idx from the counter nidx    *)
(*          which is never reset (DeadlineQueue::id_count)                 *)
(*   a2d    attachment_to_deadline : descriptor -> idx   (set of pairs)    *)
(*   d2a    deadline_to_attachment : idx -> descriptor   (set of pairs)    *)
(*   cnt    attachment_counter                                             *)
(*   gd     what each live guard stores (kind, descriptor, idx)            *)
(*   todo   the callback ids still to be delivered by the running call     *)
(*                                                                         *)
(* Parameters (extracted from the behaviour of the current build by        *)
(* checks/C20.py):                                                         *)
(*   InsertBeforeCheck  attach_deadline inserts into a2d / d2a BEFORE the  *)
(*                      capacity check of attach() (waitset.rs:685-691)    *)
(*   ReactorFullError   the error attach_* returns when the reactor        *)
(*                      itself refuses with CapacityExceeded               *)
(*   DropRemovesMaps    WaitSetGuard::drop calls remove_deadline           *)
(* TLC checks the property clauses of WaitSet.tla on the joint system.     *)
(***************************************************************************)
EXTENDS WaitSet, TLC

CONSTANTS NS, Cap, RCap, MaxIdx,
          InsertBeforeCheck, ReactorFullError, DropRemovesMaps

VARIABLES rset, dq, nidx, a2d, d2a, cnt, gd, todo,
          rcap       \* capacity of the reactor's descriptor set in this run

ivars == <<rset, dq, nidx, a2d, d2a, cnt, gd, todo, rcap>>
allvars == <<pending, svc, att, cap, fill, proc, obs, rset, dq, nidx, a2d, d2a, cnt, gd, todo, rcap>>

S == 1..NS
SvcOf == [x \in L |-> ((x - 1) % NS) + 1]
NoGuard == [k |-> "-", fd |-> 0, idx |-> 0]

Put(map, k, v) == {p \in map : p[1] # k} \cup {<<k, v>>}
Del(map, k) == {p \in map : p[1] # k}
Has(map, k) == \E p \in map : p[1] = k
Get(map, k) == (CHOOSE p \in map : p[1] = k)[2]

MapSize == Cardinality(a2d) + Cardinality(d2a)

IInit ==
    /\ WSInit(Cap, SvcOf, 0)
    /\ rset = {} /\ dq = {} /\ nidx = 0 /\ a2d = {} /\ d2a = {} /\ cnt = 0
    /\ gd = [g \in G |-> NoGuard]
    /\ todo = {}
    /\ rcap = RCap

IReset(c, rc, sv, f) ==
    /\ WSReset(c, sv, f)
    /\ rset' = {} /\ dq' = {} /\ nidx' = 0 /\ a2d' = {} /\ d2a' = {} /\ cnt' = 0
    /\ gd' = [g \in G |-> NoGuard]
    /\ todo' = {}
    /\ rcap' = rc

\* ---- attach_notification ------------------------------------------------------------
IAttachN(g, x) ==
    /\ gd[g] = NoGuard
    /\ IF Cardinality(rset) >= rcap THEN      \* FileDescriptorSet::add tests the capacity first
           /\ Attach(g, AttN(x), ReactorFullError, cnt, MapSize)
           /\ UNCHANGED ivars
       ELSE IF x \in rset THEN
           /\ Attach(g, AttN(x), "AlreadyAttached", cnt, MapSize)
           /\ UNCHANGED ivars
       ELSE IF cnt = cap THEN          \* reactor guard is created and dropped again
           /\ Attach(g, AttN(x), "InsufficientCapacity", cnt, MapSize)
           /\ UNCHANGED ivars
       ELSE
           /\ Attach(g, AttN(x), "ok", cnt + 1, MapSize)
           /\ rset' = rset \cup {x}
           /\ cnt' = cnt + 1
           /\ gd' = [gd EXCEPT ![g] = [k |-> "n", fd |-> x, idx |-> 0]]
           /\ UNCHANGED <<dq, nidx, a2d, d2a, todo, rcap>>

\* ---- attach_deadline ----------------------------------------------------------------
IAttachD(g, x, c) ==
    /\ gd[g] = NoGuard
    /\ IF Cardinality(rset) >= rcap THEN      \* FileDescriptorSet::add tests the capacity first
           /\ Attach(g, AttD(x, c), ReactorFullError, cnt, MapSize)
           /\ UNCHANGED ivars
       ELSE IF x \in rset THEN
           /\ Attach(g, AttD(x, c), "AlreadyAttached", cnt, MapSize)
           /\ UNCHANGED ivars
       ELSE IF cnt = cap THEN
           \* the deadline queue index is consumed; with InsertBeforeCheck the map entries stay
           /\ nidx' = nidx + 1
           /\ a2d' = IF InsertBeforeCheck THEN Put(a2d, x, nidx) ELSE a2d
           /\ d2a' = IF InsertBeforeCheck THEN Put(d2a, nidx, x) ELSE d2a
           /\ Attach(g, AttD(x, c), "InsufficientCapacity", cnt, Cardinality(a2d') + Cardinality(d2a'))
           /\ UNCHANGED <<rset, dq, cnt, gd, todo, rcap>>
       ELSE
           /\ nidx' = nidx + 1
           /\ a2d' = Put(a2d, x, nidx)
           /\ d2a' = Put(d2a, nidx, x)
           /\ dq' = dq \cup {[idx |-> nidx, c |-> c]}
           /\ rset' = rset \cup {x}
           /\ cnt' = cnt + 1
           /\ gd' = [gd EXCEPT ![g] = [k |-> "d", fd |-> x, idx |-> nidx]]
           /\ Attach(g, AttD(x, c), "ok", cnt + 1, Cardinality(a2d') + Cardinality(d2a'))
           /\ UNCHANGED <<todo, rcap>>

\* ---- attach_interval ----------------------------------------------------------------
IAttachI(g, c) ==
    /\ gd[g] = NoGuard
    /\ nidx' = nidx + 1
    /\ IF cnt = cap THEN
           /\ Attach(g, AttI(c), "InsufficientCapacity", cnt, MapSize)
           /\ UNCHANGED <<rset, dq, a2d, d2a, cnt, gd, todo, rcap>>
       ELSE
           /\ Attach(g, AttI(c), "ok", cnt + 1, MapSize)
           /\ dq' = dq \cup {[idx |-> nidx, c |-> c]}
           /\ cnt' = cnt + 1
           /\ gd' = [gd EXCEPT ![g] = [k |-> "i", fd |-> 0, idx |-> nidx]]
           /\ UNCHANGED <<rset, a2d, d2a, todo, rcap>>

\* ---- WaitSetGuard::drop -------------------------------------------------------------
IDrop(g) ==
    /\ gd[g] # NoGuard
    /\ LET w == gd[g] IN
       /\ a2d' = IF w.k = "d" /\ DropRemovesMaps THEN Del(a2d, w.fd) ELSE a2d
       /\ d2a' = IF w.k = "d" /\ DropRemovesMaps THEN Del(d2a, w.idx) ELSE d2a
       /\ cnt' = cnt - 1
       /\ rset' = IF w.k \in {"n", "d"} THEN rset \ {w.fd} ELSE rset
       /\ dq' = {q \in dq : ~(w.k \in {"d", "i"} /\ q.idx = w.idx)}
       /\ gd' = [gd EXCEPT ![g] = NoGuard]
       /\ DropGuard(g, cnt', Cardinality(a2d') + Cardinality(d2a'))
    /\ UNCHANGED <<nidx, todo, rcap>>

\* ---- environment --------------------------------------------------------------------
INotify(s) == Notify(s) /\ UNCHANGED ivars
IDrain(x) == pending[x] /\ Drain(x) /\ UNCHANGED ivars
IRecreate(x) == Recreate(x) /\ UNCHANGED ivars       \* same descriptor, new object
INotifyIn(s) == NotifyIn(s) /\ UNCHANGED ivars

\* ---- wait_and_process_once_with_timeout ---------------------------------------------
\* callback ids:  <<"N", fd, 0>>  <<"D", fd, idx>>  <<"T", 0, idx>>
FromGuard(w) == CASE w.k = "n" -> <<"N", w.fd, 0>>
                  [] w.k = "d" -> <<"D", w.fd, w.idx>>
                  [] w.k = "i" -> <<"T", 0, w.idx>>
                  [] OTHER -> <<"-", 0, 0>>
HasEventFrom(id, w) ==
    IF w.k = "d" THEN id[1] = "N" /\ id[2] = w.fd
    ELSE id = FromGuard(w)
HasMissedDeadline(id, w) == id[1] = "D" /\ id = FromGuard(w)

IPBegin ==
    /\ ~proc.on
    /\ PBegin
    /\ IF cnt + fill = 0 THEN todo' = {}      \* NoAttachments
       ELSE
         LET trig == {x \in rset : pending[x]}
             resetIdx == {Get(a2d, x) : x \in {y \in trig : Has(a2d, y)}}
             short == {q.idx : q \in {r \in dq : r.c = "s"}}
             sure == short \ resetIdx
         IN \E opt \in SUBSET (short \cap resetIdx) :      \* reset, then 1 ns may or may not pass again
              todo' = {IF Has(d2a, i) THEN <<"D", Get(d2a, i), i>> ELSE <<"T", 0, i>> : i \in sure \cup opt}
                      \cup {<<"N", x, 0>> : x \in trig}
    /\ UNCHANGED <<rset, dq, nidx, a2d, d2a, cnt, gd, rcap>>

EvGuards(id) == {g \in G : gd[g] # NoGuard /\ HasEventFrom(id, gd[g])}
DlGuards(id) == {g \in G : gd[g] # NoGuard /\ HasMissedDeadline(id, gd[g])}

ICbId(id) ==
    /\ proc.on
    /\ id \in todo
    /\ todo' = todo \ {id}
    /\ Cb(EvGuards(id), DlGuards(id))
    /\ UNCHANGED <<rset, dq, nidx, a2d, d2a, cnt, gd, rcap>>

ICb ==
    /\ proc.on
    /\ \E id \in todo :
          /\ todo' = todo \ {id}
          /\ Cb(EvGuards(id), DlGuards(id))
    /\ UNCHANGED <<rset, dq, nidx, a2d, d2a, cnt, gd, rcap>>

IPEnd ==
    /\ proc.on
    /\ \/ /\ cnt + fill = 0
          /\ PEnd("NoAttachments", 0)
       \/ /\ cnt + fill # 0 /\ todo = {}
          /\ PEnd("AllEventsHandled", 0)
       \/ /\ cnt + fill # 0 /\ proc.ncb > 0             \* the last callback returned Stop
          /\ PEnd("StopRequest", proc.ncb)
    /\ todo' = {}
    /\ UNCHANGED <<rset, dq, nidx, a2d, d2a, cnt, gd, rcap>>

INext ==
    \/ \E g \in G, x \in L : IAttachN(g, x)
    \/ \E g \in G, x \in L, c \in Classes : IAttachD(g, x, c)
    \/ \E g \in G, c \in Classes : IAttachI(g, c)
    \/ \E g \in G : IDrop(g)
    \/ \E s \in S : INotify(s) \/ INotifyIn(s)
    \/ \E x \in L : IDrain(x) \/ IRecreate(x)
    \/ IPBegin \/ ICb \/ IPEnd

ISpec == IInit /\ [][INext]_allvars

IdxBound == nidx <= MaxIdx

\* the deadline indices only matter up to equality: the view renumbers nothing but drops `obs`
\* details that are irrelevant for the successor relation
ImplTypeOK ==
    /\ cnt = NumAtt(att)
    /\ \A g \in G : (gd[g] = NoGuard) = (att[g] = None)
    /\ rset = {att[g].l : g \in {h \in G : att[h].k \in {"n", "d"}}}
=============================================================================
