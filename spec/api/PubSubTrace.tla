---------------------------- MODULE PubSubTrace ----------------------------
(* Trace specification: explains the ndjson traces recorded by drv-pubsub   *)
(* from real Publisher / Subscriber objects by the actions of PubSub.tla.   *)
(* Every record is one completed API call with its arguments and results    *)
(* (or one sub-step of a send whose unable-to-deliver handler ran calls of  *)
(* its own: send_begin, bp = handler entered, the nested calls, bp_ret =    *)
(* handler returned, send_end; the deliveries in between are not observable *)
(* and explained by silent Deliver steps);                                  *)
(* `bad` lists the ids of held samples / loans whose bytes no longer equal  *)
(* their canary or whose memory is no longer mapped (C02: must stay empty). *)
(* The specification follows the documentation; the two known deviations of *)
(* the code are accepted as TAGGED alternatives (kd, see PubSub.tla         *)
(* AllowKnown) and printed per explanation at the end of every run.         *)
(* Choices the property leaves open (which eligible connection is served,   *)
(* which free chunk is handed out, which borrow-free expired connection is  *)
(* sacrificed) are accepted whatever the code chose.                        *)
EXTENDS PubSub, TraceIO

VARIABLE l
tvars == <<vars, l>>

DummyQ == [maxpubs |-> 1, maxsubs |-> 1, bufmax |-> 1, hist |-> 0, borrow |-> 1, loan |-> 1,
           overflow |-> FALSE, strategy |-> "discard", expbuf |-> 64]

TraceInit ==
    /\ l = 1
    /\ InitWith(DummyQ)
    /\ TraceRegInit

QosOf(e) == [maxpubs |-> e.maxpubs, maxsubs |-> e.maxsubs, bufmax |-> e.bufmax, hist |-> e.hist,
             borrow |-> e.borrow, loan |-> e.loan, overflow |-> (e.overflow = 1),
             strategy |-> e.strategy, expbuf |-> e.expbuf]

Clean(e) == e.bad = <<>>

Op(e) ==
    CASE e.a = "create_pub"  -> CreatePublisher(e.p, e.n, e.deg) /\ out'.r = e.r
      [] e.a = "drop_pub"    -> DropPublisher(e.p)
      [] e.a = "create_sub"  -> CreateSubscriber(e.s, e.buf, e.req, e.deg) /\ out'.r = e.r
      [] e.a = "drop_sub"    -> DropSubscriber(e.s)
      [] e.a = "abandon_sub" -> AbandonSubscriber(e.s)
      [] e.a = "loan"        -> Loan(e.p, e.c) /\ out'.r = e.r /\ out'.id = e.id
      [] e.a = "drop_loan"   -> DropLoan(e.p, e.id)
      [] e.a = "probe"       -> ProbeLoans(e.p, e.cs) /\ out'.cnt = e.cnt /\ out'.r = e.r
      [] e.a = "update_pub"  -> UpdatePub(e.p) /\ out'.r = e.r
      [] e.a = "send"        -> Send(e.p, e.id) /\ out'.r = e.r /\ out'.n = e.n /\ out'.blk = e.blk
      [] e.a = "send_begin"  -> SendBegin(e.p, e.id)
      [] e.a = "bp"          -> BpCall(e.s) /\ out'.ri = e.ri
      [] e.a = "bp_ret"      -> BpRet(e.act)
      [] e.a = "send_end"    -> SendEnd /\ out'.p = e.p /\ out'.id = e.id /\ out'.r = e.r /\ out'.n = e.n
                                /\ out'.blk = e.blk
      [] e.a = "recv"        -> /\ IF e.r = "some" THEN Receive(e.s, e.p) ELSE \E p \in PubIds : Receive(e.s, p)
                                /\ out'.r = e.r /\ out'.p = e.p /\ out'.id = e.id
                                /\ e.cok = 1                        \* byte-identical to what was written
      [] e.a = "drop_sample" -> DropSample(e.s, e.id)
      [] e.a = "update_sub"  -> UpdateSub(e.s) /\ out'.r = e.r
      [] e.a = "has"         -> HasSamples(e.s) /\ out'.r = e.r /\ out'.v = e.v
      [] e.a = "panic"       -> e.cls = "expired-borrowed" /\ e.at \in {"recv", "has", "update_sub"} /\ PanicExpiredBorrows(e.s)
      [] e.a = "break_seg"   -> BreakSeg(e.p)
      [] e.a = "occupy"      -> Occupy(e.p, e.s)
      [] OTHER -> FALSE

Consume ==
    /\ l <= NRec
    /\ l' = l + 1
    /\ LET e == Rec[l] IN
       CASE e.k = "reset" -> QosOK(QosOf(e)) /\ Reset(QosOf(e))
         [] e.k = "op"    -> Clean(e) /\ Op(e)
         [] e.k = "end"   -> (Idle \/ out.a = "panic") /\ UNCHANGED vars /\ PrintT(<<"KD_PATH", l, kd>>)   \* one line per explanation of the run
         [] OTHER -> FALSE

\* deliveries of a split send that need no handler call leave no record (bounded: snd.pend shrinks)
Silent == l <= NRec /\ (\E s \in SubIds : Deliver(s)) /\ UNCHANGED l

\* overlapping calls of concurrent executions: alternatives, see TraceIO.tla
AltJump == IsAltRec(l) /\ l' \in AltTargets(l) /\ UNCHANGED vars

TraceNext == Consume \/ AltJump \/ Silent
TraceSpec == TraceInit /\ [][TraceNext]_tvars

Progress == TraceProgress(l)
Accepted == TraceAccepted
=============================================================================
