SPECIFICATION MCSpec
CONSTANTS
 WIds = {1, 2}
 RIds = {1, 2, 3}
 NIds = {1, 2, 3}
 KeyIds = {1, 2, 3}
 CfgSet <- CfgFault
 Univ <- FaultUniv
 Faulty = "second_handle"
CONSTRAINT Bounded
CHECK_DEADLOCK FALSE
INVARIANTS TypeOK OneWriter OneHandlePerKey InsideSucceeds BeyondRejected RefusalHasNoSideEffect CountsExact ReadersBounded NodesBounded LimitAdjusted ReadIsSomeWrite Monotone ReadSeesLatest FailureLeavesFirstUndisturbed
