---------------------------- MODULE EventLimitsGen ----------------------------
(* Generation direction for EventLimits.tla, see BlackboardGen.tla.             *)
EXTENDS EventLimits, Json

CONSTANT GenLen
VARIABLE prog

Step == [a |-> last'.a, o |-> last'.o, n |-> last'.n, x |-> last'.x, y |-> last'.y, x3 |-> last'.x3, x4 |-> last'.x4]
GenInit == MCInit /\ prog = <<>>
GenNext == MCNext /\ prog' = Append(prog, Step)
GenSpec == GenInit /\ [][GenNext]_<<vars, prog>>
Emit == Len(prog) = GenLen => PrintT(<<"BEHAVIOUR", ToJson([cfg |-> cfg, steps |-> prog])>>)
=============================================================================
