---- MODULE MC_DropOrder ----
(* All reference-count states of all object graphs (VIEW without the history) - the clauses depend
   on the state only, so this covers every legal drop order. *)
EXTENDS DropOrderGen
====
