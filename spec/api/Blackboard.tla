----------------------------- MODULE Blackboard -----------------------------
(***************************************************************************)
(* Port level of the blackboard pattern: property layer of C12 (second     *)
(* half) and of the blackboard limits of C08.                              *)
(*                                                                         *)
(* One service with the keys 1..cfg.nkeys (keys above do not exist),       *)
(* created by node 1 with max_readers = cfg.rreq and max_nodes = cfg.nreq  *)
(* (0 is documented to be adjusted to 1), max_writers is always 1.         *)
(* Objects carry the small program-level ids of the driver:                *)
(*   nodes n (one PortFactory per node), writer ports w, per (w, key) one  *)
(*   EntryHandleMut slot, reader ports r, per (r, key) one EntryHandle.    *)
(*                                                                         *)
(* The actions are OBSERVATION DRIVEN: they take the result the call       *)
(* really had (`res`, values read) and move the state accordingly - a      *)
(* second handle that was granted exists afterwards.  What the property    *)
(* demands is stated by the invariants over the state and the record       *)
(* `last` (the last call: its result, the set `exp` of results the         *)
(* documentation admits in the state before the call, the value read).     *)
(* For model checking MCNext restricts the results to `exp` (the correct   *)
(* implementation) unless the constant Faulty plants a defect (must-fail   *)
(* instances, vacuity guard of the invariants).                            *)
(*                                                                         *)
(* Anchors: port/writer.rs (Writer::new -> add_writer_id, released by the  *)
(* LAST owner of the writer's shared state = port or one of its handles;   *)
(* EntryHandleMut::new -> acquire_producer), port/reader.rs (Reader::drop  *)
(* releases the registry slot at once, handles stay usable),               *)
(* service/builder/blackboard.rs (limits, opener requirements),            *)
(* service/dynamic_config/mod.rs (register_node_id).                       *)
(***************************************************************************)
EXTENDS Naturals, FiniteSets, Sequences, TLC

CONSTANTS WIds, RIds, NIds, KeyIds

MaxWriters == 1

VARIABLES
    cfg,      \* [nkeys, rreq, nreq, reff, neff]: requested limits and the limits the static config reports
    nodes,    \* nodes that hold the service open (node 1 = creator, never closes)
    wport,    \* [WIds -> BOOLEAN]  writer port object alive
    wnode,    \* [WIds -> node | 0] node of a registered writer
    hm,       \* [WIds -> [KeyIds -> "none" | "handle" | "loan"]]  EntryHandleMut / EntryValueUninit
    pend,     \* [WIds -> [KeyIds -> Nat]] version written into an outstanding loan (0 = nothing)
    extra,    \* [KeyIds -> Nat] write handles granted although the slot already held one
    rport,    \* [RIds -> BOOLEAN]
    rnode,    \* [RIds -> node | 0]
    rh,       \* [RIds -> [KeyIds -> BOOLEAN]] EntryHandle alive
    seen,     \* [RIds -> [KeyIds -> Nat]] last version returned by this handle
    val,      \* [KeyIds -> Nat] published version (0 = initial value)
    wrote,    \* [KeyIds -> SUBSET Nat] versions ever published
    nextv,    \* [KeyIds -> Nat] last version number handed to the writer (published or not)
    refd,     \* a create-writer / entry request has been refused in this run
    last,     \* the last call (see L)
    ocnt      \* <<writers, readers, nodes>> the registry of the real service reported after the call

bvars == <<cfg, nodes, wport, wnode, hm, pend, extra, rport, rnode, rh, seen, val, wrote, nextv, refd>>
vars == <<bvars, last, ocnt>>

Eff(x) == IF x = 0 THEN 1 ELSE x
RMax == Eff(cfg.rreq)
NMax == Eff(cfg.nreq)

HasHandle(w) == \E k \in KeyIds : hm[w][k] # "none"
RegW == {w \in WIds : wport[w] \/ HasHandle(w)}       \* registered writers: port or a handle of it alive
RegR == {r \in RIds : rport[r]}
HasRH(r) == \E k \in KeyIds : rh[r][k]
Pinned == {wnode[w] : w \in RegW} \cup {rnode[r] : r \in {q \in RIds : rport[q] \/ HasRH(q)}}
Holders(k) == Cardinality({w \in WIds : hm[w][k] # "none"}) + extra[k]
Counts == <<Cardinality(RegW), Cardinality(RegR), Cardinality(nodes)>>

L(a, o, n, key, x, y, res, exp) ==
    [a |-> a, o |-> o, n |-> n, key |-> key, x |-> x, y |-> y, res |-> res, exp |-> exp,
     v |-> 0, seenb |-> 0, whole |-> TRUE]

InitWith(c) ==
    /\ cfg = c
    /\ nodes = {1}
    /\ wport = [w \in WIds |-> FALSE]
    /\ wnode = [w \in WIds |-> 0]
    /\ hm = [w \in WIds |-> [k \in KeyIds |-> "none"]]
    /\ pend = [w \in WIds |-> [k \in KeyIds |-> 0]]
    /\ extra = [k \in KeyIds |-> 0]
    /\ rport = [r \in RIds |-> FALSE]
    /\ rnode = [r \in RIds |-> 0]
    /\ rh = [r \in RIds |-> [k \in KeyIds |-> FALSE]]
    /\ seen = [r \in RIds |-> [k \in KeyIds |-> 0]]
    /\ val = [k \in KeyIds |-> 0]
    /\ wrote = [k \in KeyIds |-> {0}]
    /\ nextv = [k \in KeyIds |-> 0]
    /\ refd = FALSE
    /\ last = L("reset", 0, 1, 0, 0, 0, "ok", {"ok"})

\* a fresh service (the driver starts a new one for every job)
Reset(c) ==
    /\ cfg' = c
    /\ nodes' = {1}
    /\ wport' = [w \in WIds |-> FALSE]
    /\ wnode' = [w \in WIds |-> 0]
    /\ hm' = [w \in WIds |-> [k \in KeyIds |-> "none"]]
    /\ pend' = [w \in WIds |-> [k \in KeyIds |-> 0]]
    /\ extra' = [k \in KeyIds |-> 0]
    /\ rport' = [r \in RIds |-> FALSE]
    /\ rnode' = [r \in RIds |-> 0]
    /\ rh' = [r \in RIds |-> [k \in KeyIds |-> FALSE]]
    /\ seen' = [r \in RIds |-> [k \in KeyIds |-> 0]]
    /\ val' = [k \in KeyIds |-> 0]
    /\ wrote' = [k \in KeyIds |-> {0}]
    /\ nextv' = [k \in KeyIds |-> 0]
    /\ refd' = FALSE
    /\ last' = L("reset", 0, 1, 0, 0, 0, "ok", {"ok"})

-----------------------------------------------------------------------------
\* nodes: blackboard_opener().max_readers(rq).max_nodes(nq).open()   (0 = requirement not stated)

ExpOpen(rq, nq) ==
    LET e1 == IF rq > RMax THEN {"DoesNotSupportRequestedAmountOfReaders"} ELSE {}
        e2 == IF nq > NMax THEN {"DoesNotSupportRequestedAmountOfNodes"} ELSE {}
        e3 == IF Cardinality(nodes) >= NMax THEN {"ExceedsMaxNumberOfNodes"} ELSE {}
        e == e1 \cup e2 \cup e3
    IN IF e = {} THEN {"ok"} ELSE e      \* which of several applicable refusals is reported is left open

OpenNode(n, rq, nq, res) ==
    /\ n \in NIds \ nodes
    /\ nodes' = IF res = "ok" THEN nodes \cup {n} ELSE nodes
    /\ last' = L("open", 0, n, 0, rq, nq, res, ExpOpen(rq, nq))
    /\ UNCHANGED <<cfg, wport, wnode, hm, pend, extra, rport, rnode, rh, seen, val, wrote, nextv, refd>>

CloseNode(n) ==
    /\ n \in nodes \ {1}
    /\ n \notin Pinned
    /\ nodes' = nodes \ {n}
    /\ last' = L("close", 0, n, 0, 0, 0, "ok", {"ok"})
    /\ UNCHANGED <<cfg, wport, wnode, hm, pend, extra, rport, rnode, rh, seen, val, wrote, nextv, refd>>

-----------------------------------------------------------------------------
\* writer side

ExpCreateWriter == IF Cardinality(RegW) >= MaxWriters THEN {"ExceedsMaxSupportedWriters"} ELSE {"ok"}

CreateWriter(w, n, res) ==
    /\ w \in WIds \ RegW
    /\ n \in nodes
    /\ last' = L("cw", w, n, 0, 0, 0, res, ExpCreateWriter)
    /\ IF res = "ok"
       THEN wport' = [wport EXCEPT ![w] = TRUE] /\ wnode' = [wnode EXCEPT ![w] = n]
       ELSE UNCHANGED <<wport, wnode>>
    /\ refd' = (refd \/ res # "ok")
    /\ UNCHANGED <<cfg, nodes, hm, pend, extra, rport, rnode, rh, seen, val, wrote, nextv>>

\* the registry slot is released by the last owner of the writer's shared state
DropWriter(w, res) ==
    /\ wport[w]
    /\ wport' = [wport EXCEPT ![w] = FALSE]
    /\ wnode' = IF HasHandle(w) THEN wnode ELSE [wnode EXCEPT ![w] = 0]
    /\ last' = L("dw", w, 0, 0, 0, 0, res, {"ok"})
    /\ UNCHANGED <<cfg, nodes, hm, pend, extra, rport, rnode, rh, seen, val, wrote, nextv, refd>>

\* Writer::entry::<T>(&key); ty = 0: the value type of the entry, otherwise another type
ExpWEntry(k, ty) ==
    IF k > cfg.nkeys \/ ty # 0 THEN {"EntryDoesNotExist"}
    ELSE IF Holders(k) > 0 THEN {"HandleAlreadyExists"}
    ELSE {"ok"}

WEntry(w, k, ty, res) ==
    /\ wport[w]
    /\ last' = L("we", w, 0, k, ty, 0, res, ExpWEntry(k, ty))
    /\ IF res = "ok"
       THEN IF hm[w][k] = "none"
            THEN hm' = [hm EXCEPT ![w][k] = "handle"] /\ UNCHANGED extra
            ELSE extra' = [extra EXCEPT ![k] = @ + 1] /\ UNCHANGED hm
       ELSE UNCHANGED <<hm, extra>>
    /\ refd' = (refd \/ res # "ok")
    /\ UNCHANGED <<cfg, nodes, wport, wnode, pend, rport, rnode, rh, seen, val, wrote, nextv>>

\* drop of the EntryHandleMut or of the EntryValueUninit that wraps it
WDrop(w, k, res) ==
    /\ hm[w][k] # "none"
    /\ hm' = [hm EXCEPT ![w][k] = "none"]
    /\ pend' = [pend EXCEPT ![w][k] = 0]
    /\ wnode' = IF wport[w] \/ \E k2 \in KeyIds \ {k} : hm[w][k2] # "none" THEN wnode ELSE [wnode EXCEPT ![w] = 0]
    /\ last' = L("wd", w, 0, k, 0, 0, res, {"ok"})
    /\ UNCHANGED <<cfg, nodes, wport, extra, rport, rnode, rh, seen, val, wrote, nextv, refd>>

Publish(k, v) ==
    /\ val' = [val EXCEPT ![k] = v]
    /\ wrote' = [wrote EXCEPT ![k] = @ \cup {v}]

\* EntryHandleMut::update_with_copy
Update(w, k, v, res) ==
    /\ hm[w][k] = "handle"
    /\ v = nextv[k] + 1
    /\ nextv' = [nextv EXCEPT ![k] = v]
    /\ IF res = "ok" THEN Publish(k, v) ELSE UNCHANGED <<val, wrote>>
    /\ last' = L("upd", w, 0, k, 0, 0, res, {"ok"})
    /\ UNCHANGED <<cfg, nodes, wport, wnode, hm, pend, extra, rport, rnode, rh, seen, refd>>

\* EntryHandleMut::loan_uninit (consumes the handle)
Loan(w, k, res) ==
    /\ hm[w][k] = "handle"
    /\ hm' = [hm EXCEPT ![w][k] = "loan"]
    /\ last' = L("loan", w, 0, k, 0, 0, res, {"ok"})
    /\ UNCHANGED <<cfg, nodes, wport, wnode, pend, extra, rport, rnode, rh, seen, val, wrote, nextv, refd>>

\* EntryValueUninit::value_mut().write(..): nothing is published
LoanWrite(w, k, v, res) ==
    /\ hm[w][k] = "loan"
    /\ v = nextv[k] + 1
    /\ nextv' = [nextv EXCEPT ![k] = v]
    /\ pend' = [pend EXCEPT ![w][k] = v]
    /\ last' = L("lw", w, 0, k, 0, 0, res, {"ok"})
    /\ UNCHANGED <<cfg, nodes, wport, wnode, hm, extra, rport, rnode, rh, seen, val, wrote, refd>>

\* EntryValueUninit::assume_init_and_update (returns the handle)
Commit(w, k, res) ==
    /\ hm[w][k] = "loan"
    /\ pend[w][k] # 0
    /\ hm' = [hm EXCEPT ![w][k] = "handle"]
    /\ pend' = [pend EXCEPT ![w][k] = 0]
    /\ IF res = "ok" THEN Publish(k, pend[w][k]) ELSE UNCHANGED <<val, wrote>>
    /\ last' = L("commit", w, 0, k, 0, 0, res, {"ok"})
    /\ UNCHANGED <<cfg, nodes, wport, wnode, extra, rport, rnode, rh, seen, nextv, refd>>

\* EntryValueUninit::update_with_copy (returns the handle)
CommitCopy(w, k, v, res) ==
    /\ hm[w][k] = "loan"
    /\ v = nextv[k] + 1
    /\ nextv' = [nextv EXCEPT ![k] = v]
    /\ hm' = [hm EXCEPT ![w][k] = "handle"]
    /\ pend' = [pend EXCEPT ![w][k] = 0]
    /\ IF res = "ok" THEN Publish(k, v) ELSE UNCHANGED <<val, wrote>>
    /\ last' = L("ccopy", w, 0, k, 0, 0, res, {"ok"})
    /\ UNCHANGED <<cfg, nodes, wport, wnode, extra, rport, rnode, rh, seen, refd>>

\* EntryValueUninit::discard (returns the handle, whatever was written stays unpublished)
Discard(w, k, res) ==
    /\ hm[w][k] = "loan"
    /\ hm' = [hm EXCEPT ![w][k] = "handle"]
    /\ pend' = [pend EXCEPT ![w][k] = 0]
    /\ last' = L("disc", w, 0, k, 0, 0, res, {"ok"})
    /\ UNCHANGED <<cfg, nodes, wport, wnode, extra, rport, rnode, rh, seen, val, wrote, nextv, refd>>

-----------------------------------------------------------------------------
\* reader side

ExpCreateReader == IF Cardinality(RegR) >= RMax THEN {"ExceedsMaxSupportedReaders"} ELSE {"ok"}

CreateReader(r, n, res) ==
    /\ r \in RIds
    /\ ~rport[r] /\ ~HasRH(r)
    /\ n \in nodes
    /\ last' = L("cr", r, n, 0, 0, 0, res, ExpCreateReader)
    /\ IF res = "ok"
       THEN rport' = [rport EXCEPT ![r] = TRUE] /\ rnode' = [rnode EXCEPT ![r] = n]
       ELSE UNCHANGED <<rport, rnode>>
    /\ UNCHANGED <<cfg, nodes, wport, wnode, hm, pend, extra, rh, seen, val, wrote, nextv, refd>>

\* Reader::drop releases the registry slot at once; its entry handles stay usable
DropReader(r, res) ==
    /\ rport[r]
    /\ rport' = [rport EXCEPT ![r] = FALSE]
    /\ rnode' = IF HasRH(r) THEN rnode ELSE [rnode EXCEPT ![r] = 0]
    /\ last' = L("dr", r, 0, 0, 0, 0, res, {"ok"})
    /\ UNCHANGED <<cfg, nodes, wport, wnode, hm, pend, extra, rh, seen, val, wrote, nextv, refd>>

ExpREntry(k, ty) == IF k > cfg.nkeys \/ ty # 0 THEN {"EntryDoesNotExist"} ELSE {"ok"}

REntry(r, k, ty, res) ==
    /\ rport[r] /\ ~rh[r][k]
    /\ last' = L("re", r, 0, k, ty, 0, res, ExpREntry(k, ty))
    /\ IF res = "ok"
       THEN rh' = [rh EXCEPT ![r][k] = TRUE] /\ seen' = [seen EXCEPT ![r][k] = 0]
       ELSE UNCHANGED <<rh, seen>>
    /\ UNCHANGED <<cfg, nodes, wport, wnode, hm, pend, extra, rport, rnode, val, wrote, nextv, refd>>

RDrop(r, k, res) ==
    /\ rh[r][k]
    /\ rh' = [rh EXCEPT ![r][k] = FALSE]
    /\ rnode' = IF rport[r] \/ \E k2 \in KeyIds \ {k} : rh[r][k2] THEN rnode ELSE [rnode EXCEPT ![r] = 0]
    /\ last' = L("rd", r, 0, k, 0, 0, res, {"ok"})
    /\ UNCHANGED <<cfg, nodes, wport, wnode, hm, pend, extra, rport, seen, val, wrote, nextv, refd>>

\* EntryHandle::get: decoded payload = (key kk, version v, every byte consistent)
Get(r, k, v, kk, whole, res) ==
    /\ rh[r][k]
    /\ seen' = [seen EXCEPT ![r][k] = v]
    /\ last' = [L("get", r, 0, k, 0, 0, res, {"ok"}) EXCEPT !.v = v, !.seenb = seen[r][k],
                                                            !.whole = (whole /\ kk = k)]
    /\ UNCHANGED <<cfg, nodes, wport, wnode, hm, pend, extra, rport, rnode, rh, val, wrote, nextv, refd>>

-----------------------------------------------------------------------------
\* what C12 (port level) and C08 (blackboard limits) demand

TypeOK ==
    /\ nodes \subseteq NIds /\ 1 \in nodes
    /\ \A w \in WIds : wport[w] \in BOOLEAN /\ \A k \in KeyIds : hm[w][k] \in {"none", "handle", "loan"}
    /\ \A r \in RIds : rport[r] \in BOOLEAN
    /\ \A k \in KeyIds : val[k] \in wrote[k] /\ val[k] <= nextv[k]

\* C12: at most one writer port ...
OneWriter == Cardinality(RegW) <= MaxWriters
\* ... and at most one write handle per key exist at a time
OneHandlePerKey == \A k \in KeyIds : Holders(k) <= 1
\* C12 / C08: every call returns what the documentation admits in the state it was made in:
\* inside a limit it succeeds, beyond it is rejected with the specific error
InsideSucceeds == last.exp = {"ok"} => last.res = "ok"
BeyondRejected == "ok" \notin last.exp => last.res \in last.exp
\* a rejected call has no side effect: the registry of the real service is what it was
RefusalHasNoSideEffect == last.res # "ok" => ocnt = Counts
CountsExact == ocnt = Counts
ReadersBounded == Cardinality(RegR) <= RMax
NodesBounded == Cardinality(nodes) <= NMax
\* max_readers / max_nodes = 0 are adjusted to 1, everything else is taken as requested
LimitAdjusted == cfg.reff = RMax /\ cfg.neff = NMax
\* C12: a read returns a value that was written in one piece and published ...
ReadIsSomeWrite == last.a = "get" => (last.res = "ok" /\ last.whole /\ last.v \in wrote[last.key])
\* ... and never goes back behind what this handle has already returned
Monotone == last.a = "get" => last.v >= last.seenb
\* sequential history: the read follows the last completed update, so it returns that update
\* (an unpublished loan is invisible)
ReadSeesLatest == last.a = "get" => last.v = val[last.key]
\* creating a second one fails without disturbing the first: once a request has been refused the
\* holder can still update, readers see the update, nothing else changed
FailureLeavesFirstUndisturbed ==
    refd => /\ ocnt = Counts
            /\ last.a \in {"upd", "loan", "lw", "commit", "ccopy", "disc", "wd", "dw"} => last.res = "ok"
            /\ last.a = "get" => (last.res = "ok" /\ last.whole /\ last.v = val[last.key])

-----------------------------------------------------------------------------
\* model checking: the documented implementation (results within exp), optionally with a planted defect

CONSTANTS CfgSet,     \* configurations to start from
          Univ(_),    \* configuration -> [W, R, N, K, Q, maxv]: ids / requirement values / versions explored
          Faulty      \* "none" or the name of a planted defect

MCInit == \E c \in CfgSet : InitWith(c) /\ ocnt = <<0, 0, 1>>

Ok == {"ok"}
WEntryResults(k, ty) == IF Faulty = "second_handle" THEN ExpWEntry(k, ty) \cup Ok ELSE ExpWEntry(k, ty)
CreateWriterResults == IF Faulty = "second_writer" THEN ExpCreateWriter \cup Ok ELSE ExpCreateWriter
CreateReaderResults ==
    IF Faulty = "reader_gt" /\ Cardinality(RegR) = RMax THEN Ok
    ELSE IF Faulty = "wrong_variant" /\ ExpCreateReader # Ok THEN {"ExceedsMaxSupportedWriters"}
    ELSE ExpCreateReader
GetValues(k) == IF Faulty = "stale_read" THEN wrote[k] ELSE {val[k]}
Leftover == IF Faulty = "leftover" /\ last'.res # "ok" /\ last'.a = "cw" THEN 1 ELSE 0

Obs == ocnt' = <<Counts'[1] + Leftover, Counts'[2], Counts'[3]>>
UU == Univ(cfg)
Refusals(S) == S \ Ok

MCOpenOk == \E n \in UU.N, rq \in UU.Q, nq \in UU.Q : "ok" \in ExpOpen(rq, nq) /\ OpenNode(n, rq, nq, "ok") /\ Obs
MCOpenRefused == \E n \in UU.N, rq \in UU.Q, nq \in UU.Q : \E res \in Refusals(ExpOpen(rq, nq)) : OpenNode(n, rq, nq, res) /\ Obs
MCClose == \E n \in UU.N : CloseNode(n) /\ Obs
MCCreateWriterOk == \E w \in UU.W, n \in UU.N : "ok" \in CreateWriterResults /\ CreateWriter(w, n, "ok") /\ Obs
MCCreateWriterRefused == \E w \in UU.W, n \in UU.N : \E res \in Refusals(CreateWriterResults) : CreateWriter(w, n, res) /\ Obs
MCDropWriter == \E w \in UU.W : DropWriter(w, "ok") /\ Obs
MCWEntryOk == \E w \in UU.W, k \in UU.K, ty \in {0, 1} : "ok" \in WEntryResults(k, ty) /\ WEntry(w, k, ty, "ok") /\ Obs
MCWEntryRefused == \E w \in UU.W, k \in UU.K, ty \in {0, 1} : \E res \in Refusals(WEntryResults(k, ty)) : WEntry(w, k, ty, res) /\ Obs
MCWDrop == \E w \in UU.W, k \in UU.K : WDrop(w, k, "ok") /\ Obs
MCUpdate == \E w \in UU.W, k \in UU.K : Update(w, k, nextv[k] + 1, "ok") /\ Obs
MCLoan == \E w \in UU.W, k \in UU.K : Loan(w, k, "ok") /\ Obs
MCLoanWrite == \E w \in UU.W, k \in UU.K : LoanWrite(w, k, nextv[k] + 1, "ok") /\ Obs
MCCommit == \E w \in UU.W, k \in UU.K : Commit(w, k, "ok") /\ Obs
MCCommitCopy == \E w \in UU.W, k \in UU.K : CommitCopy(w, k, nextv[k] + 1, "ok") /\ Obs
MCDiscard == \E w \in UU.W, k \in UU.K : Discard(w, k, "ok") /\ Obs
MCCreateReaderOk == \E r \in UU.R, n \in UU.N : "ok" \in CreateReaderResults /\ CreateReader(r, n, "ok") /\ Obs
MCCreateReaderRefused == \E r \in UU.R, n \in UU.N : \E res \in Refusals(CreateReaderResults) : CreateReader(r, n, res) /\ Obs
MCDropReader == \E r \in UU.R : DropReader(r, "ok") /\ Obs
MCREntryOk == \E r \in UU.R, k \in UU.K : REntry(r, k, 0, "ok") /\ "ok" \in ExpREntry(k, 0) /\ Obs
MCREntryRefused == \E r \in UU.R, k \in UU.K, ty \in {0, 1} : \E res \in Refusals(ExpREntry(k, ty)) : REntry(r, k, ty, res) /\ Obs
MCRDrop == \E r \in UU.R, k \in UU.K : RDrop(r, k, "ok") /\ Obs
MCGet == \E r \in UU.R, k \in UU.K : \E v \in GetValues(k) : Get(r, k, v, k, TRUE, "ok") /\ Obs

MCNext ==
    \/ MCOpenOk \/ MCOpenRefused \/ MCClose
    \/ MCCreateWriterOk \/ MCCreateWriterRefused \/ MCDropWriter
    \/ MCWEntryOk \/ MCWEntryRefused \/ MCWDrop
    \/ MCUpdate \/ MCLoan \/ MCLoanWrite \/ MCCommit \/ MCCommitCopy \/ MCDiscard
    \/ MCCreateReaderOk \/ MCCreateReaderRefused \/ MCDropReader
    \/ MCREntryOk \/ MCREntryRefused \/ MCRDrop \/ MCGet
MCSpec == MCInit /\ [][MCNext]_vars

Bounded == \A k \in KeyIds : nextv[k] <= Univ(cfg).maxv
\* the fingerprint keeps everything the invariants read; the arguments of the last call that only
\* the generator needs (object / node ids, requirement values) are left out
MCView == <<bvars, ocnt, last.a, last.res, last.exp, last.key, last.v, last.seenb, last.whole>>
=============================================================================
