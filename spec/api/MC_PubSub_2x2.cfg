SPECIFICATION MCSpec
CONSTANTS
 PubIds = {1, 2}
 SubIds = {1, 2}
 Q <- QV
 BufChoices = {1, 2}
 ReqChoices = {0, 1}
 NChunks = 9
 MaxIds = 3
 AllowKnown <- FalseValue
CHECK_DEADLOCK FALSE
VIEW SysView
INVARIANTS TypeOK Order LossOverflow LossNoOverflow Recipients FaultyPairQuiet RefExact FreeIffZero ChunkUnique NoLeak Conservation ChunksSuffice UsedBound CqFits LoanInside LimitsRespected
PROPERTIES HasSamplesIff BeyondUnchanged
