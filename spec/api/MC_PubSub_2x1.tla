---- MODULE MC_PubSub_2x1 ----
(* Stand-alone 2 publishers x 1 subscriber instance without safe overflow (retry-then-fail).       *)
(* NChunks = maxsubs*(bufmax+borrow)+hist+loan = 4 at the pinned commit; the checks read it from   *)
(* the running code instead.                                                                       *)
EXTENDS PubSub
QV == [maxpubs |-> 2, maxsubs |-> 1, bufmax |-> 1, hist |-> 1, borrow |-> 1, loan |-> 1, overflow |-> FALSE, strategy |-> "retry_fail", expbuf |-> 64]
====
