---- MODULE MC_WaitSet_q ----
EXTENDS WaitSetGen
====
