SPECIFICATION TraceSpec
CONSTANTS
 NL = 4
 NG = 6
CONSTRAINT Progress
POSTCONDITION Accepted
CHECK_DEADLOCK FALSE
INVARIANTS NeverDetached Exact NothingLost AttachRefusedCleanly
