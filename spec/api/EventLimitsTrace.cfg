SPECIFICATION TraceSpec
CONSTANTS
 FIds = {1, 2, 3, 4, 5, 6}
 LIds = {1, 2, 3, 4, 5, 6}
 NIds = {1, 2, 3, 4, 5, 6}
 CfgSet = {}
 Univ <- NoUniv
 Faulty = "none"
CONSTRAINT Progress
POSTCONDITION Accepted
CHECK_DEADLOCK FALSE
INVARIANTS NotifiersBounded ListenersBounded NodesBounded LimitAdjusted InsideSucceeds BeyondRejected RefusalHasNoSideEffect CountsExact NotifyReachesAll Delivered NoPhantomEvent TypeOK
