----------------------------- MODULE ReqResGen -----------------------------
(***************************************************************************)
(* Generation direction (DESIGN.md 2.2): TLC produces programs (sequences  *)
(* of API calls) for drv-reqres                                            *)
(*   - random behaviours (`-simulate`, printed when GenLen calls are made) *)
(*   - witnesses of trap conditions aimed at channel reuse and at limit    *)
(*     saturation (breadth-first search; VIEW hides the history so that    *)
(*     every model state is expanded once and carries one path to it).     *)
(* The driver numbers requests / responses exactly like the model (on      *)
(* success only), therefore the steps can name the objects.                *)
(***************************************************************************)
EXTENDS ReqRes, Json

CONSTANTS GenLen,      \* number of API calls of a behaviour
          GenLean,     \* TRUE: only the calls needed to steer (witness search)
          GenMinimal,  \* TRUE: copy API only, the client never looks at responses (formula search)
          GenDeath,    \* TRUE: the lean call set also drops servers (witnesses of expired connections)
          WitnessMax   \* witnesses printed per trap and worker

VARIABLE hist
gvars == <<vars, hist>>
gview == view

Step(a, c, s, n, j) == [a |-> a, c |-> c, s |-> s, n |-> n, j |-> j, h |-> 0]
G(a, c, s, n, j, A) == A /\ hist' = Append(hist, Step(a, c, s, n, j))

RegInit == /\ TLCSet(11, 0) /\ TLCSet(12, 0) /\ TLCSet(13, 0) /\ TLCSet(14, 0)
           /\ TLCSet(15, 0) /\ TLCSet(16, 0) /\ TLCSet(17, 0) /\ TLCSet(18, 0)

\* lean call set: a disconnect hint is only of interest on a channel that a request / active request of an
\* EARLIER owner of that channel still refers to
HintUseful(c, n) ==
    \E p \in pend[c] : p.n = n /\ \E s \in Servers :
        /\ rst[s][c][p.ch] = [n |-> n, hint |-> FALSE]
        /\ \/ \E a \in areq[s] : a.c = c /\ a.ch = p.ch /\ a.n < n
           \/ \E e \in Range(reqq[c][s]) : e.ch = p.ch /\ e.n < n
GenInit == Init /\ hist = <<>> /\ RegInit

ClientCalls(c) ==
    \/ G("CreateClient", c, 0, 0, 0, CreateClient(c))
    \/ G("SendCopy", c, 0, 0, 0, SendCopy(c))
    \/ \E n \in 1..nextn[c] : G("DropPending", c, 0, n, 0, DropPending(c, n))
    \/ /\ ~GenMinimal
       /\ \/ G("LoanRequest", c, 0, 0, 0, LoanRequest(c))
          \/ \E n \in 1..nextn[c] :
               \/ G("SendRequest", c, 0, n, 0, SendRequest(c, n))
               \/ G("DropRequest", c, 0, n, 0, DropRequest(c, n))
               \/ G("ReceiveResponse", c, 0, n, 0, ReceiveResponse(c, n))
          \/ \E r \in held[c] : G("DropResponse", c, r.s, r.n, r.j, DropResponse(c, r.s, r.n, r.j))
          \/ \E n \in 1..nextn[c] : (GenLean => HintUseful(c, n)) /\ G("DisconnectHint", c, 0, n, 0, DisconnectHint(c, n))
    \/ /\ ~GenLean
       /\ \/ G("DropClient", c, 0, 0, 0, DropClient(c))
          \/ G("UpdateClient", c, 0, 0, 0, UpdateClient(c))
          \/ G("ProbeRequestLoans", c, 0, 0, 0, ProbeRequestLoans(c))
          \/ \E n \in 1..nextn[c] :
               \/ G("IsConnectedP", c, 0, n, 0, IsConnectedP(c, n))
               \/ G("HasResponse", c, 0, n, 0, HasResponse(c, n))

ServerCalls(s) ==
    \/ G("CreateServer", 0, s, 0, 0, CreateServer(s))
    \/ G("ReceiveRequest", 0, s, 0, 0, ReceiveRequest(s))
    \/ \E a \in areq[s] :
         \/ G("SendCopyResponse", a.c, s, a.n, 0, SendCopyResponse(s, a.c, a.n))
         \/ G("DropActive", a.c, s, a.n, 0, DropActive(s, a.c, a.n))
    \/ (GenLean /\ GenDeath) /\ G("DropServer", 0, s, 0, 0, DropServer(s))
    \/ /\ ~GenLean
       /\ \/ G("DropServer", 0, s, 0, 0, DropServer(s))
          \/ G("UpdateServer", 0, s, 0, 0, UpdateServer(s))
          \/ G("HasRequests", 0, s, 0, 0, HasRequests(s))
          \/ \E a \in areq[s] :
               \/ G("LoanResponse", a.c, s, a.n, 0, LoanResponse(s, a.c, a.n))
               \/ G("IsConnectedA", a.c, s, a.n, 0, IsConnectedA(s, a.c, a.n))
               \/ G("HasDisconnectHint", a.c, s, a.n, 0, HasDisconnectHint(s, a.c, a.n))
               \/ G("ProbeResponseLoans", a.c, s, a.n, 0, ProbeResponseLoans(s, a.c, a.n))
          \/ \E l \in rloans[s] :
               \/ G("SendResponse", l.c, s, l.n, l.j, SendResponse(s, l.c, l.n, l.j))
               \/ G("DropResponseLoan", l.c, s, l.n, l.j, DropResponseLoan(s, l.c, l.n, l.j))

GenNext ==
    /\ Len(hist) < GenLen
    /\ \/ (Internal \/ ImplicitUpdate) /\ UNCHANGED hist
       \/ \E c \in Clients : ClientCalls(c)
       \/ \E s \in Servers : ServerCalls(s)
GenSpec == GenInit /\ [][GenNext]_gvars

\* ---- random behaviours: printed once, when complete -------------------------------------------
Behaviour == Len(hist) < GenLen \/ PrintT(<<"BEHAVIOUR", ToJson(hist)>>)

\* ---- witnesses -----------------------------------------------------------------------------------
Emit(reg, tag, info) ==
    IF TLCGet(reg) < WitnessMax
    THEN PrintT(<<"WITNESS", tag, ToJson([hist |-> hist, info |-> info])>>) /\ TLCSet(reg, TLCGet(reg) + 1)
    ELSE TRUE

\* request A's pending response is gone, the server still holds active request A (and may send
\* at any time), and request B of the same client now owns A's channel
ReuseWithLateSender ==
    \E s \in Servers : \E a \in areq[s] : \E p \in pend[a.c] :
        /\ p.ch = a.ch /\ p.n > a.n
        \* B reached the server as well (so that the tail can answer B, too)
        /\ \/ \E e \in Range(reqq[a.c][s]) : e.n = p.n
           \/ \E b \in areq[s] : b.c = a.c /\ b.n = p.n
        /\ Emit(11, "reuse-late-sender", [s |-> s, c |-> a.c, na |-> a.n, nb |-> p.n, np |-> 0, nl |-> 0])
\* a response for A is still queued in the channel that B now owns, behind/before one of B's
ReuseWithQueuedStale ==
    \E s \in Servers, c \in Clients, ch \in Chans : \E p \in pend[c] :
        /\ p.ch = ch
        /\ \E e \in Range(rq[s][c][ch]) : e.n < p.n
        /\ \E e \in Range(rq[s][c][ch]) : e.n = p.n
        /\ Emit(12, "reuse-queued-stale", [s |-> s, c |-> c, na |-> 0, nb |-> p.n, np |-> 0, nl |-> 0])
\* every client-side limit is reached at once
ClientSaturated ==
    \E c \in AliveC :
        /\ Cardinality(pend[c]) = MA /\ Cardinality(loans[c]) = ML
        /\ \E p \in pend[c], lo \in loans[c] : \E s \in Servers :
             /\ Len(rq[s][c][p.ch]) = RB /\ HeldCount(c, s, p.ch) = MB
             /\ Emit(13, "client-saturated", [s |-> s, c |-> c, na |-> 0, nb |-> 0, np |-> p.n, nl |-> lo.n])
\* the server holds the maximum number of requests of a client, all its loans are out
ServerSaturated ==
    \E s \in AliveS, c \in AliveC :
        /\ ArCount(s, c) = MA /\ Len(reqq[c][s]) = MA
        /\ \A a \in areq[s] : a.lc = MLR
        /\ \E a \in areq[s] : a.c = c
               /\ Emit(14, "server-saturated", [s |-> s, c |-> c, na |-> a.n, nb |-> 0, np |-> 0, nl |-> 0])

\* request B owns the channel of the earlier request A, B carries the disconnect hint, and the server still
\* holds the active request of A (dropping it must not touch B's stream) ...
HintStaleActive ==
    \E s \in Servers : \E a \in areq[s] : \E p \in pend[a.c] :
        /\ p.ch = a.ch /\ p.n > a.n
        /\ rst[s][a.c][a.ch] = [n |-> p.n, hint |-> TRUE]
        /\ \/ \E e \in Range(reqq[a.c][s]) : e.n = p.n
           \/ \E b \in areq[s] : b.c = a.c /\ b.n = p.n
        /\ Emit(15, "hint-stale-active", [s |-> s, c |-> a.c, na |-> a.n, nb |-> p.n, np |-> 0, nl |-> 0])
\* ... or A is still queued in front of B (the server discards A when it receives next)
HintStaleQueued ==
    \E s \in Servers, c \in Clients : \E p \in pend[c] :
        /\ rst[s][c][p.ch] = [n |-> p.n, hint |-> TRUE]
        /\ \E i, k \in 1..Len(reqq[c][s]) :
             /\ i < k /\ reqq[c][s][i].ch = p.ch /\ reqq[c][s][i].n < p.n /\ reqq[c][s][k].n = p.n
             /\ Emit(16, "hint-stale-queued", [s |-> s, c |-> c, na |-> reqq[c][s][i].n, nb |-> p.n, np |-> 0, nl |-> 0])
\* the server is gone; of its connection the client still has an undelivered response on one channel (pd), a
\* borrowed response on another one (pb), and a pending response it can poll without getting anything (pp)
ExpiredSplit(reg, tag, lowData) ==
    \E c \in AliveC, s \in Servers :
        /\ sst[s] = "dead" /\ s \in Storage(c)
        /\ \E pd, pb, pp \in pend[c] :
             /\ pd.ch # pb.ch /\ (lowData <=> pd.ch < pb.ch)
             /\ rq[s][c][pd.ch] # <<>> /\ HeldCount(c, s, pd.ch) = 0
             /\ HeldCount(c, s, pb.ch) > 0
             /\ rq[s][c][pp.ch] = <<>> /\ HeldCount(c, s, pp.ch) < MB
             /\ Emit(reg, tag, [s |-> s, c |-> c, na |-> pd.n, nb |-> pb.n, np |-> pp.n, nl |-> 0])

\* ---- the closed chunk formulas (C08): a refutation stops TLC and prints the program that leads there ---
FormulaReq ==
    ChunksSufficeReq
    \/ (PrintT(<<"WITNESS", "req-formula", ToJson([hist |-> hist,
                 info |-> [s |-> 0, c |-> CHOOSE c \in AliveC : Cardinality(loans[c]) < ML /\ ReqInUse(c) >= NREQ,
                           na |-> 0, nb |-> 0, np |-> 0, nl |-> 0]])>>) /\ FALSE)
FormulaResp ==
    ChunksSufficeResp
    \/ (PrintT(<<"WITNESS", "resp-formula", ToJson([hist |-> hist,
                 info |-> [s |-> CHOOSE s \in AliveS : (\E a \in areq[s] : a.lc < MLR) /\ RespInUse(s) >= NRESP,
                           c |-> 0, na |-> 0, nb |-> 0, np |-> 0, nl |-> 0]])>>) /\ FALSE)

Traps == (ReuseWithLateSender \/ TRUE) /\ (ReuseWithQueuedStale \/ TRUE)
         /\ (ClientSaturated \/ TRUE) /\ (ServerSaturated \/ TRUE)
         /\ (HintStaleActive \/ TRUE) /\ (HintStaleQueued \/ TRUE)
\* witnesses of expired connections (instances with GenDeath)
DeathTraps == (ExpiredSplit(17, "expired-data-low", TRUE) \/ TRUE) /\ (ExpiredSplit(18, "expired-data-high", FALSE) \/ TRUE)
=============================================================================
