SPECIFICATION ISpec
CONSTANTS
 NL = 2
 NS = 2
 NG = 3
 Cap = 2
 RCap = 2
 MaxIdx = 3
 InsertBeforeCheck = FALSE
 ReactorFullError = "InsufficientCapacity"
 DropRemovesMaps = TRUE
CONSTRAINT IdxBound
INVARIANTS ImplTypeOK NeverDetached Exact NothingLost AttachRefusedCleanly
CHECK_DEADLOCK FALSE
