SPECIFICATION TraceSpec
CONSTANTS
 WIds = {1, 2, 3, 4}
 RIds = {1, 2, 3, 4, 5, 6}
 NIds = {1, 2, 3, 4, 5, 6}
 KeyIds = {1, 2, 3, 4, 5}
 CfgSet = {}
 Univ <- NoUniv
 Faulty = "none"
CONSTRAINT Progress
POSTCONDITION Accepted
CHECK_DEADLOCK FALSE
INVARIANTS OneWriter OneHandlePerKey ReadersBounded NodesBounded LimitAdjusted InsideSucceeds BeyondRejected RefusalHasNoSideEffect CountsExact ReadIsSomeWrite Monotone ReadSeesLatest FailureLeavesFirstUndisturbed TypeOK
