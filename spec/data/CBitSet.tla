------------------------------- MODULE CBitSet -------------------------------
(***************************************************************************)
(* Sequential form of the lock-free BitSet (C14): a subset of 0..cap-1.    *)
(*   set(k)        true iff the bit was not set before                     *)
(*   reset_next()  clears and returns SOME set bit (the scan position is   *)
(*                 an implementation detail), None iff no bit is set       *)
(*   reset_all(f)  reports every set bit exactly once and clears all       *)
(* There is no read-only observer besides capacity(): the state is bound   *)
(* through the results.                                                    *)
(***************************************************************************)
EXTENDS CUtil

CONSTANTS Caps
VARIABLES b, cap, last
vars == <<b, cap, last>>
view == <<b, cap>>

Obs == [b |-> [k \in 1..cap |-> IF (k - 1) \in b THEN 1 ELSE 0], cap |-> cap]
Init == b = {} /\ cap \in Caps /\ last = L0
Reset(n) == b' = {} /\ cap' = n /\ last' = L0
LI(a, i, r, v) == L(a, i, <<>>, r, v, BZero)
\* ascending enumeration of a finite set of naturals
RECURSIVE Asc(_)
Asc(S) == IF S = {} THEN <<>> ELSE <<Min(S)>> \o Asc(S \ {Min(S)})

Set(k) ==
    /\ UNCHANGED cap
    /\ b' = b \cup {k}
    /\ last' = LI("set", <<k>>, IF k \in b THEN "false" ELSE "true", <<>>)

ResetNext ==
    /\ UNCHANGED cap
    /\ IF b = {} THEN b' = b /\ last' = LI("reset_next", <<>>, "none", <<>>)
       ELSE \E k \in b : b' = b \ {k} /\ last' = LI("reset_next", <<>>, "some", <<k>>)

\* v = the reported bits, compared as a set (sorted by the driver)
ResetAll == UNCHANGED cap /\ b' = {} /\ last' = LI("reset_all", <<>>, "ok", Asc(b))

Destroy == UNCHANGED cap /\ b' = {} /\ last' = LI("destroy", <<>>, "ok", <<>>)
Relocate == UNCHANGED <<b, cap>> /\ last' = LI("relocate", <<>>, "ok", <<>>)

Next == (\E k \in 0..(cap - 1) : Set(k)) \/ ResetNext \/ ResetAll \/ Destroy \/ Relocate
Spec == Init /\ [][Next]_vars

TypeOK == b \subseteq 0..(cap - 1) /\ cap \in Caps
ResetReturnsSetBit == (last'.a = "reset_next" /\ last'.r = "some") => (last'.v[1] \in b /\ b' = b \ {last'.v[1]})
ResetAllReportsAll == (last'.a = "reset_all") => ({last'.v[j] : j \in DOMAIN last'.v} = b /\ Len(last'.v) = Cardinality(b))
PositionIndependent == (last'.a = "relocate") => (Obs' = Obs)
StepOK == ResetReturnsSetBit /\ ResetAllReportsAll /\ PositionIndependent
StepProp == [][StepOK]_vars
=============================================================================
