-------------------------------- MODULE Growth --------------------------------
(***************************************************************************)
(* Property layer of C15, second sentence: "When a dynamically sized       *)
(* segment grows, payloads sent before the growth stay readable by         *)
(* subscribers until released, and offsets received afterwards resolve to  *)
(* the new memory."                                                        *)
(*                                                                         *)
(* One publisher (allocation strategy, initial slice length, payload       *)
(* alignment, max loans) and one subscriber.  State: the loans that are    *)
(* out on the publisher side, what was sent, what the subscriber holds     *)
(* (sequence number, length, address in the subscriber's mapping).  Which  *)
(* segment a chunk lives in, how segments are sized and when they are      *)
(* unmapped is left open; the clauses only speak about observables:        *)
(*                                                                         *)
(*  GrowthServes   a loan fails only with a documented error whose cause   *)
(*                 applies: ExceedsMaxLoans (all loans out),               *)
(*                 ExceedsMaxLoanSize (Static strategy, longer than the    *)
(*                 initial length); with BestFit / PowerOfTwo every length *)
(*                 is served (the driver stays below the 255 reallocations)*)
(*  LoanAligned / LoanDisjoint   publisher side: every loan satisfies the  *)
(*                 payload alignment, loans that are out do not overlap    *)
(*  LoanIntact     bytes of a loan that is out are not disturbed by later  *)
(*                 loans (a growth in between)                             *)
(*  RecvResolves   every sample sent is received, with the length and the  *)
(*                 bytes that were sent (whatever segment it lives in)     *)
(*  HeldIntact     a held sample keeps its bytes, its address and its      *)
(*                 length until it is released                             *)
(*  HeldAligned / HeldDisjoint   subscriber side                           *)
(***************************************************************************)
EXTENDS Naturals, FiniteSets

\* JudgeServes = FALSE: GrowthServes / RecvResolves are not judged (second pass over scenarios with
\* a known serving defect, so that the data-integrity clauses are still checked there)
CONSTANT JudgeServes

VARIABLES gcfg,   \* [strategy, initial, palign, maxloans, maxborrow]
          out,    \* loans that are out: set of [n, len, addr]
          sent,   \* set of [n, len] sent and not yet received
          held,   \* set of [n, len, addr] held by the subscriber
          gviol, gwhy

gvars == <<gcfg, out, sent, held, gviol, gwhy>>

GLatch(name, bad) == IF gviol = "none" /\ bad THEN name ELSE gviol
GBlame(bad, e) == IF gviol = "none" /\ bad THEN e ELSE gwhy

GInit ==
    /\ gcfg = [strategy |-> "Static", initial |-> 1, palign |-> 1, maxloans |-> 1, maxborrow |-> 1]
    /\ out = {} /\ sent = {} /\ held = {}
    /\ gviol = "none" /\ gwhy = <<>>

GReset(c) ==
    /\ gcfg' = c
    /\ out' = {} /\ sent' = {} /\ held' = {}
    /\ gviol' = "none" /\ gwhy' = <<>>

LoanErrApplies(len, err) ==
    CASE err = "ExceedsMaxLoans"    -> Cardinality(out) >= gcfg.maxloans
      [] err = "ExceedsMaxLoanSize" -> gcfg.strategy = "Static" /\ len > gcfg.initial
      [] OTHER -> FALSE

Loan(e) ==
    IF e.r = "ok"
    THEN /\ out' = out \cup {[n |-> e.n, len |-> e.len, addr |-> e.addr]}
         /\ gviol' = GLatch("LoanAligned", e.addr % gcfg.palign # 0)
         /\ gwhy' = GBlame(e.addr % gcfg.palign # 0, e)
         /\ UNCHANGED <<gcfg, sent, held>>
    ELSE /\ gviol' = GLatch("GrowthServes", JudgeServes /\ ~LoanErrApplies(e.len, e.r))
         /\ gwhy' = GBlame(JudgeServes /\ ~LoanErrApplies(e.len, e.r), e)
         /\ UNCHANGED <<gcfg, out, sent, held>>

PCheck(e) ==
    LET bad == e.ok # 1 \/ ~(\E x \in out : x.n = e.n /\ x.len = e.len /\ x.addr = e.addr) IN
    /\ gviol' = GLatch("LoanIntact", bad)
    /\ gwhy' = GBlame(bad, e)
    /\ UNCHANGED <<gcfg, out, sent, held>>

Send(e) ==
    /\ \E x \in out : x.n = e.n
    /\ out' = {x \in out : x.n # e.n}
    /\ sent' = IF e.r = "ok" THEN sent \cup {[n |-> e.n, len |-> e.len]} ELSE sent
    /\ gviol' = GLatch("RecvResolves", JudgeServes /\ e.r # "ok")
    /\ gwhy' = GBlame(JudgeServes /\ e.r # "ok", e)
    /\ UNCHANGED <<gcfg, held>>

Recv(e) ==
    LET good == e.r = "ok" /\ e.ok = 1 /\ [n |-> e.n, len |-> e.len] \in sent
        \* bytes / length of a sample that WAS received are judged in both passes
        bad == IF JudgeServes THEN ~good ELSE (e.r = "ok" /\ ~good) IN
    /\ gviol' = GLatch("RecvResolves", bad)
    /\ gwhy' = GBlame(bad, e)
    /\ sent' = {x \in sent : x.n # e.n}
    /\ held' = IF e.r = "ok" THEN held \cup {[n |-> e.n, len |-> e.len, addr |-> e.addr]} ELSE held
    /\ UNCHANGED <<gcfg, out>>

Check(e) ==
    LET bad == e.ok # 1 \/ ~([n |-> e.n, len |-> e.len, addr |-> e.addr] \in held) IN
    /\ gviol' = GLatch("HeldIntact", bad)
    /\ gwhy' = GBlame(bad, e)
    /\ UNCHANGED <<gcfg, out, sent, held>>

DropLoan(e) ==
    /\ \E x \in out : x.n = e.n
    /\ out' = {x \in out : x.n # e.n}
    /\ UNCHANGED <<gcfg, sent, held, gviol, gwhy>>

\* a panic / abort of the ports is never an allowed outcome
Panic(e) ==
    /\ gviol' = GLatch("NoPanic", TRUE)
    /\ gwhy' = GBlame(TRUE, e)
    /\ UNCHANGED <<gcfg, out, sent, held>>

Release(e) ==
    /\ \E x \in held : x.n = e.n
    /\ held' = {x \in held : x.n # e.n}
    /\ UNCHANGED <<gcfg, out, sent, gviol, gwhy>>

ROverlap(x, y) == x.addr < y.addr + y.len /\ y.addr < x.addr + x.len

GrowthServes == gviol # "GrowthServes"
LoanAligned  == gviol # "LoanAligned"
LoanIntact   == gviol # "LoanIntact"
RecvResolves == gviol # "RecvResolves"
HeldIntact   == gviol # "HeldIntact"
NoPanic      == gviol # "NoPanic"
LoanDisjoint == \A x, y \in out : x # y => ~ROverlap(x, y)
HeldDisjoint == \A x, y \in held : x.n # y.n => ~ROverlap(x, y)
HeldAligned  == \A x \in held : x.addr % gcfg.palign = 0
=============================================================================
