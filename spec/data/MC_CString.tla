---- MODULE MC_CString ----
EXTENDS CString, TLC, Json
Emit == PrintT(<<"EDGE", ToJson([f |-> Obs, l |-> last', t |-> Obs'])>>)
====
