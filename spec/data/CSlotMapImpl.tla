---------------------------- MODULE CSlotMapImpl ----------------------------
(***************************************************************************)
(* Implementation-shaped layer of the slot map (slotmap.rs MetaSlotMap):   *)
(*   i2d    idx_to_data: key -> index into `data` or INV                   *)
(*   prv, nxl, head   the doubly linked free list of keys                  *)
(*          (idx_to_data_free_list, idx_to_data_free_list_head)            *)
(*   data   the values, dnf = data_next_free_index (FIFO of data indices)   *)
(* with one step per public operation, composed of the private helpers     *)
(* acquire_next_free_index / claim_index / release_free_index /            *)
(* store_value exactly as written in the code.  Two details of the code    *)
(* are parameters that the check EXTRACTS from the running code by probing *)
(* (checks/C16.py `slotprobe`):                                            *)
(*   FixHead     claim_index moves the list head when it unlinks the head  *)
(*   ClearLinks  acquire_next_free_index resets the links of the key it    *)
(*               hands out                                                 *)
(* TLC checks that this layer refines CSlotMap.tla (property Refines:      *)
(* insert hands out a free key, the announced one; a full map rejects).    *)
(* Keys are restricted to 0..cap-1 here (out-of-bounds keys: CSlotMap).    *)
(***************************************************************************)
EXTENDS CUtil

CONSTANTS Caps, FixHead, ClearLinks
INV == -1
VARIABLES i2d, prv, nxl, head, data, dnf, cap, last
ivars == <<i2d, prv, nxl, head, data, dnf, cap, last>>
iview == <<i2d, prv, nxl, head, data, dnf, cap>>

\* arrays are sequences indexed by key+1 / data index+1
At(f, k) == f[k + 1]
Upd(f, k, x) == [f EXCEPT ![k + 1] = x]

\* ---- refinement mapping ----------------------------------------------------------------------
MBar == [j \in 1..cap |-> IF i2d[j] = INV THEN 0 ELSE At(data, i2d[j])]
NBar == head
\* h: the hidden state, part of the identity of a dumped state but not of what the driver observes
Obs == [m |-> MBar, cap |-> cap, nxt |-> NBar, h |-> <<i2d, prv, nxl, dnf, data>>]

IInit ==
    /\ cap \in Caps
    /\ i2d = [j \in 1..cap |-> INV]
    /\ data = [j \in 1..cap |-> 0]
    /\ dnf = [j \in 1..cap |-> j - 1]
    /\ prv = [j \in 1..cap |-> IF j = 1 THEN INV ELSE j - 2]
    /\ nxl = [j \in 1..cap |-> IF j < cap THEN j ELSE INV]
    /\ head = IF cap = 0 THEN INV ELSE 0
    /\ last = L0

\* ---- private helpers as functions on the list state <<prv, nxl, head>> ------------------------
Acquire(p, n, h) ==   \* h # INV
    LET nx == At(n, h)
        p1 == IF nx # INV THEN Upd(p, nx, INV) ELSE p
        n1 == IF ClearLinks THEN Upd(n, h, INV) ELSE n IN
    <<p1, n1, nx>>

Claim(p, n, h, k) ==
    LET ep == At(p, k)
        en == At(n, k)
        n1 == IF ep # INV THEN Upd(n, ep, en) ELSE n
        p1 == IF en # INV THEN Upd(p, en, ep) ELSE p
        h1 == IF FixHead /\ h = k THEN en ELSE h IN
    <<Upd(p1, k, INV), Upd(n1, k, INV), h1>>

Release(p, n, h, k) ==
    LET p1 == IF h # INV THEN Upd(p, h, k) ELSE p IN
    <<Upd(p1, k, INV), Upd(n, k, h), k>>

\* store_value: <<i2d', data', dnf', dropped bag>>; needs a free data index when the key is empty
Store(k, x) ==
    IF At(i2d, k) # INV
    THEN <<i2d, Upd(data, At(i2d, k), x), dnf, BOne(At(data, At(i2d, k)))>>
    ELSE <<Upd(i2d, k, Head(dnf)), Upd(data, Head(dnf), x), Tail(dnf), BZero>>

IInsert(x) ==
    /\ UNCHANGED cap
    /\ IF head = INV
       THEN UNCHANGED <<i2d, prv, nxl, head, data, dnf>> /\ last' = L("insert", <<x>>, <<>>, "none", <<>>, BOne(x))
       ELSE LET a == Acquire(prv, nxl, head)
                st == Store(head, x) IN
            /\ (At(i2d, head) # INV \/ dnf # <<>>)     \* otherwise the code's expect() panics
            /\ prv' = a[1] /\ nxl' = a[2] /\ head' = a[3]
            /\ i2d' = st[1] /\ data' = st[2] /\ dnf' = st[3]
            /\ last' = L("insert", <<x>>, <<>>, "some", <<head>>, st[4])

IInsertAt(k, x) ==
    /\ UNCHANGED cap
    /\ LET c == Claim(prv, nxl, head, k)
           st == Store(k, x) IN
       /\ (At(i2d, k) # INV \/ dnf # <<>>)
       /\ prv' = c[1] /\ nxl' = c[2] /\ head' = c[3]
       /\ i2d' = st[1] /\ data' = st[2] /\ dnf' = st[3]
       /\ last' = L("insert_at", <<k, x>>, <<>>, "true", <<>>, st[4])

IRemove(k) ==
    /\ UNCHANGED cap
    /\ IF At(i2d, k) = INV
       THEN UNCHANGED <<i2d, prv, nxl, head, data, dnf>> /\ last' = L("remove", <<k>>, <<>>, "none", <<>>, BZero)
       ELSE LET di == At(i2d, k)
                r == Release(prv, nxl, head, k) IN
            /\ data' = Upd(data, di, 0)
            /\ dnf' = Append(dnf, di)
            /\ prv' = r[1] /\ nxl' = r[2] /\ head' = r[3]
            /\ i2d' = Upd(i2d, k, INV)
            /\ last' = L("remove", <<k>>, <<>>, "some", <<At(data, di)>>, BZero)

IGet(k) ==
    /\ UNCHANGED <<i2d, prv, nxl, head, data, dnf, cap>>
    /\ IF At(i2d, k) = INV THEN last' = L("get", <<k>>, <<>>, "none", <<>>, BZero)
       ELSE last' = L("get", <<k>>, <<>>, "some", <<At(data, At(i2d, k))>>, BZero)
IContains(k) ==
    /\ UNCHANGED <<i2d, prv, nxl, head, data, dnf, cap>>
    /\ last' = L("contains", <<k>>, <<>>, IF At(i2d, k) # INV THEN "true" ELSE "false", <<>>, BZero)

IDestroy ==
    /\ UNCHANGED cap
    /\ i2d' = [j \in 1..cap |-> INV] /\ data' = [j \in 1..cap |-> 0] /\ dnf' = [j \in 1..cap |-> j - 1]
    /\ prv' = [j \in 1..cap |-> IF j = 1 THEN INV ELSE j - 2]
    /\ nxl' = [j \in 1..cap |-> IF j < cap THEN j ELSE INV]
    /\ head' = IF cap = 0 THEN INV ELSE 0
    /\ last' = L("destroy", <<>>, <<>>, "ok", <<>>, Bag(SelectSeq(MBar, LAMBDA v : v # 0)))
IRelocate == UNCHANGED <<i2d, prv, nxl, head, data, dnf, cap>> /\ last' = L("relocate", <<>>, <<>>, "ok", <<>>, BZero)

INext == \/ \E x \in Vals : IInsert(x)
         \/ \E k \in 0..(cap - 1), x \in Vals : IInsertAt(k, x)
         \/ \E k \in 0..(cap - 1) : IRemove(k) \/ IGet(k) \/ IContains(k)
         \/ IDestroy \/ IRelocate
ISpec == IInit /\ [][INext]_ivars

Abs == INSTANCE CSlotMap WITH m <- MBar, nxt <- NBar
Refines == Abs!Spec
\* the head of the free list is a free key (what next_free_key() promises)
HeadIsFree == IF Abs!Free(MBar) = {} THEN head = INV ELSE head \in Abs!Free(MBar)
=============================================================================
