SPECIFICATION RSpec
CONSTANT Caps = {0,1,2,3}
INVARIANTS RingTypeOK NoStaleElement
PROPERTY Refines
CHECK_DEADLOCK FALSE
