----------------------------- MODULE GrowthTrace -----------------------------
(* Trace specification: explains the events recorded by `drv-alloc growth`    *)
(* (real publisher with a dynamic data segment, real subscriber holding       *)
(* samples across the growth) with Growth.tla; clauses are invariants.        *)
EXTENDS Growth, TraceIO

VARIABLE l
tvars == <<gcfg, out, sent, held, gviol, gwhy, l>>

TraceInit == l = 1 /\ GInit /\ TraceRegInit

Consume ==
    /\ l <= NRec
    /\ l' = l + 1
    /\ LET e == Rec[l] IN
       CASE e.k = "reset" -> GReset([strategy |-> e.strategy, initial |-> e.initial, palign |-> e.palign,
                                     maxloans |-> e.maxloans, maxborrow |-> e.maxborrow])
         [] e.k = "op" /\ e.a = "loan"    -> Loan(e)
         [] e.k = "op" /\ e.a = "pcheck"  -> PCheck(e)
         [] e.k = "op" /\ e.a = "send"    -> Send(e)
         [] e.k = "op" /\ e.a = "recv"    -> Recv(e)
         [] e.k = "op" /\ e.a = "check"   -> Check(e)
         [] e.k = "op" /\ e.a = "release" -> Release(e)
         [] e.k = "op" /\ e.a = "droploan" -> DropLoan(e)
         [] e.k = "op" /\ e.a = "panic"   -> Panic(e)
         [] OTHER -> FALSE

TraceNext == Consume
TraceSpec == TraceInit /\ [][TraceNext]_tvars
Progress == TraceProgress(l)
Accepted == TraceAccepted
=============================================================================
