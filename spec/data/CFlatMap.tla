------------------------------ MODULE CFlatMap ------------------------------
(***************************************************************************)
(* Property layer of C16 for FlatMap / RelocatableFlatMap /                *)
(* FixedSizeFlatMap: a finite map from keys (1..NK) to token values with   *)
(* at most cap entries.                                                    *)
(*   insert(k, x)  k present: KeyAlreadyExists; map full: IsFull (if both  *)
(*                 apply either is allowed); in both cases nothing changes *)
(*                 and x is dropped.                                       *)
(*   get(k)        a CLONE of the value (net drops -1) or None             *)
(*   remove(k)     the value itself or None                                *)
(* m is a sequence of length NK, 0 = absent.  Observers compared after     *)
(* every step: len, is_empty, is_full, list_keys (as a set - the order is  *)
(* the slot order, which the statement leaves open), get_ref for all keys. *)
(***************************************************************************)
EXTENDS CUtil

CONSTANTS Caps
NK == 3
Keys == 1..NK
VARIABLES m, cap, last
vars == <<m, cap, last>>
view == <<m, cap>>

Obs == [m |-> m, cap |-> cap]
Stored(mm) == SelectSeq(mm, LAMBDA x : x # 0)
Size(mm) == Len(Stored(mm))
Init == cap \in Caps /\ m = [k \in Keys |-> 0] /\ last = L0
Reset(n) == cap' = n /\ m' = [k \in Keys |-> 0] /\ last' = L0

Insert(k, x) ==
    /\ UNCHANGED cap
    /\ LET errs == (IF m[k] # 0 THEN {"exists"} ELSE {}) \cup (IF Size(m) >= cap THEN {"full"} ELSE {}) IN
       IF errs = {}
       THEN m' = [m EXCEPT ![k] = x] /\ last' = L("insert", <<k, x>>, <<>>, "ok", <<>>, BZero)
       ELSE m' = m /\ \E e \in errs : last' = L("insert", <<k, x>>, <<>>, e, <<>>, BOne(x))

Get(k) ==
    /\ UNCHANGED <<m, cap>>
    /\ IF m[k] = 0
       THEN last' = L("get", <<k>>, <<>>, "none", <<>>, BZero)
       ELSE last' = L("get", <<k>>, <<>>, "some", <<m[k]>>, BSub(BZero, BOne(m[k])))

Remove(k) ==
    /\ UNCHANGED cap
    /\ IF m[k] = 0
       THEN m' = m /\ last' = L("remove", <<k>>, <<>>, "none", <<>>, BZero)
       ELSE m' = [m EXCEPT ![k] = 0] /\ last' = L("remove", <<k>>, <<>>, "some", <<m[k]>>, BZero)

Contains(k) ==
    /\ UNCHANGED <<m, cap>>
    /\ last' = L("contains", <<k>>, <<>>, IF m[k] # 0 THEN "true" ELSE "false", <<>>, BZero)

Destroy == UNCHANGED cap /\ m' = [k \in Keys |-> 0] /\ last' = L("destroy", <<>>, <<>>, "ok", <<>>, Bag(Stored(m)))
Relocate == UNCHANGED <<m, cap>> /\ last' = L("relocate", <<>>, <<>>, "ok", <<>>, BZero)

Next == \/ \E k \in Keys, x \in Vals : Insert(k, x)
        \/ \E k \in Keys : Get(k) \/ Remove(k) \/ Contains(k)
        \/ Destroy \/ Relocate
Spec == Init /\ [][Next]_vars

\* ---- the clauses of the property -------------------------------------------------------------
TypeOK == cap \in Caps /\ m \in [Keys -> 0..NV]
LenBounded == Size(m) <= cap
In(l) == IF l.a = "insert" THEN BOne(l.i[2]) ELSE BZero
Out(l) == IF l.a = "remove" /\ l.r = "some" THEN BOne(l.v[1]) ELSE BZero
DropExactlyOnce == BAdd(In(last'), Bag(Stored(m))) = BAdd(BAdd(Bag(Stored(m')), Out(last')),
                        IF last'.a = "get" THEN BZero ELSE last'.d)
NoInvention == (last'.a # "get") => BNonNeg(last'.d)
IsErr(l) == l.r \in {"exists", "full"}
ErrorLeavesUnchanged == IsErr(last') => (m' = m /\ last'.d = In(last'))
ErrorOnlyWhenDocumented ==
    /\ (last'.r = "exists") => m[last'.i[1]] # 0
    /\ (last'.r = "full") => Size(m) = cap
OthersUntouched == \A k \in Keys : (m'[k] # m[k]) => (last'.a = "destroy" \/ k = last'.i[1])
PositionIndependent == (last'.a = "relocate") => (Obs' = Obs)
StepOK == /\ DropExactlyOnce /\ NoInvention /\ ErrorLeavesUnchanged /\ ErrorOnlyWhenDocumented
          /\ OthersUntouched /\ PositionIndependent
StepProp == [][StepOK]_vars
=============================================================================
