----------------------------- MODULE AllocTrace -----------------------------
(***************************************************************************)
(* Trace specification of C15 (impl -> spec): explains the (address, size, *)
(* alignment, result) events recorded by drv-alloc from the REAL           *)
(* allocators with the property layer Alloc.tla.  The trace specification  *)
(* never blocks on a semantic ground -- every structurally well-formed     *)
(* event is consumed -- and the clauses of the property are INVARIANTS     *)
(* evaluated by TLC on every state of the explained trace (TLC is the      *)
(* oracle; the driver asserts nothing).                                    *)
(*                                                                         *)
(* Reusable ("freed memory is reusable"), history based: `okh` remembers   *)
(* for every successful allocation the set of live regions (address and    *)
(* extent) it was served from.  An OutOfMemory for a request that is not   *)
(* larger (size and alignment) than one that was served before from a      *)
(* superset of the present live regions means that memory which was given  *)
(* back cannot be used again (a lost bucket, a cursor that was moved by a   *)
(* failed request or not reset).  Sound for every kind of Alloc.tla: pool  *)
(* - fewer live buckets; bump - the cursor is the largest end of a live    *)
(* region, so it is not larger than it was; one-chunk - only the empty     *)
(* state serves.                                                           *)
(***************************************************************************)
EXTENDS Alloc, TraceIO

VARIABLES l, okh
tvars == <<kind, lay, live, viol, why, l, okh>>

TraceInit ==
    /\ l = 1
    /\ okh = {}
    /\ PInit("pool", [base |-> 0, size |-> 0, bsize |-> 1, balign |-> 1])
    /\ TraceRegInit

Served(sz, al) == \E h \in okh : h.size >= sz /\ h.align >= al /\ live \subseteq h.live

AllocOk(e) ==
    /\ ObsAllocOk(e.size, e.align, e.addr, e.ext)
    /\ okh' = okh \cup {[size |-> e.size, align |-> e.align, live |-> live]}

AllocErr(e) ==
    IF e.r = "OutOfMemory" /\ Served(e.size, e.align) /\ viol = "none"
    THEN /\ viol' = "Reusable"
         /\ why' = [size |-> e.size, align |-> e.align, addr |-> 0, r |-> e.r]
         /\ UNCHANGED <<kind, lay, live, okh>>
    ELSE ObsAllocErr(e.size, e.align, e.r) /\ UNCHANGED okh

\* giving memory back must not fail either (a panic of deallocate is data)
Free(e) ==
    IF e.r # "ok"
    THEN /\ viol' = Latch("FailsCleanly")
         /\ why' = Blame(TRUE, e.size, e.align, e.addr, e.r)
         /\ UNCHANGED <<kind, lay, live, okh>>
    ELSE /\ IF e.a = "freeall" THEN ObsFreeAll ELSE ObsFree(e.addr)
         /\ UNCHANGED okh

Ev == Rec[l]

Consume ==
    /\ l <= NRec
    /\ l' = l + 1
    /\ LET e == Ev IN
       CASE e.k = "reset" ->
                /\ e.kind \in Kinds
                /\ PReset(e.kind, [base |-> e.base, size |-> e.size, bsize |-> e.bsize, balign |-> e.balign])
                /\ okh' = {}
         [] e.k = "op" /\ e.a = "alloc" /\ e.r = "ok" -> AllocOk(e)
         [] e.k = "op" /\ e.a = "alloc" /\ e.r # "ok" -> AllocErr(e)
         [] e.k = "op" /\ e.a \in {"free", "freeall"} -> Free(e)
         [] OTHER -> FALSE

TraceNext == Consume
TraceSpec == TraceInit /\ [][TraceNext]_tvars

Progress == TraceProgress(l)
Accepted == TraceAccepted
=============================================================================
