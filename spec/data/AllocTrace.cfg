SPECIFICATION TraceSpec
CONSTRAINT Progress
POSTCONDITION Accepted
CHECK_DEADLOCK FALSE
INVARIANTS InBounds Disjoint Aligned SizeSufficient FailsCleanly Reusable
