------------------------------ MODULE FfiTable ------------------------------
(***************************************************************************)
(* Property C18, error-mapping clause: "for failures the C error code that *)
(* names the Rust error; the mapping from Rust errors to C codes is total  *)
(* and one-to-one with distinct printable names".                          *)
(*                                                                         *)
(* The table is NOT written by hand: harness/drivers/ffitab dumps it from  *)
(* the running code (an exhaustive `match` over every error enum the C     *)
(* binding maps, `IntoCInt::into_c_int()` evaluated per variant, printable *)
(* name = CStrRepr of the C constant, what iox2_*_string returns).  It is  *)
(* an input, constant-level definition read with the Json module from the  *)
(* file named by the environment variable TABLE:                           *)
(*   [k |-> "row", i, enum, variant, cenum, code, cname, st, cands]        *)
(*       st = "ok" | "diverges" | "crash:..." (the conversion did not      *)
(*       return; code = -1), cands = the printable names that would name   *)
(*       the variant (every suffix of its path, in words)                  *)
(*   [k |-> "const", cenum, code, cname]   every constant of the C enums   *)
(*                                                                         *)
(* Every clause prints the offending rows (PrintT <<"FFITABLE", clause,    *)
(* json>>) before it evaluates to FALSE; TLC is run with -continue so that *)
(* all clauses are evaluated.                                              *)
(***************************************************************************)
EXTENDS Naturals, Integers, Sequences, FiniteSets, TLC, Json, IOUtils

Tab == ndJsonDeserialize(IOEnv.TABLE)
IOX2_OK == 0

Rows   == {i \in DOMAIN Tab : Tab[i].k = "row"}
Consts == {i \in DOMAIN Tab : Tab[i].k = "const"}
Evaluated(i) == Tab[i].st = "ok"
SameEnum(i, j) == Tab[i].enum = Tab[j].enum
InSeq(x, s) == \E n \in DOMAIN s : s[n] = x
\* the constants of the C enum row i maps into
ConstsOf(i) == {c \in Consts : Tab[c].cenum = Tab[i].cenum}

Report(clause, offenders) ==
    offenders = {} \/ (PrintT(<<"FFITABLE", clause, ToJson(offenders)>>) /\ FALSE)

\* every variant has a code: the conversion returns, and what it returns is a constant of the C enum
BadTotal == {i \in Rows : ~Evaluated(i) \/ ~(\E c \in ConstsOf(i) : Tab[c].code = Tab[i].code)}
Total == Report("Total", {Tab[i] : i \in BadTotal})

\* within one Rust error enum no two variants share a code
BadInjective == {p \in Rows \X Rows : /\ p[1] < p[2] /\ SameEnum(p[1], p[2])
                                      /\ Evaluated(p[1]) /\ Evaluated(p[2])
                                      /\ Tab[p[1]].code = Tab[p[2]].code}
Injective == Report("Injective", {<<Tab[p[1]], Tab[p[2]]>> : p \in BadInjective})

\* no error maps to IOX2_OK
BadOK == {i \in Rows : Evaluated(i) /\ Tab[i].code = IOX2_OK}
NoCollisionWithOK == Report("NoCollisionWithOK", {Tab[i] : i \in BadOK})

\* printable names: non-empty, and distinct codes of one Rust enum have distinct names
BadEmptyName == {i \in Rows : Evaluated(i) /\ Tab[i].cname = ""}
BadSameName == {p \in Rows \X Rows : /\ p[1] < p[2] /\ SameEnum(p[1], p[2])
                                     /\ Evaluated(p[1]) /\ Evaluated(p[2])
                                     /\ Tab[p[1]].code # Tab[p[2]].code
                                     /\ Tab[p[1]].cname = Tab[p[2]].cname}
NamesNonEmpty == Report("NamesNonEmpty", {Tab[i] : i \in BadEmptyName})
NamesDistinct == Report("NamesDistinct", {<<Tab[p[1]], Tab[p[2]]>> : p \in BadSameName})

\* the code NAMES the Rust error: if the C enum has a constant whose printable name is the name of the
\* variant, the variant maps to a constant with such a name (a swapped / copy-pasted arm is caught; a
\* variant for which the C enum uses other words is left alone)
BadNaming == {i \in Rows : /\ Evaluated(i)
                           /\ \E c \in ConstsOf(i) : InSeq(Tab[c].cname, Tab[i].cands)
                           /\ ~InSeq(Tab[i].cname, Tab[i].cands)}
NamesRustError == Report("NamesRustError", {Tab[i] : i \in BadNaming})

\* vacuity guard for the check: the table is not empty and has the expected shape
Shape == /\ Cardinality(Rows) >= 100 /\ Cardinality(Consts) >= 100
         /\ \A i \in Rows : Tab[i].cands # <<>>

VARIABLE evaluated
Init == evaluated = FALSE
Next == ~evaluated /\ evaluated' = TRUE
Spec == Init /\ [][Next]_evaluated
\* every clause is evaluated here once more, whatever TLC does after the first failing invariant: the check
\* requires one FFITABLE_VERDICT line per clause
Clauses == <<"Total", "Injective", "NoCollisionWithOK", "NamesNonEmpty", "NamesDistinct", "NamesRustError">>
Holds(c) == CASE c = "Total" -> BadTotal = {}
              [] c = "Injective" -> BadInjective = {}
              [] c = "NoCollisionWithOK" -> BadOK = {}
              [] c = "NamesNonEmpty" -> BadEmptyName = {}
              [] c = "NamesDistinct" -> BadSameName = {}
              [] c = "NamesRustError" -> BadNaming = {}
Summary == /\ PrintT(<<"FFITABLE_SIZE", Cardinality(Rows), Cardinality(Consts),
                       Cardinality({Tab[i].enum : i \in Rows})>>)
           /\ \A n \in DOMAIN Clauses : PrintT(<<"FFITABLE_VERDICT", Clauses[n], Holds(Clauses[n])>>)
=============================================================================
