---- MODULE MC_CBitSet ----
EXTENDS CBitSet, TLC, Json
Emit == PrintT(<<"EDGE", ToJson([f |-> Obs, l |-> last', t |-> Obs'])>>)
====
