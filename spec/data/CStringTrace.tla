---- MODULE CStringTrace ----
(* Trace specification (impl -> spec): explains the operations recorded by drv-containers on the  *)
(* real containers (arguments, results, net drops, observed state after every call) by CString.  *)
EXTENDS CString, TraceIO

VARIABLE l
tvars == <<vars, l>>
Ev == Rec[l]

TraceInit == l = 1 /\ TraceRegInit /\ c = <<>> /\ cap = 0 /\ last = L0

ObsMatch(o) == Obs' = o

Consume ==
    /\ l <= NRec
    /\ l' = l + 1
    /\ LET e == Ev IN
       CASE e.k = "reset" -> Reset(e.cap)
         [] e.k = "op" -> /\ Next
                          /\ last' = [a |-> e.a, i |-> e.i, s |-> e.s, r |-> e.r, v |-> e.v, d |-> e.d]
                          /\ ObsMatch(e.o)
         [] OTHER -> FALSE

TraceNext == Consume
TraceSpec == TraceInit /\ [][TraceNext]_tvars
Progress == TraceProgress(l)
Accepted == TraceAccepted
====
