------------------------------- MODULE CQueue -------------------------------
(***************************************************************************)
(* Property layer of C16 for Queue / RelocatableQueue / FixedSizeQueue and *)
(* (sequential form, C14) for the index queues: an unbounded FIFO sequence *)
(* restricted by "capacity exceeded => documented failure /\ UNCHANGED".   *)
(* push_with_overflow on a full queue evicts and returns the oldest        *)
(* element.  Observers compared after every step by the lock-step driver:  *)
(* len, is_empty, is_full, peek (= Peek), get(i) (= Get(i)), capacity.     *)
(***************************************************************************)
EXTENDS CUtil

CONSTANTS Caps              \* set of capacities explored (one initial state each)
VARIABLES c, cap, last
vars == <<c, cap, last>>
view == <<c, cap>>       \* `last` only labels the edge (cfg: VIEW view)

Obs == [c |-> c, cap |-> cap]
Peek == IF c = <<>> THEN <<>> ELSE <<Head(c)>>
Get(k) == c[k + 1]

Init == c = <<>> /\ cap \in Caps /\ last = L0
Reset(n) == c' = <<>> /\ cap' = n /\ last' = L0

Push(x) ==
    /\ UNCHANGED cap
    /\ IF Len(c) < cap
       THEN c' = Append(c, x) /\ last' = L("push", <<x>>, <<>>, "true", <<>>, BZero)
       ELSE c' = c /\ last' = L("push", <<x>>, <<>>, "false", <<>>, BOne(x))

Pop ==
    /\ UNCHANGED cap
    /\ IF c = <<>>
       THEN c' = c /\ last' = L("pop", <<>>, <<>>, "none", <<>>, BZero)
       ELSE c' = Tail(c) /\ last' = L("pop", <<>>, <<>>, "some", <<Head(c)>>, BZero)

\* cap = 0: the statement gives no meaning to an overflowing push (nothing to evict, nowhere to store)
PushOverflow(x) ==
    /\ cap > 0
    /\ UNCHANGED cap
    /\ IF Len(c) < cap
       THEN c' = Append(c, x) /\ last' = L("push_with_overflow", <<x>>, <<>>, "none", <<>>, BZero)
       ELSE c' = Append(Tail(c), x) /\ last' = L("push_with_overflow", <<x>>, <<>>, "some", <<Head(c)>>, BZero)

Clear == UNCHANGED cap /\ c' = <<>> /\ last' = L("clear", <<>>, <<>>, "ok", <<>>, Bag(c))

\* the container is dropped (and a fresh one of the same capacity is created)
Destroy == UNCHANGED cap /\ c' = <<>> /\ last' = L("destroy", <<>>, <<>>, "ok", <<>>, Bag(c))

\* C14: the backing memory block moves; nothing observable changes
Relocate == UNCHANGED <<c, cap>> /\ last' = L("relocate", <<>>, <<>>, "ok", <<>>, BZero)

Next == \/ \E x \in Vals : Push(x) \/ PushOverflow(x)
        \/ Pop \/ Clear \/ Destroy \/ Relocate
Spec == Init /\ [][Next]_vars

\* ---- the clauses of the property -------------------------------------------------------------
TypeOK == c \in SeqsUpTo(Vals, cap) /\ cap \in Caps
LenBounded == Len(c) <= cap
Failed == last.r = "false"
\* action properties ([][...]_vars)
In(l) == IF l.a \in {"push", "push_with_overflow"} THEN BOne(l.i[1]) ELSE BZero
Out(l) == IF l.r = "some" THEN BOne(l.v[1]) ELSE BZero
DropExactlyOnce == BAdd(In(last'), Bag(c)) = BAdd(BAdd(Bag(c'), Out(last')), last'.d)
NoInvention == BNonNeg(last'.d)
ErrorLeavesUnchanged == (last'.a = "push" /\ last'.r = "false") => (c' = c /\ Len(c) = cap /\ last'.d = In(last'))
FifoOrder == (last'.r = "some") => last'.v[1] = Head(c)
PositionIndependent == (last'.a = "relocate") => (Obs' = Obs)
StepOK == DropExactlyOnce /\ NoInvention /\ ErrorLeavesUnchanged /\ FifoOrder /\ PositionIndependent
StepProp == [][StepOK]_vars
=============================================================================
