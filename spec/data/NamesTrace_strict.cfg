SPECIFICATION TraceSpec
CONSTANT TolerateFpafPanic = FALSE
CONSTRAINT Progress
POSTCONDITION Accepted
CHECK_DEADLOCK FALSE
INVARIANTS Validated RoundTrip EditSafe Derived
