SPECIFICATION TraceSpec
CONSTANT Caps = {0,1,2,3,4,9}
CONSTRAINT Progress
POSTCONDITION Accepted
CHECK_DEADLOCK FALSE
INVARIANTS TypeOK
