------------------------------- MODULE CUtil -------------------------------
(***************************************************************************)
(* Helpers shared by the container specifications (C16 / C14).             *)
(*                                                                         *)
(* Elements are tokens 1..NV.  Every action of a container specification   *)
(* leaves a record `last` describing the completed API call:               *)
(*   a  action name            i  scalar arguments (sequence of integers)  *)
(*   s  slice argument         r  result tag ("ok", "some", "none", ...)   *)
(*   v  returned values        d  NET DROPS: per token value the number of *)
(*      elements the container must have dropped during the call minus the *)
(*      number of clones it made (drop-counting element type of the driver *)
(*      observes exactly this difference).                                 *)
(* `d` is what makes DropExactlyOnce part of the compared result: it is    *)
(* fixed by conservation  in + content = content' + returned + d.          *)
(***************************************************************************)
EXTENDS Integers, Sequences, FiniteSets

NV == 3
Vals == 1..NV

Count(q, x) == Cardinality({k \in DOMAIN q : q[k] = x})
\* multiset of a sequence as a vector of multiplicities over Vals
Bag(q) == [x \in Vals |-> Count(q, x)]
BZero == [x \in Vals |-> 0]
BOne(y) == [x \in Vals |-> IF x = y THEN 1 ELSE 0]
BAdd(a, b) == [x \in Vals |-> a[x] + b[x]]
BSub(a, b) == [x \in Vals |-> a[x] - b[x]]
BNonNeg(a) == \A x \in Vals : a[x] >= 0

\* all sequences over S with length 0..n
SeqsUpTo(S, n) == UNION {[1..k -> S] : k \in 0..n}

SeqRemove(q, k) == [j \in 1..(Len(q) - 1) |-> IF j < k THEN q[j] ELSE q[j + 1]]
SeqInsert(q, k, x) == [j \in 1..(Len(q) + 1) |-> IF j < k THEN q[j] ELSE IF j = k THEN x ELSE q[j - 1]]
Prefix(q, n) == [j \in 1..n |-> q[j]]
Suffix(q, n) == [j \in 1..(Len(q) - n) |-> q[j + n]]   \* q without its first n elements
IsPrefix(p, q) == Len(p) <= Len(q) /\ \A j \in 1..Len(p) : p[j] = q[j]
IsSuffix(p, q) == Len(p) <= Len(q) /\ \A j \in 1..Len(p) : p[j] = q[Len(q) - Len(p) + j]
\* occurrences of pattern p in q (0-based start positions)
Occ(p, q) == {k \in 0..(Len(q) - Len(p)) : \A j \in 1..Len(p) : q[k + j] = p[j]}
Min(S) == CHOOSE x \in S : \A y \in S : x <= y
Max(S) == CHOOSE x \in S : \A y \in S : x >= y

L(a, i, s, r, v, d) == [a |-> a, i |-> i, s |-> s, r |-> r, v |-> v, d |-> d]
L0 == L("init", <<>>, <<>>, "ok", <<>>, BZero)
=============================================================================
