-------------------------------- MODULE CVec --------------------------------
(***************************************************************************)
(* Property layer of C16 for PolymorphicVec / StaticVec / RelocatableVec   *)
(* (the shared `Vector` trait): an unbounded sequence restricted by        *)
(* "capacity exceeded => documented error /\ UNCHANGED".                   *)
(* Where two documented errors apply at once (insert into a full vector    *)
(* at an out-of-bounds index) the statement does not say which one is      *)
(* reported: both are allowed.                                             *)
(* Observers compared after every step: as_slice (= c), len, is_empty,     *)
(* is_full, capacity.                                                      *)
(***************************************************************************)
EXTENDS CUtil

CONSTANTS Caps, MaxSlice
VARIABLES c, cap, last
vars == <<c, cap, last>>
view == <<c, cap>>

Obs == [c |-> c, cap |-> cap]
Init == c = <<>> /\ cap \in Caps /\ last = L0
Reset(n) == c' = <<>> /\ cap' = n /\ last' = L0

Slices == SeqsUpTo(Vals, MaxSlice)

Push(x) ==
    /\ UNCHANGED cap
    /\ IF Len(c) < cap
       THEN c' = Append(c, x) /\ last' = L("push", <<x>>, <<>>, "ok", <<>>, BZero)
       ELSE c' = c /\ last' = L("push", <<x>>, <<>>, "full", <<>>, BOne(x))

Pop ==
    /\ UNCHANGED cap
    /\ IF c = <<>>
       THEN c' = c /\ last' = L("pop", <<>>, <<>>, "none", <<>>, BZero)
       ELSE c' = Prefix(c, Len(c) - 1) /\ last' = L("pop", <<>>, <<>>, "some", <<c[Len(c)]>>, BZero)

\* k is the 0-based index; one position beyond the valid range is explored
Insert(k, x) ==
    /\ UNCHANGED cap
    /\ LET errs == (IF Len(c) >= cap THEN {"full"} ELSE {}) \cup (IF k > Len(c) THEN {"oob"} ELSE {}) IN
       IF errs = {}
       THEN c' = SeqInsert(c, k + 1, x) /\ last' = L("insert", <<k, x>>, <<>>, "ok", <<>>, BZero)
       ELSE c' = c /\ \E e \in errs : last' = L("insert", <<k, x>>, <<>>, e, <<>>, BOne(x))

Remove(k) ==
    /\ UNCHANGED cap
    /\ IF k >= Len(c)
       THEN c' = c /\ last' = L("remove", <<k>>, <<>>, "none", <<>>, BZero)
       ELSE c' = SeqRemove(c, k + 1) /\ last' = L("remove", <<k>>, <<>>, "some", <<c[k + 1]>>, BZero)

Truncate(n) ==
    /\ UNCHANGED cap
    /\ IF n >= Len(c)
       THEN c' = c /\ last' = L("truncate", <<n>>, <<>>, "ok", <<>>, BZero)
       ELSE c' = Prefix(c, n) /\ last' = L("truncate", <<n>>, <<>>, "ok", <<>>, BSub(Bag(c), Bag(Prefix(c, n))))

\* resize(n, value): value is consumed (dropped or stored); new slots hold copies of it
Resize(n, x) ==
    /\ UNCHANGED cap
    /\ IF n > cap
       THEN c' = c /\ last' = L("resize", <<n, x>>, <<>>, "full", <<>>, BOne(x))
       ELSE /\ c' = [j \in 1..n |-> IF j <= Len(c) THEN c[j] ELSE x]
            /\ last' = L("resize", <<n, x>>, <<>>, "ok", <<>>, BSub(BAdd(BOne(x), Bag(c)), Bag(c')))

\* the slice is borrowed; stored elements are clones (negative net drops)
Extend(s) ==
    /\ UNCHANGED cap
    /\ IF Len(c) + Len(s) > cap
       THEN c' = c /\ last' = L("extend_from_slice", <<>>, s, "full", <<>>, BZero)
       ELSE c' = c \o s /\ last' = L("extend_from_slice", <<>>, s, "ok", <<>>, BSub(BZero, Bag(s)))

Clear == UNCHANGED cap /\ c' = <<>> /\ last' = L("clear", <<>>, <<>>, "ok", <<>>, Bag(c))
Destroy == UNCHANGED cap /\ c' = <<>> /\ last' = L("destroy", <<>>, <<>>, "ok", <<>>, Bag(c))
Relocate == UNCHANGED <<c, cap>> /\ last' = L("relocate", <<>>, <<>>, "ok", <<>>, BZero)

Next == \/ \E x \in Vals : Push(x)
        \/ Pop
        \/ \E k \in 0..(Len(c) + 1), x \in Vals : Insert(k, x)
        \/ \E k \in 0..Len(c) : Remove(k)
        \/ \E n \in 0..(cap + 1) : Truncate(n)
        \/ \E n \in 0..(cap + 1), x \in Vals : Resize(n, x)
        \/ \E s \in Slices : Extend(s)
        \/ Clear \/ Destroy \/ Relocate
Spec == Init /\ [][Next]_vars

\* ---- the clauses of the property -------------------------------------------------------------
TypeOK == c \in SeqsUpTo(Vals, cap) /\ cap \in Caps
LenBounded == Len(c) <= cap
IsErr(l) == l.r \in {"full", "oob"}
In(l) == IF l.a \in {"push"} THEN BOne(l.i[1])
         ELSE IF l.a \in {"insert", "resize"} THEN BOne(l.i[2]) ELSE BZero
Out(l) == IF l.r = "some" THEN BOne(l.v[1]) ELSE BZero
DropExactlyOnce == BAdd(In(last'), Bag(c)) = BAdd(BAdd(Bag(c'), Out(last')), last'.d)
\* only operations that clone (resize, extend_from_slice) may have negative net drops
NoInvention == (last'.a \notin {"resize", "extend_from_slice"}) => BNonNeg(last'.d)
ErrorLeavesUnchanged == IsErr(last') => (c' = c /\ last'.d = In(last'))
\* an error is reported only when the unbounded sequence would exceed the capacity / the index is invalid
ErrorOnlyWhenDocumented ==
    /\ (last'.r = "full") => \/ last'.a \in {"push", "insert"} /\ Len(c) = cap
                             \/ last'.a = "resize" /\ last'.i[1] > cap
                             \/ last'.a = "extend_from_slice" /\ Len(c) + Len(last'.s) > cap
    /\ (last'.r = "oob") => last'.a = "insert" /\ last'.i[1] > Len(c)
PositionIndependent == (last'.a = "relocate") => (Obs' = Obs)
StepOK == DropExactlyOnce /\ NoInvention /\ ErrorLeavesUnchanged /\ ErrorOnlyWhenDocumented /\ PositionIndependent
StepProp == [][StepOK]_vars
=============================================================================
