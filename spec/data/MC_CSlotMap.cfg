SPECIFICATION Spec
CONSTANT Caps = {0,1,2}
INVARIANTS TypeOK LenBounded NextFreeKeyIsFree
PROPERTY StepProp
ACTION_CONSTRAINT Emit
VIEW view
CHECK_DEADLOCK FALSE
