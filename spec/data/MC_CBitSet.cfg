SPECIFICATION Spec
CONSTANT Caps = {1,2,3,9}
INVARIANTS TypeOK
PROPERTY StepProp
ACTION_CONSTRAINT Emit
VIEW view
CHECK_DEADLOCK FALSE
