------------------------------ MODULE AllocImpl ------------------------------
(***************************************************************************)
(* Implementation-shaped layer of C15: the integer arithmetic of           *)
(*   iceoryx2-bb/memory/src/pool_allocator.rs      (new_uninit,            *)
(*        calc_number_of_buckets, allocate, get_index, deallocate_bucket)  *)
(*   iceoryx2-bb/lock-free .. unique_index_set.rs  (LIFO free list)        *)
(*   iceoryx2-bb/elementary/src/bump_allocator.rs  (cursor)                *)
(*   iceoryx2-cal/src/shm_allocator/bump_allocator.rs (alignment <= 8,     *)
(*        deallocate = reset)                                              *)
(*   iceoryx2-bb/memory/src/one_chunk_allocator.rs                         *)
(* Every action computes what the code computes and hands the result to    *)
(* the property layer (Alloc.tla) as an observation, so that TLC checks    *)
(* the clauses of the property over ALL layouts of the bounded instance.   *)
(*                                                                         *)
(* Parameters read back from the running code (check C15, `drv-alloc       *)
(* probe`):                                                                *)
(*   StrideRaw     TRUE  : bucket v lives at start + v * bucket_size       *)
(*                 FALSE : at start + v * AlignUp(bucket_size, alignment)  *)
(*   OneChunkTight TRUE  : the one-chunk allocator subtracts the alignment *)
(*                         padding from the size without checking that it  *)
(*                         fits (the request then panics / wraps around)   *)
(***************************************************************************)
EXTENDS Alloc

CONSTANTS StrideRaw, OneChunkGuarded,
          Bases, BSizes, Aligns, MaxBuckets, BumpSizes, ReqAligns

VARIABLES free,   \* pool: stack of free bucket indices (head = next to hand out)
          cur,    \* bump: offset of the next free byte
          chunk   \* one-chunk: 0 or 1 + the (arena relative) address handed out

ivars == <<kind, lay, live, viol, why, free, cur, chunk>>

\* ---------------------------------------------------------------- pool layout
Start   == AlignUp(lay.base, lay.balign)
ASize   == AlignUp(lay.bsize, lay.balign)
NBuckets == (lay.base + lay.size - Start) \div ASize        \* calc_number_of_buckets
Stride  == IF StrideRaw THEN lay.bsize ELSE ASize
BucketAddr(i) == Start + i * Stride
BucketIndex(a) == (a - Start) \div Stride                   \* get_index

Iota(n) == [i \in 1..n |-> i - 1]

\* segment sizes of a pool layout: n buckets plus nothing / one byte / the alignment padding /
\* almost one more bucket -- covers exact fit, last partial bucket and unaligned start
PoolSizes(bs, al) ==
    LET S == AlignUp(bs, al) IN
    {n * S + e : n \in 0..MaxBuckets, e \in {0, 1, al - 1, S - 1}}

PoolLayouts ==
    {l \in [base : Bases, size : UNION {PoolSizes(bs, al) : bs \in BSizes, al \in Aligns},
            bsize : BSizes, balign : Aligns] :
        /\ l.size \in PoolSizes(l.bsize, l.balign)
        /\ l.base + l.size >= AlignUp(l.base, l.balign)       \* assumption A1 (see check): the
                                                              \* segment is not smaller than its padding
        /\ (l.base + l.size - AlignUp(l.base, l.balign)) \div AlignUp(l.bsize, l.balign) <= MaxBuckets}

FlatLayouts == [base : Bases, size : BumpSizes, bsize : {0}, balign : {1}]

Init ==
    \/ \E l \in PoolLayouts :
         /\ PInit("pool", l)
         /\ free = Iota((l.base + l.size - AlignUp(l.base, l.balign)) \div AlignUp(l.bsize, l.balign))
         /\ cur = 0 /\ chunk = 0
    \/ \E l \in FlatLayouts, k \in {"bump", "shmbump", "one"} :
         /\ PInit(k, l)
         /\ free = <<>> /\ cur = 0 /\ chunk = 0

\* ---------------------------------------------------------------- pool
\* what `allocate(Layout(sz, al))` returns in the current state
PoolRes(sz, al) ==
    IF sz > lay.bsize THEN [r |-> "SizeTooLarge", addr |-> 0]
    ELSE IF al > lay.balign THEN [r |-> "AlignmentFailure", addr |-> 0]
    ELSE IF free = <<>> THEN [r |-> "OutOfMemory", addr |-> 0]
    ELSE [r |-> "ok", addr |-> BucketAddr(Head(free))]

PoolAllocate(sz, al) ==
    /\ kind = "pool"
    /\ UNCHANGED <<cur, chunk>>
    /\ LET res == PoolRes(sz, al) IN
       IF res.r = "ok" THEN ObsAllocOk(sz, al, res.addr, lay.bsize) /\ free' = Tail(free)
       ELSE ObsAllocErr(sz, al, res.r) /\ UNCHANGED free

PoolDeallocate(a) ==
    /\ kind = "pool"
    /\ ObsFree(a)
    /\ free' = <<BucketIndex(a)>> \o free
    /\ UNCHANGED <<cur, chunk>>

\* ---------------------------------------------------------------- bump
BumpOff(al) == AlignUp(lay.base + cur, al) - lay.base
BumpRes(sz, al) ==
    IF kind = "shmbump" /\ al > 8 THEN [r |-> "AlignmentFailure", addr |-> 0]
    ELSE IF sz = 0 THEN [r |-> "SizeIsZero", addr |-> 0]
    ELSE IF BumpOff(al) + sz > lay.size THEN [r |-> "OutOfMemory", addr |-> 0]
    ELSE [r |-> "ok", addr |-> lay.base + BumpOff(al)]

BumpAllocate(sz, al) ==
    /\ kind \in {"bump", "shmbump"}
    /\ UNCHANGED <<free, chunk>>
    /\ LET res == BumpRes(sz, al) IN
       IF res.r = "ok" THEN ObsAllocOk(sz, al, res.addr, sz) /\ cur' = BumpOff(al) + sz
       ELSE ObsAllocErr(sz, al, res.r) /\ UNCHANGED cur

BumpReset ==
    /\ kind \in {"bump", "shmbump"}
    /\ ObsFreeAll
    /\ cur' = 0
    /\ UNCHANGED <<free, chunk>>

\* ---------------------------------------------------------------- one chunk
OneRes(sz, al) ==
    LET adj == AlignUp(lay.base, al)
        pad == adj - lay.base IN
    IF chunk # 0 THEN [r |-> "OutOfMemory", addr |-> 0]
    ELSE IF pad > lay.size THEN
         \* `self.size - (adjusted_start - self.start)` : unsigned underflow unless guarded
         [r |-> IF OneChunkGuarded THEN "OutOfMemory" ELSE "panic", addr |-> 0]
    ELSE IF lay.size - pad <= sz THEN [r |-> "OutOfMemory", addr |-> 0]
    ELSE [r |-> "ok", addr |-> adj]

OneAllocate(sz, al) ==
    /\ kind = "one"
    /\ UNCHANGED <<free, cur>>
    /\ LET res == OneRes(sz, al) IN
       IF res.r = "ok" THEN ObsAllocOk(sz, al, res.addr, SegEnd - res.addr) /\ chunk' = res.addr + 1
       ELSE ObsAllocErr(sz, al, res.r) /\ UNCHANGED chunk

OneDeallocate ==
    /\ kind = "one"
    /\ chunk # 0
    /\ ObsFree(chunk - 1)
    /\ chunk' = 0
    /\ UNCHANGED <<free, cur>>

ReqSizes == IF kind = "pool" THEN 0..(lay.bsize + 1) ELSE 0..5

DoPoolAllocate == \E sz \in ReqSizes, al \in ReqAligns : PoolAllocate(sz, al)
DoBumpAllocate == \E sz \in ReqSizes, al \in ReqAligns : BumpAllocate(sz, al)
DoOneAllocate  == \E sz \in ReqSizes, al \in ReqAligns : OneAllocate(sz, al)
DoPoolDeallocate == \E x \in live : PoolDeallocate(x.addr)

Next ==
    \/ DoPoolAllocate \/ DoBumpAllocate \/ DoOneAllocate
    \/ DoPoolDeallocate
    \/ BumpReset
    \/ OneDeallocate

Spec == Init /\ [][Next]_ivars

\* ---------------------------------------------------------------- structural invariants
\* "freed memory is reusable": no bucket is lost and none is handed out twice
PoolConserved ==
    kind = "pool" =>
        /\ Len(free) + Cardinality(live) = NBuckets
        /\ \A i, j \in 1..Len(free) : i # j => free[i] # free[j]
        /\ \A i \in 1..Len(free) : free[i] \in 0..(NBuckets - 1)
        /\ \A x \in live : \A i \in 1..Len(free) : BucketAddr(free[i]) # x.addr
BumpConserved ==
    kind \in {"bump", "shmbump"} =>
        /\ cur <= lay.size
        /\ \A x \in live : x.addr + x.ext <= lay.base + cur
        /\ (live = {} /\ cur # 0) => FALSE
OneConserved ==
    kind = "one" => (chunk = 0 <=> live = {})
ReusableImpl == PoolConserved /\ BumpConserved /\ OneConserved
=============================================================================
