---------------------------- MODULE MC_AllocImpl ----------------------------
(* Bounded instance of AllocImpl.tla: ALL layouts with segment start offsets  *)
(* 0..15, bucket sizes 1..9, alignments 1,2,4,8,16, request sizes 0..bucket+1 *)
(* (thorough); the quick instance (MC_AllocImpl_quick.cfg) thins the bucket   *)
(* sizes.  StrideRaw / OneChunkGuarded are overridden by the check with the   *)
(* values probed from the running code.                                       *)
EXTENDS AllocImpl
AllBases == 0..15
AllBSizes == 1..9
QuickBSizes == {1, 3, 4, 5, 8, 9}
PowAligns == {1, 2, 4, 8, 16}
SmallSizes == 0..9
QuickSmallSizes == 0..7
ThoroughSmallSizes == 0..11
=============================================================================
