---------------------------- MODULE DomainsTrace ----------------------------
(***************************************************************************)
(* Trace specification of C19 (b), property layer: observations recorded   *)
(* by `drv-names domains` from two REAL iceoryx2 domains (configurations   *)
(* d = 0, 1 differing in prefix and/or root path) are explained by the     *)
(* abstract object "every domain has its own set of nodes and services".   *)
(* Events: create_node / create_service / kill (a process of the domain    *)
(* is killed, its node becomes dead) / drop_node, and the observations     *)
(* list_nodes, list_services, exists, open, cleanup (dead nodes).          *)
(* Clauses (invariants, latched by the first observation that breaks one): *)
(*   NodeListIsolated / ServiceListIsolated / ExistsIsolated /             *)
(*   OpenIsolated / CleanupIsolated / CreateIsolated                       *)
(*        Isolation: nothing created under the other configuration is      *)
(*        listed, found, opened or cleaned up; creation is not disturbed   *)
(*        by the other domain                                              *)
(*   NodeListComplete / ServiceListComplete / ExistsComplete /             *)
(*   CleanupComplete                                                       *)
(*        RoundTrip: what a domain created is listed, exists, can be       *)
(*        opened and, once dead, is cleaned up under its own configuration *)
(*   CreatedUnderDomain                                                    *)
(*        every file / shared memory object that appears while only domain *)
(*        d creates something lies under d's root path with d's prefix in  *)
(*        its name, or is a shared memory object named with d's prefix     *)
(*                                                                         *)
(* `drv-names resources` runs under the LD_PRELOAD shim (every path is     *)
(* logged, wherever it is): after every step of domain d - node, the four  *)
(* messaging patterns, each of the eight port kinds, a dynamic data        *)
(* segment, a dying process that owns all of it, dead-node cleanup,        *)
(* orderly shutdown - the paths the step CREATED (open O_CREAT, shm_open   *)
(* O_CREAT, mkdir, bind of a unix socket, rename target) and REMOVED       *)
(* (unlink, remove, rmdir, shm_unlink, rename source) are `created` /      *)
(* `removed` records with their kind (file, dir, shm, socket):             *)
(*   CreatedUnderDomain   a file or socket lies (lexically resolved) below *)
(*        d's root and carries d's prefix; a directory is the root, an     *)
(*        ancestor of it or below it; a shared memory object carries d's   *)
(*        prefix.  /tmp, the default root, the current directory ... are   *)
(*        outside.                                                         *)
(*   RemovedUnderDomain   the same for everything a step of d removes, and *)
(*        nothing the OTHER domain created is removed                      *)
(* and the cal-level management functions of every concept of the ipc      *)
(* service (static storage, dynamic storage, shared memory, resizable      *)
(* shared memory, zero copy connection, event, monitoring) called with the *)
(* names of the other domain (`owned` = what each domain created so far):  *)
(*   ConceptListIsolated    list_cfg under d reports only objects d owns   *)
(*   ConceptExistsIsolated  does_exist_cfg(name of the other) is false     *)
(*        unless d owns an object of that name itself                      *)
(*   ConceptExistsComplete  ... and true if it does                        *)
(*   ConceptRemoveIsolated  remove_cfg(name of the other) returns false    *)
(*        (and removes nothing: RemovedUnderDomain)                        *)
(* Shared memory has no directories (NamedConceptConfiguration::path_hint: *)
(* "the path will be ignored"): for shared memory objects a domain is its  *)
(* prefix; two configurations with the SAME prefix and different roots     *)
(* share them at the cal level.                                            *)
(***************************************************************************)
EXTENDS Names, TraceIO

\* NodeClauses = FALSE: the node listing / cleanup clauses are not judged (second pass over a trace
\* of a configuration pair with a known node-naming ambiguity, so that the service clauses are
\* still checked there)
CONSTANT NodeClauses

VARIABLES l, nodes, svcs, dviol, dwhy,
          dom,         \* per domain: root path and prefix as byte sequences
          owned        \* <<d, path>>: what the steps of domain d created and nobody removed yet
tvars == <<l, nodes, svcs, dviol, dwhy, dom, owned>>

TraceInit == /\ l = 1 /\ nodes = {} /\ svcs = {} /\ dviol = "none" /\ dwhy = <<>> /\ TraceRegInit
             /\ dom = [d \in {0, 1} |-> [root |-> <<>>, prefix |-> <<>>]]
             /\ owned = {}

LastSlash(s) == IF \E i \in 1..Len(s) : s[i] = 47 THEN CHOOSE i \in 1..Len(s) : s[i] = 47 /\ \A j \in (i + 1)..Len(s) : s[j] # 47 ELSE 0
Basename(s) == IF LastSlash(s) = Len(s) THEN <<>> ELSE SubSeq(s, LastSlash(s) + 1, Len(s))
DevShm == <<47, 100, 101, 118, 47, 115, 104, 109, 47>>      \* "/dev/shm/"

\* "everything an application creates lives under its configured root path and prefix": a file
\* below the root whose name carries the prefix, or a shared memory object whose name carries it
Belongs(p, d) ==
    \/ HasPrefix(p, dom[d].root \o <<47>>) /\ HasPrefix(Basename(p), dom[d].prefix)
    \/ HasPrefix(p, DevShm \o dom[d].prefix)

\* lexical position of a path relative to a root (components; "." and ".." resolved, Names.tla Resolve)
IsSeqPrefix(a, b) == Len(a) <= Len(b) /\ \A i \in 1..Len(a) : a[i] = b[i]
Below(root, p) == LET r == Resolve(root) q == Resolve(p) IN Len(q) > Len(r) /\ IsSeqPrefix(r, q)
AtOrAround(root, p) == LET r == Resolve(root) q == Resolve(p) IN IsSeqPrefix(r, q) \/ IsSeqPrefix(q, r)
Absolute(p) == p # <<>> /\ p[1] = 47

\* the judgement of one created / removed path of kind file | socket | dir | shm
BelongsK(p, kind, d) ==
    CASE kind = "shm" -> HasPrefix(p, DevShm \o dom[d].prefix)
      [] kind = "dir" -> Absolute(p) /\ AtOrAround(dom[d].root, p)
      [] OTHER        -> Absolute(p) /\ Below(dom[d].root, p) /\ HasPrefix(Basename(p), dom[d].prefix)

\* an object at location p counts as d's own: d created it, or it is a shared memory object and the other domain,
\* which has the same prefix, did
\* The objects of a concept configured with (dir, prefix, suffix) are named <dir>/<prefix>..<name>..<suffix> (a type
\* hash may precede the name, a concept may keep several objects per name).  `name` exists for domain d iff d owns
\* such an object (for shared memory objects: or the other domain does and has the same prefix).
Contains(s, t) == \E i \in 1..(Len(s) - Len(t) + 1) : SubSeq(s, i, i + Len(t) - 1) = t
OwnedBy(d, dir, name, suffix, shm) ==
    \E o \in owned : /\ (o[1] = d \/ (shm /\ dom[0].prefix = dom[1].prefix))
                     /\ HasPrefix(o[2], dir \o <<47>> \o dom[d].prefix) /\ HasSuffix(o[2], suffix)
                     /\ Contains(Basename(o[2]), name)

Range(s) == {s[i] : i \in 1..Len(s)}
Pairs(a, b) == {<<a[i], b[i]>> : i \in 1..Len(a)}

NodesOf(d) == {n \in nodes : n.d = d}
NamesOf(d) == {s.name : s \in {x \in svcs : x.d = d}}

Verdict(first, second, e) ==
    \* first / second: <<broken?, clause>> ; the isolation clause takes precedence
    /\ dviol' = IF dviol # "none" THEN dviol
                ELSE IF first[1] THEN first[2] ELSE IF second[1] THEN second[2] ELSE "none"
    /\ dwhy' = IF dviol = "none" /\ (first[1] \/ second[1]) THEN e ELSE dwhy

Remove(dn) ==   \* nodes dn disappear together with the services they own
    /\ nodes' = nodes \ dn
    /\ svcs' = {s \in svcs : ~(\E n \in dn : n.d = s.d /\ n.id = s.owner)}

Consume ==
    /\ l <= NRec
    /\ l' = l + 1
    /\ LET e == Rec[l] IN
       CASE e.k = "reset" ->
                /\ nodes' = {} /\ svcs' = {} /\ dviol' = "none" /\ dwhy' = <<>>
                /\ dom' = [d \in {0, 1} |-> IF d = 0 THEN [root |-> e.root0b, prefix |-> e.prefix0b]
                                                     ELSE [root |-> e.root1b, prefix |-> e.prefix1b]]
                /\ owned' = {}
         [] e.k = "op" /\ e.a = "created" ->
                /\ Verdict(<<\E i \in 1..Len(e.paths) : ~BelongsK(e.paths[i], e.kinds[i], e.d), "CreatedUnderDomain">>, <<FALSE, "">>, e)
                /\ owned' = owned \cup {<<e.d, e.paths[i]>> : i \in 1..Len(e.paths)}
                /\ UNCHANGED <<nodes, svcs, dom>>
         [] e.k = "op" /\ e.a = "removed" ->
                /\ Verdict(<<\E i \in 1..Len(e.paths) : ~BelongsK(e.paths[i], e.kinds[i], e.d)
                                                         \* (directories below a common root are shared)
                                                         \/ (e.kinds[i] # "dir" /\ <<1 - e.d, e.paths[i]>> \in owned
                                                                               /\ <<e.d, e.paths[i]>> \notin owned),
                             "RemovedUnderDomain">>, <<FALSE, "">>, e)
                /\ owned' = {o \in owned : ~(\E i \in 1..Len(e.paths) : o[2] = e.paths[i])}
                /\ UNCHANGED <<nodes, svcs, dom>>
         [] e.k = "op" /\ e.a = "concept_list" ->
                /\ Verdict(<<e.r # "ok" \/ \E i \in 1..Len(e.names) : ~OwnedBy(e.d, e.dir, e.names[i], e.suffix, e.shm), "ConceptListIsolated">>,
                           <<FALSE, "">>, e)
                /\ UNCHANGED <<nodes, svcs, dom, owned>>
         [] e.k = "op" /\ e.a = "concept_exists" ->
                /\ Verdict(<<e.r \notin {"true", "false"} \/ (e.r = "true" /\ ~OwnedBy(e.d, e.dir, e.name, e.suffix, e.shm)), "ConceptExistsIsolated">>,
                           <<e.r = "false" /\ OwnedBy(e.d, e.dir, e.name, e.suffix, e.shm), "ConceptExistsComplete">>, e)
                /\ UNCHANGED <<nodes, svcs, dom, owned>>
         [] e.k = "op" /\ e.a = "concept_remove" ->
                \* only issued for a name that does not exist under this configuration
                /\ Verdict(<<e.r # "false", "ConceptRemoveIsolated">>, <<FALSE, "">>, e)
                /\ UNCHANGED <<nodes, svcs, dom, owned>>
         [] e.k = "op" /\ e.a = "port_step" ->
                \* creating a port / using it in one domain is not disturbed by the other domain
                /\ Verdict(<<e.r # "ok", "CreateIsolated">>, <<FALSE, "">>, e)
                /\ UNCHANGED <<nodes, svcs, dom, owned>>
         [] e.k = "op" /\ e.a = "created_files" ->
                /\ Verdict(<<\E i \in 1..Len(e.paths) : ~Belongs(e.paths[i], e.d), "CreatedUnderDomain">>, <<FALSE, "">>, e)
                /\ UNCHANGED <<nodes, svcs, dom, owned>>
         [] e.k = "op" /\ e.a = "create_node" ->
                /\ nodes' = IF e.r = "ok" THEN nodes \cup {[d |-> e.d, id |-> e.id, st |-> "alive"]} ELSE nodes
                /\ Verdict(<<e.r # "ok", "CreateIsolated">>, <<FALSE, "">>, e)
                /\ UNCHANGED <<svcs, dom, owned>>
         [] e.k = "op" /\ e.a = "create_service" ->
                /\ svcs' = IF e.r = "ok" THEN svcs \cup {[d |-> e.d, name |-> e.name, owner |-> e.id]} ELSE svcs
                /\ Verdict(<<e.r # "ok", "CreateIsolated">>, <<FALSE, "">>, e)
                /\ UNCHANGED <<nodes, dom, owned>>
         [] e.k = "op" /\ e.a = "kill" ->
                /\ \E n \in nodes : n.d = e.d /\ n.id = e.id
                /\ nodes' = {IF n.d = e.d /\ n.id = e.id THEN [n EXCEPT !.st = "dead"] ELSE n : n \in nodes}
                /\ UNCHANGED <<svcs, dviol, dwhy, dom, owned>>
         [] e.k = "op" /\ e.a = "drop_node" ->
                /\ Remove({n \in nodes : n.d = e.d /\ n.id = e.id})
                /\ UNCHANGED <<dviol, dwhy, dom, owned>>
         [] e.k = "op" /\ e.a = "drop_service" ->
                /\ svcs' = {x \in svcs : ~(x.d = e.d /\ x.name = e.name)}
                /\ UNCHANGED <<nodes, dviol, dwhy, dom, owned>>
         [] e.k = "op" /\ e.a = "list_nodes" ->
                LET own == {<<n.id, n.st>> : n \in NodesOf(e.d)}
                    seen == Pairs(e.ids, e.states) IN
                /\ Verdict(<<NodeClauses /\ (e.r # "ok" \/ \E p \in seen : ~(\E n \in NodesOf(e.d) : n.id = p[1])), "NodeListIsolated">>,
                           <<NodeClauses /\ seen # own, "NodeListComplete">>, e)
                /\ UNCHANGED <<nodes, svcs, dom, owned>>
         [] e.k = "op" /\ e.a = "list_services" ->
                /\ Verdict(<<e.r # "ok" \/ ~(Range(e.names) \subseteq NamesOf(e.d)), "ServiceListIsolated">>,
                           <<~(NamesOf(e.d) \subseteq Range(e.names)), "ServiceListComplete">>, e)
                /\ UNCHANGED <<nodes, svcs, dom, owned>>
         [] e.k = "op" /\ e.a = "exists" ->
                /\ Verdict(<<e.r \notin {"true", "false"} \/ (e.r = "true" /\ e.name \notin NamesOf(e.d)), "ExistsIsolated">>,
                           <<e.r = "false" /\ e.name \in NamesOf(e.d), "ExistsComplete">>, e)
                /\ UNCHANGED <<nodes, svcs, dom, owned>>
         [] e.k = "op" /\ e.a = "open" ->
                /\ Verdict(<<e.r = "ok" /\ e.name \notin NamesOf(e.d), "OpenIsolated">>,
                           <<e.r # "ok" /\ e.name \in NamesOf(e.d), "ExistsComplete">>, e)
                /\ UNCHANGED <<nodes, svcs, dom, owned>>
         [] e.k = "op" /\ e.a = "cleanup" ->
                LET deadn == {n \in NodesOf(e.d) : n.st = "dead"} IN
                /\ Verdict(<<NodeClauses /\ e.n > Cardinality(deadn), "CleanupIsolated">>,
                           <<NodeClauses /\ (e.n < Cardinality(deadn) \/ e.r # "0"), "CleanupComplete">>, e)
                /\ Remove(deadn)
                /\ UNCHANGED <<dom, owned>>
         [] OTHER -> FALSE

TraceNext == Consume
TraceSpec == TraceInit /\ [][TraceNext]_tvars
Progress == TraceProgress(l)
Accepted == TraceAccepted

NodeListIsolated    == dviol # "NodeListIsolated"
ServiceListIsolated == dviol # "ServiceListIsolated"
ExistsIsolated      == dviol # "ExistsIsolated"
OpenIsolated        == dviol # "OpenIsolated"
CleanupIsolated     == dviol # "CleanupIsolated"
CreateIsolated      == dviol # "CreateIsolated"
NodeListComplete    == dviol # "NodeListComplete"
ServiceListComplete == dviol # "ServiceListComplete"
ExistsComplete      == dviol # "ExistsComplete"
CleanupComplete     == dviol # "CleanupComplete"
CreatedUnderDomain  == dviol # "CreatedUnderDomain"
RemovedUnderDomain  == dviol # "RemovedUnderDomain"
ConceptListIsolated   == dviol # "ConceptListIsolated"
ConceptExistsIsolated == dviol # "ConceptExistsIsolated"
ConceptExistsComplete == dviol # "ConceptExistsComplete"
ConceptRemoveIsolated == dviol # "ConceptRemoveIsolated"
=============================================================================
