---- MODULE MC_CIndexSet ----
EXTENDS CIndexSet, TLC, Json
Emit == PrintT(<<"EDGE", ToJson([f |-> Obs, l |-> last', t |-> Obs'])>>)
====
