---- MODULE CIdxQueueTrace ----
(* Trace specification (impl -> spec): explains the operations recorded by drv-containers on the  *)
(* real containers (arguments, results, net drops, observed state after every call) by CQueue.  *)
EXTENDS CQueue, TraceIO

VARIABLE l
tvars == <<vars, l>>
Ev == Rec[l]

TraceInit == l = 1 /\ TraceRegInit /\ c = <<>> /\ cap = 0 /\ last = L0

ObsMatch(o) == Len(c') = o.n /\ cap' = o.cap

Consume ==
    /\ l <= NRec
    /\ l' = l + 1
    /\ LET e == Ev IN
       CASE e.k = "reset" -> Reset(e.cap)
         [] e.k = "op" -> /\ Next
                          \* the elements are plain integers: no drop accounting (d is not compared)
                          /\ last'.a = e.a /\ last'.i = e.i /\ last'.s = e.s /\ last'.r = e.r /\ last'.v = e.v
                          /\ ObsMatch(e.o)
         [] OTHER -> FALSE

TraceNext == Consume
TraceSpec == TraceInit /\ [][TraceNext]_tvars
Progress == TraceProgress(l)
Accepted == TraceAccepted
====
