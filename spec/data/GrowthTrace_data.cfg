SPECIFICATION TraceSpec
CONSTANT JudgeServes = FALSE
CONSTRAINT Progress
POSTCONDITION Accepted
CHECK_DEADLOCK FALSE
INVARIANTS GrowthServes LoanAligned LoanIntact LoanDisjoint RecvResolves HeldIntact HeldDisjoint HeldAligned NoPanic
