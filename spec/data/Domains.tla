------------------------------- MODULE Domains -------------------------------
(***************************************************************************)
(* C19 (b): resource naming and domain isolation.                          *)
(*                                                                         *)
(* Implementation-shaped part (named_concept.rs, config_scheme.rs,         *)
(* node/mod.rs, service/mod.rs):                                           *)
(*   path_for(cfg, kind, name) = <root>/<subdir(kind)>/ prefix o name o    *)
(*                               suffix(kind)                              *)
(*   extract_name(cfg, kind, file): strip the prefix, then the suffix,     *)
(*                               wherever they match (no delimiter)        *)
(*   listing: all files of the directory whose extracted name is a valid   *)
(*            name of that kind (node ids: decimal digits of any length;   *)
(*            service hashes: HashLen hex characters)                      *)
(*   does_exist / open: path_for(cfg, kind, name) is present               *)
(*   cleanup of a dead node: remove path_for(cfg, node, id) for every      *)
(*            listed dead id                                               *)
(*   kind "shm": the concepts that are POSIX shared memory objects (dynamic *)
(*            config, data segments, connections, event state, ...) live   *)
(*            in ONE system-wide directory - the path hint is ignored - as  *)
(*            prefix o name o suffix: for them a domain is its prefix      *)
(* Strings are sequences of one-character strings.  Two configurations     *)
(* (root, prefix) are chosen from Configs; every file remembers which      *)
(* configuration created it (ghost `owner`).                               *)
(*                                                                         *)
(* Property layer (the clauses):                                           *)
(*   RoundTrip   extract_name(path_for(c, k, n)) = n and everything a      *)
(*               configuration created is listed / exists under it         *)
(*   Isolation   nothing created under configuration A is returned by a    *)
(*               listing or an existence check, or removed by a cleanup,   *)
(*               under a configuration B # A                               *)
(*   ShmIsolation  the same for the shared memory objects of two           *)
(*               configurations with DIFFERENT prefixes (with the same     *)
(*               prefix and different roots they are shared at the cal     *)
(*               level; iceoryx2 reaches them only through the names       *)
(*               stored in the static configuration files under the root)  *)
(***************************************************************************)
EXTENDS Naturals, Sequences, FiniteSets

CONSTANTS Configs,      \* sequence of [root, prefix] (unordered pairs are explored)
          NodeIds,      \* node ids (digit strings) that may be created
          Hashes,       \* service hashes that may be created
          HashLen

VARIABLES cA, cB,       \* the two configurations
          files,        \* set of [dir, file, owner]
          dead,         \* set of [c, id]: nodes whose process died
          breach        \* "none" or the clause broken by a cleanup

vars == <<cA, cB, files, dead, breach>>

Digits == {"0", "1", "2", "3", "4", "5", "6", "7", "8", "9"}
Hex == Digits \cup {"a", "b", "c", "d", "e", "f"}

Suffix(kind) == IF kind = "node" THEN <<".", "n">> ELSE IF kind = "shm" THEN <<".", "d">> ELSE <<".", "s">>
SubDir(kind) == IF kind = "node" THEN "nodes" ELSE "services"
Dir(c, kind) == IF kind = "shm" THEN <<"/dev/shm", "">> ELSE <<c.root, SubDir(kind)>>

HasPrefix(s, p) == Len(s) >= Len(p) /\ \A i \in 1..Len(p) : s[i] = p[i]
HasSuffix(s, p) == Len(s) >= Len(p) /\ \A i \in 1..Len(p) : s[Len(s) - Len(p) + i] = p[i]
Mid(s, a, b) == IF a > b THEN <<>> ELSE SubSeq(s, a, b)

ValidName(kind, n) ==
    IF kind = "node" THEN n # <<>> /\ \A i \in 1..Len(n) : n[i] \in Digits
    ELSE Len(n) = HashLen /\ \A i \in 1..Len(n) : n[i] \in Hex

FileFor(c, kind, n) == c.prefix \o n \o Suffix(kind)

NoName == <<"?">>
Extract(c, kind, file) ==
    IF ~HasPrefix(file, c.prefix) THEN NoName
    ELSE LET rest == Mid(file, Len(c.prefix) + 1, Len(file)) IN
         IF ~HasSuffix(rest, Suffix(kind)) THEN NoName
         ELSE Mid(rest, 1, Len(rest) - Len(Suffix(kind)))

Listing(c, kind) ==
    {n \in {Extract(c, kind, f.file) : f \in {g \in files : g.dir = Dir(c, kind)}} : n # NoName /\ ValidName(kind, n)}

Exists(c, kind, n) == \E f \in files : f.dir = Dir(c, kind) /\ f.file = FileFor(c, kind, n)

Created(c, kind) == {n \in (IF kind = "node" THEN NodeIds ELSE Hashes) :
                        \E f \in files : f.owner = c /\ f.dir = Dir(c, kind) /\ f.file = FileFor(c, kind, n)}

Init ==
    /\ \E i, j \in 1..Len(Configs) : i < j /\ cA = Configs[i] /\ cB = Configs[j] /\ cA # cB
    /\ files = {} /\ dead = {} /\ breach = "none"

Cfgs == {cA, cB}

Create(c, kind, n) ==
    /\ ~Exists(c, kind, n)          \* creation is exclusive (O_EXCL); an existing file makes it fail
    /\ files' = files \cup {[dir |-> Dir(c, kind), file |-> FileFor(c, kind, n), owner |-> c]}
    /\ UNCHANGED <<cA, cB, dead, breach>>

Die(c, n) ==
    /\ n \in Created(c, "node")
    /\ dead' = dead \cup {[c |-> c, id |-> n]}
    /\ UNCHANGED <<cA, cB, files, breach>>

\* the state a listing under c attributes to the listed id: taken from the token file it resolves to
LooksDead(c, n) ==
    \E f \in files : f.dir = Dir(c, "node") /\ f.file = FileFor(c, "node", n)
                     /\ \E d \in dead : d.c = f.owner /\ FileFor(d.c, "node", d.id) = f.file

Cleanup(c) ==
    LET victims == {n \in Listing(c, "node") : LooksDead(c, n)}
        gone == {f \in files : f.dir = Dir(c, "node") /\ \E n \in victims : f.file = FileFor(c, "node", n)} IN
    /\ victims # {}
    /\ files' = files \ gone
    /\ breach' = IF \E f \in gone : f.owner # c THEN "Isolation" ELSE breach
    /\ dead' = {d \in dead : ~(\E f \in gone : f.owner = d.c /\ f.file = FileFor(d.c, "node", d.id))}
    /\ UNCHANGED <<cA, cB>>

CreateNode == \E c \in Cfgs, n \in NodeIds : Create(c, "node", n)
CreateService == \E c \in Cfgs, h \in Hashes : Create(c, "service", h)
CreateShm == \E c \in Cfgs, h \in Hashes : Create(c, "shm", h)
Kill == \E c \in Cfgs, n \in NodeIds : Die(c, n)
CleanupDead == \E c \in Cfgs : Cleanup(c)

Next == CreateNode \/ CreateService \/ CreateShm \/ Kill \/ CleanupDead

Spec == Init /\ [][Next]_vars

Kinds2 == {"node", "service"}

Kinds3 == {"node", "service", "shm"}

RoundTrip ==
    \A c \in Cfgs, k \in Kinds3 :
        /\ \A n \in Created(c, k) : n \in Listing(c, k) /\ Exists(c, k, n)
        /\ \A n \in (IF k = "node" THEN NodeIds ELSE Hashes) : Extract(c, k, FileFor(c, k, n)) = n

\* a listing / existence check under c only reports what c created
IsolatedKind(c, k) ==
        /\ \A n \in Listing(c, k) : \E f \in files : f.owner = c /\ f.dir = Dir(c, k) /\ f.file = FileFor(c, k, n)
        /\ \A f \in files : (f.dir = Dir(c, k) /\ f.owner # c) =>
               ~(\E n \in (IF k = "node" THEN NodeIds ELSE Hashes) : f.file = FileFor(c, k, n))
Isolation ==
    /\ breach = "none"
    /\ \A c \in Cfgs, k \in Kinds2 : IsolatedKind(c, k)
ShmIsolation == cA.prefix # cB.prefix => \A c \in Cfgs : IsolatedKind(c, "shm")
\* (refuted by TLC when the guard is dropped: same prefix, different roots - the documented limit of path_hint)
ShmIsolationUnguarded == \A c \in Cfgs : IsolatedKind(c, "shm")

\* the configuration class for which the naming scheme is ambiguous: same root and one prefix is
\* the other one extended by characters that are valid in a node id
DigitExtension(p, q) ==
    /\ Len(q) > Len(p) /\ HasPrefix(q, p)
    /\ \A i \in (Len(p) + 1)..Len(q) : q[i] \in Digits
Ambiguous(c, d) == c.root = d.root /\ (DigitExtension(c.prefix, d.prefix) \/ DigitExtension(d.prefix, c.prefix))

SpecSafe == (Init /\ ~Ambiguous(cA, cB)) /\ [][Next]_vars       \* must satisfy RoundTrip and Isolation
SpecAmbiguous == (Init /\ Ambiguous(cA, cB)) /\ [][Next]_vars   \* hypothesis 4 of DESIGN.md section 7
=============================================================================
