------------------------------ MODULE CIndexSet ------------------------------
(***************************************************************************)
(* Sequential form of UniqueIndexSet (C14; the concurrent behaviour is     *)
(* C09's business): a set of borrowed indices out of 0..cap-1.             *)
(*   acquire            IsLocked when locked, OutOfIndices when all are    *)
(*                      borrowed, otherwise SOME index that is not         *)
(*                      borrowed (which one is left open)                  *)
(*   release(i, mode)   i must be borrowed (contract); with mode           *)
(*                      LockIfLastIndex (1) the release of the last        *)
(*                      borrowed index locks the set for good              *)
(* Observers: borrowed_indices(), is_locked(), capacity().                 *)
(***************************************************************************)
EXTENDS CUtil

CONSTANTS Caps
VARIABLES b, locked, cap, last
vars == <<b, locked, cap, last>>
view == <<b, locked, cap>>

\* the set is printed as a 0/1 vector so that the JSON shape is uniform
Obs == [b |-> [k \in 1..cap |-> IF (k - 1) \in b THEN 1 ELSE 0], locked |-> IF locked THEN 1 ELSE 0, cap |-> cap]
Init == b = {} /\ locked = FALSE /\ cap \in Caps /\ last = L0
Reset(n) == b' = {} /\ locked' = FALSE /\ cap' = n /\ last' = L0
LI(a, i, r, v) == L(a, i, <<>>, r, v, BZero)

Acquire ==
    /\ UNCHANGED <<cap, locked>>
    /\ IF locked THEN b' = b /\ last' = LI("acquire", <<>>, "locked", <<>>)
       ELSE IF Cardinality(b) >= cap THEN b' = b /\ last' = LI("acquire", <<>>, "out_of_indices", <<>>)
       ELSE \E k \in (0..(cap - 1)) \ b : b' = b \cup {k} /\ last' = LI("acquire", <<>>, "ok", <<k>>)

Release(k, mode) ==
    /\ k \in b
    /\ UNCHANGED cap
    /\ b' = b \ {k}
    /\ IF mode = 1 /\ Cardinality(b) = 1
       THEN locked' = TRUE /\ last' = LI("release", <<k, mode>>, "locked", <<>>)
       ELSE locked' = locked /\ last' = LI("release", <<k, mode>>, "unlocked", <<>>)

Destroy == UNCHANGED cap /\ b' = {} /\ locked' = FALSE /\ last' = LI("destroy", <<>>, "ok", <<>>)
Relocate == UNCHANGED <<b, locked, cap>> /\ last' = LI("relocate", <<>>, "ok", <<>>)

Next == Acquire \/ (\E k \in b, mode \in {0, 1} : Release(k, mode)) \/ Destroy \/ Relocate
Spec == Init /\ [][Next]_vars

TypeOK == b \subseteq 0..(cap - 1) /\ locked \in BOOLEAN /\ cap \in Caps
LenBounded == Cardinality(b) <= cap
LockedIsEmpty == locked => b = {}
Exclusive == (last'.a = "acquire" /\ last'.r = "ok") => (last'.v[1] \notin b /\ last'.v[1] < cap)
ErrorLeavesUnchanged == (last'.a = "acquire" /\ last'.r # "ok") => (b' = b /\ locked' = locked)
PositionIndependent == (last'.a = "relocate") => (Obs' = Obs)
StepOK == Exclusive /\ ErrorLeavesUnchanged /\ PositionIndependent
StepProp == [][StepOK]_vars
=============================================================================
