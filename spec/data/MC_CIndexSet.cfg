SPECIFICATION Spec
CONSTANT Caps = {0,1,2,3}
INVARIANTS TypeOK LenBounded LockedIsEmpty
PROPERTY StepProp
ACTION_CONSTRAINT Emit
VIEW view
CHECK_DEADLOCK FALSE
