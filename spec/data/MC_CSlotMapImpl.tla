---- MODULE MC_CSlotMapImpl ----
EXTENDS CSlotMapImpl, TLC, Json
Emit == PrintT(<<"EDGE", ToJson([f |-> Obs, l |-> last', t |-> Obs'])>>)
====
