------------------------------- MODULE CString -------------------------------
(***************************************************************************)
(* Property layer of C16 for StaticString / PolymorphicString /            *)
(* RelocatableString (the shared `String` trait): an unbounded byte string *)
(* restricted by the capacity and by the documented character set.         *)
(*                                                                         *)
(* Byte alphabet: NUL (0), two ASCII letters, a separator and a non-UTF-8  *)
(* byte >= 0x80.  The containers document that only code points 1..127 are *)
(* accepted: inserting NUL or a byte >= 128 fails with InvalidCharacter,   *)
(* exceeding the capacity with InsertWouldExceedCapacity; if both apply    *)
(* either is allowed; nothing changes on failure.                          *)
(*   insert/insert_bytes  index > len is a documented contract violation   *)
(*                        (fatal panic) and not part of the model          *)
(*   remove(k)            None for k >= len                                *)
(*   remove_range(k, n)   false (unchanged) unless k + n <= len            *)
(*   find/rfind           first / last occurrence, as for a byte slice     *)
(*   strip_prefix/suffix  true iff the string starts / ends with the       *)
(*                        pattern (the empty pattern always matches)       *)
(* Observers compared after every step: as_bytes, len, is_empty, is_full,  *)
(* capacity, NUL terminator behind the content.                            *)
(***************************************************************************)
EXTENDS CUtil

CONSTANTS Caps, MaxSlice
Bytes == {0, 97, 98, 47, 200}
Valid == {b \in Bytes : b >= 1 /\ b <= 127}
VARIABLES c, cap, last
vars == <<c, cap, last>>
view == <<c, cap>>

Obs == [c |-> c, cap |-> cap]
Init == c = <<>> /\ cap \in Caps /\ last = L0
Reset(n) == c' = <<>> /\ cap' = n /\ last' = L0
Slices == SeqsUpTo(Bytes, MaxSlice)
LS(a, i, s, r, v) == L(a, i, s, r, v, BZero)

\* shared by push / push_bytes / insert / insert_bytes (k = 0-based position, k <= len)
Ins(a, i, k, s) ==
    /\ UNCHANGED cap
    /\ LET errs == (IF Len(c) + Len(s) > cap THEN {"full"} ELSE {})
                   \cup (IF \E j \in DOMAIN s : s[j] \notin Valid THEN {"invalid"} ELSE {}) IN
       IF errs = {}
       THEN /\ c' = Prefix(c, k) \o s \o Suffix(c, k)
            /\ last' = LS(a, i, IF a \in {"push_bytes", "insert_bytes"} THEN s ELSE <<>>, "ok", <<>>)
       ELSE /\ c' = c
            /\ \E e \in errs : last' = LS(a, i, IF a \in {"push_bytes", "insert_bytes"} THEN s ELSE <<>>, e, <<>>)

Push(b) == Ins("push", <<b>>, Len(c), <<b>>)
PushBytes(s) == Ins("push_bytes", <<>>, Len(c), s)
Insert(k, b) == Ins("insert", <<k, b>>, k, <<b>>)
InsertBytes(k, s) == Ins("insert_bytes", <<k>>, k, s)

Remove(k) ==
    /\ UNCHANGED cap
    /\ IF k >= Len(c)
       THEN c' = c /\ last' = LS("remove", <<k>>, <<>>, "none", <<>>)
       ELSE c' = SeqRemove(c, k + 1) /\ last' = LS("remove", <<k>>, <<>>, "some", <<c[k + 1]>>)

RemoveRange(k, n) ==
    /\ UNCHANGED cap
    /\ IF k + n > Len(c)
       THEN c' = c /\ last' = LS("remove_range", <<k, n>>, <<>>, "false", <<>>)
       ELSE c' = Prefix(c, k) \o Suffix(c, k + n) /\ last' = LS("remove_range", <<k, n>>, <<>>, "true", <<>>)

Pop ==
    /\ UNCHANGED cap
    /\ IF c = <<>>
       THEN c' = c /\ last' = LS("pop", <<>>, <<>>, "none", <<>>)
       ELSE c' = Prefix(c, Len(c) - 1) /\ last' = LS("pop", <<>>, <<>>, "some", <<c[Len(c)]>>)

Truncate(n) ==
    /\ UNCHANGED cap
    /\ c' = IF n >= Len(c) THEN c ELSE Prefix(c, n)
    /\ last' = LS("truncate", <<n>>, <<>>, "ok", <<>>)

StripPrefix(s) ==
    /\ UNCHANGED cap
    /\ IF IsPrefix(s, c)
       THEN c' = Suffix(c, Len(s)) /\ last' = LS("strip_prefix", <<>>, s, "true", <<>>)
       ELSE c' = c /\ last' = LS("strip_prefix", <<>>, s, "false", <<>>)

StripSuffix(s) ==
    /\ UNCHANGED cap
    /\ IF IsSuffix(s, c)
       THEN c' = Prefix(c, Len(c) - Len(s)) /\ last' = LS("strip_suffix", <<>>, s, "true", <<>>)
       ELSE c' = c /\ last' = LS("strip_suffix", <<>>, s, "false", <<>>)

Find(s) ==
    /\ UNCHANGED <<c, cap>>
    /\ IF Occ(s, c) = {} THEN last' = LS("find", <<>>, s, "none", <<>>)
       ELSE last' = LS("find", <<>>, s, "some", <<Min(Occ(s, c))>>)
Rfind(s) ==
    /\ UNCHANGED <<c, cap>>
    /\ IF Occ(s, c) = {} THEN last' = LS("rfind", <<>>, s, "none", <<>>)
       ELSE last' = LS("rfind", <<>>, s, "some", <<Max(Occ(s, c))>>)

Clear == UNCHANGED cap /\ c' = <<>> /\ last' = LS("clear", <<>>, <<>>, "ok", <<>>)
Destroy == UNCHANGED cap /\ c' = <<>> /\ last' = LS("destroy", <<>>, <<>>, "ok", <<>>)
Relocate == UNCHANGED <<c, cap>> /\ last' = LS("relocate", <<>>, <<>>, "ok", <<>>)

Next == \/ \E b \in Bytes : Push(b)
        \/ \E s \in Slices : PushBytes(s) \/ StripPrefix(s) \/ StripSuffix(s) \/ Find(s) \/ Rfind(s)
        \/ \E k \in 0..Len(c), b \in Bytes : Insert(k, b)
        \/ \E k \in 0..Len(c), s \in Slices : InsertBytes(k, s)
        \/ \E k \in 0..(Len(c) + 1) : Remove(k)
        \/ \E k \in 0..(Len(c) + 1), n \in 0..(Len(c) + 1) : RemoveRange(k, n)
        \/ \E n \in 0..(cap + 1) : Truncate(n)
        \/ Pop \/ Clear \/ Destroy \/ Relocate
Spec == Init /\ [][Next]_vars

\* ---- the clauses of the property -------------------------------------------------------------
TypeOK == c \in SeqsUpTo(Valid, cap) /\ cap \in Caps
LenBounded == Len(c) <= cap
\* the content never holds NUL or a non-ASCII byte (as_str() relies on it)
OnlyValidBytes == \A j \in DOMAIN c : c[j] \in Valid
IsErr(l) == l.r \in {"full", "invalid"}
ErrorLeavesUnchanged == IsErr(last') => c' = c
Inserted(l) == IF l.a \in {"push_bytes", "insert_bytes"} THEN l.s
               ELSE IF l.a = "push" THEN <<l.i[1]>> ELSE IF l.a = "insert" THEN <<l.i[2]>> ELSE <<>>
ErrorOnlyWhenDocumented ==
    /\ (last'.r = "full") => Len(c) + Len(Inserted(last')) > cap
    /\ (last'.r = "invalid") => \E j \in DOMAIN Inserted(last') : Inserted(last')[j] \notin Valid
\* removal never reorders and never invents bytes: the result is a subsequence-by-deletion of a window
LenStep == /\ (last'.r = "ok" /\ last'.a \in {"push", "insert", "push_bytes", "insert_bytes"})
                => Len(c') = Len(c) + Len(Inserted(last'))
           /\ (last'.a \in {"remove", "pop"} /\ last'.r = "some") => Len(c') = Len(c) - 1
FindIsFirst == (last'.a = "find" /\ last'.r = "some") =>
                  (last'.v[1] \in Occ(last'.s, c) /\ \A k \in Occ(last'.s, c) : last'.v[1] <= k)
RfindIsLast == (last'.a = "rfind" /\ last'.r = "some") =>
                  (last'.v[1] \in Occ(last'.s, c) /\ \A k \in Occ(last'.s, c) : last'.v[1] >= k)
PositionIndependent == (last'.a = "relocate") => (Obs' = Obs)
StepOK == /\ ErrorLeavesUnchanged /\ ErrorOnlyWhenDocumented /\ LenStep /\ FindIsFirst /\ RfindIsLast
          /\ PositionIndependent
StepProp == [][StepOK]_vars
=============================================================================
