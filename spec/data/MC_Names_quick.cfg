SPECIFICATION Spec
CONSTANTS
 MaxLen = 4
 EditLen = 3
 CtorLen = 3
INVARIANTS FileNameNoEscape ConcatStaysName UnderRoot FilePathLastIsName EditSafe ConversionSafe CtorExact
CHECK_DEADLOCK FALSE
