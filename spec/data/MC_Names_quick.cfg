SPECIFICATION Spec
CONSTANTS
 MaxLen = 4
 EditLen = 3
INVARIANTS FileNameNoEscape ConcatStaysName UnderRoot FilePathLastIsName EditSafe
CHECK_DEADLOCK FALSE
