SPECIFICATION Spec
CONSTANTS Caps = {0,1,2}
 MaxSlice = 2
INVARIANTS TypeOK LenBounded OnlyValidBytes
PROPERTY StepProp
ACTION_CONSTRAINT Emit
VIEW view
CHECK_DEADLOCK FALSE
