------------------------------ MODULE AllocGen ------------------------------
(* Behaviour generator (spec -> impl, DESIGN.md 3.5 / 3.10): TLC -simulate    *)
(* walks AllocImpl.tla and prints every behaviour of length Depth as one JSON *)
(* line {"cfg": layout, "steps": [{a, size, align, r, addr}, ...]} whose      *)
(* results are the ones the implementation-shaped model computes; drv-alloc    *)
(* replays them in lock-step on the real allocators.  Requests are biased     *)
(* towards the boundaries (0, 1, bucket size, bucket size + 1; alignment 1,    *)
(* bucket alignment, twice the bucket alignment) plus one random choice; the   *)
(* exhaustive request range is covered by MC_AllocImpl.                        *)
EXTENDS AllocImpl, TLC, Json

CONSTANT Depth
VARIABLES beh, done

gvars == <<kind, lay, live, viol, why, free, cur, chunk, beh, done>>

Step(a, sz, al, res) == [a |-> a, size |-> sz, align |-> al, r |-> res.r, addr |-> res.addr]

GenSizes == IF kind = "pool"
            THEN {0, 1, lay.bsize, lay.bsize + 1, RandomElement(0..(lay.bsize + 1))}
            ELSE {0, 1, 2, 3, 5}
GenAligns == IF kind = "pool"
             THEN {1, lay.balign, RandomElement(ReqAligns)} \cup {a \in ReqAligns : a = 2 * lay.balign}
             ELSE ReqAligns

GInit == Init /\ beh = <<>> /\ done = FALSE

GNext ==
    \/ /\ Len(beh) < Depth
       /\ UNCHANGED done
       /\ \/ \E sz \in GenSizes, al \in GenAligns :
               \/ PoolAllocate(sz, al) /\ beh' = Append(beh, Step("alloc", sz, al, PoolRes(sz, al)))
               \/ BumpAllocate(sz, al) /\ beh' = Append(beh, Step("alloc", sz, al, BumpRes(sz, al)))
               \/ OneAllocate(sz, al)  /\ beh' = Append(beh, Step("alloc", sz, al, OneRes(sz, al)))
          \/ \E x \in live : PoolDeallocate(x.addr)
                             /\ beh' = Append(beh, Step("free", 0, 1, [r |-> "ok", addr |-> x.addr]))
          \/ BumpReset /\ live # {} /\ beh' = Append(beh, Step("freeall", 0, 1, [r |-> "ok", addr |-> 0]))
          \/ OneDeallocate /\ beh' = Append(beh, Step("free", 0, 1, [r |-> "ok", addr |-> chunk - 1]))
    \/ /\ Len(beh) = Depth
       /\ ~done
       /\ done' = TRUE
       /\ UNCHANGED <<kind, lay, live, viol, why, free, cur, chunk, beh>>

GSpec == GInit /\ [][GNext]_gvars

\* printed exactly once per simulated behaviour (the `done` step has a single successor)
Emit ==
    done =>
        PrintT(<<"BEH", ToJson([cfg |-> [kind |-> kind, base |-> lay.base, size |-> lay.size,
                                         bsize |-> lay.bsize, balign |-> lay.balign],
                                steps |-> beh])>>)
=============================================================================
