---- MODULE MC_CVec ----
EXTENDS CVec, TLC, Json
Emit == PrintT(<<"EDGE", ToJson([f |-> Obs, l |-> last', t |-> Obs'])>>)
====
