SPECIFICATION TraceSpec
CONSTRAINT Progress
POSTCONDITION Accepted
CHECK_DEADLOCK FALSE
INVARIANTS GrowthServes LoanAligned LoanIntact LoanDisjoint RecvResolves HeldIntact HeldDisjoint HeldAligned NoPanic
