------------------------------ MODULE MC_Names ------------------------------
(***************************************************************************)
(* Bounded instance of Names.tla.                                          *)
(*  mode "lemma": w ranges over ALL strings of class representatives up to *)
(*     length MaxLen; the safety lemmas of C19 are invariants:             *)
(*       FileNameNoEscape   an accepted file name has no separator, no NUL *)
(*                          and is not "." / ".." / empty                  *)
(*       ConcatStaysName    prefix o name o suffix of accepted file names  *)
(*                          is again free of separators and traversal      *)
(*       UnderRoot          root "/" file resolves to a direct child of    *)
(*                          the root for every accepted file name          *)
(*       FilePathLastIsName the last component of an accepted file path is *)
(*                          not empty, "." or ".."                         *)
(*  mode "edit": (ty, s) with s accepted for ty; every editing operation   *)
(*     with every argument over the class representatives is applied;      *)
(*     EditSafe: the content is valid after every operation (an invalid    *)
(*     candidate is refused and leaves the string unchanged).              *)
(* The ASSUME prints the oracle table (class tuple -> accept, per type)    *)
(* and the byte -> class map consumed by `drv-names enumerate`.            *)
(***************************************************************************)
EXTENDS Names, TLC, Json

CONSTANTS MaxLen,    \* lemma mode: all strings up to this length
          EditLen    \* edit mode: contents up to this length

VARIABLES mode, ty, s
vars == <<mode, ty, s>>

Reps == {Rep(c) : c \in ClassSet}
RepSeq(t) == [i \in 1..Len(t) |-> Rep(Classes[t[i]])]
Tuples(n) == UNION {[1..k -> 1..Len(Classes)] : k \in 0..n}

Oracle ==
    [classes |-> Classes,
     map |-> [i \in 1..256 |-> CHOOSE k \in 1..Len(Classes) : Classes[k] = ClassOf(i - 1)],
     accept |-> [t \in Types |-> {tu \in Tuples(3) : Valid(t, RepSeq(tu))}]]

ASSUME PrintT(<<"ORACLE", ToJson(Oracle)>>)

Roots == {<<>>, <<Slash>>, <<Slash, 97>>, <<97, Slash, 97>>, <<Slash, 97, Slash, Dot, Dot, Slash, 97>>, <<Dot, Dot>>}

Args1 == {<<b>> : b \in Reps}
Args2 == {<<a, b>> : a \in {Dot, Slash, 97}, b \in {Dot, Slash, 97}}

Ops == [a : {"push"}, idx : {0}, arg : Args1]
       \cup [a : {"insert"}, idx : 0..EditLen, arg : Args1]
       \cup [a : {"remove", "truncate"}, idx : 0..EditLen, arg : {<<>>}]
       \cup [a : {"pop"}, idx : {0}, arg : {<<>>}]
       \cup [a : {"strip_prefix", "strip_suffix"}, idx : {0}, arg : Args1 \cup Args2]

Init ==
    \/ mode = "lemma" /\ ty = "FileName" /\ s = <<>>
    \/ mode = "edit" /\ ty \in Types /\ s \in {<<>>, <<97>>} /\ Valid(ty, s)

Grow ==
    /\ mode = "lemma"
    /\ Len(s) < MaxLen
    /\ \E b \in Reps : s' = Append(s, b)
    /\ UNCHANGED <<mode, ty>>

Edit ==
    /\ mode = "edit"
    /\ \E op \in Ops :
         /\ op.a \in {"insert", "truncate"} => op.idx <= Len(s)
         /\ op.a = "remove" => op.idx < Len(s)
         /\ s' = Apply(ty, s, op).s
    /\ Len(s') <= EditLen
    /\ UNCHANGED <<mode, ty>>

Next == Grow \/ Edit
Spec == Init /\ [][Next]_vars

FileNameNoEscape == (mode = "lemma" /\ ValidFileName(s)) => NoEscape(s)

ConcatStaysName ==
    mode = "lemma" =>
        \A i, j \in 1..Len(s) :
            (i < j /\ j < Len(s) + 1 /\ i >= 1
             /\ ValidFileName(SubSeqSafe(s, 1, i)) /\ ValidFileName(SubSeqSafe(s, i + 1, j))
             /\ ValidFileName(SubSeqSafe(s, j + 1, Len(s))))
            => NoEscape(s) /\ CharsOk(s, FileNameChars)

UnderRoot == (mode = "lemma" /\ ValidFileName(s)) => \A r \in Roots : StaysUnderRoot(r, s)

FilePathLastIsName ==
    (mode = "lemma" /\ ValidFilePath(s)) =>
        LET c == Split(s) IN
        /\ c[Len(c)] # <<>> /\ c[Len(c)] # <<Dot>> /\ c[Len(c)] # <<Dot, Dot>>

EditSafe == mode = "edit" => Valid(ty, s)
=============================================================================
