------------------------------ MODULE MC_Names ------------------------------
(***************************************************************************)
(* Bounded instance of Names.tla.                                          *)
(*  mode "lemma": w ranges over ALL strings of class representatives up to *)
(*     length MaxLen; the safety lemmas of C19 are invariants:             *)
(*       FileNameNoEscape   an accepted file name has no separator, no NUL *)
(*                          and is not "." / ".." / empty                  *)
(*       ConcatStaysName    prefix o name o suffix of accepted file names  *)
(*                          is again free of separators and traversal      *)
(*       UnderRoot          root "/" file resolves to a direct child of    *)
(*                          the root for every accepted file name          *)
(*       FilePathLastIsName the last component of an accepted file path is *)
(*                          not empty, "." or ".."                         *)
(*  mode "edit": (ty, s) with s accepted for ty; every editing operation   *)
(*     with every argument over the class representatives is applied;      *)
(*     EditSafe: the content is valid after every operation (an invalid    *)
(*     candidate is refused and leaves the string unchanged).              *)
(*     The operations include remove_range, retain, push_bytes and         *)
(*     Path::add_path_entry.                                               *)
(*  mode "ctor": every entry point (`via`) of every type is called with    *)
(*     every argument over the class representatives up to length CtorLen  *)
(*     (RFileName2 and Str8 have capacities inside that range, NUL is a    *)
(*     representative: C strings and truncating constructors are covered), *)
(*     plus the derived constructors.  CtorExact: a constructor either     *)
(*     refuses (content stays empty) or stores a VALID name that is        *)
(*     exactly the string the caller handed over - the whole C string, the *)
(*     whole slice; only the documented *_truncated constructors of the    *)
(*     plain string may shorten.  ConversionSafe: the infallible           *)
(*     conversions FileName -> FilePath -> Path, RFileName2 -> FileName    *)
(*     never produce an invalid value (lemma mode).                        *)
(* The ASSUME prints the oracle table (class tuple -> accept, per type)    *)
(* and the byte -> class map consumed by `drv-names enumerate`.            *)
(***************************************************************************)
EXTENDS Names, TLC, Json

CONSTANTS MaxLen,    \* lemma mode: all strings up to this length
          EditLen,   \* edit mode: contents up to this length
          CtorLen    \* ctor mode: arguments up to this length

VARIABLES mode, ty, s,
          src        \* ctor mode: the last constructor call [via, arg, r]
vars == <<mode, ty, s, src>>

Reps == {Rep(c) : c \in ClassSet}
RepSeq(t) == [i \in 1..Len(t) |-> Rep(Classes[t[i]])]
Tuples(n) == UNION {[1..k -> 1..Len(Classes)] : k \in 0..n}

Oracle ==
    [classes |-> Classes,
     map |-> [i \in 1..256 |-> CHOOSE k \in 1..Len(Classes) : Classes[k] = ClassOf(i - 1)],
     accept |-> [t \in Types |-> {tu \in Tuples(3) : Valid(t, RepSeq(tu))}]]

ASSUME PrintT(<<"ORACLE", ToJson(Oracle)>>)

Roots == {<<>>, <<Slash>>, <<Slash, 97>>, <<97, Slash, 97>>, <<Slash, 97, Slash, Dot, Dot, Slash, 97>>, <<Dot, Dot>>}

Args1 == {<<b>> : b \in Reps}
Args2 == {<<a, b>> : a \in {Dot, Slash, 97}, b \in {Dot, Slash, 97}}

Op(a, idxs, idx2s, args) == [a : a, via : {"new"}, idx : idxs, idx2 : idx2s, arg : args, arg2 : {<<>>}]
Ops == Op({"push"}, {0}, {0}, Args1 \cup Args2)
       \cup Op({"insert"}, 0..EditLen, {0}, Args1)
       \cup Op({"remove", "truncate"}, 0..EditLen, {0}, {<<>>})
       \cup Op({"remove_range"}, 0..EditLen, 0..EditLen, {<<>>})
       \cup Op({"retain"}, {0}, {0}, Args1)
       \cup Op({"pop"}, {0}, {0}, {<<>>})
       \cup Op({"strip_prefix", "strip_suffix"}, {0}, {0}, Args1 \cup Args2)
       \cup Op({"add_path_entry"}, {0}, {0}, Args1 \cup Args2)

\* the entry points of the real types (harness/drivers/names/src/ctors.rs lists the same ones)
Vias(t) ==
    CASE t \in {"FileName", "Path", "FilePath", "RFileName2"} -> {"new", "from_c_str", "try_from_str", "serde_json"}
      [] t \in {"ServiceName", "NodeName"} -> {"new", "try_into", "serde_json"}
      [] t = "Str8" -> {"from_bytes", "try_from_bytes", "try_from_str", "from_str", "from_c_str", "serde_json",
                        "from_bytes_truncated", "from_str_truncated"}
SeqsUpTo(n) == UNION {[1..k -> Reps] : k \in 0..n}
NoSrc == [via |-> "none", arg |-> <<>>, r |-> "none"]

Init ==
    \/ mode = "lemma" /\ ty = "FileName" /\ s = <<>> /\ src = NoSrc
    \/ mode = "edit" /\ ty \in Types /\ s \in {<<>>, <<97>>} /\ Valid(ty, s) /\ src = NoSrc
    \/ mode = "ctor" /\ ty \in Types /\ s = <<>> /\ src = NoSrc

Grow ==
    /\ mode = "lemma"
    /\ Len(s) < MaxLen
    /\ \E b \in Reps : s' = Append(s, b)
    /\ UNCHANGED <<mode, ty, src>>

Edit ==
    /\ mode = "edit"
    /\ \E op \in Ops :
         /\ op.a \in {"insert", "truncate"} => op.idx <= Len(s)
         /\ op.a = "remove" => op.idx < Len(s)
         /\ op.a = "remove_range" => op.idx + op.idx2 <= Len(s)
         /\ op.a = "add_path_entry" => ty = "Path" /\ Valid("Path", op.arg)
         /\ LET res == Apply(ty, s, op) IN s' \in {res.s} \cup res.alt
    /\ Len(s') <= EditLen
    /\ UNCHANGED <<mode, ty, src>>

\* one constructor call on a fresh value (the content of a refused construction stays empty)
Ctor ==
    /\ mode = "ctor" /\ src = NoSrc
    /\ \/ \E via \in Vias(ty), arg \in SeqsUpTo(CtorLen) :
            LET res == Apply(ty, <<>>, [a |-> "new", via |-> via, idx |-> 0, idx2 |-> 0, arg |-> arg, arg2 |-> <<>>]) IN
            /\ s' = res.s
            /\ src' = [via |-> via, arg |-> arg, r |-> res.r]
       \/ /\ ty = "FilePath"
          /\ \E p \in SeqsUpTo(2), f \in SeqsUpTo(2) :
               /\ Valid("Path", p) /\ Valid("FileName", f)
               /\ LET res == Apply(ty, <<>>, [a |-> "from_path_and_file", via |-> "new", idx |-> 0, idx2 |-> 0, arg |-> p, arg2 |-> f]) IN
                  /\ s' = res.s
                  /\ src' = [via |-> "from_path_and_file", arg |-> JoinPath(p, f), r |-> res.r]
       \/ /\ ty = "Path"
          /\ \E arg \in SeqsUpTo(CtorLen) :
               LET res == Apply(ty, <<>>, [a |-> "new_normalized", via |-> "new", idx |-> 0, idx2 |-> 0, arg |-> arg, arg2 |-> <<>>]) IN
               /\ s' = res.s
               /\ src' = [via |-> "new_normalized", arg |-> arg, r |-> res.r]
    /\ UNCHANGED <<mode, ty>>

Next == Grow \/ Edit \/ Ctor
Spec == Init /\ [][Next]_vars

FileNameNoEscape == (mode = "lemma" /\ ValidFileName(s)) => NoEscape(s)

ConcatStaysName ==
    mode = "lemma" =>
        \A i, j \in 1..Len(s) :
            (i < j /\ j < Len(s) + 1 /\ i >= 1
             /\ ValidFileName(SubSeqSafe(s, 1, i)) /\ ValidFileName(SubSeqSafe(s, i + 1, j))
             /\ ValidFileName(SubSeqSafe(s, j + 1, Len(s))))
            => NoEscape(s) /\ CharsOk(s, FileNameChars)

UnderRoot == (mode = "lemma" /\ ValidFileName(s)) => \A r \in Roots : StaysUnderRoot(r, s)

FilePathLastIsName ==
    (mode = "lemma" /\ ValidFilePath(s)) =>
        LET c == Split(s) IN
        /\ c[Len(c)] # <<>> /\ c[Len(c)] # <<Dot>> /\ c[Len(c)] # <<Dot, Dot>>

EditSafe == mode = "edit" => Valid(ty, s)

\* the infallible conversions between the types never leave the target's rules
ConversionSafe ==
    mode = "lemma" =>
        /\ ValidFileName(s) => ValidFilePath(s) /\ ValidPath(s)
        \* (the last component may contain '\\', which FilePath allows and FileName::new refuses - it is no separator
        \*  on the POSIX target; what the property needs is NoEscape)
        /\ ValidFilePath(s) => ValidPath(s) /\ NoEscape(LastComponent(s)) /\ ValidPath(DirPart(s))
                               /\ (CharsOk(s, {"bsl"}) => ValidFileName(LastComponent(s)))
        /\ Valid("RFileName2", s) => ValidFileName(s)
        /\ ValidPath(s) => ValidPath(Normalize(s)) /\ Len(Normalize(s)) <= Len(s)

\* a constructor refuses, or stores exactly what the caller handed over (and that is valid)
CtorExact ==
    (mode = "ctor" /\ src # NoSrc) =>
        IF src.r = "err" THEN s = <<>>
        ELSE /\ Valid(ty, s)
             /\ src.via \in CStrVias => s = UntilNul(src.arg)
             /\ src.via = "new_normalized" => s = Normalize(src.arg) /\ Valid(ty, src.arg)
             /\ src.via \notin CStrVias \cup TruncVias \cup {"new_normalized"} => s = src.arg
             /\ src.via \in TruncVias => HasPrefix(src.arg, s) /\ (Len(s) = Len(src.arg) \/ Len(s) = Cap(ty))
=============================================================================
