SPECIFICATION TraceSpec
CONSTANTS Caps = {0,1,2,3,4}
 MaxSlice = 2
CONSTRAINT Progress
POSTCONDITION Accepted
CHECK_DEADLOCK FALSE
INVARIANTS TypeOK LenBounded
