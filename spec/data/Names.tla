-------------------------------- MODULE Names --------------------------------
(***************************************************************************)
(* C19 (a): the documented validity rules of the semantic string types as  *)
(* predicates over byte sequences, the editing operations with "result     *)
(* invalid => error and unchanged", and the safety lemmas the property     *)
(* asks for.  (Rules for the Linux/POSIX target; ':' is only forbidden on  *)
(* Windows and therefore has its own class.)                               *)
(*                                                                         *)
(* Byte classes                                                            *)
(*   nul   0            ctl   1..31        slash '/'       dot '.'         *)
(*   bsl   '\'          fp    < > " | ? *  colon ':'       hi  >= 0x80     *)
(*   asc   every other ASCII byte (32..127)                                *)
(*                                                                         *)
(* Rules (file_name.rs, path.rs, file_path.rs, service_name.rs,            *)
(* node_name.rs, string/mod.rs: only code points below 128, no NUL):       *)
(*   FileName   chars: none of nul ctl slash bsl fp hi; not "", ".", ".."  *)
(*   Path       chars: none of nul ctl fp hi; may be empty                 *)
(*   FilePath   chars as Path; not "", ".", ".."; does not end with "/",   *)
(*              "/." or "/.."                                              *)
(*   ServiceName non-empty, chars: none of nul hi, does not start with     *)
(*              "iox2://", at most 255 bytes                               *)
(*   NodeName   chars: none of nul hi, at most 128 bytes (may be empty)    *)
(*   RFileName2 RestrictedFileName<2>: a FileName of at most 2 bytes       *)
(***************************************************************************)
EXTENDS Naturals, Sequences, FiniteSets

Classes == <<"nul", "ctl", "slash", "dot", "bsl", "fp", "colon", "asc", "hi">>
ClassSet == {Classes[i] : i \in 1..Len(Classes)}

ClassOf(b) ==
    IF b = 0 THEN "nul"
    ELSE IF b < 32 THEN "ctl"
    ELSE IF b = 47 THEN "slash"
    ELSE IF b = 46 THEN "dot"
    ELSE IF b = 92 THEN "bsl"
    ELSE IF b \in {60, 62, 34, 124, 63, 42} THEN "fp"
    ELSE IF b = 58 THEN "colon"
    ELSE IF b >= 128 THEN "hi"
    ELSE "asc"

\* one representative byte per class
Rep(c) == CASE c = "nul" -> 0 [] c = "ctl" -> 7 [] c = "slash" -> 47 [] c = "dot" -> 46
            [] c = "bsl" -> 92 [] c = "fp" -> 42 [] c = "colon" -> 58 [] c = "asc" -> 97
            [] c = "hi" -> 200

Types == {"FileName", "Path", "FilePath", "ServiceName", "NodeName", "RFileName2"}

Cap(ty) == CASE ty = "NodeName" -> 128 [] ty = "RFileName2" -> 2 [] OTHER -> 255

Dot == 46
Slash == 47
Iox2Prefix == <<105, 111, 120, 50, 58, 47, 47>>        \* "iox2://"

HasPrefix(s, p) == Len(s) >= Len(p) /\ \A i \in 1..Len(p) : s[i] = p[i]
HasSuffix(s, p) == Len(s) >= Len(p) /\ \A i \in 1..Len(p) : s[Len(s) - Len(p) + i] = p[i]

CharsOk(s, forbidden) == \A i \in 1..Len(s) : ClassOf(s[i]) \notin forbidden

FileNameChars == {"nul", "ctl", "slash", "bsl", "fp", "hi"}
PathChars == {"nul", "ctl", "fp", "hi"}

ValidFileName(s) ==
    /\ CharsOk(s, FileNameChars)
    /\ s # <<>> /\ s # <<Dot>> /\ s # <<Dot, Dot>>

ValidPath(s) == CharsOk(s, PathChars)

ValidFilePath(s) ==
    /\ CharsOk(s, PathChars)
    /\ s # <<>> /\ s # <<Dot>> /\ s # <<Dot, Dot>>
    /\ s[Len(s)] # Slash
    /\ ~HasSuffix(s, <<Slash, Dot>>)
    /\ ~HasSuffix(s, <<Slash, Dot, Dot>>)

ValidServiceName(s) ==
    /\ s # <<>>
    /\ CharsOk(s, {"nul", "hi"})
    /\ ~HasPrefix(s, Iox2Prefix)

ValidNodeName(s) == CharsOk(s, {"nul", "hi"})

ContentOk(ty, s) ==
    CASE ty = "FileName"    -> ValidFileName(s)
      [] ty = "RFileName2"  -> ValidFileName(s)
      [] ty = "Path"        -> ValidPath(s)
      [] ty = "FilePath"    -> ValidFilePath(s)
      [] ty = "ServiceName" -> ValidServiceName(s)
      [] ty = "NodeName"    -> ValidNodeName(s)

\* accepted exactly when the documented rules hold
Valid(ty, s) == Len(s) <= Cap(ty) /\ ContentOk(ty, s)

\* ------------------------------------------------------------------------
\* editing operations on a semantic string holding s: the candidate result
SubSeqSafe(s, a, b) == IF a > b THEN <<>> ELSE SubSeq(s, a, b)
Insert(s, idx, bytes) == SubSeqSafe(s, 1, idx) \o bytes \o SubSeqSafe(s, idx + 1, Len(s))    \* idx 0-based
RemoveAt(s, idx) == SubSeqSafe(s, 1, idx) \o SubSeqSafe(s, idx + 2, Len(s))               \* idx 0-based
Truncate(s, n) == IF n < Len(s) THEN SubSeqSafe(s, 1, n) ELSE s

\* op = [a, idx, arg]; result = [r, s]  with r in "ok" | "err" | "true" | "false" | "none"
Apply(ty, s, op) ==
    LET done(r, t) == [r |-> r, s |-> t]
        try(r, t) == IF Valid(ty, t) THEN done(r, t) ELSE done("err", s)
    IN
    CASE op.a = "new"          -> try("ok", op.arg)
      [] op.a = "push"         -> try("ok", s \o op.arg)
      [] op.a = "insert"       -> try("ok", Insert(s, op.idx, op.arg))
      [] op.a = "remove"       -> try("ok", RemoveAt(s, op.idx))
      [] op.a = "pop"          -> IF s = <<>> THEN done("none", s) ELSE try("ok", RemoveAt(s, Len(s) - 1))
      [] op.a = "truncate"     -> try("ok", Truncate(s, op.idx))
      [] op.a = "strip_prefix" -> IF HasPrefix(s, op.arg)
                                  THEN try("true", SubSeqSafe(s, Len(op.arg) + 1, Len(s)))
                                  ELSE done("false", s)
      [] op.a = "strip_suffix" -> IF HasSuffix(s, op.arg)
                                  THEN try("true", SubSeqSafe(s, 1, Len(s) - Len(op.arg)))
                                  ELSE done("false", s)

\* ------------------------------------------------------------------------
\* safety lemmas (checked by TLC over all class strings up to length 4, MC_Names)
NoEscape(s) ==      \* what an accepted file name can never be or contain
    /\ \A i \in 1..Len(s) : s[i] # Slash /\ s[i] # 0
    /\ s # <<Dot>> /\ s # <<Dot, Dot>> /\ s # <<>>

\* lexical resolution of a path: components separated by '/', "." skipped, ".." pops
Split(s) ==     \* sequence of components (possibly empty ones)
    LET F[i \in 0..Len(s)] ==
          IF i = 0 THEN <<<<>>>>
          ELSE IF s[i] = Slash THEN Append(F[i - 1], <<>>)
          ELSE [F[i - 1] EXCEPT ![Len(F[i - 1])] = Append(@, s[i])]
    IN F[Len(s)]

Resolve(s) ==
    LET comps == Split(s)
        G[i \in 0..Len(comps)] ==
          IF i = 0 THEN <<>>
          ELSE LET c == comps[i] IN
               IF c = <<>> \/ c = <<Dot>> THEN G[i - 1]
               ELSE IF c = <<Dot, Dot>> THEN (IF G[i - 1] = <<>> THEN <<>> ELSE SubSeqSafe(G[i - 1], 1, Len(G[i - 1]) - 1))
               ELSE Append(G[i - 1], c)
    IN G[Len(comps)]

PathFor(root, file) == root \o <<Slash>> \o file

\* a path composed of a root and accepted file name parts stays directly under the root
StaysUnderRoot(root, file) == Resolve(PathFor(root, file)) = Append(Resolve(root), file)
=============================================================================
