-------------------------------- MODULE Names --------------------------------
(***************************************************************************)
(* C19 (a): the documented validity rules of the semantic string types as  *)
(* predicates over byte sequences, the editing operations with "result     *)
(* invalid => error and unchanged", and the safety lemmas the property     *)
(* asks for.  (Rules for the Linux/POSIX target; ':' is only forbidden on  *)
(* Windows and therefore has its own class.)                               *)
(*                                                                         *)
(* Byte classes                                                            *)
(*   nul   0            ctl   1..31        slash '/'       dot '.'         *)
(*   bsl   '\'          fp    < > " | ? *  colon ':'       hi  >= 0x80     *)
(*   asc   every other ASCII byte (32..127)                                *)
(*                                                                         *)
(* Rules (file_name.rs, path.rs, file_path.rs, service_name.rs,            *)
(* node_name.rs, string/mod.rs: only code points below 128, no NUL):       *)
(*   FileName   chars: none of nul ctl slash bsl fp hi; not "", ".", ".."  *)
(*   Path       chars: none of nul ctl fp hi; may be empty                 *)
(*   FilePath   chars as Path; not "", ".", ".."; does not end with "/",   *)
(*              "/." or "/.."                                              *)
(*   ServiceName non-empty, chars: none of nul hi, does not start with     *)
(*              "iox2://", at most 255 bytes                               *)
(*   NodeName   chars: none of nul hi, at most 128 bytes (may be empty)    *)
(*   RFileName2 RestrictedFileName<2>: a FileName of at most 2 bytes       *)
(*   Str8       StaticString<8>, the plain string below all of them: chars *)
(*              none of nul hi, at most 8 bytes (may be empty)             *)
(*                                                                         *)
(* Entry points.  A value can be constructed through many public paths     *)
(* (`via`): new, from_c_str, TryFrom/TryInto/FromStr, serde, conversions    *)
(* between the types, from_bytes(_truncated) ...  The rules do not depend  *)
(* on the entry point; what differs is only which byte string the caller   *)
(* hands over (`Input`): a C string ends at its first NUL, the documented  *)
(* `*_truncated` constructors of StaticString look at the first CAPACITY   *)
(* bytes only.  Everything else must be judged on the whole argument: a    *)
(* too long argument is an error, never a silently shortened name.         *)
(***************************************************************************)
EXTENDS Naturals, Sequences, FiniteSets

Classes == <<"nul", "ctl", "slash", "dot", "bsl", "fp", "colon", "asc", "hi">>
ClassSet == {Classes[i] : i \in 1..Len(Classes)}

ClassOf(b) ==
    IF b = 0 THEN "nul"
    ELSE IF b < 32 THEN "ctl"
    ELSE IF b = 47 THEN "slash"
    ELSE IF b = 46 THEN "dot"
    ELSE IF b = 92 THEN "bsl"
    ELSE IF b \in {60, 62, 34, 124, 63, 42} THEN "fp"
    ELSE IF b = 58 THEN "colon"
    ELSE IF b >= 128 THEN "hi"
    ELSE "asc"

\* one representative byte per class
Rep(c) == CASE c = "nul" -> 0 [] c = "ctl" -> 7 [] c = "slash" -> 47 [] c = "dot" -> 46
            [] c = "bsl" -> 92 [] c = "fp" -> 42 [] c = "colon" -> 58 [] c = "asc" -> 97
            [] c = "hi" -> 200

Types == {"FileName", "Path", "FilePath", "ServiceName", "NodeName", "RFileName2", "Str8"}

Cap(ty) == CASE ty = "NodeName" -> 128 [] ty = "RFileName2" -> 2 [] ty = "Str8" -> 8 [] OTHER -> 255

Dot == 46
Slash == 47
Iox2Prefix == <<105, 111, 120, 50, 58, 47, 47>>        \* "iox2://"

HasPrefix(s, p) == Len(s) >= Len(p) /\ \A i \in 1..Len(p) : s[i] = p[i]
HasSuffix(s, p) == Len(s) >= Len(p) /\ \A i \in 1..Len(p) : s[Len(s) - Len(p) + i] = p[i]

CharsOk(s, forbidden) == \A i \in 1..Len(s) : ClassOf(s[i]) \notin forbidden

FileNameChars == {"nul", "ctl", "slash", "bsl", "fp", "hi"}
PathChars == {"nul", "ctl", "fp", "hi"}

ValidFileName(s) ==
    /\ CharsOk(s, FileNameChars)
    /\ s # <<>> /\ s # <<Dot>> /\ s # <<Dot, Dot>>

ValidPath(s) == CharsOk(s, PathChars)

ValidFilePath(s) ==
    /\ CharsOk(s, PathChars)
    /\ s # <<>> /\ s # <<Dot>> /\ s # <<Dot, Dot>>
    /\ s[Len(s)] # Slash
    /\ ~HasSuffix(s, <<Slash, Dot>>)
    /\ ~HasSuffix(s, <<Slash, Dot, Dot>>)

ValidServiceName(s) ==
    /\ s # <<>>
    /\ CharsOk(s, {"nul", "hi"})
    /\ ~HasPrefix(s, Iox2Prefix)

ValidNodeName(s) == CharsOk(s, {"nul", "hi"})

ContentOk(ty, s) ==
    CASE ty = "FileName"    -> ValidFileName(s)
      [] ty = "RFileName2"  -> ValidFileName(s)
      [] ty = "Path"        -> ValidPath(s)
      [] ty = "FilePath"    -> ValidFilePath(s)
      [] ty = "ServiceName" -> ValidServiceName(s)
      [] ty = "NodeName"    -> ValidNodeName(s)
      [] ty = "Str8"        -> CharsOk(s, {"nul", "hi"})

\* accepted exactly when the documented rules hold
Valid(ty, s) == Len(s) <= Cap(ty) /\ ContentOk(ty, s)

\* ------------------------------------------------------------------------
\* entry points: the byte string a constructor has to judge
MinOf(S) == CHOOSE x \in S : \A y \in S : x <= y
SubSeqSafe(s, a, b) == IF a > b THEN <<>> ELSE SubSeq(s, a, b)
UntilNul(s) == LET z == {i \in 1..Len(s) : s[i] = 0} IN IF z = {} THEN s ELSE SubSeqSafe(s, 1, MinOf(z) - 1)

CStrVias == {"from_c_str"}                                       \* the argument is a zero terminated C string
TruncVias == {"from_bytes_truncated", "from_str_truncated"}      \* documented: only the first CAPACITY bytes count
Input(ty, via, arg) ==
    IF via \in CStrVias THEN UntilNul(arg)
    ELSE IF via \in TruncVias THEN SubSeqSafe(arg, 1, IF Len(arg) < Cap(ty) THEN Len(arg) ELSE Cap(ty))
    ELSE arg

\* The documentation of ServiceName::new forbids the internal prefix "iox2://"; TryInto<ServiceName> and the serde
\* path (which must be able to read the static configuration of internal services back) are not documented: for a
\* name that is valid apart from that prefix the statement is silent there and either verdict is acceptable.
InternalVias == {"try_into", "serde_json"}
Unspecified(ty, via, s) ==
    /\ ty = "ServiceName" /\ via \in InternalVias
    /\ HasPrefix(s, Iox2Prefix) /\ Len(s) <= Cap(ty) /\ CharsOk(s, {"nul", "hi"})

\* ------------------------------------------------------------------------
\* editing operations on a semantic string holding s: the candidate result
Insert(s, idx, bytes) == SubSeqSafe(s, 1, idx) \o bytes \o SubSeqSafe(s, idx + 1, Len(s))    \* idx 0-based
RemoveAt(s, idx) == SubSeqSafe(s, 1, idx) \o SubSeqSafe(s, idx + 2, Len(s))               \* idx 0-based
RemoveRange(s, idx, n) == SubSeqSafe(s, 1, idx) \o SubSeqSafe(s, idx + n + 1, Len(s))      \* idx 0-based
Truncate(s, n) == IF n < Len(s) THEN SubSeqSafe(s, 1, n) ELSE s
Without(s, bytes) == LET drop == {bytes[i] : i \in 1..Len(bytes)} IN SelectSeq(s, LAMBDA b : b \notin drop)
JoinPath(p, f) == IF p = <<>> \/ p[Len(p)] = Slash THEN p \o f ELSE p \o <<Slash>> \o f

\* components separated by '/' (possibly empty ones).  Not a recursive definition: TLC does not memoize recursive
\* function applications, and the recorded strings are up to 770 bytes long.
Split(s) ==
    LET P == {i \in 1..Len(s) : s[i] = Slash}
        n == Cardinality(P)
        rank == [x \in P |-> Cardinality({y \in P : y < x})]
        Q == [k \in 1..n |-> CHOOSE x \in P : rank[x] = k - 1]        \* the separator positions in ascending order
    IN [k \in 1..(n + 1) |-> SubSeqSafe(s, IF k = 1 THEN 1 ELSE Q[k - 1] + 1, IF k = n + 1 THEN Len(s) ELSE Q[k] - 1)]

SumLen(comps, k) ==      \* total length of the first k components (k >= 0)
    LET S[j \in 0..k] == IF j = 0 THEN 0 ELSE S[j - 1] + Len(comps[j]) IN S[k]
JoinWith(comps, sep) ==
    \* position arithmetic instead of a recursion: start[k] = offset of component k in the result
    LET n == Len(comps)
        start == [k \in 1..n |-> (k - 1) * Len(sep) + SumLen(comps, k - 1)]
    IN IF n = 0 THEN <<>>
       ELSE [i \in 1..(start[n] + Len(comps[n])) |->
                LET k == CHOOSE k \in 1..n : start[k] < i /\ (k = n \/ i <= start[k + 1]) IN
                IF i - start[k] <= Len(comps[k]) THEN comps[k][i - start[k]] ELSE sep[i - start[k] - Len(comps[k])]]

\* Path::normalize: no empty and no "." components, a leading separator is kept, none at the end
Normalize(s) ==
    (IF s # <<>> /\ s[1] = Slash THEN <<Slash>> ELSE <<>>)
    \o JoinWith(SelectSeq(Split(s), LAMBDA c : c # <<>> /\ c # <<Dot>>), <<Slash>>)

\* what the accessors of an accepted value have to deliver
LastComponent(s) == LET c == Split(s) IN c[Len(c)]
DirPart(s) ==       \* FilePath::path(): everything before the last separator, "/" for a file directly under the root
    LET c == Split(s) IN
    IF Len(c) = 1 THEN <<>>
    ELSE LET d == SubSeqSafe(s, 1, Len(s) - Len(c[Len(c)]) - 1) IN IF d = <<>> THEN <<Slash>> ELSE d
Entries(s) == JoinWith(SelectSeq(Split(s), LAMBDA c : c # <<>>), <<0>>)

Observe(ty, s, a) ==
    CASE a = "file_name" -> LastComponent(s)
      [] a = "path"      -> DirPart(s)
      [] a = "entries"   -> Entries(s)
      [] a = "normalize" -> Normalize(s)
      [] OTHER           -> s           \* as_c_str, serialize, to_string, as_str: the content itself
ObserveOps == {"file_name", "path", "entries", "normalize", "as_c_str", "serialize", "to_string"}

\* op = [a, via, idx, idx2, arg, arg2]; result = [r, s, alt]  with r in "ok" | "err" | "true" | "false" | "none";
\* alt: further contents that are acceptable after an error (see add_path_entry)
Apply(ty, s, op) ==
    LET done(r, t) == [r |-> r, s |-> t, alt |-> {}]
        try(r, t) == IF Valid(ty, t) THEN done(r, t) ELSE done("err", s)
    IN
    CASE op.a = "new"          -> try("ok", Input(ty, op.via, op.arg))
      [] op.a = "from_path_and_file" -> try("ok", JoinPath(op.arg, op.arg2))
      [] op.a = "new_normalized" -> IF Valid(ty, op.arg) THEN done("ok", Normalize(op.arg)) ELSE done("err", s)
      [] op.a = "push"         -> try("ok", s \o op.arg)
      [] op.a = "insert"       -> try("ok", Insert(s, op.idx, op.arg))
      [] op.a = "remove"       -> try("ok", RemoveAt(s, op.idx))
      [] op.a = "remove_range" -> try("ok", RemoveRange(s, op.idx, op.idx2))
      [] op.a = "retain"       -> try("ok", Without(s, op.arg))
      [] op.a = "pop"          -> IF s = <<>> THEN done("none", s) ELSE try("ok", RemoveAt(s, Len(s) - 1))
      [] op.a = "truncate"     -> try("ok", Truncate(s, op.idx))
      [] op.a = "strip_prefix" -> IF HasPrefix(s, op.arg)
                                  THEN try("true", SubSeqSafe(s, Len(op.arg) + 1, Len(s)))
                                  ELSE done("false", s)
      [] op.a = "strip_suffix" -> IF HasSuffix(s, op.arg)
                                  THEN try("true", SubSeqSafe(s, 1, Len(s) - Len(op.arg)))
                                  ELSE done("false", s)
      \* Path::add_path_entry appends a separator (unless empty / already there) and the entry.  The documentation
      \* does not say what a FAILING call leaves behind; the separator alone (still a valid path that normalizes to
      \* the same path) is tolerated.
      [] op.a = "add_path_entry" ->
            LET t == JoinPath(s, op.arg) IN
            IF Valid(ty, t) THEN done("ok", t)
            ELSE [r |-> "err", s |-> s, alt |-> IF Valid(ty, s \o <<Slash>>) THEN {s \o <<Slash>>} ELSE {}]
EditOps == {"push", "insert", "remove", "remove_range", "retain", "pop", "truncate", "strip_prefix", "strip_suffix",
            "add_path_entry"}
CtorOps == {"new", "from_path_and_file", "new_normalized"}

\* ------------------------------------------------------------------------
\* safety lemmas (checked by TLC over all class strings up to length 4, MC_Names)
NoEscape(s) ==      \* what an accepted file name can never be or contain
    /\ \A i \in 1..Len(s) : s[i] # Slash /\ s[i] # 0
    /\ s # <<Dot>> /\ s # <<Dot, Dot>> /\ s # <<>>

\* lexical resolution of a path: components separated by '/', "." skipped, ".." pops
Resolve(s) ==
    LET comps == Split(s)
        G[i \in 0..Len(comps)] ==
          IF i = 0 THEN <<>>
          ELSE LET c == comps[i]
                   g == G[i - 1] IN          \* (one reference: TLC does not memoize recursive applications)
               IF c = <<>> \/ c = <<Dot>> THEN g
               ELSE IF c = <<Dot, Dot>> THEN (IF g = <<>> THEN <<>> ELSE SubSeqSafe(g, 1, Len(g) - 1))
               ELSE Append(g, c)
    IN G[Len(comps)]

PathFor(root, file) == root \o <<Slash>> \o file

\* a path composed of a root and accepted file name parts stays directly under the root
StaysUnderRoot(root, file) == Resolve(PathFor(root, file)) = Append(Resolve(root), file)
=============================================================================
