------------------------------ MODULE CSlotMap ------------------------------
(***************************************************************************)
(* Property layer of C16 for SlotMap / RelocatableSlotMap /                *)
(* FixedSizeSlotMap: a partial map from the keys 0..cap-1 to values.       *)
(*   insert(x)        stores x under a key that is FREE and returns it;    *)
(*                    `None` iff no key is free (and nothing changes).     *)
(*   next_free_key()  "the key that will be used when the user calls       *)
(*                    insert" - modelled by `nxt`.  WHICH free key that is *)
(*                    is an implementation choice (free-list order): after *)
(*                    every mutation nxt' is any free key, -1 iff full.    *)
(*   insert_at(k, x)  k out of bounds (k >= cap): false, nothing changes;  *)
(*                    otherwise stores x at k, dropping an old value.      *)
(*   remove(k)/get(k)/contains(k)  absent or out-of-bounds key: None/false *)
(* m is a sequence of length cap, 0 = empty slot (keys are 0-based:        *)
(* key k is m[k+1]).  Observers compared after every step: len, is_empty,  *)
(* is_full, iteration (ascending keys), get/contains for keys < cap,       *)
(* next_free_key.                                                          *)
(***************************************************************************)
EXTENDS CUtil

CONSTANTS Caps
VARIABLES m, cap, nxt, last
vars == <<m, cap, nxt, last>>
view == <<m, cap, nxt>>

Obs == [m |-> m, cap |-> cap, nxt |-> nxt]
Free(mm) == {k \in 0..(Len(mm) - 1) : mm[k + 1] = 0}
Stored(mm) == SelectSeq(mm, LAMBDA x : x # 0)
NxtOK(mm, n) == IF Free(mm) = {} THEN n = -1 ELSE n \in Free(mm)

Init == /\ cap \in Caps /\ m = [j \in 1..cap |-> 0] /\ NxtOK(m, nxt) /\ nxt \in -1..cap /\ last = L0
Reset(n, f) == cap' = n /\ m' = [j \in 1..n |-> 0] /\ nxt' = f /\ NxtOK(m', f) /\ last' = L0
PickNxt == nxt' \in -1..cap /\ NxtOK(m', nxt')

Insert(x) ==
    /\ UNCHANGED cap
    /\ IF nxt = -1
       THEN UNCHANGED <<m, nxt>> /\ last' = L("insert", <<x>>, <<>>, "none", <<>>, BOne(x))
       ELSE /\ m' = [m EXCEPT ![nxt + 1] = x]
            /\ PickNxt
            /\ last' = L("insert", <<x>>, <<>>, "some", <<nxt>>, BZero)

InsertAt(k, x) ==
    /\ UNCHANGED cap
    /\ IF k >= cap
       THEN UNCHANGED <<m, nxt>> /\ last' = L("insert_at", <<k, x>>, <<>>, "false", <<>>, BOne(x))
       ELSE /\ m' = [m EXCEPT ![k + 1] = x]
            /\ IF m[k + 1] # 0 THEN UNCHANGED nxt ELSE PickNxt
            /\ last' = L("insert_at", <<k, x>>, <<>>, "true", <<>>,
                         IF m[k + 1] = 0 THEN BZero ELSE BOne(m[k + 1]))

Remove(k) ==
    /\ UNCHANGED cap
    /\ IF k >= cap \/ m[k + 1] = 0
       THEN UNCHANGED <<m, nxt>> /\ last' = L("remove", <<k>>, <<>>, "none", <<>>, BZero)
       ELSE /\ m' = [m EXCEPT ![k + 1] = 0]
            /\ PickNxt
            /\ last' = L("remove", <<k>>, <<>>, "some", <<m[k + 1]>>, BZero)

\* observers with an argument that may be out of bounds are actions of their own
Get(k) ==
    /\ UNCHANGED <<m, cap, nxt>>
    /\ IF k >= cap \/ m[k + 1] = 0
       THEN last' = L("get", <<k>>, <<>>, "none", <<>>, BZero)
       ELSE last' = L("get", <<k>>, <<>>, "some", <<m[k + 1]>>, BZero)
Contains(k) ==
    /\ UNCHANGED <<m, cap, nxt>>
    /\ last' = L("contains", <<k>>, <<>>, IF k < cap /\ m[k + 1] # 0 THEN "true" ELSE "false", <<>>, BZero)

Destroy == /\ UNCHANGED cap /\ m' = [j \in 1..cap |-> 0] /\ PickNxt
           /\ last' = L("destroy", <<>>, <<>>, "ok", <<>>, Bag(Stored(m)))
Relocate == UNCHANGED <<m, cap, nxt>> /\ last' = L("relocate", <<>>, <<>>, "ok", <<>>, BZero)

Next == \/ \E x \in Vals : Insert(x)
        \/ \E k \in 0..(cap + 1), x \in Vals : InsertAt(k, x)
        \/ \E k \in 0..(cap + 1) : Remove(k) \/ Get(k) \/ Contains(k)
        \/ Destroy \/ Relocate
Spec == Init /\ [][Next]_vars

\* ---- the clauses of the property -------------------------------------------------------------
TypeOK == cap \in Caps /\ m \in [1..cap -> 0..NV] /\ nxt \in -1..(cap - 1)
LenBounded == Len(Stored(m)) <= cap
NextFreeKeyIsFree == NxtOK(m, nxt)
In(l) == IF l.a = "insert" THEN BOne(l.i[1]) ELSE IF l.a = "insert_at" THEN BOne(l.i[2]) ELSE BZero
Out(l) == IF l.a = "remove" /\ l.r = "some" THEN BOne(l.v[1]) ELSE BZero
DropExactlyOnce == BAdd(In(last'), Bag(Stored(m))) = BAdd(BAdd(Bag(Stored(m')), Out(last')), last'.d)
NoInvention == BNonNeg(last'.d)
IsErr(l) == (l.a = "insert" /\ l.r = "none") \/ (l.a = "insert_at" /\ l.r = "false")
ErrorLeavesUnchanged == IsErr(last') => (m' = m /\ nxt' = nxt /\ last'.d = In(last'))
ErrorOnlyWhenDocumented ==
    /\ (last'.a = "insert" /\ last'.r = "none") => Len(Stored(m)) = cap
    /\ (last'.a = "insert_at" /\ last'.r = "false") => last'.i[1] >= cap
\* insert never hands out a key that is in use, and it is the announced one
InsertUsesFreeKey == (last'.a = "insert" /\ last'.r = "some") => (m[last'.v[1] + 1] = 0 /\ last'.v[1] = nxt)
OthersUntouched == \A k \in 1..cap : (m'[k] # m[k]) =>
                      \/ last'.a = "destroy"
                      \/ last'.a \in {"insert_at", "remove"} /\ k = last'.i[1] + 1
                      \/ last'.a = "insert" /\ k = last'.v[1] + 1
PositionIndependent == (last'.a = "relocate") => (Obs' = Obs)
StepOK == /\ DropExactlyOnce /\ NoInvention /\ ErrorLeavesUnchanged /\ ErrorOnlyWhenDocumented
          /\ InsertUsesFreeKey /\ OthersUntouched /\ PositionIndependent
StepProp == [][StepOK]_vars
=============================================================================
