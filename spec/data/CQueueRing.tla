----------------------------- MODULE CQueueRing -----------------------------
(***************************************************************************)
(* Implementation-shaped layer of the container queue (queue.rs MetaQueue):*)
(* a ring of `cap` slots, `start` = number of pushes so far (position of   *)
(* the next write is start % cap), `len` = number of stored elements; the  *)
(* oldest element is at (start - len) % cap.  push_with_overflow on a full *)
(* queue pops the oldest and then pushes.  TLC checks that this layer      *)
(* refines the plain sequence of CQueue.tla (property Refines), i.e. that  *)
(* the ring head as hidden state yields exactly the FIFO results.          *)
(* `start` is kept modulo cap (only start % cap and len are ever used).    *)
(***************************************************************************)
EXTENDS CUtil

CONSTANTS Caps
VARIABLES slots, start, len, cap, last
rvars == <<slots, start, len, cap, last>>
rview == <<slots, start, len, cap>>

Idx(k) == ((k % cap) + cap) % cap
\* abstraction function: the stored elements, oldest first
Content == [j \in 1..len |-> slots[Idx(start - len + j - 1) + 1]]

RInit == /\ cap \in Caps /\ slots = [j \in 1..cap |-> 0] /\ start = 0 /\ len = 0 /\ last = L0

UncheckedPush(sl, st, x) == [sl EXCEPT ![Idx(st) + 1] = x]

RPush(x) ==
    /\ UNCHANGED cap
    /\ IF len = cap
       THEN UNCHANGED <<slots, start, len>> /\ last' = L("push", <<x>>, <<>>, "false", <<>>, BOne(x))
       ELSE /\ slots' = UncheckedPush(slots, start, x)
            /\ start' = Idx(start + 1) /\ len' = len + 1
            /\ last' = L("push", <<x>>, <<>>, "true", <<>>, BZero)

RPop ==
    /\ UNCHANGED <<cap, start>>
    /\ IF len = 0
       THEN UNCHANGED <<slots, len>> /\ last' = L("pop", <<>>, <<>>, "none", <<>>, BZero)
       ELSE /\ slots' = [slots EXCEPT ![Idx(start - len) + 1] = 0]
            /\ len' = len - 1
            /\ last' = L("pop", <<>>, <<>>, "some", <<slots[Idx(start - len) + 1]>>, BZero)

RPushOverflow(x) ==
    /\ cap > 0
    /\ UNCHANGED cap
    /\ IF len = cap
       THEN \* pop_impl, then unchecked_push
            LET old == slots[Idx(start - len) + 1]
                s1 == [slots EXCEPT ![Idx(start - len) + 1] = 0] IN
            /\ slots' = UncheckedPush(s1, start, x)
            /\ start' = Idx(start + 1) /\ len' = len
            /\ last' = L("push_with_overflow", <<x>>, <<>>, "some", <<old>>, BZero)
       ELSE /\ slots' = UncheckedPush(slots, start, x)
            /\ start' = Idx(start + 1) /\ len' = len + 1
            /\ last' = L("push_with_overflow", <<x>>, <<>>, "none", <<>>, BZero)

\* clear_impl: pop until empty (start stays where it is)
RClear == /\ UNCHANGED <<cap, start>> /\ slots' = [j \in 1..cap |-> 0] /\ len' = 0
          /\ last' = L("clear", <<>>, <<>>, "ok", <<>>, Bag(Content))
RDestroy == /\ UNCHANGED cap /\ slots' = [j \in 1..cap |-> 0] /\ len' = 0 /\ start' = 0
            /\ last' = L("destroy", <<>>, <<>>, "ok", <<>>, Bag(Content))
RRelocate == UNCHANGED <<slots, start, len, cap>> /\ last' = L("relocate", <<>>, <<>>, "ok", <<>>, BZero)

RNext == \/ \E x \in Vals : RPush(x) \/ RPushOverflow(x)
         \/ RPop \/ RClear \/ RDestroy \/ RRelocate
RSpec == RInit /\ [][RNext]_rvars

Abs == INSTANCE CQueue WITH c <- Content
Refines == Abs!Spec
RingTypeOK == /\ len \in 0..cap /\ (cap > 0 => start \in 0..(cap - 1))
              /\ \A j \in 1..cap : slots[j] \in 0..NV
\* slots outside the window are empty (no element is kept alive behind the queue's back)
NoStaleElement == \A k \in 0..(cap - 1) : (slots[k + 1] # 0) <=> (\E j \in 1..len : Idx(start - len + j - 1) = k)
=============================================================================
