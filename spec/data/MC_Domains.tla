----------------------------- MODULE MC_Domains -----------------------------
EXTENDS Domains
CONSTANT MaxFiles
P_a  == <<"a", "_">>
P_a1 == <<"a", "_", "1">>
P_b  == <<"b">>
P_bb == <<"b", "b">>
P_x  == <<"x", "_">>
MCConfigs == <<[root |-> "r1", prefix |-> P_a], [root |-> "r1", prefix |-> P_a1], [root |-> "r1", prefix |-> P_b],
               [root |-> "r1", prefix |-> P_bb], [root |-> "r2", prefix |-> P_a], [root |-> "r2", prefix |-> P_a1],
               [root |-> "r2", prefix |-> P_b]>>
QuickConfigs == <<[root |-> "r1", prefix |-> P_a], [root |-> "r1", prefix |-> P_a1], [root |-> "r1", prefix |-> P_b],
                  [root |-> "r1", prefix |-> P_bb], [root |-> "r2", prefix |-> P_a]>>
MCNodeIds == {<<"5">>, <<"1", "5">>}
MCHashes == {<<"a", "5">>, <<"b", "a">>}
Small == Cardinality(files) <= MaxFiles
=============================================================================
