SPECIFICATION TraceSpec
CONSTANT NodeClauses = TRUE
CONSTRAINT Progress
POSTCONDITION Accepted
CHECK_DEADLOCK FALSE
INVARIANTS NodeListIsolated ServiceListIsolated ExistsIsolated OpenIsolated CleanupIsolated CreateIsolated NodeListComplete ServiceListComplete ExistsComplete CleanupComplete CreatedUnderDomain RemovedUnderDomain ConceptListIsolated ConceptExistsIsolated ConceptExistsComplete ConceptRemoveIsolated
