---- MODULE MC_CFlatMap ----
EXTENDS CFlatMap, TLC, Json
Emit == PrintT(<<"EDGE", ToJson([f |-> Obs, l |-> last', t |-> Obs'])>>)
====
