SPECIFICATION Spec
INVARIANTS Shape Total Injective NoCollisionWithOK NamesNonEmpty NamesDistinct NamesRustError
POSTCONDITION Summary
CHECK_DEADLOCK FALSE
