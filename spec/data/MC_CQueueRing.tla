---- MODULE MC_CQueueRing ----
EXTENDS CQueueRing
====
