SPECIFICATION ISpec
CONSTANTS Caps = {1,2}
 FixHead = TRUE
 ClearLinks = TRUE
INVARIANT HeadIsFree
PROPERTY Refines
CHECK_DEADLOCK FALSE
