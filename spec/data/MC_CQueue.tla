---- MODULE MC_CQueue ----
EXTENDS CQueue, TLC, Json
\* one JSON line per edge of the state graph (DESIGN.md 3.5); -workers 1
Emit == PrintT(<<"EDGE", ToJson([f |-> Obs, l |-> last', t |-> Obs'])>>)
====
