SPECIFICATION ISpec
CONSTANTS Caps = {1,2}
 FixHead = FALSE
 ClearLinks = FALSE
INVARIANT HeadIsFree
PROPERTY Refines
CHECK_DEADLOCK FALSE
