----------------------------- MODULE NamesTrace -----------------------------
(***************************************************************************)
(* Trace specification of C19 (a): structured random strings up to the     *)
(* maximum length and random edit sequences executed on the REAL semantic  *)
(* string types (drv-names edits).  Every event carries the operation, its *)
(* arguments, the result class and the bytes (`as_bytes()`) afterwards;    *)
(* the model (Names.tla: Apply) computes what the documented rules demand. *)
(* `drv-names ctors` adds every public construction path (`via`) with      *)
(* arguments around the capacity (CAPACITY-1 .. 2*CAPACITY+1), the derived  *)
(* constructors (from_path_and_file, new_normalized, conversions between   *)
(* the types) and the accessors of an accepted value (`out`).              *)
(* Clauses (invariants, latched by the first event that breaks them):      *)
(*   Validated  a constructor accepts exactly the valid byte strings       *)
(*              (judged on the caller's whole string: Names.tla Input)     *)
(*   RoundTrip  an accepted name reads back unchanged (as_bytes, as_c_str, *)
(*              Display, serialisation)                                    *)
(*   EditSafe   an edit whose result would be invalid is refused and       *)
(*              leaves the content unchanged; a valid result is stored     *)
(*   Derived    file_name / path / entries / normalize of an accepted      *)
(*              value are the components the rules talk about              *)
(* The error KIND (InvalidContent / ExceedsMaximumLength) is not fixed by  *)
(* the property and is not compared.                                       *)
(***************************************************************************)
EXTENDS Names, TraceIO

\* TRUE: the KNOWN finding names-trace:FilePath:from_path_and_file:panic-at-capacity (known_findings.json) is
\* tolerated - a PANIC (never a wrong value) of FilePath::from_path_and_file for a valid result whose parts have
\* together at least Cap - 1 bytes counts as a refusal - so that everything else in those runs is still judged.  The
\* check validates the runs of that class a second time with FALSE and reports what it finds under that signature.
CONSTANT TolerateFpafPanic

VARIABLES l, ty, cur, nviol, nwhy
tvars == <<l, ty, cur, nviol, nwhy>>

TraceInit ==
    /\ l = 1 /\ ty = "FileName" /\ cur = <<>> /\ nviol = "none" /\ nwhy = <<>>
    /\ TraceRegInit

RClass(r) == IF r \in {"ok", "true", "false", "none"} THEN r ELSE "err"

Latch(bad, clause, why) ==
    /\ nviol' = IF nviol = "none" /\ bad THEN clause ELSE nviol
    /\ nwhy' = IF nviol = "none" /\ bad THEN why ELSE nwhy

Consume ==
    /\ l <= NRec
    /\ l' = l + 1
    /\ LET e == Rec[l] IN
       CASE e.k = "reset" ->
                /\ e.ty \in Types
                /\ ty' = e.ty /\ cur' = <<>>
                /\ UNCHANGED <<nviol, nwhy>>
         [] e.k = "op" /\ e.a \in ObserveOps ->
                LET exp == Observe(ty, cur, e.a)
                    clause == IF e.a \in {"as_c_str", "serialize", "to_string"} THEN "RoundTrip" ELSE "Derived" IN
                /\ Latch(e.out # exp \/ e.s # cur, clause, [event |-> e, expected |-> exp])
                /\ cur' = e.s
                /\ UNCHANGED ty
         [] e.k = "op" /\ e.a \notin ObserveOps ->
                LET op == [a |-> e.a, via |-> e.via, idx |-> e.idx, idx2 |-> e.idx2, arg |-> e.arg, arg2 |-> e.arg2]
                    exp0 == Apply(ty, cur, op)
                    \* where the statement is silent both verdicts are fine (but an accepted name must round-trip)
                    free == e.a = "new" /\ Unspecified(ty, e.via, Input(ty, e.via, e.arg))
                    known == /\ TolerateFpafPanic /\ e.a = "from_path_and_file" /\ e.r = "panic"
                             /\ Len(e.arg) + Len(e.arg2) >= Cap(ty) - 1 /\ exp0.r = "ok"
                    exp == IF known THEN [r |-> "err", s |-> cur, alt |-> {}]
                           ELSE IF free
                           THEN (IF RClass(e.r) = "ok" THEN [r |-> "ok", s |-> Input(ty, e.via, e.arg), alt |-> {}]
                                                        ELSE [r |-> "err", s |-> cur, alt |-> {}])
                           ELSE exp0
                    badr == RClass(e.r) # exp.r
                    bads == e.s # exp.s /\ e.s \notin exp.alt
                    clause == IF e.a \in CtorOps THEN (IF badr THEN "Validated" ELSE "RoundTrip") ELSE "EditSafe"
                IN
                /\ e.a \in CtorOps \cup EditOps
                /\ Latch(badr \/ bads, clause, [event |-> e, expected |-> exp])
                /\ cur' = e.s
                /\ UNCHANGED ty
         [] OTHER -> FALSE

TraceNext == Consume
TraceSpec == TraceInit /\ [][TraceNext]_tvars
Progress == TraceProgress(l)
Accepted == TraceAccepted

Validated == nviol # "Validated"
RoundTrip == nviol # "RoundTrip"
EditSafe  == nviol # "EditSafe"
Derived   == nviol # "Derived"
=============================================================================
