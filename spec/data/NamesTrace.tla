----------------------------- MODULE NamesTrace -----------------------------
(***************************************************************************)
(* Trace specification of C19 (a): structured random strings up to the     *)
(* maximum length and random edit sequences executed on the REAL semantic  *)
(* string types (drv-names edits).  Every event carries the operation, its *)
(* arguments, the result class and the bytes (`as_bytes()`) afterwards;    *)
(* the model (Names.tla: Apply) computes what the documented rules demand. *)
(* Clauses (invariants, latched by the first event that breaks them):      *)
(*   Validated  a constructor accepts exactly the valid byte strings       *)
(*   RoundTrip  an accepted name reads back unchanged                      *)
(*   EditSafe   an edit whose result would be invalid is refused and       *)
(*              leaves the content unchanged; a valid result is stored     *)
(* The error KIND (InvalidContent / ExceedsMaximumLength) is not fixed by  *)
(* the property and is not compared.                                       *)
(***************************************************************************)
EXTENDS Names, TraceIO

VARIABLES l, ty, cur, nviol, nwhy
tvars == <<l, ty, cur, nviol, nwhy>>

TraceInit ==
    /\ l = 1 /\ ty = "FileName" /\ cur = <<>> /\ nviol = "none" /\ nwhy = <<>>
    /\ TraceRegInit

RClass(r) == IF r \in {"ok", "true", "false", "none"} THEN r ELSE "err"

Consume ==
    /\ l <= NRec
    /\ l' = l + 1
    /\ LET e == Rec[l] IN
       CASE e.k = "reset" ->
                /\ e.ty \in Types
                /\ ty' = e.ty /\ cur' = <<>>
                /\ UNCHANGED <<nviol, nwhy>>
         [] e.k = "op" ->
                LET exp == Apply(ty, cur, [a |-> e.a, idx |-> e.idx, arg |-> e.arg])
                    badr == RClass(e.r) # exp.r
                    bads == e.s # exp.s
                    clause == IF e.a = "new" THEN (IF badr THEN "Validated" ELSE "RoundTrip") ELSE "EditSafe"
                IN
                /\ e.a \in {"new", "push", "insert", "remove", "pop", "truncate", "strip_prefix", "strip_suffix"}
                /\ nviol' = IF nviol = "none" /\ (badr \/ bads) THEN clause ELSE nviol
                /\ nwhy' = IF nviol = "none" /\ (badr \/ bads) THEN [event |-> e, expected |-> exp] ELSE nwhy
                /\ cur' = e.s
                /\ UNCHANGED ty
         [] OTHER -> FALSE

TraceNext == Consume
TraceSpec == TraceInit /\ [][TraceNext]_tvars
Progress == TraceProgress(l)
Accepted == TraceAccepted

Validated == nviol # "Validated"
RoundTrip == nviol # "RoundTrip"
EditSafe  == nviol # "EditSafe"
=============================================================================
