-------------------------------- MODULE Alloc --------------------------------
(***************************************************************************)
(* Property layer of C15 (first sentence of the statement).                *)
(*                                                                         *)
(* The abstract object is a memory segment [base, base+size) and the set   *)
(* `live` of allocations that were handed out and not yet given back.      *)
(* Nothing is said about WHICH address an allocator returns: an            *)
(* observation `ObsAllocOk(sz, al, addr, ext)` simply adds the region      *)
(* [addr, addr+ext) -- ext is the number of bytes the allocator reserves   *)
(* for the caller: the bucket size for the pool allocator, the requested   *)
(* size for the bump allocator, everything up to the end of the segment    *)
(* for the one-chunk allocator -- and the clauses of the property are      *)
(* invariants over the resulting state:                                    *)
(*                                                                         *)
(*   InBounds        every live region lies inside the segment             *)
(*   Disjoint        live regions do not overlap pairwise                  *)
(*   Aligned         the returned address satisfied the requested alignment*)
(*   SizeSufficient  the reserved extent covers the requested size         *)
(*   FailsCleanly    a failed request reported a documented error whose    *)
(*                   cause really applies, and changed nothing             *)
(*   Reusable        (history based, AllocTrace.tla / structural,          *)
(*                   AllocImpl.tla)                                        *)
(*                                                                         *)
(* Aligned / SizeSufficient / FailsCleanly depend on the request, which is *)
(* not part of the state; their verdict is latched in `viol` by the        *)
(* observation that breaks them ("none" otherwise).                        *)
(*                                                                         *)
(* Kinds:  "pool"     bb/memory PoolAllocator, cal shm_allocator pool      *)
(*         "bump"     bb/elementary BumpAllocator                          *)
(*         "shmbump"  cal shm_allocator bump (alignment <= 8, deallocate = *)
(*                    reset of everything, as documented)                  *)
(*         "one"      bb/memory OneChunkAllocator                          *)
(***************************************************************************)
EXTENDS Naturals, Sequences, FiniteSets

VARIABLES kind,   \* allocator kind
          lay,    \* [base, size, bsize, balign]  (bsize/balign: bucket layout, pool only)
          live,   \* set of [addr, ext]
          viol,   \* "none" or the name of the first clause broken by an observation
          why     \* diagnostics: the request / result that broke it, <<>> otherwise

pvars == <<kind, lay, live, viol, why>>

Kinds == {"pool", "bump", "shmbump", "one"}
DocErrors == {"SizeIsZero", "SizeTooLarge", "AlignmentFailure", "OutOfMemory"}

AlignUp(v, a) == IF v % a = 0 THEN v ELSE v + a - (v % a)

SegEnd == lay.base + lay.size

Overlap(x, y) == x.addr < y.addr + y.ext /\ y.addr < x.addr + x.ext

\* largest alignment an allocator of this kind has to serve
MaxAlign == CASE kind = "pool" -> lay.balign
              [] kind = "shmbump" -> 8
              [] OTHER -> 1073741824

Latch(name) == IF viol = "none" THEN name ELSE viol
Blame(bad, sz, al, addr, r) ==
    IF viol = "none" /\ bad THEN [size |-> sz, align |-> al, addr |-> addr, r |-> r] ELSE why

PInit(k, l) ==
    /\ kind = k
    /\ lay = l
    /\ live = {}
    /\ viol = "none"
    /\ why = <<>>

PReset(k, l) ==
    /\ kind' = k
    /\ lay' = l
    /\ live' = {}
    /\ viol' = "none"
    /\ why' = <<>>

\* a successful allocation as observed: request (sz, al), returned address, reserved extent
ObsAllocOk(sz, al, addr, ext) ==
    /\ live' = live \cup {[addr |-> addr, ext |-> ext]}
    /\ viol' = IF addr % al # 0 THEN Latch("Aligned")
               ELSE IF ext < sz THEN Latch("SizeSufficient")
               ELSE IF [addr |-> addr, ext |-> ext] \in live THEN Latch("Disjoint")  \* same region twice
               ELSE viol
    /\ why' = Blame(addr % al # 0 \/ ext < sz \/ [addr |-> addr, ext |-> ext] \in live, sz, al, addr, "ok")
    /\ UNCHANGED <<kind, lay>>

\* the cause named by a documented error must really apply to the request
CauseApplies(sz, al, err) ==
    CASE err = "SizeIsZero"       -> sz = 0
      [] err = "SizeTooLarge"     -> kind = "pool" /\ sz > lay.bsize
      [] err = "AlignmentFailure" -> al > MaxAlign
      [] err = "OutOfMemory"      -> TRUE
      [] OTHER                    -> FALSE

\* a failed allocation as observed (err may also be "panic" or anything else the code did)
ObsAllocErr(sz, al, err) ==
    /\ viol' = IF err \in DocErrors /\ CauseApplies(sz, al, err) THEN viol ELSE Latch("FailsCleanly")
    /\ why' = Blame(~(err \in DocErrors /\ CauseApplies(sz, al, err)), sz, al, 0, err)
    /\ UNCHANGED <<kind, lay, live>>

\* give one allocation back (bump allocators: everything is given back, as documented)
ObsFree(addr) ==
    /\ \E x \in live : x.addr = addr
    /\ live' = IF kind \in {"bump", "shmbump"} THEN {} ELSE {x \in live : x.addr # addr}
    /\ UNCHANGED <<kind, lay, viol, why>>

ObsFreeAll ==
    /\ live' = {}
    /\ UNCHANGED <<kind, lay, viol, why>>

\* ------------------------------------------------------------ the clauses
InBounds       == \A x \in live : x.addr >= lay.base /\ x.addr + x.ext <= SegEnd
Disjoint       == /\ \A x, y \in live : x # y => ~Overlap(x, y)
                  /\ viol # "Disjoint"
Aligned        == viol # "Aligned"
SizeSufficient == viol # "SizeSufficient"
FailsCleanly   == viol # "FailsCleanly"
Reusable       == viol # "Reusable"
=============================================================================
