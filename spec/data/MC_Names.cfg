SPECIFICATION Spec
CONSTANTS
 MaxLen = 4
 EditLen = 4
INVARIANTS FileNameNoEscape ConcatStaysName UnderRoot FilePathLastIsName EditSafe
CHECK_DEADLOCK FALSE
