SPECIFICATION Spec
CONSTANTS
 MaxLen = 4
 EditLen = 4
 CtorLen = 4
INVARIANTS FileNameNoEscape ConcatStaysName UnderRoot FilePathLastIsName EditSafe ConversionSafe CtorExact
CHECK_DEADLOCK FALSE
