---- MODULE MC_CSlotMap ----
EXTENDS CSlotMap, TLC, Json
Emit == PrintT(<<"EDGE", ToJson([f |-> Obs, l |-> last', t |-> Obs'])>>)
====
