-------------------------- MODULE MC_ProcessState --------------------------
(* Reference model-checking instance of ProcessState.  checks/C07.py does    *)
(* NOT use the sequences below: it regenerates this module under work/ with  *)
(* the op sequences and the NodeMap EXTRACTED from a sysshim dry run of the   *)
(* current code (DESIGN.md 3.3).  The values here are those of /repo at the   *)
(* pinned commit and serve for stand-alone runs:                              *)
(*   tlc -config MC_ProcessState.cfg MC_ProcessState.tla                      *)
EXTENDS ProcessState

O(op, f, pm) == [op |-> op, f |-> f, perm |-> pm]

GuardCreateSeq == <<
    O("create", "context", "init"), O("chmod", "context", "init"),
    O("create", "state", "init"), O("chmod", "state", "init"),
    O("create", "owner_lock", "init"), O("chmod", "owner_lock", "init"),
    O("write", "context", "none"), O("lock", "state", "none"),
    O("chmod", "owner_lock", "final"), O("chmod", "state", "final"), O("chmod", "context", "final") >>

DropSeq == <<
    O("chmod", "state", "final"), O("unlink", "state", "none"), O("close", "state", "none"),
    O("chmod", "owner_lock", "final"), O("unlink", "owner_lock", "none"), O("close", "owner_lock", "none"),
    O("chmod", "context", "final"), O("unlink", "context", "none"), O("close", "context", "none") >>

CleanerAcquireSeq == <<
    O("open", "context", "none"), O("open", "owner_lock", "none"), O("open", "state", "none"),
    O("getlk", "state", "none"), O("lock", "owner_lock", "none") >>

\* refusal tails, one per step of CleanerAcquireSeq (the getlk step cannot fail in the pinned code: its tail is
\* the one of the lock step without the fstat)
CleanerRefuseSeq == <<
    << >>,
    << O("close", "context", "none") >>,
    << O("close", "owner_lock", "none"), O("close", "context", "none") >>,
    << O("close", "state", "none"), O("close", "owner_lock", "none"), O("close", "context", "none") >>,
    << O("fstat", "owner_lock", "none"), O("close", "state", "none"), O("close", "owner_lock", "none"),
       O("close", "context", "none") >> >>

\* a lock step that fails on an unlinked file: same calls in the pinned code (only the error differs)
CleanerRefuseGoneSeq == CleanerRefuseSeq

NodeMapVal == [Alive |-> "Alive", Dead |-> "Dead", CleaningUp |-> "Dead", DoesNotExist |-> "DoesNotExist",
               Starting |-> "DoesNotExist", Err |-> "Undefined"]

LevelsVal == [m \in Monitors |-> {"pm", "cal", "node"}]
\* signatures of the findings known for the pinned commit (known_findings.json); with {} TLC reports them
ExcusedVal == { <<"falsedead", "pm", "shutdown">>, <<"falsedead", "cal", "shutdown">>, <<"falsedead", "node", "shutdown">> }
=============================================================================
