SPECIFICATION Spec
CONSTANTS
 GuardCreate <- GuardCreateSeq
 GuardDrop <- DropSeq
 CleanerAcquire <- CleanerAcquireSeq
 CleanerDrop <- DropSeq
 NodeMap <- NodeMapVal
 Monitors = {"M1", "M2"}
 Cleaners = {"C1"}
 Level <- LevelVal
 Privileged = TRUE
 MaxQueries = 1
 GuardMayDrop = TRUE
 GuardMayCrash = TRUE
 CleanerMayCrash = FALSE
 Excused <- ExcusedVal
VIEW view
INVARIANTS TypeOK NoFalseDead NoReclaimFromLive DeadIsDetected ExclusiveCleanup CleanerCrashRecoverable
CHECK_DEADLOCK FALSE
