SPECIFICATION Spec
CONSTANTS
 GuardCreate <- GuardCreateSeq
 GuardDrop <- DropSeq
 CleanerAcquire <- CleanerAcquireSeq
 CleanerDrop <- DropSeq
 CleanerRefuse <- CleanerRefuseSeq
 CleanerRefuseGone <- CleanerRefuseGoneSeq
 NodeMap <- NodeMapVal
 Monitors = {"M1"}
 Cleaners = {"C1"}
 Levels <- LevelsVal
 Privileged = TRUE
 MaxQueries = 1
 GuardMayDrop = TRUE
 GuardCrashPhases = {"startup", "running", "shutdown"}
 CleanerMayCrash = FALSE
 CleanersAfterCrash = FALSE
 Excused <- ExcusedVal
 ExcuseAll = FALSE
VIEW view
INVARIANTS TypeOK NoFalseDead NoReclaimFromLive DeadIsDetected ExclusiveCleanup CleanerCrashRecoverable RefusedChangesNothing AbsentOnlyAfterCleanup
CHECK_DEADLOCK FALSE
