----------------------------- MODULE ProcessProp -----------------------------
(***************************************************************************)
(* Property layer of C07: what "liveness verdicts are sound and stale       *)
(* cleanup is exclusive" means, independent of how the files are used.      *)
(*                                                                         *)
(* The abstract objects are one monitored process (the guard) with its      *)
(* life cycle                                                               *)
(*   notstarted -> startup -> running -> shutdown -> gone   (orderly)       *)
(*   any of these -> dead                                   (crash / kill)  *)
(* observers asking for a verdict, and cleaners asking for ownership.  Every *)
(* answer is possible (the layer is as permissive as the statement); an      *)
(* answer the statement forbids is recorded in `bad`, and the named          *)
(* invariants say that nothing is recorded.  Known findings are `Excused`:   *)
(* they are printed (WITNESS) but do not fail the invariants.                *)
(***************************************************************************)
EXTENDS Naturals, Sequences, FiniteSets, TLC, Json

CONSTANTS Monitors, Cleaners, Excused

VARIABLES
    gst,        \* life cycle state of the guard's PROCESS and object
    gdeadphase, \* phase in which it died ("none" while alive)
    mq,         \* per monitor: the query in progress
    cl,         \* per cleaner: [st, quiet, alone, epoch]
    epoch,      \* counts cleaner events (to know whether a query ran undisturbed)
    touched,    \* some cleaner has owned the files (they may be partly removed)
    bad

pvars == <<gst, gdeadphase, mq, cl, epoch, touched, bad>>

Phase == CASE gst \in {"notstarted", "startup"} -> "startup"
           [] gst = "running" -> "running"
           [] gst \in {"shutdown", "gone"} -> "shutdown"
           [] OTHER -> gdeadphase

NoQuery == [on |-> FALSE, quiet |-> FALSE, epoch |-> 0]
NoCleaner == [st |-> "idle", quiet |-> FALSE, alone |-> FALSE, epoch |-> 0]

PInit ==
    /\ gst = "notstarted" /\ gdeadphase = "none"
    /\ mq = [m \in Monitors |-> NoQuery]
    /\ cl = [c \in Cleaners |-> NoCleaner]
    /\ epoch = 0 /\ touched = FALSE
    /\ bad = {}

PReset ==
    /\ gst' = "notstarted" /\ gdeadphase' = "none"
    /\ mq' = [m \in Monitors |-> NoQuery]
    /\ cl' = [c \in Cleaners |-> NoCleaner]
    /\ epoch' = 0 /\ touched' = FALSE
    /\ bad' = {}

Record(b, pos) ==
    /\ bad' = bad \cup (b \ Excused)
    /\ \A s \in b : PrintT(<<"WITNESS", ToJson(<<s, pos>>)>>)

\* ---- the guard
GuardEvent(ev) ==
    /\ CASE ev = "create_begin" -> gst = "notstarted" /\ gst' = "startup"
         [] ev = "created" -> gst = "startup" /\ gst' = "running"
         [] ev = "drop_begin" -> gst = "running" /\ gst' = "shutdown"
         [] ev = "dropped" -> gst = "shutdown" /\ gst' = "gone"
         [] OTHER -> FALSE
    /\ UNCHANGED <<gdeadphase, mq, cl, epoch, touched, bad>>

GuardCrash ==
    /\ gst # "dead"
    /\ gdeadphase' = Phase
    /\ gst' = "dead"
    /\ UNCHANGED <<mq, cl, epoch, touched, bad>>

\* ---- observers
Active(c) == cl[c].st \in {"trying", "owner", "dropping"}

QueryStart(m) ==
    /\ mq' = [mq EXCEPT ![m] = [on |-> TRUE, epoch |-> epoch,
                                quiet |-> gst = "dead" /\ ~touched /\ \A c \in Cleaners : ~Active(c)]]
    /\ UNCHANGED <<gst, gdeadphase, cl, epoch, touched, bad>>

\* any verdict may be shown; lv = "pm" | "cal" | "node"
Verdict(m, lv, v, pos) ==
    /\ mq[m].on
    /\ LET quiet == mq[m].quiet /\ mq[m].epoch = epoch
           b1 == IF v = "Dead" /\ gst # "dead" THEN {<<"falsedead", lv, Phase>>} ELSE {}
           b2 == IF quiet /\ (v = "Alive"
                              \/ (lv # "pm" /\ v \notin {"Dead", "DoesNotExist"})
                              \/ (gdeadphase = "running" /\ v # "Dead"))
                 THEN {<<"undetected", lv, gdeadphase, v>>} ELSE {}
       IN Record(b1 \cup b2, pos)
    /\ mq' = [mq EXCEPT ![m] = NoQuery]
    /\ UNCHANGED <<gst, gdeadphase, cl, epoch, touched>>

\* ---- cleaners
Terminal == {"idle", "failed", "done", "crashed", "crashed_owner"}

CleanerStart(c) ==
    /\ cl[c].st = "idle"
    /\ cl' = [cl EXCEPT ![c] = [st |-> "trying", epoch |-> epoch + 1,
                                quiet |-> gst = "dead" /\ gdeadphase = "running",
                                alone |-> gst = "dead" /\ gdeadphase = "running"
                                          /\ \A o \in Cleaners \ {c} : cl[o].st \in Terminal]]
    /\ epoch' = epoch + 1
    /\ UNCHANGED <<gst, gdeadphase, mq, touched, bad>>

\* any result may be returned; left = which files are still linked ("---" = none), as seen by the controller
\* lockop = the call by which the owner lock was taken ("lock" = F_SETLK, "lockw" = F_SETLKW), linked = the
\* owner_lock file still had a name at that moment: the known race is "non-blocking lock on the unlinked file"
CleanerResult(c, r, left, lockop, pos) ==
    /\ cl[c].st = "trying"
    /\ LET others == {o \in Cleaners \ {c} : cl[o].st \in {"owner", "dropping", "done"}}
           how == IF lockop # "lock" THEN "second_owner_blocking_lock"
                  ELSE IF left \in {"cso", "-so", "c-o", "--o"} THEN "second_owner_owner_lock_linked" ELSE "second_owner"
           b1 == IF r = "Ok" /\ gst # "dead" THEN {<<"reclaim", Phase>>} ELSE {}
           b2 == IF r = "Ok" /\ others # {} THEN {<<"exclusive", how>>} ELSE {}
           b3 == IF cl[c].alone /\ cl[c].epoch = epoch /\ ~(r = "Ok" \/ (r = "DoesNotExist" /\ left = "---"))
                 THEN {<<"unrecoverable", r, left>>} ELSE {}
           b4 == IF cl[c].quiet /\ r \notin {"Ok", "OwnedByAnother", "BeingCleanedUp", "DoesNotExist"}
                 THEN {<<"loser", r>>} ELSE {}
       IN Record(b1 \cup b2 \cup b3 \cup b4, pos)
    /\ cl' = [cl EXCEPT ![c].st = IF r = "Ok" THEN "owner" ELSE "failed"]
    /\ touched' = (touched \/ r = "Ok")
    /\ epoch' = epoch + 1
    /\ UNCHANGED <<gst, gdeadphase, mq>>

CleanerEvent(c, ev) ==
    /\ CASE ev = "cdrop_begin" -> cl[c].st = "owner" /\ cl' = [cl EXCEPT ![c].st = "dropping"]
         [] ev = "cdropped" -> cl[c].st = "dropping" /\ cl' = [cl EXCEPT ![c].st = "done"]
         [] OTHER -> FALSE
    /\ epoch' = epoch + 1
    /\ UNCHANGED <<gst, gdeadphase, mq, touched, bad>>

CleanerCrash(c) ==
    /\ cl[c].st \in {"trying", "owner", "dropping"}
    /\ cl' = [cl EXCEPT ![c].st = IF cl[c].st = "trying" THEN "crashed" ELSE "crashed_owner"]
    /\ epoch' = epoch + 1
    /\ UNCHANGED <<gst, gdeadphase, mq, touched, bad>>

\* ---- the clauses of the property
Kind(k) == {s \in bad : s[1] = k}
NoFalseDead == Kind("falsedead") = {}
NoReclaimFromLive == Kind("reclaim") = {}
DeadIsDetected == Kind("undetected") = {}
ExclusiveCleanup == Kind("exclusive") = {} /\ Kind("loser") = {}
CleanerCrashRecoverable == Kind("unrecoverable") = {}
=============================================================================
