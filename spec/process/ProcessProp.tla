----------------------------- MODULE ProcessProp -----------------------------
(***************************************************************************)
(* Property layer of C07: what "liveness verdicts are sound and stale       *)
(* cleanup is exclusive" means, independent of how the files are used.      *)
(*                                                                         *)
(* The abstract objects are one monitored process (the guard) with its      *)
(* life cycle                                                               *)
(*   notstarted -> startup -> running -> shutdown -> gone   (orderly)       *)
(*   any of these -> dead                                   (crash / kill)  *)
(* Once it is dead or gone, ANOTHER process may create a guard for the same  *)
(* path (a new incarnation, inc > 1): dead | gone -> startup -> ...; if that  *)
(* creation is refused the previous state is restored.                       *)
(* observers asking for a verdict, and cleaners asking for ownership.  Every *)
(* answer is possible (the layer is as permissive as the statement); an      *)
(* answer the statement forbids is recorded in `bad`, and the named          *)
(* invariants say that nothing is recorded.  Known findings are `Excused`:   *)
(* they are printed (WITNESS) but do not fail the invariants.                *)
(***************************************************************************)
EXTENDS Naturals, Sequences, FiniteSets, TLC, Json

CONSTANTS Monitors, Cleaners, Excused

VARIABLES
    gst,        \* life cycle state of the guard's PROCESS and object
    gdeadphase, \* phase in which it died ("none" while alive)
    inc,        \* incarnation of the guard (1 = the first process that created it)
    prev,       \* <<gst, gdeadphase, touched, begun>> of the previous incarnation while a new one is being created
    mq,         \* per monitor: the query in progress
    cl,         \* per cleaner: [st, quiet, alone, epoch, chg, fault]
    epoch,      \* counts cleaner events (to know whether a query ran undisturbed)
    touched,    \* some cleaner has owned the files (they may be partly removed)
    begun,      \* some cleaner that owns the files has begun to remove them (its drop has started)
    bad

pvars == <<gst, gdeadphase, inc, prev, mq, cl, epoch, touched, begun, bad>>

Phase == CASE gst \in {"notstarted", "startup"} -> "startup"
           [] gst = "running" -> "running"
           [] gst \in {"shutdown", "gone"} -> "shutdown"
           [] OTHER -> gdeadphase

NoQuery == [on |-> FALSE, quiet |-> FALSE, deadrun |-> FALSE, epoch |-> 0]
\* chg = the token files this cleaner has changed (removed / created / chmod-ed / written) during its attempt;
\* fault = an operating-system failure is injected into this attempt (any error may then be returned)
NoCleaner == [st |-> "idle", quiet |-> FALSE, alone |-> FALSE, epoch |-> 0, chg |-> {}, fault |-> FALSE, inc |-> 0]

PInit ==
    /\ gst = "notstarted" /\ gdeadphase = "none" /\ inc = 1 /\ prev = <<"notstarted", "none", FALSE, FALSE>>
    /\ mq = [m \in Monitors |-> NoQuery]
    /\ cl = [c \in Cleaners |-> NoCleaner]
    /\ epoch = 0 /\ touched = FALSE /\ begun = FALSE
    /\ bad = {}

PReset ==
    /\ gst' = "notstarted" /\ gdeadphase' = "none" /\ inc' = 1 /\ prev' = <<"notstarted", "none", FALSE, FALSE>>
    /\ mq' = [m \in Monitors |-> NoQuery]
    /\ cl' = [c \in Cleaners |-> NoCleaner]
    /\ epoch' = 0 /\ touched' = FALSE /\ begun' = FALSE
    /\ bad' = {}

Record(b, pos) ==
    /\ bad' = bad \cup (b \ Excused)
    /\ \A s \in b : PrintT(<<"WITNESS", ToJson(<<s, pos>>)>>)

\* ---- the guard
GuardEvent(ev) ==
    CASE ev = "create_begin" /\ gst = "notstarted" ->
            /\ gst' = "startup"
            /\ UNCHANGED <<gdeadphase, inc, prev, mq, cl, epoch, touched, begun, bad>>
      [] ev = "create_begin" /\ gst \in {"dead", "gone"} ->     \* a new incarnation (another process, same path)
            /\ gst' = "startup" /\ gdeadphase' = "none" /\ inc' = inc + 1 /\ prev' = <<gst, gdeadphase, touched, begun>>
            /\ touched' = FALSE /\ begun' = FALSE
            /\ epoch' = epoch + 1                                 \* queries / attempts in progress are disturbed
            /\ UNCHANGED <<mq, cl, bad>>
      [] ev = "create_failed" /\ gst = "startup" ->             \* the creation was refused: nothing has changed
            /\ gst' = prev[1] /\ gdeadphase' = prev[2] /\ touched' = (touched \/ prev[3]) /\ begun' = (begun \/ prev[4])
            /\ inc' = inc - 1
            /\ UNCHANGED <<prev, mq, cl, epoch, bad>>
      [] ev = "created" /\ gst = "startup" ->
            /\ gst' = "running"
            /\ UNCHANGED <<gdeadphase, inc, prev, mq, cl, epoch, touched, begun, bad>>
      [] ev = "drop_begin" /\ gst = "running" ->
            /\ gst' = "shutdown"
            /\ UNCHANGED <<gdeadphase, inc, prev, mq, cl, epoch, touched, begun, bad>>
      [] ev = "dropped" /\ gst = "shutdown" ->
            /\ gst' = "gone"
            /\ UNCHANGED <<gdeadphase, inc, prev, mq, cl, epoch, touched, begun, bad>>
      [] OTHER -> FALSE

GuardCrash ==
    /\ gst # "dead"
    /\ gdeadphase' = Phase
    /\ gst' = "dead"
    /\ UNCHANGED <<inc, prev, mq, cl, epoch, touched, begun, bad>>

\* ---- observers
Active(c) == cl[c].st \in {"trying", "owner", "dropping"}

QueryStart(m) ==
    /\ mq' = [mq EXCEPT ![m] = [on |-> TRUE, epoch |-> epoch,
                                quiet |-> gst = "dead" /\ ~touched /\ \A c \in Cleaners : ~Active(c),
                                deadrun |-> gst = "dead" /\ gdeadphase = "running"]]
    /\ UNCHANGED <<gst, gdeadphase, inc, prev, cl, epoch, touched, begun, bad>>

\* any verdict may be shown; lv = "pm" | "cal" | "node"
Verdict(m, lv, v, pos) ==
    /\ mq[m].on
    /\ LET quiet == mq[m].quiet /\ mq[m].epoch = epoch
           \* (while a later incarnation is being created the statement does not say whose state is shown)
           b1 == IF v = "Dead" /\ gst # "dead" /\ ~(inc > 1 /\ gst = "startup")
                 THEN {<<"falsedead", lv, Phase>>} ELSE {}
           b2 == IF quiet /\ (v = "Alive"
                              \/ (lv # "pm" /\ v \notin {"Dead", "DoesNotExist"})
                              \/ (gdeadphase = "running" /\ v # "Dead"))
                 THEN {<<"undetected", lv, gdeadphase, v>>} ELSE {}
           \* the process died while running (its files were complete) and no owner has begun to remove them:
           \* "absent" would declare a cleanup finished that nobody has performed
           b3 == IF v = "DoesNotExist" /\ mq[m].deadrun /\ ~begun THEN {<<"vanished", lv>>} ELSE {}
       IN Record(b1 \cup b2 \cup b3, pos)
    /\ mq' = [mq EXCEPT ![m] = NoQuery]
    /\ UNCHANGED <<gst, gdeadphase, inc, prev, cl, epoch, touched, begun>>

\* ---- cleaners
Terminal == {"idle", "failed", "done", "crashed", "crashed_owner"}

\* fault: an operating-system failure is injected into this attempt; the statement says nothing about the error
\* such an attempt returns (quiet / alone are not claimed), only that a refused attempt changes nothing
CleanerStart(c, fault) ==
    /\ cl[c].st = "idle"
    /\ cl' = [cl EXCEPT ![c] = [st |-> "trying", epoch |-> epoch + 1, chg |-> {}, fault |-> fault, inc |-> inc,
                                quiet |-> ~fault /\ gst = "dead" /\ gdeadphase = "running",
                                alone |-> ~fault /\ gst = "dead" /\ gdeadphase = "running"
                                          /\ \A o \in Cleaners \ {c} : cl[o].st \in Terminal]]
    /\ epoch' = epoch + 1
    /\ UNCHANGED <<gst, gdeadphase, inc, prev, mq, touched, begun, bad>>

\* a system call of a cleaner on a token file (f), as recorded by the shim: what a cleaner that does not (yet)
\* own the files changes is remembered until its result is known
StateChanging(op, obs) == (op \in {"unlink", "create", "chmod"} /\ obs = "ok") \/ op = "write"
CleanerSys(c, op, f, obs) ==
    /\ cl' = IF cl[c].st = "trying" /\ StateChanging(op, obs) /\ f \in {"context", "state", "owner_lock"}
             THEN [cl EXCEPT ![c].chg = @ \cup {f}] ELSE cl
    /\ UNCHANGED <<gst, gdeadphase, inc, prev, mq, epoch, touched, begun, bad>>

\* any result may be returned; left = which files are still linked ("---" = none), as seen by the controller
\* lockop = the call by which the owner lock was taken ("lock" = F_SETLK, "lockw" = F_SETLKW), linked = the
\* owner_lock file still had a name at that moment: the known race is "non-blocking lock on the unlinked file"
CleanerResult(c, r, left, lockop, pos) ==
    /\ cl[c].st = "trying"
    /\ LET others == {o \in Cleaners \ {c} : cl[o].st \in {"owner", "dropping", "done"}}
           how == IF lockop # "lock" THEN "second_owner_blocking_lock"
                  ELSE IF left \in {"cso", "-so", "c-o", "--o"} THEN "second_owner_owner_lock_linked" ELSE "second_owner"
           \* ownership while the guard's process runs; "reincarnated": the process that runs is a later incarnation
           \* (the cleaner started on the remains of an earlier one)
           b1 == IF r = "Ok" /\ gst # "dead"
                 THEN (IF inc = 1 THEN {<<"reclaim", Phase>>} ELSE {<<"reclaim", Phase, "reincarnated">>}) ELSE {}
           \* same: the guard is still the incarnation on whose remains this cleaner started (otherwise the claims
           \* about what it is told are void, and a success is the reclaim from the later incarnation, b1)
           same == cl[c].inc = inc
           b2 == IF r = "Ok" /\ others # {} /\ same THEN {<<"exclusive", how>>} ELSE {}
           b3 == IF cl[c].alone /\ same /\ cl[c].epoch = epoch /\ ~(r = "Ok" \/ (r = "DoesNotExist" /\ left = "---"))
                 THEN {<<"unrecoverable", r, left>>} ELSE {}
           b4 == IF cl[c].quiet /\ same /\ r \notin {"Ok", "OwnedByAnother", "BeingCleanedUp", "DoesNotExist"}
                 THEN {<<"loser", r>>} ELSE {}
           \* "exactly one performs the cleanup and the others are told so": whoever is refused has changed nothing
           b5 == IF r # "Ok" /\ cl[c].chg # {} THEN {<<"refused", r>>} ELSE {}
       IN Record(b1 \cup b2 \cup b3 \cup b4 \cup b5, pos)
    /\ cl' = [cl EXCEPT ![c].st = IF r = "Ok" THEN "owner" ELSE "failed", ![c].chg = {}]
    /\ touched' = (touched \/ r = "Ok")
    /\ epoch' = epoch + 1
    /\ UNCHANGED <<gst, gdeadphase, inc, prev, mq, begun>>

CleanerEvent(c, ev) ==
    /\ CASE ev = "cdrop_begin" -> cl[c].st = "owner" /\ cl' = [cl EXCEPT ![c].st = "dropping"]
         [] ev = "cdropped" -> cl[c].st = "dropping" /\ cl' = [cl EXCEPT ![c].st = "done"]
         [] OTHER -> FALSE
    /\ epoch' = epoch + 1
    /\ begun' = (begun \/ ev = "cdrop_begin")
    /\ UNCHANGED <<gst, gdeadphase, inc, prev, mq, touched, bad>>

CleanerCrash(c) ==
    /\ cl[c].st \in {"trying", "owner", "dropping"}
    /\ cl' = [cl EXCEPT ![c].st = IF cl[c].st = "trying" THEN "crashed" ELSE "crashed_owner"]
    /\ epoch' = epoch + 1
    /\ UNCHANGED <<gst, gdeadphase, inc, prev, mq, touched, begun, bad>>

\* ---- the clauses of the property
Kind(k) == {s \in bad : s[1] = k}
NoFalseDead == Kind("falsedead") = {}
NoReclaimFromLive == Kind("reclaim") = {}
DeadIsDetected == Kind("undetected") = {}
ExclusiveCleanup == Kind("exclusive") = {} /\ Kind("loser") = {}
CleanerCrashRecoverable == Kind("unrecoverable") = {}
RefusedChangesNothing == Kind("refused") = {}
AbsentOnlyAfterCleanup == Kind("vanished") = {}
=============================================================================
