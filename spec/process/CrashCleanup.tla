---------------------------- MODULE CrashCleanup ----------------------------
(***************************************************************************)
(* C04 - crash at any instant: survivor cleanup restores a clean system.    *)
(*                                                                         *)
(* Resources are the files, directories and shared-memory objects a node    *)
(* creates in its domain.  Their identities (e.g. "DF" node details file,   *)
(* "TC"/"TS"/"TO" monitor token context/state/owner_lock, "ST1" service tag, *)
(* "PT2" port tag, "SC1" static config, "DY1" dynamic config, "DS1" data     *)
(* segment, "CN1" connection, "EV1" event socket, ...) and everything below  *)
(* marked EXTRACTED are constants that checks/C04.py reads from the sysshim  *)
(* log of a dry run of the CURRENT code for each scenario (DESIGN.md 3.3):   *)
(*   Steps       the victim's state-changing system calls in program order,  *)
(*               as [op, r]: create | final (permissions of an initialised   *)
(*               object) | init | lock | remove | other (no effect here)     *)
(*   CleanupSeq  the order in which a complete survivor cleanup              *)
(*               (DeadNodeView::remove_stale_resources) removes resources    *)
(*   TagOf       the set of markers that lead the cleanup to a resource: "node" *)
(*               (found through the node itself: details, token files), the   *)
(*               service tag / port tags whose id the resource name carries;  *)
(*               empty for domain-wide persistent resources                   *)
(* The victim is a program counter into Steps and may crash at EVERY pc.     *)
(* The survivor side is specified from node/mod.rs (Node::list,              *)
(* remove_stale_resources_impl) and service/stale_resource_cleanup.rs: a     *)
(* node is found only through its monitor token, it is dead iff the token is  *)
(* complete and unlocked, the cleaner lock is the token's owner lock, the     *)
(* cleanup walks service tags, then port tags, then the node's own files,     *)
(* then the token.  A cleaner may crash at every step; another continues.     *)
(***************************************************************************)
EXTENDS Naturals, Sequences, FiniteSets, TLC, Json

CONSTANTS
    Steps, CleanupSeq, Res, TagOf,    \* EXTRACTED
    Persistent,                       \* resources that persist by design (per domain)
    ServiceLevel,                     \* resources of the service itself (shared with other nodes)
    StaticConfigs,                    \* the static config file(s): the cleanup finds the other service resources only
                                      \* through an INITIALISED static config (read_static_service_config)
    Shared,                           \* TRUE: a live peer node also uses the service
    Cleaners,                         \* cleaner processes (2: the second continues after a crash of the first)
    CleanerMayCrash

Token == {"TC", "TS", "TO"}
N == Len(Steps)

VARIABLES
    ex,       \* existing resources
    fin,      \* resources whose permissions are final (initialisation finished)
    vpc,      \* victim: steps executed
    vdead,    \* victim crashed
    vlock,    \* victim holds the lock of the token state file
    olock,    \* holder of the token's owner lock ("none" or a cleaner)
    cst,      \* per cleaner: "idle" | "run" | "done" | "crashed"
    ccrash,   \* number of removals the crashed cleaner had performed (for the prediction), 0 = none crashed
    removed,  \* resources removed by cleaners (for SurvivorsIntact)
    crashpc   \* pc at which the victim crashed (0 = not crashed)

vars == <<ex, fin, vpc, vdead, vlock, olock, cst, ccrash, removed, crashpc>>

Init ==
    /\ ex = Persistent \cap {r \in Res : \A i \in 1..N : ~(Steps[i].r = r /\ Steps[i].op = "create")}
    /\ fin = {}
    /\ vpc = 0 /\ vdead = FALSE /\ vlock = FALSE
    /\ olock = "none"
    /\ cst = [c \in Cleaners |-> "idle"]
    /\ ccrash = 0 /\ removed = {} /\ crashpc = 0

---------------------------------------------------------------------------
(* the victim                                                               *)
VStep ==
    /\ ~vdead /\ vpc < N
    /\ LET s == Steps[vpc + 1] IN
       /\ ex' = CASE s.op = "create" -> ex \cup {s.r}
                  [] s.op = "remove" -> ex \ {s.r}
                  [] OTHER -> ex
       /\ fin' = CASE s.op = "final" -> fin \cup {s.r}
                   [] s.op \in {"init", "create"} -> fin \ {s.r}
                   [] OTHER -> fin
       /\ vlock' = IF s.op = "lock" /\ s.r = "TS" THEN TRUE
                   ELSE IF s.op = "close" /\ s.r = "TS" THEN FALSE ELSE vlock
    /\ vpc' = vpc + 1
    /\ UNCHANGED <<vdead, olock, cst, ccrash, removed, crashpc>>

VCrash ==
    /\ ~vdead /\ vpc < N
    /\ vdead' = TRUE /\ vlock' = FALSE
    /\ crashpc' = vpc + 1            \* killed immediately before call vpc+1 (= IOX2_VERIF_KILL_AT)
    /\ UNCHANGED <<ex, fin, vpc, olock, cst, ccrash, removed>>

---------------------------------------------------------------------------
(* the survivors                                                            *)

\* Node::list finds the node through the token's state file; the verdict is that of ProcessState.tla in a
\* quiescent state, mapped by monitoring/file_lock.rs
Listed == "TS" \in ex
Verdict ==
    IF ~Listed THEN "absent"
    ELSE IF "TC" \notin ex THEN "absent"                      \* DoesNotExist
    ELSE IF "TC" \notin fin THEN "absent"                     \* Starting -> DoesNotExist
    ELSE IF "TO" \notin ex THEN "undefined"                   \* state file without owner lock: corrupted
    ELSE IF olock # "none" THEN "dead"                        \* CleaningUp -> Dead
    ELSE IF vlock THEN "alive" ELSE "dead"

\* What a cleanup reaches and in which order: it walks the tags (service tags, port tags) in the extracted
\* order; for every tag that exists it removes what the tag leads to and the tag itself LAST; then the node's
\* own files and finally the monitor token.
Removable(r) == r \in ex /\ r \notin Persistent /\ ~(Shared /\ r \in ServiceLevel)
IsTag(r) == TagOf[r] = {r}
Pending ==
    LET TagHere(r) == IsTag(r) /\ Removable(r)
        tags == SelectSeq(CleanupSeq, TagHere)
    IN IF tags # <<>>
       THEN LET t == Head(tags)
                Behind(r) == /\ Removable(r) /\ r # t /\ t \in TagOf[r]
                             /\ (r \in ServiceLevel => StaticConfigs \subseteq (ex \cap fin))
                g == SelectSeq(CleanupSeq, Behind)
            IN IF g # <<>> THEN g ELSE <<t>>
       ELSE LET Own(r) == Removable(r) /\ "node" \in TagOf[r] IN SelectSeq(CleanupSeq, Own)

CStart(c) ==
    /\ cst[c] = "idle" /\ vdead
    /\ \A o \in Cleaners : cst[o] # "run"
    /\ Verdict = "dead" /\ olock = "none"
    /\ olock' = c
    /\ cst' = [cst EXCEPT ![c] = "run"]
    /\ UNCHANGED <<ex, fin, vpc, vdead, vlock, ccrash, removed, crashpc>>

CRemove(c) ==
    /\ cst[c] = "run" /\ Pending # <<>>
    /\ LET r == Head(Pending) IN
       /\ ex' = ex \ {r}
       /\ removed' = removed \cup {r}
       /\ olock' = IF r = "TO" THEN "none" ELSE olock      \* the owner lock goes with its file
    /\ UNCHANGED <<fin, vpc, vdead, vlock, cst, ccrash, crashpc>>

CDone(c) ==
    /\ cst[c] = "run" /\ Pending = <<>>
    /\ cst' = [cst EXCEPT ![c] = "done"]
    /\ olock' = IF olock = c THEN "none" ELSE olock
    /\ UNCHANGED <<ex, fin, vpc, vdead, vlock, ccrash, removed, crashpc>>

CCrash(c) ==
    /\ CleanerMayCrash /\ cst[c] = "run" /\ ccrash = 0
    /\ cst' = [cst EXCEPT ![c] = "crashed"]
    /\ olock' = IF olock = c THEN "none" ELSE olock
    /\ ccrash' = 1 + Cardinality(removed)
    /\ UNCHANGED <<ex, fin, vpc, vdead, vlock, removed, crashpc>>

Next ==
    \/ VStep \/ VCrash
    \/ \E c \in Cleaners : CStart(c) \/ CRemove(c) \/ CDone(c) \/ CCrash(c)

Spec == Init /\ [][Next]_vars

---------------------------------------------------------------------------
Stale == {r \in ex : r \notin Persistent /\ ~(Shared /\ r \in ServiceLevel)}
Quiet == vdead /\ \A c \in Cleaners : cst[c] # "run"
CleanupCompleted == \E c \in Cleaners : cst[c] = "done"

\* after a completed cleanup no non-persistent resource owned solely by the dead node exists
CleanAfterCleanup == CleanupCompleted /\ Quiet => Stale = {}
\* nothing that is persistent or shared with a live node is removed
SurvivorsIntact == removed \cap (Persistent \cup (IF Shared THEN ServiceLevel ELSE {})) = {}
\* the dead node is reported dead or absent (never alive, never undefined)
DeadIsReportedDeadOrAbsent == Quiet => Verdict \in {"dead", "absent"}
\* while stale resources exist, some survivor can (still) start a cleanup: the node is reported dead
CleanupAlwaysEnabled == Quiet /\ Stale # {} /\ (\E c \in Cleaners : cst[c] = "idle") => Verdict = "dead"

\* prediction for the real kill enumeration: what is left once no cleanup can make progress any more
Settled == Quiet /\ (Verdict # "dead" \/ Stale = {} \/ \A c \in Cleaners : cst[c] # "idle")
Predict == Settled => PrintT(<<"PREDICT", ToJson(<<crashpc, ccrash, Stale, Verdict>>)>>)
\* the two clauses that the current code is known to violate are evaluated on every state and every refutation is
\* printed (crash point, cleaner crash, stale resources) instead of stopping at the first one
Refutations ==
    /\ (CleanAfterCleanup \/ PrintT(<<"REFUTED", ToJson(<<"CleanAfterCleanup", crashpc, ccrash, Stale, Verdict>>)>>))
    /\ (CleanupAlwaysEnabled \/ PrintT(<<"REFUTED", ToJson(<<"CleanupAlwaysEnabled", crashpc, ccrash, Stale, Verdict>>)>>))
=============================================================================
