SPECIFICATION Spec
CONSTANTS
 Steps <- StepsVal
 CleanupSeq <- CleanupSeqVal
 Res <- ResVal
 TagOf <- TagOfVal
 Persistent <- PersistentVal
 ServiceLevel <- ServiceLevelVal
 StaticConfigs <- StaticConfigsVal
 Shared = FALSE
 Cleaners = {"K1", "K2"}
 CleanerMayCrash = TRUE
CHECK_DEADLOCK FALSE
INVARIANTS SurvivorsIntact DeadIsReportedDeadOrAbsent CleanAfterCleanup CleanupAlwaysEnabled
