------------------------- MODULE ProcessStateTrace -------------------------
(***************************************************************************)
(* Conformance of the implementation-shaped specification ProcessState:     *)
(* every system call that real guard / monitor / cleaner processes made      *)
(* under harness/sysshim (normalised to the abstract step vocabulary by      *)
(* checks/C07.py: path -> file, mode -> perm, errno / lock type -> obs) must  *)
(* be the next step of that process in the specification AND must have       *)
(* observed what the specification's file state predicts; every verdict the  *)
(* real process printed must be the one the specification computed.          *)
(* Records (uniform fields k,p,op,f,perm,acc,obs,ev,lv,v,left):              *)
(*   reset | sys (one system call) | crash | ev (controller level events)    *)
(* A rejection is DRIFT of this layer (the property layer is                 *)
(* ProcessPropTrace); the invariants are nevertheless evaluated.             *)
(***************************************************************************)
EXTENDS ProcessState, TraceIO

VARIABLE l
tvars == <<vars, l>>

TraceInit == Init /\ l = 1 /\ TraceRegInit

Ev == Rec[l]

ResetAll ==
    /\ exists' = [f \in Files |-> FALSE]
    /\ perm' = [f \in Files |-> "init"]
    /\ content' = [f \in Files |-> "none"]
    /\ lock' = [f \in Files |-> "none"]
    /\ gpc' = 0 /\ gcrashed' = FALSE /\ gcrashphase' = "none"
    /\ ps' = [p \in Procs |-> PInit]
    /\ bad' = {}
    /\ hist' = <<>>

OpIs(e, o) ==   \* the recorded call e instantiates the abstract op o = [op, f, perm]
    /\ e.op = o.op /\ e.f = o.f
    /\ (o.op \in {"create", "chmod"} => e.perm = o.perm)

CallIs(e, c) == \* c = <<call, file>> of the state() decision tree
    /\ e.f = c[2]
    /\ CASE c[1] = "openw" -> e.op = "open" /\ e.acc = "w"
         [] c[1] = "openr" -> e.op = "open" /\ e.acc = "r"
         [] c[1] = "scandir" -> e.op = "opendir"
         [] OTHER -> e.op = c[1]

\* what a file operation of the guard / an owning cleaner observes
OpObs(o) == IF o.op = "unlink" /\ ~exists[o.f] THEN "enoent" ELSE "ok"

SysG(e) ==
    /\ gpc < LC + LD
    /\ OpIs(e, GNextOp)
    /\ e.obs = OpObs(GNextOp)
    /\ (GCreateStep \/ GDropStep)

SysP(e, p) ==
    \/ \E lv \in LevelsOf(p) :
       /\ Label(p, lv) \in StateLabels
       /\ CallIs(e, MCall(p, lv))
       /\ e.obs = MObs(p, lv)
       /\ StateStepL(p, lv)
    \/ /\ ps[p].pc = "acq"
       /\ LET o == CleanerAcquire[ps[p].idx] IN
          /\ e.f = o.f
          /\ CASE o.op = "open" -> e.op = "open" /\ e.obs = (IF exists[o.f] THEN "ok" ELSE "enoent")
               [] o.op = "getlk" -> e.op = "getlk" /\ e.obs = (IF LockedByOther(o.f, p) THEN "locked" ELSE "unlocked")
               [] o.op \in {"lock", "lockw"} -> e.op = o.op /\ e.obs = (IF LockedByOther(o.f, p) THEN "fail" ELSE "ok")
               [] OTHER -> FALSE
       /\ CAcqStep(p)
    \/ /\ ps[p].pc = "refuse"
       /\ LET o == TailOf(ps[p].idx, ps[p].gone)[ps[p].k] IN
          /\ OpIs(e, o)
          /\ e.obs = (IF o.op = "fstat" THEN perm[o.f] ELSE OpObs(o))
       /\ CRefuseStep(p)
    \/ /\ ps[p].pc \in {"owner", "drop"}
       /\ OpIs(e, CleanerDrop[IF ps[p].pc = "owner" THEN 1 ELSE ps[p].idx])
       /\ e.obs = OpObs(CleanerDrop[IF ps[p].pc = "owner" THEN 1 ELSE ps[p].idx])
       /\ CDropStep(p)

Consume ==
    /\ l <= NRec
    /\ l' = l + 1
    /\ LET e == Ev IN
       CASE e.k = "reset" -> ResetAll
         [] e.k = "sys" /\ e.p = "G" -> SysG(e)
         [] e.k = "sys" /\ e.p \in Procs -> SysP(e, e.p)
         [] e.k = "crash" /\ e.p = "G" -> GCrash
         [] e.k = "crash" /\ e.p \in Cleaners -> CCrash(e.p)
         [] e.k = "ev" /\ e.ev = "verdict" ->     \* the real verdict is the specification's
                /\ e.p \in Monitors /\ ps[e.p].pc = "idle" /\ ps[e.p].last = e.v /\ ps[e.p].lv = e.lv
                /\ UNCHANGED vars
         [] e.k = "ev" /\ e.ev = "cresult" ->
                /\ e.p \in Cleaners /\ ps[e.p].cres = e.v /\ ps[e.p].pc \in {"owner", "failed"}
                /\ UNCHANGED vars
         [] e.k = "ev" -> UNCHANGED vars
         [] OTHER -> FALSE

TraceNext == Consume
TraceSpec == TraceInit /\ [][TraceNext]_tvars

Progress == TraceProgress(l)
Accepted == TraceAccepted
=============================================================================
