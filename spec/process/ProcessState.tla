---------------------------- MODULE ProcessState ----------------------------
(***************************************************************************)
(* Implementation-shaped specification of the process liveness protocol of *)
(* iceoryx2 (C07): iceoryx2-bb/posix/src/process_state.rs, the mapping of   *)
(* iceoryx2-cal/src/monitoring/file_lock.rs and the listing step of        *)
(* Node::list.  ONE ACTION PER SYSTEM CALL.                                 *)
(*                                                                         *)
(* Three files (names as in the code): "context" (<path>_context),         *)
(* "state" (<path>) and "owner_lock" (<path>_owner_lock).  Each has         *)
(* exists (the name is linked), perm in {"init","final"} ("init" =          *)
(* INIT_PERMISSION, write-only), content (has the pid been written) and     *)
(* the advisory lock holder.  Within one run every name is created at most  *)
(* once, hence inode = name: descriptors opened before an unlink keep       *)
(* seeing perm/lock of the same object.                                     *)
(*                                                                         *)
(* Processes                                                               *)
(*   "G"        the guard: executes the op sequences GuardCreate and        *)
(*              GuardDrop.  These are CONSTANTS EXTRACTED FROM THE SYSSHIM  *)
(*              LOG of a dry run of the current code (DESIGN.md 3.3).       *)
(*   Monitors   ProcessMonitor::state(): the decision tree below; a         *)
(*              monitor of level "node" first performs the listing step of  *)
(*              Node::list (scandir + stat of the state file) and maps the  *)
(*              verdict with NodeMap (extracted, file_lock.rs).             *)
(*   Cleaners   ProcessCleaner::new = state(), then CleanerAcquire          *)
(*              (extracted), ownership, CleanerDrop (extracted).  A cleaner  *)
(*              whose j-th acquire step fails (it LOSES: file gone, lock     *)
(*              held by another) executes the REFUSAL TAIL CleanerRefuse[j]  *)
(*              (extracted from stepped runs of two real cleaners: the       *)
(*              system calls of the early-return path of                     *)
(*              ProcessCleaner::new, i.e. what the loser leaves behind)      *)
(*              before it returns its error.                                 *)
(*   Crash of the guard or a cleaner at any step: its descriptors are       *)
(*   closed, i.e. its locks vanish.                                         *)
(***************************************************************************)
EXTENDS Naturals, Sequences, FiniteSets, TLC, Json

CONSTANTS
    GuardCreate, GuardDrop,      \* sequences of [op, f, perm]
    CleanerAcquire, CleanerDrop, \* sequences of [op, f, perm]
    CleanerRefuse,               \* sequence (one entry per step of CleanerAcquire) of sequences of [op, f, perm]: the
                                 \* calls a cleaner performs after that step has failed, before it returns the error
    CleanerRefuseGone,           \* the same for a lock step that fails on a file which has no name any more (the
                                 \* code branches on the link count: "removed from the file system")
    NodeMap,                     \* [ProcessState verdict -> node level verdict]
    Monitors, Cleaners,          \* sets of process names (strings)
    Levels,                      \* [Monitors -> SUBSET {"pm", "cal", "node"}]: the levels at which a monitor may ask
                                 \* (chosen per query): ProcessMonitor::state(); the same through the mapping of
                                 \* monitoring/file_lock.rs; Node::list (listing step + mapping)
    Privileged,                  \* observers may open a read-only file for writing (root)
    MaxQueries,                  \* state() calls per monitor
    GuardMayDrop,
    GuardCrashPhases,            \* subset of {"startup", "running", "shutdown"} in which the guard may crash
    CleanerMayCrash,
    CleanersAfterCrash,          \* cleaners start only once the guard is dead (smaller instances)
    Excused,                     \* signatures of known findings (do not fail the invariants)
    ExcuseAll                    \* TRUE: collect every signature (WITNESS lines) in one run, fail nothing

Files == {"context", "state", "owner_lock"}
Procs == Monitors \cup Cleaners
LC == Len(GuardCreate)
LD == Len(GuardDrop)

VARIABLES
    exists, perm, content, lock,       \* the three files
    gpc, gcrashed, gcrashphase,        \* guard: ops executed, crashed?, phase at crash
    ps,                                \* per observer process: record, see PInit
    bad,                               \* set of recorded property violations (tuples)
    hist                               \* schedule (not part of the VIEW)

fsvars == <<exists, perm, content, lock>>
gvars == <<gpc, gcrashed, gcrashphase>>
vars == <<exists, perm, content, lock, gpc, gcrashed, gcrashphase, ps, bad, hist>>
\* `last` (the verdict shown last, read by the trace specification) and `hist` are not part of the VIEW
view == <<exists, perm, content, lock, gpc, gcrashed, gcrashphase,
          [p \in Procs |-> [ps[p] EXCEPT !.last = "none", !.lv = IF ps[p].pc = "idle" THEN "pm" ELSE @]], bad>>

NoPend == [v |-> "none", ph |-> "none", f |-> "none"]
PInit == [pc |-> "idle", lv |-> "pm", pend |-> NoPend, q |-> 0, last |-> "none",
          qdead |-> FALSE, qalone |-> FALSE, qdeadrun |-> FALSE, snap |-> <<>>, idx |-> 0, k |-> 0, gone |-> FALSE,
          chg |-> {},
          cres |-> "none", err |-> "none"]

Init ==
    /\ exists = [f \in Files |-> FALSE]
    /\ perm = [f \in Files |-> "init"]
    /\ content = [f \in Files |-> "none"]
    /\ lock = [f \in Files |-> "none"]
    /\ gpc = 0 /\ gcrashed = FALSE /\ gcrashphase = "none"
    /\ ps = [p \in Procs |-> PInit]
    /\ bad = {}
    /\ hist = <<>>

GPhase == IF gpc < LC THEN "startup" ELSE IF gpc = LC THEN "running" ELSE "shutdown"

---------------------------------------------------------------------------
(* file operations shared by the guard and an owning cleaner                *)

\* effect of op o executed by process p on the file variables
Apply(p, o) ==
    CASE o.op = "create" ->
            /\ ~exists[o.f]
            /\ exists' = [exists EXCEPT ![o.f] = TRUE]
            /\ perm' = [perm EXCEPT ![o.f] = o.perm]
            /\ content' = [content EXCEPT ![o.f] = "none"]
            /\ lock' = [lock EXCEPT ![o.f] = "none"]
      [] o.op = "chmod" ->
            /\ perm' = [perm EXCEPT ![o.f] = o.perm]
            /\ UNCHANGED <<exists, content, lock>>
      [] o.op = "write" ->
            /\ content' = [content EXCEPT ![o.f] = "pid"]
            /\ UNCHANGED <<exists, perm, lock>>
      [] o.op = "lock" ->      \* F_SETLK, succeeds here; failure handled by the caller
            /\ lock[o.f] \in {"none", p}
            /\ lock' = [lock EXCEPT ![o.f] = p]
            /\ UNCHANGED <<exists, perm, content>>
      [] o.op = "lockw" ->     \* F_SETLKW: blocks while another process holds the lock
            /\ lock[o.f] \in {"none", p}
            /\ lock' = [lock EXCEPT ![o.f] = p]
            /\ UNCHANGED <<exists, perm, content>>
      [] o.op = "unlink" ->
            /\ exists' = [exists EXCEPT ![o.f] = FALSE]
            /\ UNCHANGED <<perm, content, lock>>
      [] o.op = "close" ->     \* closing a descriptor drops the process' lock on that file
            /\ lock' = [lock EXCEPT ![o.f] = IF @ = p THEN "none" ELSE @]
            /\ UNCHANGED <<exists, perm, content>>
      [] OTHER -> FALSE

ReleaseLocks(p) == lock' = [f \in Files |-> IF lock[f] = p THEN "none" ELSE lock[f]]

---------------------------------------------------------------------------
(* the guard                                                                *)

GOps == GuardCreate \o GuardDrop
GNextOp == GOps[gpc + 1]

GCreateStep ==
    /\ ~gcrashed /\ gpc < LC
    /\ Apply("G", GNextOp)
    /\ gpc' = gpc + 1
    /\ UNCHANGED <<gcrashed, gcrashphase, ps, bad>>
    /\ hist' = Append(hist, <<"G", GNextOp.op, GNextOp.f>>)

GDropStep ==
    /\ ~gcrashed /\ GuardMayDrop /\ gpc >= LC /\ gpc < LC + LD
    /\ Apply("G", GNextOp)
    /\ gpc' = gpc + 1
    /\ UNCHANGED <<gcrashed, gcrashphase, ps, bad>>
    /\ hist' = Append(hist, <<"G", GNextOp.op, GNextOp.f>>)

GCrash ==
    /\ GPhase \in GuardCrashPhases /\ ~gcrashed /\ gpc > 0 /\ gpc < LC + LD
    /\ gcrashed' = TRUE
    /\ gcrashphase' = GPhase
    /\ ReleaseLocks("G")
    /\ UNCHANGED <<exists, perm, content, gpc, ps, bad>>
    /\ hist' = Append(hist, <<"G", "crash", "-">>)

---------------------------------------------------------------------------
(* ProcessMonitor::state() - shared by monitors and cleaners                *)

LockedByOther(f, p) == lock[f] # "none" /\ lock[f] # p

First(lv) == IF lv = "node" THEN "n_scan" ELSE "open_ctx_w"
LevelsOf(p) == IF ps[p].pc # "idle" THEN {ps[p].lv} ELSE IF p \in Monitors THEN Levels[p] ELSE {"pm"}

\* the label at which p stands (an idle process that may start stands at its first label)
CanStart(p) == /\ ps[p].pc = "idle"
               /\ IF p \in Monitors THEN ps[p].q < MaxQueries
                  ELSE ps[p].cres = "none" /\ ps[p].err = "none" /\ (CleanersAfterCrash => gcrashed)
Label(p, lv) == IF CanStart(p) THEN First(lv) ELSE ps[p].pc

StateLabels == {"n_scan", "n_stat", "open_ctx_w", "fstat_ctx", "close_ctx_w", "open_ctx_r", "read_ctx",
                "close_ctx_r", "open_owner", "access_state", "getlk_owner", "close_owner", "open_state",
                "getlk_state", "close_ret"}

\* the system call p performs next inside state(): <<call, file>>
MCall(p, lv) ==
    LET c == Label(p, lv) IN
    CASE c = "n_scan" -> <<"scandir", "dir">>
      [] c = "n_stat" -> <<"stat", "state">>
      [] c = "open_ctx_w" -> <<"openw", "context">>
      [] c = "fstat_ctx" -> <<"fstat", "context">>
      [] c = "close_ctx_w" -> <<"close", "context">>
      [] c = "open_ctx_r" -> <<"openr", "context">>
      [] c = "read_ctx" -> <<"read", "context">>
      [] c = "close_ctx_r" -> <<"close", "context">>
      [] c = "open_owner" -> <<"openw", "owner_lock">>
      [] c = "access_state" -> <<"access", "state">>
      [] c = "getlk_owner" -> <<"getlk", "owner_lock">>
      [] c = "close_owner" -> <<"close", "owner_lock">>
      [] c = "open_state" -> <<"openw", "state">>
      [] c = "getlk_state" -> <<"getlk", "state">>
      [] c = "close_ret" -> <<"close", ps[p].pend.f>>
      [] OTHER -> <<"none", "none">>

\* what that call observes
MObs(p, lv) ==
    LET c == Label(p, lv) IN
    CASE c \in {"n_scan", "n_stat", "open_state", "access_state"} -> IF exists["state"] THEN "ok" ELSE "enoent"
      [] c = "open_ctx_w" -> IF ~exists["context"] THEN "enoent"
                             ELSE IF Privileged \/ perm["context"] = "init" THEN "ok" ELSE "eacces"
      [] c = "fstat_ctx" -> perm["context"]
      [] c = "open_ctx_r" -> IF exists["context"] THEN "ok" ELSE "enoent"
      [] c = "read_ctx" -> content["context"]
      [] c = "open_owner" -> IF exists["owner_lock"] THEN "ok" ELSE "enoent"
      [] c = "getlk_owner" -> IF LockedByOther("owner_lock", p) THEN "locked" ELSE "unlocked"
      [] c = "getlk_state" -> IF LockedByOther("state", p) THEN "locked" ELSE "unlocked"
      [] OTHER -> "ok"

\* decision tree: label x observation -> [t: "goto", l: label] | [t: "ret", v: verdict] (return without an open
\* descriptor) | [t: "pend", v: verdict, f: file] (the descriptor of f is closed first)
Goto(l) == [t |-> "goto", l |-> l, v |-> "none", f |-> "none"]
Ret(v) == [t |-> "ret", l |-> "none", v |-> v, f |-> "none"]
Pend(v, f) == [t |-> "pend", l |-> "close_ret", v |-> v, f |-> f]

Tree(c, o) ==
    CASE c = "n_scan" -> IF o = "ok" THEN Goto("n_stat") ELSE Ret("Absent")
      [] c = "n_stat" -> IF o = "ok" THEN Goto("open_ctx_w") ELSE Ret("Absent")
      [] c = "open_ctx_w" -> IF o = "enoent" THEN Ret("DoesNotExist")
                             ELSE IF o = "ok" THEN Goto("fstat_ctx") ELSE Goto("open_ctx_r")
      [] c = "fstat_ctx" -> IF o = "init" THEN Pend("Starting", "context") ELSE Goto("close_ctx_w")
      [] c = "close_ctx_w" -> Goto("open_ctx_r")
      [] c = "open_ctx_r" -> IF o = "ok" THEN Goto("read_ctx") ELSE Ret("DoesNotExist")
      [] c = "read_ctx" -> IF o = "pid" THEN Goto("close_ctx_r") ELSE Pend("Err", "context")
      [] c = "close_ctx_r" -> Goto("open_owner")
      [] c = "open_owner" -> IF o = "ok" THEN Goto("getlk_owner") ELSE Goto("access_state")
      [] c = "access_state" -> IF o = "ok" THEN Ret("Err") ELSE Ret("CleaningUp")
      [] c = "getlk_owner" -> IF o = "locked" THEN Pend("CleaningUp", "owner_lock") ELSE Goto("close_owner")
      [] c = "close_owner" -> Goto("open_state")
      [] c = "open_state" -> IF o = "ok" THEN Goto("getlk_state") ELSE Ret("CleaningUp")
      [] c = "getlk_state" -> IF o = "locked" THEN Pend("Alive", "state") ELSE Pend("Dead", "state")
      [] OTHER -> Goto("idle")

\* terminal states of a cleaner (it makes one attempt)
CleanerTerminal == {"failed", "done", "x_state", "x_acq", "x_owner", "x_drop"}
\* cleaners that have not touched the files: never started, refused, or crashed before they dropped anything
Harmless == {"idle", "failed", "x_state", "x_acq", "x_owner"}
Snapshot(p) == [c \in Cleaners \ {p} |-> ps[c].pc]

\* signatures ---------------------------------------------------------------
\* Violations are recorded in `bad`; excused (known) ones are only printed, with the schedule that
\* produced them, so that every run re-derives its witnesses.
Record(b) ==
    /\ bad' = bad \cup (IF ExcuseAll THEN {} ELSE b \ Excused)
    /\ \A s \in b : PrintT(<<"WITNESS", ToJson(<<s, hist>>)>>)

SigFalseDead(level, ph, v) == <<"falsedead", level, ph>>
SigUndetected(level, ph, v) == <<"undetected", level, ph, v>>
SigUnrecoverable(r, left) == <<"unrecoverable", r, left>>
SigReclaim(ph) == <<"reclaim", ph>>
SigExclusive(what) == <<"exclusive", what>>
SigLoser(r) == <<"loser", r>>
SigRefused(r) == <<"refused", r>>
SigVanished(level) == <<"vanished", level>>

\* some cleaner has begun to remove the files (it owns them and has executed the first step of its drop)
CleanupBegun == \E c \in Cleaners : ps[c].pc \in {"drop", "done", "x_drop"}

\* which files are still linked, as one string: c(ontext) s(tate) o(wner_lock)
FilesLeft ==
    LET c == exists["context"] s == exists["state"] o == exists["owner_lock"] IN
    CASE c /\ s /\ o -> "cso" [] c /\ s /\ ~o -> "cs-" [] c /\ ~s /\ o -> "c-o" [] c /\ ~s /\ ~o -> "c--"
      [] ~c /\ s /\ o -> "-so" [] ~c /\ s /\ ~o -> "-s-" [] ~c /\ ~s /\ o -> "--o" [] OTHER -> "---"

\* a monitor publishes verdict v (ProcessMonitor level), decided in guard phase ph; base = its record
MonPublish(p, base, v, ph) ==
    LET nv == IF v = "Absent" THEN "DoesNotExist" ELSE NodeMap[v]
        lv == base.lv
        shown == IF lv = "pm" THEN v ELSE nv
        quiet == base.qdead /\ base.snap = Snapshot(p)
        b1 == IF shown = "Dead" /\ ~gcrashed THEN {SigFalseDead(lv, ph, v)} ELSE {}
        b2 == IF quiet /\ (shown = "Alive"
                           \/ (lv # "pm" /\ shown \notin {"Dead", "DoesNotExist"})
                           \/ (gcrashphase = "running" /\ shown # "Dead"))
              THEN {SigUndetected(lv, gcrashphase, v)} ELSE {}
        \* the process died while it was running (all files complete) and nobody who owns the files has begun to
        \* remove them: "absent" would declare a cleanup finished that has not been performed
        b3 == IF shown = "DoesNotExist" /\ base.qdeadrun /\ ~CleanupBegun THEN {SigVanished(lv)} ELSE {}
    IN /\ ps' = [ps EXCEPT ![p] = [base EXCEPT !.pc = "idle", !.pend = NoPend, !.q = @ + 1, !.last = shown,
                                               !.qdead = FALSE, !.qalone = FALSE, !.qdeadrun = FALSE, !.snap = <<>>]]
       /\ Record(b1 \cup b2 \cup b3)

ErrOfState(v) ==
    CASE v = "Alive" -> "StillAlive"
      [] v = "DoesNotExist" -> "DoesNotExist"
      [] v = "CleaningUp" -> "BeingCleanedUp"
      [] v = "Starting" -> "Starting"
      [] OTHER -> "Err"

\* a cleaner finishes its attempt with result r (r = "Ok": it now owns the files); base = its record
CleanerResult(p, base, r, newpc) ==
    LET alone == gcrashed /\ gcrashphase = "running" /\ base.qalone /\ base.snap = Snapshot(p)
        nofile == \A f \in Files : ~exists[f]
        \* another cleaner owns the files right now, or has finished its cleanup (did not crash while owning)
        others == {c \in Cleaners \ {p} : ps[c].pc \in {"owner", "drop", "done"}}
        b1 == IF r = "Ok" /\ ~gcrashed THEN {SigReclaim(GPhase)} ELSE {}
        \* how the second owner got in: through the already unlinked owner_lock file with the non-blocking lock
        \* (the known race), or in any other way (separate signatures)
        how == IF CleanerAcquire[Len(CleanerAcquire)].op # "lock" THEN "second_owner_blocking_lock"
               ELSE IF exists["owner_lock"] THEN "second_owner_owner_lock_linked" ELSE "second_owner"
        b2 == IF r = "Ok" /\ others # {} THEN {SigExclusive(how)} ELSE {}
        b3 == IF alone /\ ~(r = "Ok" \/ (r = "DoesNotExist" /\ nofile)) THEN {SigUnrecoverable(r, FilesLeft)} ELSE {}
        b4 == IF base.qdead /\ gcrashphase = "running"
                 /\ r \notin {"Ok", "OwnedByAnother", "BeingCleanedUp", "DoesNotExist"} THEN {SigLoser(r)} ELSE {}
        \* a refused cleaner changes nothing: it has not removed / created / chmod-ed / written a token file
        b5 == IF r # "Ok" /\ base.chg # {} THEN {SigRefused(r)} ELSE {}
    IN /\ ps' = [ps EXCEPT ![p] = [base EXCEPT !.pc = newpc, !.pend = NoPend, !.cres = r, !.err = "none",
                                               !.qdead = FALSE, !.qalone = FALSE, !.qdeadrun = FALSE, !.snap = <<>>,
                                               !.k = 0, !.gone = FALSE, !.chg = {}]]
       /\ Record(b1 \cup b2 \cup b3 \cup b4 \cup b5)

\* the verdict of state() is available to p
Conclude(p, base, v, ph) ==
    IF p \in Monitors THEN MonPublish(p, base, v, ph)
    ELSE IF v = "Dead"
         THEN /\ ps' = [ps EXCEPT ![p] = [base EXCEPT !.pc = "acq", !.pend = NoPend, !.idx = 1, !.k = 0]]
              /\ bad' = bad
         ELSE CleanerResult(p, base, ErrOfState(v), "failed")

\* bookkeeping when p starts a query / an attempt: was the guard already dead and no cleaner active?
Started(p, lv, rec) ==
    IF ps[p].pc = "idle"
    THEN [rec EXCEPT !.lv = lv, !.qdead = gcrashed /\ \A c \in Cleaners \ {p} : ps[c].pc \in Harmless,
                     !.qalone = gcrashed /\ \A c \in Cleaners \ {p} : ps[c].pc \in CleanerTerminal \cup {"idle"},
                     !.qdeadrun = gcrashed /\ gcrashphase = "running",
                     !.snap = Snapshot(p)]
    ELSE rec

\* one system call of state()
StateStepL(p, lv) ==
    /\ Label(p, lv) \in StateLabels
    /\ LET c == Label(p, lv)
           o == MObs(p, lv)
           t == IF c = "close_ret" THEN Ret(ps[p].pend.v) ELSE Tree(c, o)
           ph == IF c = "close_ret" THEN ps[p].pend.ph ELSE GPhase
           base == Started(p, lv, ps[p])
       IN CASE t.t = "goto" -> /\ ps' = [ps EXCEPT ![p] = [base EXCEPT !.pc = t.l]]
                               /\ bad' = bad
            [] t.t = "pend" -> /\ ps' = [ps EXCEPT ![p] = [base EXCEPT !.pc = "close_ret",
                                                              !.pend = [v |-> t.v, ph |-> GPhase, f |-> t.f]]]
                               /\ bad' = bad
            [] t.t = "ret" -> Conclude(p, base, t.v, ph)
    /\ UNCHANGED <<fsvars, gvars>>
    /\ hist' = Append(hist, <<p, MCall(p, lv)[1], MCall(p, lv)[2]>>)

StateStep(p) == \E lv \in LevelsOf(p) : StateStepL(p, lv)

MonStep(p) == p \in Monitors /\ StateStep(p)
CStateStep(p) == p \in Cleaners /\ StateStep(p)

---------------------------------------------------------------------------
(* ProcessCleaner::new after state() = Dead, ownership, drop                 *)

AcqErr(o) ==   \* the error of ProcessCleaner::new when op o fails
    CASE o.op = "open" /\ o.f = "context" -> "DoesNotExist"
      [] o.op = "open" -> "BeingCleanedUp"
      [] o.op = "getlk" -> "StillAlive"
      [] OTHER -> "OwnedByAnother"

\* step j of CleanerAcquire failed with error e: the refusal tail CleanerRefuse[j] is executed (one call per
\* step), then the error is returned
TailOf(j, gone) == IF gone THEN CleanerRefuseGone[j] ELSE CleanerRefuse[j]
Refuse(p, j, e) ==
    LET gone == CleanerAcquire[j].op = "lock" /\ ~exists[CleanerAcquire[j].f] IN
    IF Len(TailOf(j, gone)) = 0 THEN CleanerResult(p, ps[p], e, "failed")
    ELSE /\ ps' = [ps EXCEPT ![p] = [@ EXCEPT !.pc = "refuse", !.err = e, !.idx = j, !.k = 1, !.gone = gone]]
         /\ bad' = bad

CAcqStep(p) ==
    /\ p \in Cleaners /\ ps[p].pc = "acq"
    /\ LET j == ps[p].idx
           o == CleanerAcquire[j]
           Advance == IF j = Len(CleanerAcquire) THEN CleanerResult(p, ps[p], "Ok", "owner")
                      ELSE /\ ps' = [ps EXCEPT ![p] = [@ EXCEPT !.idx = j + 1]]
                           /\ bad' = bad
       IN /\ CASE o.op = "open" ->
                    /\ IF exists[o.f] THEN Advance ELSE Refuse(p, j, AcqErr(o))
                    /\ UNCHANGED fsvars
               [] o.op = "getlk" ->
                    /\ IF LockedByOther(o.f, p) THEN Refuse(p, j, AcqErr(o)) ELSE Advance
                    /\ UNCHANGED fsvars
               [] o.op = "lock" ->
                    IF LockedByOther(o.f, p)
                    THEN \* try_lock failed: the tail (which starts with the fstat that decides between "removed" and
                         \* "owned by another") follows
                         /\ Refuse(p, j, AcqErr(o))
                         /\ UNCHANGED fsvars
                    ELSE Apply(p, o) /\ Advance
               [] o.op = "lockw" -> Apply(p, o) /\ Advance
               [] OTHER -> FALSE
          /\ hist' = Append(hist, <<p, o.op, o.f>>)
    /\ UNCHANGED gvars

\* what a tail step (or any step of a cleaner that does not own the files) changes
Changes(o) == o.op \in {"create", "chmod", "write"} \/ (o.op = "unlink" /\ exists[o.f])

\* one call of the refusal tail
CRefuseStep(p) ==
    /\ p \in Cleaners /\ ps[p].pc = "refuse"
    /\ LET j == ps[p].idx
           k == ps[p].k
           tail == TailOf(j, ps[p].gone)
           o == tail[k]
           \* the fstat after a failed try_lock: link count 0 => "removed from the file system"
           decides == o.op = "fstat" /\ CleanerAcquire[j].op = "lock"
           e2 == IF decides /\ ~exists[o.f] THEN "DoesNotExist" ELSE ps[p].err
           \* the code branches on what this fstat sees (not on what the failed lock call saw)
           g2 == IF decides THEN ~exists[o.f] ELSE ps[p].gone
           base == [ps[p] EXCEPT !.err = e2, !.gone = g2, !.chg = IF Changes(o) THEN @ \cup {o.f} ELSE @]
       IN /\ IF o.op = "fstat" THEN UNCHANGED fsvars ELSE Apply(p, o)
          /\ IF k >= Len(TailOf(j, g2)) THEN CleanerResult(p, base, e2, "failed")
             ELSE /\ ps' = [ps EXCEPT ![p] = [base EXCEPT !.k = k + 1]]
                  /\ bad' = bad
          /\ hist' = Append(hist, <<p, o.op, o.f>>)
    /\ UNCHANGED gvars

CDropStep(p) ==
    /\ p \in Cleaners /\ ps[p].pc \in {"owner", "drop"}
    /\ LET i == IF ps[p].pc = "owner" THEN 1 ELSE ps[p].idx
           o == CleanerDrop[i]
       IN /\ Apply(p, o)
          /\ ps' = [ps EXCEPT ![p] = [@ EXCEPT !.pc = IF i = Len(CleanerDrop) THEN "done" ELSE "drop", !.idx = i + 1]]
          /\ hist' = Append(hist, <<p, o.op, o.f>>)
    /\ UNCHANGED <<gvars, bad>>

CCrash(p) ==
    /\ CleanerMayCrash /\ p \in Cleaners
    /\ ps[p].pc \notin CleanerTerminal \cup {"idle"}
    /\ ps' = [ps EXCEPT ![p] = [@ EXCEPT !.pc = CASE ps[p].pc \in StateLabels -> "x_state"
                                                    [] ps[p].pc \in {"acq", "refuse"} -> "x_acq"
                                                    [] ps[p].pc = "owner" -> "x_owner"
                                                    [] OTHER -> "x_drop"]]
    /\ ReleaseLocks(p)
    /\ UNCHANGED <<exists, perm, content, gvars, bad>>
    /\ hist' = Append(hist, <<p, "crash", "-">>)

---------------------------------------------------------------------------
Next ==
    \/ GCreateStep \/ GDropStep \/ GCrash
    \/ \E p \in Monitors : MonStep(p)
    \/ \E p \in Cleaners : CStateStep(p) \/ CAcqStep(p) \/ CRefuseStep(p) \/ CDropStep(p) \/ CCrash(p)

Spec == Init /\ [][Next]_vars

---------------------------------------------------------------------------
(* invariants                                                                *)

Kind(k) == {s \in bad : s[1] = k}

\* a verdict Dead (ProcessMonitor level and Node::list level) is never produced while the guard's process runs
NoFalseDead == Kind("falsedead") = {}
\* a cleaner never obtains ownership while the guard's process runs
NoReclaimFromLive == Kind("reclaim") = {}
\* once the process is dead and no cleaner lives, every later complete state() is Dead (DoesNotExist/absent
\* where it died during start-up or shutdown), never Alive
DeadIsDetected == Kind("undetected") = {}
\* of several concurrent cleaners at most one owns the files; the others get a documented error
\* (a second success is legitimate only as the recovery after the first owner crashed)
ExclusiveCleanup ==
    /\ Kind("exclusive") = {}
    /\ Kind("loser") = {}
    /\ ((~ExcuseAll /\ \A h \in {"second_owner", "second_owner_blocking_lock", "second_owner_owner_lock_linked"} :
                         SigExclusive(h) \notin Excused)
        => /\ Cardinality({c \in Cleaners : ps[c].pc \in {"owner", "drop"}}) <= 1
           /\ Cardinality({c \in Cleaners : ps[c].cres = "Ok"})
                 <= 1 + Cardinality({c \in Cleaners : ps[c].pc \in {"x_owner", "x_drop"}}))
\* after a cleaner crashed, a later cleaner running alone succeeds (or finds nothing left)
CleanerCrashRecoverable == Kind("unrecoverable") = {}
\* a cleaner that is refused (lost the race, found the files gone / being cleaned up, was told the process is
\* alive) has changed nothing: it has not removed, created, chmod-ed or written any of the token files
RefusedChangesNothing == Kind("refused") = {}
\* a process that died while running is not reported absent before a cleaner that owns the files has begun to
\* remove them (nobody else may have removed them)
AbsentOnlyAfterCleanup == Kind("vanished") = {}

TypeOK ==
    /\ exists \in [Files -> BOOLEAN]
    /\ perm \in [Files -> {"init", "final"}]
    /\ lock \in [Files -> {"none", "G"} \cup Cleaners]
    /\ gpc \in 0..(LC + LD)

\* generation aid (DESIGN.md 3.10): print every distinct state's position with the schedule that reached it
\* position of an observer: its label, and the index inside acquire / refusal tail / drop
Pos(p) == ps[p].pc \o (IF ps[p].pc \in {"acq", "drop"} THEN "." \o ToString(ps[p].idx)
                       ELSE IF ps[p].pc = "refuse" THEN "." \o ToString(ps[p].idx) \o "." \o ToString(ps[p].k)
                       ELSE "")
Reach == PrintT(<<"REACH", ToJson(<<gpc, gcrashed, [p \in Procs |-> Pos(p)], hist>>)>>)
=============================================================================
