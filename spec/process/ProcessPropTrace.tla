-------------------------- MODULE ProcessPropTrace --------------------------
(* Property-layer trace specification of C07: consumes the controller-level   *)
(* events of a run of real processes (start / end / kill of the guard,         *)
(* verdicts printed by monitors, results printed by cleaners) in their real    *)
(* order; of the system-call records only "a cleaner changed a token file"      *)
(* is consumed (CleanerSys).  Decides V1.                                        *)
EXTENDS ProcessProp, TraceIO

\* the processes that create a guard for the path: "G" first, "G2" a later incarnation (after G has died / gone)
Guards == {"G", "G2"}

VARIABLE l
tvars == <<pvars, l>>

TraceInit == PInit /\ l = 1 /\ TraceRegInit

Consume ==
    /\ l <= NRec
    /\ l' = l + 1
    /\ LET e == Rec[l] IN
       CASE e.k = "reset" -> PReset
         [] e.k = "sys" /\ e.p \in Cleaners -> CleanerSys(e.p, e.op, e.f, e.obs)
         [] e.k = "sys" -> UNCHANGED pvars
         [] e.k = "crash" /\ e.p \in Guards -> GuardCrash
         [] e.k = "crash" /\ e.p \in Cleaners -> CleanerCrash(e.p)
         [] e.k = "crash" -> UNCHANGED pvars
         [] e.k = "ev" /\ e.p \in Guards -> GuardEvent(e.ev)
         [] e.k = "ev" /\ e.ev = "qstart" -> QueryStart(e.p)
         [] e.k = "ev" /\ e.ev = "verdict" -> Verdict(e.p, e.lv, e.v, l)
         [] e.k = "ev" /\ e.ev = "cstart" -> CleanerStart(e.p, e.v = "fault")
         [] e.k = "ev" /\ e.ev = "fault" -> UNCHANGED pvars      \* the injected failure itself (informational)
         [] e.k = "ev" /\ e.ev = "cresult" -> CleanerResult(e.p, e.v, e.left, e.lv, l)
         [] e.k = "ev" /\ e.ev \in {"cdrop_begin", "cdropped"} -> CleanerEvent(e.p, e.ev)
         [] OTHER -> FALSE

TraceNext == Consume
TraceSpec == TraceInit /\ [][TraceNext]_tvars

Progress == TraceProgress(l)
Accepted == TraceAccepted
=============================================================================
