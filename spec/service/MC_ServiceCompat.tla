-------------------------- MODULE MC_ServiceCompat --------------------------
(***************************************************************************)
(* Enumerates creator/opener pairs of the messaging patterns in Pats over  *)
(* small domains, checks meta-properties of the requirement matrix, emits  *)
(* the expected outcome table (one JSON line per pair) to the file named   *)
(* by the environment variable OUT:                                        *)
(*    {"p": pattern, "c": creator builder record, "s": complete settings   *)
(*     every handle must show, "o": opener record, "exp": [outcomes]}      *)
(* Openers: every type variant x every requirement record in which at most *)
(* MaxDevOf(p) (MaxDevT for non-base type variants) requirements are set.  *)
(* DfltOf(p) = the configured default QoS values, read from the real       *)
(* Config by the driver and substituted by the check (DESIGN.md 3.3).      *)
(***************************************************************************)
EXTENDS ServiceCompat, TLC, Json, IOUtils, SequencesExt

CONSTANTS Pats, MaxDevOf(_), MaxDevT, DfltOf(_)

VARIABLES Pat, ci, o, done
vars == <<Pat, ci, o, done>>

\* ---- domains ------------------------------------------------------------------------------
PsT(ty, tv, sz, al) == [ty |-> ty, tv |-> tv, sz |-> sz, al |-> al]
RrT(qty, qtv, qsz, qal, sty, stv, ssz, sal) ==
    [qty |-> qty, qtv |-> qtv, qsz |-> qsz, qal |-> qal, sty |-> sty, stv |-> stv, ssz |-> ssz, sal |-> sal]
BbT(kty, ksz, kal) == [kty |-> kty, ksz |-> ksz, kal |-> kal]

\* first element = the base variant (the type of creator 1 and 2)
TypeVariantsOf(p) ==
    CASE p = "ps" -> << PsT("A", 0, 8, 8), PsT("A", 0, 8, 4), PsT("A", 0, 8, 16), PsT("A", 0, 4, 8),
                          PsT("B", 0, 8, 8), PsT("A", 1, 8, 8) >>
      [] p = "ev" -> << [x \in {} |-> 0] >>
      [] p = "rr" -> << RrT("A", 0, 8, 8, "R", 0, 16, 8), RrT("A", 0, 8, 4, "R", 0, 16, 8),
                          RrT("A", 0, 8, 16, "R", 0, 16, 8), RrT("A", 0, 8, 8, "R", 0, 16, 16),
                          RrT("A", 0, 8, 8, "R", 0, 16, 4), RrT("B", 0, 8, 8, "R", 0, 16, 8),
                          RrT("A", 0, 8, 8, "S", 0, 16, 8), RrT("A", 0, 4, 8, "R", 0, 16, 8),
                          RrT("A", 0, 8, 8, "R", 0, 8, 8), RrT("A", 1, 8, 8, "R", 0, 16, 8),
                          RrT("A", 0, 8, 8, "R", 1, 16, 8) >>
      [] p = "bb" -> << BbT("u64", 8, 8), BbT("u32", 4, 4), BbT("i32", 4, 4) >>

Merge(a, b) == [x \in DOMAIN a \cup DOMAIN b |-> IF x \in DOMAIN a THEN a[x] ELSE b[x]]

\* creators: 1 and 2 use the base type, 3 another type and the configured defaults
CreatorQosOf(p) ==
    CASE p = "ps" -> << [mp |-> 2, ms |-> 2, buf |-> 2, hist |-> 1, bor |-> 2, ov |-> 1, mn |-> 2, at |-> 5],
                          [mp |-> 3, ms |-> 1, buf |-> 3, hist |-> 0, bor |-> 1, ov |-> 0, mn |-> 3, at |-> UNSET],
                          [mp |-> UNSET, ms |-> UNSET, buf |-> UNSET, hist |-> UNSET, bor |-> UNSET,
                           ov |-> UNSET, mn |-> UNSET, at |-> 6] >>
      [] p = "ev" -> << [mnot |-> 2, mlis |-> 2, eid |-> 7, mn |-> 2, ce |-> 1, de |-> 2, xe |-> -1, dl |-> -1, at |-> 5],
                          [mnot |-> 3, mlis |-> 1, eid |-> 3, mn |-> 3, ce |-> -1, de |-> 4, xe |-> 5, dl |-> 50, at |-> UNSET],
                          [mnot |-> UNSET, mlis |-> UNSET, eid |-> UNSET, mn |-> UNSET, ce |-> UNSET,
                           de |-> UNSET, xe |-> UNSET, dl |-> UNSET, at |-> 6] >>
      [] p = "rr" -> << [ovq |-> 1, ovs |-> 0, faf |-> 1, act |-> 2, loan |-> 2, bor |-> 2, buf |-> 2,
                           msrv |-> 2, mcli |-> 2, mn |-> 2, at |-> 5],
                          [ovq |-> 0, ovs |-> 1, faf |-> 0, act |-> 3, loan |-> 1, bor |-> 1, buf |-> 3,
                           msrv |-> 1, mcli |-> 3, mn |-> 3, at |-> UNSET],
                          [ovq |-> UNSET, ovs |-> UNSET, faf |-> UNSET, act |-> UNSET, loan |-> UNSET,
                           bor |-> UNSET, buf |-> UNSET, msrv |-> UNSET, mcli |-> UNSET, mn |-> UNSET, at |-> 6] >>
      [] p = "bb" -> << [mr |-> 2, mn |-> 2, at |-> 5],
                          [mr |-> 3, mn |-> 3, at |-> UNSET],
                          [mr |-> UNSET, mn |-> UNSET, at |-> 6] >>

CreatorTypeOf(p, i) ==
    LET tv == TypeVariantsOf(p) IN IF i = 3 /\ Len(tv) > 1 THEN tv[Len(tv)] ELSE tv[1]
CreatorOf(p, i) == Merge(CreatorTypeOf(p, i), CreatorQosOf(p)[i])
NCreators == 3

\* the configured defaults (config.defaults.*): read from the real Config by the driver
\* (`drv-service defaults`) and substituted by the check (parameter extraction, DESIGN.md 3.3)
\* values an opener may require per field
BoolOpt == {0, 1}
Opt(f) ==
    CASE f = "at" -> {-1, 5, 6}
      [] f \in {"ov", "ovq", "ovs", "faf"} -> BoolOpt
      [] f \in {"ce", "de", "xe"} -> {-1, 1, 2}
      [] f = "dl" -> {-1, 50, 60}
      [] f = "eid" -> {3, 7, 9}
      [] OTHER -> {1, 2, 3}

ReqFieldsOf(p) == QosFields(p) \cup {"at"}

ReqsOf(p, maxdev) ==
    UNION { { [x \in ReqFieldsOf(p) |-> IF x \in D THEN f[x] ELSE UNSET] :
                f \in { g \in [D -> UNION {Opt(x) : x \in D}] : \A x \in D : g[x] \in Opt(x) } } :
            D \in { E \in SUBSET ReqFieldsOf(p) : Cardinality(E) <= maxdev } }

OpenersOf(p) ==
    LET tv == TypeVariantsOf(p) IN
    { Merge(tv[1], q) : q \in ReqsOf(p, MaxDevOf(p)) }
    \cup { Merge(tv[i], q) : i \in 2..Len(tv), q \in ReqsOf(p, MaxDevT) }

SettingsOf(p, i) == Created(p, CreatorOf(p, i), DfltOf(p))

\* the pair under evaluation
Creator(i) == CreatorOf(Pat, i)
Settings(i) == SettingsOf(Pat, i)
ReqFields == ReqFieldsOf(Pat)

\* ---- the (trivial) behaviour: one initial state per pair, one step that evaluates it ----------
Init == Pat \in Pats /\ ci \in 1..NCreators /\ o \in OpenersOf(Pat) /\ done = FALSE
Eval == ~done /\ done' = TRUE /\ UNCHANGED <<Pat, ci, o>>
Spec == Init /\ [][Eval]_vars

Outcome == CompatSet(Pat, Settings(ci), o)

\* ---- meta-properties of the matrix ------------------------------------------------------------
\* a creator is statically valid
CreatorsValid == CreateCheck(Pat, Settings(ci)) = "Ok"
\* the outcome is Ok or a non-empty set of errors, never both
WellFormed == Outcome # {} /\ ("Ok" \in Outcome => Outcome = {"Ok"})
\* opening with the creator's own builder record always succeeds
Reflexive == CompatSet(Pat, Settings(ci), Creator(ci)) = {"Ok"}
\* nothing required (beyond the type) => only the type decides
NoRequirement ==
    (\A f \in ReqFields : o[f] = UNSET) =>
        Outcome = (IF TypeOk(Pat, Settings(ci), o) THEN {"Ok"} ELSE {TypeErr(Pat)})
\* dropping one requirement never turns a success into a failure and never adds an error
DropMonotone ==
    \A f \in ReqFields : Failing(Pat, Settings(ci), [o EXCEPT ![f] = UNSET]) \subseteq Failing(Pat, Settings(ci), o)
\* every requirement error is caused by exactly the field the documentation names
ErrorNamesField ==
    \A i \in DOMAIN GEChecks(Pat) :
        GEChecks(Pat)[i][2] \in Outcome =>
            \E j \in DOMAIN GEChecks(Pat) : /\ GEChecks(Pat)[j][2] = GEChecks(Pat)[i][2]
                                           /\ o[GEChecks(Pat)[j][1]] # UNSET
                                           /\ Settings(ci)[GEChecks(Pat)[j][1]] < o[GEChecks(Pat)[j][1]]

\* ---- emission -----------------------------------------------------------------------------------
Table ==
    SetToSeq(UNION { { [p |-> p, c |-> CreatorOf(p, i), s |-> SettingsOf(p, i), o |-> q,
                        exp |-> SetToSeq(CompatSet(p, SettingsOf(p, i), q))] :
                       i \in 1..NCreators, q \in OpenersOf(p) } : p \in Pats })

Emit == ndJsonSerialize(IOEnv.OUT, Table)
=============================================================================
