SPECIFICATION LSpec
CONSTANTS
 NThreads = 2
 MaxOps = 2
 Budget = 1
 MaxInc = 4
 HasResources = FALSE
 UseOoc = TRUE
 WriteBeforeUnlock = TRUE
 LockOnLast = TRUE
 RegisterInInit = TRUE
 ReleaseStaticLate = TRUE
 TagOwnedUntilDone = TRUE
 BoundedDynWait = TRUE
 MaxFaults = 1
 MaxCrashes = 0
 Env <- LEnv
INVARIANTS Explainable AtMostOneCreator OpenSeesCreatorSettings NoHalfInitialised LifetimeFollowsUsers RecreatableAfterLast ImplAtMostOneCreator ImplNoHalfInitialised ImplOpenSeesCreatorSettings ImplLifetimeFollowsUsers ImplQuiescentExact ImplTagsFollowHandles
PROPERTY Termination
