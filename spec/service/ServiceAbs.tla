------------------------------ MODULE ServiceAbs ------------------------------
(***************************************************************************)
(* C06 - PROPERTY LAYER.  One service name (of one messaging pattern) is   *)
(* an atomic object                                                        *)
(*                                                                         *)
(*        absent   |   exists(id, settings, users)                         *)
(*                                                                         *)
(* `id` is the incarnation (every successful creation starts a new one;    *)
(* the real code shows it as `static_config().unique_service_id()`),       *)
(* `settings` the complete creator settings, `users` the set of handles    *)
(* (handle number, node) obtained from create / open / open_or_create and  *)
(* not yet dropped.  The service exists exactly as long as it has users:   *)
(* the drop of the last handle removes it atomically.                      *)
(*                                                                         *)
(* An operation of thread t is  Call (recorded) - Lin (silent, the point   *)
(* at which it takes effect and its result is fixed) - Ret (recorded; the  *)
(* logged result must be the fixed one).  Results:                         *)
(*   create(c)  Ok | AlreadyExists | <static validity error of c>          *)
(*   open(o)    Ok(settings) | DoesNotExist | <error of a failing          *)
(*              requirement, ServiceCompat> | ExceedsMaxNumberOfNodes      *)
(*   ooc(c)     Ok(settings) (created if absent, joined if compatible) |   *)
(*              Open:<requirement error> | Create:<validity error>         *)
(*   drop(h)    Ok                                                         *)
(*   exist / list   1 | 0                                                  *)
(*                                                                         *)
(* TRANSIENT documented errors.  The statement allows a call to end with   *)
(* a documented error instead of a service while the service is being      *)
(* created or torn down by SOMEBODY ELSE.  Such a return has no effect and *)
(* is accepted only if a call of the justifying kind by another thread     *)
(* overlaps it in real time (`ov` = kinds of overlapping calls):           *)
(*   create: AlreadyExists | IsBeingCreatedByAnotherInstance |             *)
(*           HangsInCreation              needs an overlapping create/ooc  *)
(*           (the other creator holds the locked static config)            *)
(*   open:   IsMarkedForDestruction       needs an overlapping drop        *)
(*           HangsInCreation              needs overlapping create/ooc/drop*)
(*   ooc:    Open:IsMarkedForDestruction | Open:HangsInCreation |          *)
(*           Open:DoesNotExist | Create:AlreadyExists |                    *)
(*           Create:IsBeingCreatedByAnotherInstance | SystemInFlux         *)
(*                                        needs overlapping create/ooc/drop*)
(*   exist/list: 0                        needs an overlapping create/ooc  *)
(*           (a service whose static config is still locked is not listed) *)
(* Without such an overlap every call must be explained by the atomic      *)
(* object - in particular in sequential histories.                         *)
(*                                                                         *)
(* KNOWN DEVIATION (known_findings.json, signature                         *)
(* trace:bb:open:ServiceInCorruptedState:overlapping-create-or-last-drop). *)
(* The blackboard open() reports ServiceInCorruptedState for a healthy     *)
(* service that is merely being created or torn down concurrently (it      *)
(* opens the additional resources before the dynamic config).  This is a   *)
(* defect, not an allowed transient error.  So that ONE known defect does  *)
(* not end the validation of every blackboard history, the trace           *)
(* specification steps over exactly this case - pattern "bb", call open,   *)
(* overlapped by a create/ooc or by the drop of the LAST user ("lastdrop") *)
(* - with the rule RetKnownDeviation below; the check reports every history*)
(* in which the rule was needed as a violation with that signature.  Any   *)
(* other ServiceInCorruptedState stays unexplainable.                      *)
(*                                                                         *)
(* FAILING ENVIRONMENT (fault injection, DESIGN.md C06 strengthening).     *)
(* "Each call terminates with a service or a documented error" and "a      *)
(* create/open that fails half-way leaves no trace": when a system call of *)
(* the operation failed (`f` > 0 in the recorded return: the LD_PRELOAD    *)
(* shim made one libc call of THIS call fail) the call may end with any    *)
(* documented ENVIRONMENT error (DocErr: the variants of the pattern's     *)
(* error enum that do not name a requirement of the caller) - and then it  *)
(* has NO effect on the abstract object (RetEnv) - or it completes as      *)
(* usual.  Nothing else: a panic / abort is no result at all, and what the *)
(* failed call left behind shows in the following quiescent observation    *)
(* and in the results of the following calls of OTHER nodes, which are     *)
(* explained by the unchanged object only.                                 *)
(*                                                                         *)
(* CRASHES.  Crash(t, nd): the process of thread t (node nd) dies.  A call *)
(* that was pending stays "crashed" for ever: it may or may not have taken *)
(* effect (LinCrashed, once) and it overlaps every later call, so the      *)
(* transient errors above stay justified.  The handles of dead nodes are   *)
(* users until somebody reaps them (Reap: the dead-node cleanup of C04,    *)
(* any time).  While a dead node exists every documented environment error *)
(* is an acceptable result (the statement fixes no error kind for a        *)
(* service whose creator died) - but the call must RETURN: a call that was *)
(* proven to hang is recorded with the result "Hang", which nothing        *)
(* explains.  Leftovers after a crash are the subject of C04, not of C06:  *)
(* the quiescent observation is unconstrained once a node is dead.         *)
(*                                                                         *)
(* SERVICE TAGS.  A node carries a service tag (a file in its details      *)
(* directory) exactly while it holds a handle of the service: `tg` of the  *)
(* quiescent observation = the nodes of `users`.  A refused or failed call *)
(* "leaves the service untouched" - including the caller's node.  After    *)
(* everything was dropped no node directory remains (`dirs` = 0).          *)
(*                                                                         *)
(* The configuration of a run (pattern, builder records, defaults) is not  *)
(* part of the state: `ek` is a small key and Env(ek) the record           *)
(* [pat, cfgs, dflt] (a constant operator: a table in the model-checking   *)
(* instances, the `reset` record of the trace in the trace specification). *)
(***************************************************************************)
EXTENDS Integers, Sequences, FiniteSets, ServiceCompat

CONSTANTS NThreads, Env(_)
Threads == 0..(NThreads - 1)

VARIABLES svc,    \* [ex, id, lid, c, users, ncr]
          pend,   \* per thread: the pending call
          ek,     \* key of the run configuration
          gh      \* ghost: [next, seen, ob, dead] - abstract incarnation counter, number of distinct real ids
                  \* seen, threads whose pending drop is obliged to contain the last user's (KnownDeviation),
                  \* nodes whose process died

avars == <<svc, pend, ek, gh>>

\* id  = abstract incarnation number, lid = the id the real handles of this incarnation show
\*       (0 = not yet observed), c = index of the builder record it was created from
Absent == [ex |-> FALSE, id |-> 0, lid |-> 0, c |-> 0, users |-> {}, ncr |-> 0]
IdleRec == [st |-> "idle", a |-> "-", nd |-> 0, c |-> 0, h |-> 0,
            r |-> "-", id |-> 0, sc |-> 0, v |-> 0, ov |-> {}]
Gh0 == [next |-> 1, seen |-> 0, ob |-> {}, dead |-> {}]

AInit(k) ==
    /\ ek = k
    /\ svc = Absent
    /\ pend = [t \in Threads |-> IdleRec]
    /\ gh = Gh0

AReset(k) ==
    /\ ek' = k
    /\ svc' = Absent
    /\ pend' = [t \in Threads |-> IdleRec]
    /\ gh' = Gh0

P == Env(ek).pat
Req(c) == Env(ek).cfgs[c]
NewS(c) == Created(P, Req(c), Env(ek).dflt)
SvcS == NewS(svc.c)                       \* the settings of the existing service
NodesOf(users) == {u[2] : u \in users}
NodeFits(nd) == nd \in NodesOf(svc.users) \/ Cardinality(NodesOf(svc.users)) < SvcS.mn

Creators == {"create", "ooc"}
Mutators == {"create", "ooc", "drop"}

\* ---------------------------------------------------------------- calls
Call(t, a, nd, c, h) ==
    /\ pend[t].st = "idle"
    /\ pend' = [u \in Threads |->
                  IF u = t
                  THEN [st |-> "called", a |-> a, nd |-> nd, c |-> c, h |-> h, r |-> "-",
                        id |-> 0, sc |-> 0, v |-> 0,
                        ov |-> {pend[x].a : x \in {y \in Threads \ {t} : pend[y].st # "idle"}}
                               \cup {"lastdrop" : x \in {y \in Threads \ {t} :
                                          pend[y].st = "done" /\ pend[y].a = "drop" /\ pend[y].v = 1}}]
                  ELSE IF pend[u].st # "idle"
                       THEN [pend[u] EXCEPT !.ov = @ \cup {a}]
                       ELSE pend[u]]
    /\ UNCHANGED <<svc, ek, gh>>

\* ---------------------------------------------------------------- outcomes at the linearization point
Out(r, id, sc, v, nsvc, cr) == [r |-> r, id |-> id, sc |-> sc, v |-> v, nsvc |-> nsvc, cr |-> cr]
Fail(r) == Out(r, 0, 0, 0, svc, FALSE)

CreatedSvc(p) == [ex |-> TRUE, id |-> gh.next, lid |-> 0, c |-> p.c, users |-> {<<p.h, p.nd>>}, ncr |-> 1]

CreateOutcomes(p) ==
    IF CreateCheck(P, NewS(p.c)) # "Ok" THEN {Fail(CreateCheck(P, NewS(p.c)))}
    ELSE IF svc.ex THEN {Fail("AlreadyExists")}
    ELSE {Out("Ok", gh.next, p.c, 0, CreatedSvc(p), TRUE)}

\* pre = "" for open, "Open:" for open_or_create
OpenOutcomesEx(p, pre) ==
    LET cs == CompatSet(P, SvcS, Req(p.c)) IN
    IF cs # {"Ok"} THEN {Fail(pre \o e) : e \in cs}
    ELSE IF ~NodeFits(p.nd) THEN {Fail(pre \o "ExceedsMaxNumberOfNodes")}
    ELSE {Out("Ok", svc.id, svc.c, 0, [svc EXCEPT !.users = @ \cup {<<p.h, p.nd>>}], FALSE)}

OpenOutcomes(p) ==
    IF ~svc.ex THEN {Fail("DoesNotExist")} ELSE OpenOutcomesEx(p, "")

OocOutcomes(p) ==
    IF svc.ex THEN OpenOutcomesEx(p, "Open:")
    ELSE IF CreateCheck(P, NewS(p.c)) # "Ok" THEN {Fail("Create:" \o CreateCheck(P, NewS(p.c)))}
    ELSE {Out("Ok", gh.next, p.c, 0, CreatedSvc(p), TRUE)}

DropOutcomes(p) ==
    IF svc.ex /\ <<p.h, p.nd>> \in svc.users
    THEN LET u == svc.users \ {<<p.h, p.nd>>} IN
         {Out("Ok", 0, 0, IF u = {} THEN 1 ELSE 0,          \* v = 1: the drop of the last user
              IF u = {} THEN Absent ELSE [svc EXCEPT !.users = u], FALSE)}
    ELSE {}       \* dropping a handle of a service that does not exist (any more): unexplainable

ExistOutcomes(p) == {Out("Ok", 0, 0, IF svc.ex THEN 1 ELSE 0, svc, FALSE)}

Outcomes(t) ==
    LET p == pend[t] IN
    CASE p.a = "create" -> CreateOutcomes(p)
      [] p.a = "open"   -> OpenOutcomes(p)
      [] p.a = "ooc"    -> OocOutcomes(p)
      [] p.a = "drop"   -> DropOutcomes(p)
      [] p.a \in {"exist", "list"} -> ExistOutcomes(p)
      [] OTHER -> {}

LinWithSt(t, o, st) ==
    /\ pend' = [u \in Threads |->
                  IF u = t
                  THEN [pend[t] EXCEPT !.st = st, !.r = o.r, !.id = o.id, !.sc = o.sc, !.v = o.v]
                  ELSE IF pend[t].a = "drop" /\ o.v = 1 /\ pend[u].st # "idle"
                       THEN [pend[u] EXCEPT !.ov = @ \cup {"lastdrop"}]      \* overlapped by a teardown
                       ELSE pend[u]]
    /\ svc' = o.nsvc
    /\ gh' = IF o.cr THEN [gh EXCEPT !.next = @ + 1]
             ELSE IF pend[t].a = "drop" /\ t \in gh.ob
                  THEN [gh EXCEPT !.ob = IF o.v = 1 THEN {} ELSE @ \ {t}]
                  ELSE gh
    /\ UNCHANGED ek

LinWith(t, o) == LinWithSt(t, o, "done")

\* gh.ob: pending drops one of which is obliged (by RetKnownDeviation) to be the last user's drop
Obliged(t, o) == (pend[t].a = "drop" /\ t \in gh.ob) => (o.v = 1 \/ gh.ob \ {t} # {})

Lin(t) ==
    /\ pend[t].st = "called"
    /\ \E o \in Outcomes(t) : Obliged(t, o) /\ LinWith(t, o)

\* ---------------------------------------------------------------- crashes
\* the process of thread t (node nd) dies: a pending call is never returned
Crash(t, nd) ==
    /\ pend' = [pend EXCEPT ![t] = IF @.st = "called" THEN [@ EXCEPT !.st = "crashed"]
                                    ELSE IF @.st = "done" THEN [@ EXCEPT !.st = "buried"]
                                    ELSE @]
    /\ gh' = [gh EXCEPT !.dead = @ \cup {nd}]
    /\ UNCHANGED <<svc, ek>>

\* the call the process died in may have taken effect
LinCrashed(t) ==
    /\ pend[t].st = "crashed"
    /\ \E o \in Outcomes(t) : LinWithSt(t, o, "buried")

\* somebody (the dead-node cleanup) removes the handles of the dead nodes
Reap ==
    /\ svc.ex /\ NodesOf(svc.users) \cap gh.dead # {}
    /\ LET u == {x \in svc.users : x[2] \notin gh.dead} IN
       svc' = IF u = {} THEN Absent ELSE [svc EXCEPT !.users = u]
    /\ UNCHANGED <<pend, ek, gh>>

Gone(p) == p.st \in {"idle", "crashed", "buried"}

\* ---------------------------------------------------------------- documented environment errors
EnvCreateErr == {"Interrupt", "ServiceInCorruptedState", "AlreadyExists", "InsufficientPermissions",
                 "InternalFailure", "IsBeingCreatedByAnotherInstance", "HangsInCreation",
                 "UnableToCreateServiceTag", "ServiceConfigCouldNotBeCreated", "UnableToAcquireTypeDefinition"}
EnvOpenErr == {"Interrupt", "DoesNotExist", "InternalFailure", "InsufficientPermissions",
               "ServiceInCorruptedState", "HangsInCreation", "IsMarkedForDestruction",
               "UnableToCreateServiceTag", "VersionMismatch", "UnableToAcquireTypeDefinition"}
DocErr(a) ==
    CASE a = "create" -> EnvCreateErr
      [] a = "open"   -> EnvOpenErr
      [] a = "ooc"    -> {"Open:" \o e : e \in EnvOpenErr} \cup {"Create:" \o e : e \in EnvCreateErr}
                         \cup {"SystemInFlux"}
      [] OTHER -> {}

\* ---------------------------------------------------------------- transient documented errors
Transient(a, r, v, ov) ==
    \/ /\ a = "create"
       /\ r \in {"AlreadyExists", "IsBeingCreatedByAnotherInstance", "HangsInCreation"}
       /\ ov \cap Creators # {}
    \/ /\ a = "open" /\ r = "IsMarkedForDestruction" /\ "drop" \in ov
    \/ /\ a = "open" /\ r = "HangsInCreation" /\ ov \cap Mutators # {}
    \/ /\ a = "ooc"
       /\ r \in {"Open:IsMarkedForDestruction", "Open:HangsInCreation", "Open:DoesNotExist",
                 "Create:AlreadyExists", "Create:IsBeingCreatedByAnotherInstance", "SystemInFlux"}
       /\ ov \cap Mutators # {}
    \/ /\ a \in {"exist", "list"} /\ r = "Ok" /\ v = 0 /\ ov \cap Creators # {}

\* The one known defect that the trace specification steps over (see the header): the call is
\* overlapped by a create/ooc, by a last user's drop that already took effect ("lastdrop"), or by
\* drops that are still to be linearized - one of which is then OBLIGED to be the last user's.
KnownDeviationGuard(t, a, r) ==
    /\ P = "bb" /\ a = "open" /\ r = "ServiceInCorruptedState"
    /\ pend[t].st = "called" /\ pend[t].a = a
    /\ \/ pend[t].ov \cap {"create", "ooc", "lastdrop"} # {}
       \/ \E u \in Threads \ {t} : pend[u].st = "called" /\ pend[u].a = "drop"

RetKnownDeviation(t, a, r) ==
    /\ KnownDeviationGuard(t, a, r)
    /\ pend' = [pend EXCEPT ![t] = IdleRec]
    /\ gh' = IF pend[t].ov \cap {"create", "ooc", "lastdrop"} # {}
             THEN gh
             ELSE [gh EXCEPT !.ob = @ \cup {u \in Threads \ {t} : pend[u].st = "called" /\ pend[u].a = "drop"}]
    /\ UNCHANGED <<svc, ek>>

\* ---------------------------------------------------------------- returns
\* `lid` = the incarnation id the real handle shows (small integers in order of first appearance
\* in the history), `s` = the settings it shows.  Same abstract incarnation <=> same real id; the
\* settings are exactly those the incarnation was created with.
RetDoneGuard(t, a, r, lid, s, v, h) ==
    LET p == pend[t]
        handle == r = "Ok" /\ a \in {"create", "open", "ooc"}
    IN  /\ p.st = "done" /\ p.a = a /\ p.r = r /\ p.h = h
        /\ a \in {"exist", "list"} => p.v = v
        /\ handle => /\ s = NewS(p.sc)
                      /\ svc.ex /\ p.id = svc.id
                      /\ IF svc.lid = 0 THEN lid = gh.seen + 1      \* a real id never seen before
                                        ELSE lid = svc.lid

RetDone(t, a, r, lid, s, v, h) ==
    LET handle == r = "Ok" /\ a \in {"create", "open", "ooc"} IN
    /\ RetDoneGuard(t, a, r, lid, s, v, h)
    /\ IF handle /\ svc.lid = 0
       THEN /\ svc' = [svc EXCEPT !.lid = lid]
            /\ gh' = [gh EXCEPT !.seen = lid]
       ELSE UNCHANGED <<svc, gh>>
    /\ pend' = [pend EXCEPT ![t] = IdleRec]
    /\ UNCHANGED ek

RetTransient(t, a, r, v) ==
    /\ pend[t].st = "called" /\ pend[t].a = a
    /\ Transient(a, r, v, pend[t].ov)
    /\ pend' = [pend EXCEPT ![t] = IdleRec]
    /\ UNCHANGED <<svc, ek, gh>>

\* a call ends with a documented environment error - without any effect - because a system call of
\* THIS call failed (f > 0) or because a process died earlier (gh.dead)
RetEnvGuard(t, a, r, f) ==
    /\ pend[t].st \in {"called", "withdrawn"} /\ pend[t].a = a
    /\ f > 0 \/ gh.dead # {}
    /\ pend[t].st = "withdrawn" => f > 0
    /\ r \in DocErr(a)

RetEnv(t, a, r, f) ==
    /\ RetEnvGuard(t, a, r, f)
    /\ pend' = [pend EXCEPT ![t] = IdleRec]
    /\ UNCHANGED <<svc, ek, gh>>

\* A creation whose environment failed AFTER it had become visible to others (who may have seen the name as
\* existing meanwhile) is withdrawn: the effect of the drop of the handle it would have returned.  The call can
\* then only end with a documented environment error (RetEnv with f > 0).
Withdraw(t) ==
    /\ pend[t].st = "done" /\ pend[t].r = "Ok" /\ pend[t].a \in Creators
    /\ svc.ex /\ pend[t].id = svc.id /\ <<pend[t].h, pend[t].nd>> \in svc.users
    /\ LET u == svc.users \ {<<pend[t].h, pend[t].nd>>} IN
       svc' = IF u = {} THEN Absent ELSE [svc EXCEPT !.users = u]
    /\ pend' = [pend EXCEPT ![t].st = "withdrawn"]
    /\ UNCHANGED <<ek, gh>>

Ret(t, a, r, lid, s, v, h, f) ==
    \/ RetDone(t, a, r, lid, s, v, h) \/ RetTransient(t, a, r, v) \/ RetKnownDeviation(t, a, r)
    \/ RetEnv(t, a, r, f)

\* quiescent observation: nobody inside a call.  tg = the (live) nodes that carry a service tag, dirs = node
\* details directories in the domain, final = everything (handles, nodes) was dropped before.
Quiescent(exist, listed, files, shm, tg, dirs, final) ==
    /\ \A t \in Threads : Gone(pend[t])
    /\ gh.dead = {} =>
         /\ exist = (IF svc.ex THEN 1 ELSE 0)
         /\ listed = exist
         /\ ~svc.ex => files = 0 /\ shm = 0
         /\ ~final => tg = NodesOf(svc.users)
         /\ final => dirs = 0
    /\ UNCHANGED avars

\* ---------------------------------------------------------------- named invariants
Handle(p) == p.st = "done" /\ p.r = "Ok" /\ p.a \in {"create", "open", "ooc"}

\* at most one creation succeeds per incarnation
AtMostOneCreator == svc.ncr <= 1 /\ (svc.ex => svc.ncr = 1)

\* every handle that is being returned carries exactly the settings the existing incarnation
\* was created with (Ret compares the settings the real handle shows with them)
OpenSeesCreatorSettings ==
    \A t \in Threads : Handle(pend[t]) => pend[t].sc = svc.c /\ pend[t].sc \in DOMAIN Env(ek).cfgs

\* a handle that is being returned belongs to the existing, complete incarnation
NoHalfInitialised ==
    \A t \in Threads : Handle(pend[t]) =>
        svc.ex /\ svc.id = pend[t].id /\ <<pend[t].h, pend[t].nd>> \in svc.users

\* the service exists exactly as long as it has users
LifetimeFollowsUsers == svc.ex <=> svc.users # {}

\* once the last user is gone a (statically valid) create is accepted again - with any settings
RecreatableAfterLast ==
    ~svc.ex => \A t \in Threads :
        pend[t].st = "called" /\ pend[t].a = "create" /\ CreateCheck(P, NewS(pend[t].c)) = "Ok"
            => \E o \in Outcomes(t) : o.r = "Ok" /\ o.nsvc.c = pend[t].c
=============================================================================
