------------------------------ MODULE ServiceAbs ------------------------------
(***************************************************************************)
(* C06 - PROPERTY LAYER.  One service name (of one messaging pattern) is   *)
(* an atomic object                                                        *)
(*                                                                         *)
(*        absent   |   exists(id, settings, users)                         *)
(*                                                                         *)
(* `id` is the incarnation (every successful creation starts a new one;    *)
(* the real code shows it as `static_config().unique_service_id()`),       *)
(* `settings` the complete creator settings, `users` the set of handles    *)
(* (handle number, node) obtained from create / open / open_or_create and  *)
(* not yet dropped.  The service exists exactly as long as it has users:   *)
(* the drop of the last handle removes it atomically.                      *)
(*                                                                         *)
(* An operation of thread t is  Call (recorded) - Lin (silent, the point   *)
(* at which it takes effect and its result is fixed) - Ret (recorded; the  *)
(* logged result must be the fixed one).  Results:                         *)
(*   create(c)  Ok | AlreadyExists | <static validity error of c>          *)
(*   open(o)    Ok(settings) | DoesNotExist | <error of a failing          *)
(*              requirement, ServiceCompat> | ExceedsMaxNumberOfNodes      *)
(*   ooc(c)     Ok(settings) (created if absent, joined if compatible) |   *)
(*              Open:<requirement error> | Create:<validity error>         *)
(*   drop(h)    Ok                                                         *)
(*   exist / list   1 | 0                                                  *)
(*                                                                         *)
(* TRANSIENT documented errors.  The statement allows a call to end with   *)
(* a documented error instead of a service while the service is being      *)
(* created or torn down by SOMEBODY ELSE.  Such a return has no effect and *)
(* is accepted only if a call of the justifying kind by another thread     *)
(* overlaps it in real time (`ov` = kinds of overlapping calls):           *)
(*   create: AlreadyExists | IsBeingCreatedByAnotherInstance |             *)
(*           HangsInCreation              needs an overlapping create/ooc  *)
(*           (the other creator holds the locked static config)            *)
(*   open:   IsMarkedForDestruction       needs an overlapping drop        *)
(*           HangsInCreation              needs overlapping create/ooc/drop*)
(*   ooc:    Open:IsMarkedForDestruction | Open:HangsInCreation |          *)
(*           Open:DoesNotExist | Create:AlreadyExists |                    *)
(*           Create:IsBeingCreatedByAnotherInstance | SystemInFlux         *)
(*                                        needs overlapping create/ooc/drop*)
(*   exist/list: 0                        needs an overlapping create/ooc  *)
(*           (a service whose static config is still locked is not listed) *)
(* Without such an overlap every call must be explained by the atomic      *)
(* object - in particular in sequential histories.                         *)
(*                                                                         *)
(* KNOWN DEVIATION (known_findings.json, signature                         *)
(* trace:bb:open:ServiceInCorruptedState:overlapping-create-or-last-drop). *)
(* The blackboard open() reports ServiceInCorruptedState for a healthy     *)
(* service that is merely being created or torn down concurrently (it      *)
(* opens the additional resources before the dynamic config).  This is a   *)
(* defect, not an allowed transient error.  So that ONE known defect does  *)
(* not end the validation of every blackboard history, the trace           *)
(* specification steps over exactly this case - pattern "bb", call open,   *)
(* overlapped by a create/ooc or by the drop of the LAST user ("lastdrop") *)
(* - with the rule RetKnownDeviation below; the check reports every history*)
(* in which the rule was needed as a violation with that signature.  Any   *)
(* other ServiceInCorruptedState stays unexplainable.                      *)
(*                                                                         *)
(* The configuration of a run (pattern, builder records, defaults) is not  *)
(* part of the state: `ek` is a small key and Env(ek) the record           *)
(* [pat, cfgs, dflt] (a constant operator: a table in the model-checking   *)
(* instances, the `reset` record of the trace in the trace specification). *)
(***************************************************************************)
EXTENDS Integers, Sequences, FiniteSets, ServiceCompat

CONSTANTS NThreads, Env(_)
Threads == 0..(NThreads - 1)

VARIABLES svc,    \* [ex, id, lid, c, users, ncr]
          pend,   \* per thread: the pending call
          ek,     \* key of the run configuration
          gh      \* ghost: [next, seen, ob] - abstract incarnation counter, number of distinct real ids
                  \* seen, threads whose pending drop is obliged to contain the last user's (KnownDeviation)

avars == <<svc, pend, ek, gh>>

\* id  = abstract incarnation number, lid = the id the real handles of this incarnation show
\*       (0 = not yet observed), c = index of the builder record it was created from
Absent == [ex |-> FALSE, id |-> 0, lid |-> 0, c |-> 0, users |-> {}, ncr |-> 0]
IdleRec == [st |-> "idle", a |-> "-", nd |-> 0, c |-> 0, h |-> 0,
            r |-> "-", id |-> 0, sc |-> 0, v |-> 0, ov |-> {}]
Gh0 == [next |-> 1, seen |-> 0, ob |-> {}]

AInit(k) ==
    /\ ek = k
    /\ svc = Absent
    /\ pend = [t \in Threads |-> IdleRec]
    /\ gh = Gh0

AReset(k) ==
    /\ ek' = k
    /\ svc' = Absent
    /\ pend' = [t \in Threads |-> IdleRec]
    /\ gh' = Gh0

P == Env(ek).pat
Req(c) == Env(ek).cfgs[c]
NewS(c) == Created(P, Req(c), Env(ek).dflt)
SvcS == NewS(svc.c)                       \* the settings of the existing service
NodesOf(users) == {u[2] : u \in users}
NodeFits(nd) == nd \in NodesOf(svc.users) \/ Cardinality(NodesOf(svc.users)) < SvcS.mn

Creators == {"create", "ooc"}
Mutators == {"create", "ooc", "drop"}

\* ---------------------------------------------------------------- calls
Call(t, a, nd, c, h) ==
    /\ pend[t].st = "idle"
    /\ pend' = [u \in Threads |->
                  IF u = t
                  THEN [st |-> "called", a |-> a, nd |-> nd, c |-> c, h |-> h, r |-> "-",
                        id |-> 0, sc |-> 0, v |-> 0,
                        ov |-> {pend[x].a : x \in {y \in Threads \ {t} : pend[y].st # "idle"}}
                               \cup {"lastdrop" : x \in {y \in Threads \ {t} :
                                          pend[y].st = "done" /\ pend[y].a = "drop" /\ pend[y].v = 1}}]
                  ELSE IF pend[u].st # "idle"
                       THEN [pend[u] EXCEPT !.ov = @ \cup {a}]
                       ELSE pend[u]]
    /\ UNCHANGED <<svc, ek, gh>>

\* ---------------------------------------------------------------- outcomes at the linearization point
Out(r, id, sc, v, nsvc, cr) == [r |-> r, id |-> id, sc |-> sc, v |-> v, nsvc |-> nsvc, cr |-> cr]
Fail(r) == Out(r, 0, 0, 0, svc, FALSE)

CreatedSvc(p) == [ex |-> TRUE, id |-> gh.next, lid |-> 0, c |-> p.c, users |-> {<<p.h, p.nd>>}, ncr |-> 1]

CreateOutcomes(p) ==
    IF CreateCheck(P, NewS(p.c)) # "Ok" THEN {Fail(CreateCheck(P, NewS(p.c)))}
    ELSE IF svc.ex THEN {Fail("AlreadyExists")}
    ELSE {Out("Ok", gh.next, p.c, 0, CreatedSvc(p), TRUE)}

\* pre = "" for open, "Open:" for open_or_create
OpenOutcomesEx(p, pre) ==
    LET cs == CompatSet(P, SvcS, Req(p.c)) IN
    IF cs # {"Ok"} THEN {Fail(pre \o e) : e \in cs}
    ELSE IF ~NodeFits(p.nd) THEN {Fail(pre \o "ExceedsMaxNumberOfNodes")}
    ELSE {Out("Ok", svc.id, svc.c, 0, [svc EXCEPT !.users = @ \cup {<<p.h, p.nd>>}], FALSE)}

OpenOutcomes(p) ==
    IF ~svc.ex THEN {Fail("DoesNotExist")} ELSE OpenOutcomesEx(p, "")

OocOutcomes(p) ==
    IF svc.ex THEN OpenOutcomesEx(p, "Open:")
    ELSE IF CreateCheck(P, NewS(p.c)) # "Ok" THEN {Fail("Create:" \o CreateCheck(P, NewS(p.c)))}
    ELSE {Out("Ok", gh.next, p.c, 0, CreatedSvc(p), TRUE)}

DropOutcomes(p) ==
    IF svc.ex /\ <<p.h, p.nd>> \in svc.users
    THEN LET u == svc.users \ {<<p.h, p.nd>>} IN
         {Out("Ok", 0, 0, IF u = {} THEN 1 ELSE 0,          \* v = 1: the drop of the last user
              IF u = {} THEN Absent ELSE [svc EXCEPT !.users = u], FALSE)}
    ELSE {}       \* dropping a handle of a service that does not exist (any more): unexplainable

ExistOutcomes(p) == {Out("Ok", 0, 0, IF svc.ex THEN 1 ELSE 0, svc, FALSE)}

Outcomes(t) ==
    LET p == pend[t] IN
    CASE p.a = "create" -> CreateOutcomes(p)
      [] p.a = "open"   -> OpenOutcomes(p)
      [] p.a = "ooc"    -> OocOutcomes(p)
      [] p.a = "drop"   -> DropOutcomes(p)
      [] p.a \in {"exist", "list"} -> ExistOutcomes(p)
      [] OTHER -> {}

LinWith(t, o) ==
    /\ pend' = [u \in Threads |->
                  IF u = t
                  THEN [pend[t] EXCEPT !.st = "done", !.r = o.r, !.id = o.id, !.sc = o.sc, !.v = o.v]
                  ELSE IF pend[t].a = "drop" /\ o.v = 1 /\ pend[u].st # "idle"
                       THEN [pend[u] EXCEPT !.ov = @ \cup {"lastdrop"}]      \* overlapped by a teardown
                       ELSE pend[u]]
    /\ svc' = o.nsvc
    /\ gh' = IF o.cr THEN [gh EXCEPT !.next = @ + 1]
             ELSE IF pend[t].a = "drop" /\ t \in gh.ob
                  THEN [gh EXCEPT !.ob = IF o.v = 1 THEN {} ELSE @ \ {t}]
                  ELSE gh
    /\ UNCHANGED ek

\* gh.ob: pending drops one of which is obliged (by RetKnownDeviation) to be the last user's drop
Obliged(t, o) == (pend[t].a = "drop" /\ t \in gh.ob) => (o.v = 1 \/ gh.ob \ {t} # {})

Lin(t) ==
    /\ pend[t].st = "called"
    /\ \E o \in Outcomes(t) : Obliged(t, o) /\ LinWith(t, o)

\* ---------------------------------------------------------------- transient documented errors
Transient(a, r, v, ov) ==
    \/ /\ a = "create"
       /\ r \in {"AlreadyExists", "IsBeingCreatedByAnotherInstance", "HangsInCreation"}
       /\ ov \cap Creators # {}
    \/ /\ a = "open" /\ r = "IsMarkedForDestruction" /\ "drop" \in ov
    \/ /\ a = "open" /\ r = "HangsInCreation" /\ ov \cap Mutators # {}
    \/ /\ a = "ooc"
       /\ r \in {"Open:IsMarkedForDestruction", "Open:HangsInCreation", "Open:DoesNotExist",
                 "Create:AlreadyExists", "Create:IsBeingCreatedByAnotherInstance", "SystemInFlux"}
       /\ ov \cap Mutators # {}
    \/ /\ a \in {"exist", "list"} /\ r = "Ok" /\ v = 0 /\ ov \cap Creators # {}

\* The one known defect that the trace specification steps over (see the header): the call is
\* overlapped by a create/ooc, by a last user's drop that already took effect ("lastdrop"), or by
\* drops that are still to be linearized - one of which is then OBLIGED to be the last user's.
KnownDeviationGuard(t, a, r) ==
    /\ P = "bb" /\ a = "open" /\ r = "ServiceInCorruptedState"
    /\ pend[t].st = "called" /\ pend[t].a = a
    /\ \/ pend[t].ov \cap {"create", "ooc", "lastdrop"} # {}
       \/ \E u \in Threads \ {t} : pend[u].st = "called" /\ pend[u].a = "drop"

RetKnownDeviation(t, a, r) ==
    /\ KnownDeviationGuard(t, a, r)
    /\ pend' = [pend EXCEPT ![t] = IdleRec]
    /\ gh' = IF pend[t].ov \cap {"create", "ooc", "lastdrop"} # {}
             THEN gh
             ELSE [gh EXCEPT !.ob = @ \cup {u \in Threads \ {t} : pend[u].st = "called" /\ pend[u].a = "drop"}]
    /\ UNCHANGED <<svc, ek>>

\* ---------------------------------------------------------------- returns
\* `lid` = the incarnation id the real handle shows (small integers in order of first appearance
\* in the history), `s` = the settings it shows.  Same abstract incarnation <=> same real id; the
\* settings are exactly those the incarnation was created with.
RetDoneGuard(t, a, r, lid, s, v, h) ==
    LET p == pend[t]
        handle == r = "Ok" /\ a \in {"create", "open", "ooc"}
    IN  /\ p.st = "done" /\ p.a = a /\ p.r = r /\ p.h = h
        /\ a \in {"exist", "list"} => p.v = v
        /\ handle => /\ s = NewS(p.sc)
                      /\ svc.ex /\ p.id = svc.id
                      /\ IF svc.lid = 0 THEN lid = gh.seen + 1      \* a real id never seen before
                                        ELSE lid = svc.lid

RetDone(t, a, r, lid, s, v, h) ==
    LET handle == r = "Ok" /\ a \in {"create", "open", "ooc"} IN
    /\ RetDoneGuard(t, a, r, lid, s, v, h)
    /\ IF handle /\ svc.lid = 0
       THEN /\ svc' = [svc EXCEPT !.lid = lid]
            /\ gh' = [gh EXCEPT !.seen = lid]
       ELSE UNCHANGED <<svc, gh>>
    /\ pend' = [pend EXCEPT ![t] = IdleRec]
    /\ UNCHANGED ek

RetTransient(t, a, r, v) ==
    /\ pend[t].st = "called" /\ pend[t].a = a
    /\ Transient(a, r, v, pend[t].ov)
    /\ pend' = [pend EXCEPT ![t] = IdleRec]
    /\ UNCHANGED <<svc, ek, gh>>

Ret(t, a, r, lid, s, v, h) ==
    RetDone(t, a, r, lid, s, v, h) \/ RetTransient(t, a, r, v) \/ RetKnownDeviation(t, a, r)

\* quiescent observation: nobody inside a call
Quiescent(exist, listed, files, shm) ==
    /\ \A t \in Threads : pend[t].st = "idle"
    /\ exist = (IF svc.ex THEN 1 ELSE 0)
    /\ listed = exist
    /\ ~svc.ex => files = 0 /\ shm = 0
    /\ UNCHANGED avars

\* ---------------------------------------------------------------- named invariants
Handle(p) == p.st = "done" /\ p.r = "Ok" /\ p.a \in {"create", "open", "ooc"}

\* at most one creation succeeds per incarnation
AtMostOneCreator == svc.ncr <= 1 /\ (svc.ex => svc.ncr = 1)

\* every handle that is being returned carries exactly the settings the existing incarnation
\* was created with (Ret compares the settings the real handle shows with them)
OpenSeesCreatorSettings ==
    \A t \in Threads : Handle(pend[t]) => pend[t].sc = svc.c /\ pend[t].sc \in DOMAIN Env(ek).cfgs

\* a handle that is being returned belongs to the existing, complete incarnation
NoHalfInitialised ==
    \A t \in Threads : Handle(pend[t]) =>
        svc.ex /\ svc.id = pend[t].id /\ <<pend[t].h, pend[t].nd>> \in svc.users

\* the service exists exactly as long as it has users
LifetimeFollowsUsers == svc.ex <=> svc.users # {}

\* once the last user is gone a (statically valid) create is accepted again - with any settings
RecreatableAfterLast ==
    ~svc.ex => \A t \in Threads :
        pend[t].st = "called" /\ pend[t].a = "create" /\ CreateCheck(P, NewS(pend[t].c)) = "Ok"
            => \E o \in Outcomes(t) : o.r = "Ok" /\ o.nsvc.c = pend[t].c
=============================================================================
