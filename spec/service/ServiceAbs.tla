------------------------------ MODULE ServiceAbs ------------------------------
(***************************************************************************)
(* C06 - PROPERTY LAYER.  One service name (of one messaging pattern) is   *)
(* an atomic object                                                        *)
(*                                                                         *)
(*        absent   |   exists(id, settings, users)                         *)
(*                                                                         *)
(* `id` is the incarnation (every successful creation starts a new one;    *)
(* the real code shows it as `static_config().unique_service_id()`),       *)
(* `settings` the complete creator settings, `users` the set of handles    *)
(* (handle number, node) obtained from create / open / open_or_create and  *)
(* not yet dropped.  The service exists exactly as long as it has users:   *)
(* the drop of the last handle removes it atomically.                      *)
(*                                                                         *)
(* An operation of thread t is  Call (recorded) - Lin (silent, the point   *)
(* at which it takes effect and its result is fixed) - Ret (recorded; the  *)
(* logged result must be the fixed one).  Results:                         *)
(*   create(c)  Ok | AlreadyExists | <static validity error of c>          *)
(*   open(o)    Ok(settings) | DoesNotExist | <error of a failing          *)
(*              requirement, ServiceCompat> | ExceedsMaxNumberOfNodes      *)
(*   ooc(c)     Ok(settings) (created if absent, joined if compatible) |   *)
(*              Open:<requirement error> | Create:<validity error>         *)
(*   drop(h)    Ok                                                         *)
(*   exist / list   1 | 0                                                  *)
(*                                                                         *)
(* TRANSIENT documented errors.  The statement allows a call to end with   *)
(* a documented error instead of a service while the service is being      *)
(* created or torn down by SOMEBODY ELSE.  Such a return has no effect and *)
(* is accepted only if a call of the justifying kind by another thread     *)
(* overlaps it in real time (`ov` = kinds of overlapping calls):           *)
(*   create: AlreadyExists | IsBeingCreatedByAnotherInstance |             *)
(*           HangsInCreation              needs an overlapping create/ooc  *)
(*           (the other creator holds the locked static config)            *)
(*   open:   IsMarkedForDestruction       needs an overlapping drop        *)
(*           HangsInCreation              needs overlapping create/ooc/drop*)
(*   ooc:    Open:IsMarkedForDestruction | Open:HangsInCreation |          *)
(*           Open:DoesNotExist | Create:AlreadyExists |                    *)
(*           Create:IsBeingCreatedByAnotherInstance | SystemInFlux         *)
(*                                        needs overlapping create/ooc/drop*)
(*   exist/list: 0                        needs an overlapping create/ooc  *)
(*           (a service whose static config is still locked is not listed) *)
(* Without such an overlap every call must be explained by the atomic      *)
(* object - in particular in sequential histories.                         *)
(***************************************************************************)
EXTENDS Integers, Sequences, FiniteSets, ServiceCompat

CONSTANT NThreads
Threads == 0..(NThreads - 1)

VARIABLES svc,    \* [ex, id, s, users]
          pend,   \* per thread: the pending call
          env,    \* [pat, cfgs, dflt] of the current run
          gh      \* ghost/history: [next, idmap, ncr, cs]

avars == <<svc, pend, env, gh>>

Absent(d) == [ex |-> FALSE, id |-> 0, s |-> d, users |-> {}]
IdleRec(d) == [st |-> "idle", a |-> "-", nd |-> 0, c |-> 0, h |-> 0,
               r |-> "-", id |-> 0, s |-> d, v |-> 0, ov |-> {}]
Gh0 == [next |-> 1, idmap |-> <<>>, ncr |-> <<>>, cs |-> <<>>]

AInit(p, cfgs, d) ==
    /\ env = [pat |-> p, cfgs |-> cfgs, dflt |-> d]
    /\ svc = Absent(d)
    /\ pend = [t \in Threads |-> IdleRec(d)]
    /\ gh = Gh0

AReset(p, cfgs, d) ==
    /\ env' = [pat |-> p, cfgs |-> cfgs, dflt |-> d]
    /\ svc' = Absent(d)
    /\ pend' = [t \in Threads |-> IdleRec(d)]
    /\ gh' = Gh0

P == env.pat
Req(c) == env.cfgs[c]
NewS(c) == Created(P, Req(c), env.dflt)
NodesOf(users) == {u[2] : u \in users}
NodeFits(nd) == nd \in NodesOf(svc.users) \/ Cardinality(NodesOf(svc.users)) < svc.s.mn

Creators == {"create", "ooc"}
Mutators == {"create", "ooc", "drop"}

\* ---------------------------------------------------------------- calls
Call(t, a, nd, c, h) ==
    /\ pend[t].st = "idle"
    /\ pend' = [u \in Threads |->
                  IF u = t
                  THEN [st |-> "called", a |-> a, nd |-> nd, c |-> c, h |-> h, r |-> "-",
                        id |-> 0, s |-> env.dflt, v |-> 0,
                        ov |-> {pend[x].a : x \in {y \in Threads \ {t} : pend[y].st # "idle"}}]
                  ELSE IF pend[u].st # "idle"
                       THEN [pend[u] EXCEPT !.ov = @ \cup {a}]
                       ELSE pend[u]]
    /\ UNCHANGED <<svc, env, gh>>

\* ---------------------------------------------------------------- outcomes at the linearization point
Out(r, id, s, v, nsvc, cr) == [r |-> r, id |-> id, s |-> s, v |-> v, nsvc |-> nsvc, cr |-> cr]
Fail(r) == Out(r, 0, env.dflt, 0, svc, FALSE)

CreatedSvc(p) == [ex |-> TRUE, id |-> gh.next, s |-> NewS(p.c), users |-> {<<p.h, p.nd>>}]

CreateOutcomes(p) ==
    IF CreateCheck(P, NewS(p.c)) # "Ok" THEN {Fail(CreateCheck(P, NewS(p.c)))}
    ELSE IF svc.ex THEN {Fail("AlreadyExists")}
    ELSE {Out("Ok", gh.next, NewS(p.c), 0, CreatedSvc(p), TRUE)}

\* pre = "" for open, "Open:" for open_or_create
OpenOutcomesEx(p, pre) ==
    LET cs == CompatSet(P, svc.s, Req(p.c)) IN
    IF cs # {"Ok"} THEN {Fail(pre \o e) : e \in cs}
    ELSE IF ~NodeFits(p.nd) THEN {Fail(pre \o "ExceedsMaxNumberOfNodes")}
    ELSE {Out("Ok", svc.id, svc.s, 0, [svc EXCEPT !.users = @ \cup {<<p.h, p.nd>>}], FALSE)}

OpenOutcomes(p) ==
    IF ~svc.ex THEN {Fail("DoesNotExist")} ELSE OpenOutcomesEx(p, "")

OocOutcomes(p) ==
    IF svc.ex THEN OpenOutcomesEx(p, "Open:")
    ELSE IF CreateCheck(P, NewS(p.c)) # "Ok" THEN {Fail("Create:" \o CreateCheck(P, NewS(p.c)))}
    ELSE {Out("Ok", gh.next, NewS(p.c), 0, CreatedSvc(p), TRUE)}

DropOutcomes(p) ==
    IF svc.ex /\ <<p.h, p.nd>> \in svc.users
    THEN LET u == svc.users \ {<<p.h, p.nd>>} IN
         {Out("Ok", 0, env.dflt, 0,
              IF u = {} THEN Absent(env.dflt) ELSE [svc EXCEPT !.users = u], FALSE)}
    ELSE {}       \* dropping a handle of a service that does not exist (any more): unexplainable

ExistOutcomes(p) == {Out("Ok", 0, env.dflt, IF svc.ex THEN 1 ELSE 0, svc, FALSE)}

Outcomes(t) ==
    LET p == pend[t] IN
    CASE p.a = "create" -> CreateOutcomes(p)
      [] p.a = "open"   -> OpenOutcomes(p)
      [] p.a = "ooc"    -> OocOutcomes(p)
      [] p.a = "drop"   -> DropOutcomes(p)
      [] p.a \in {"exist", "list"} -> ExistOutcomes(p)
      [] OTHER -> {}

LinWith(t, o) ==
    /\ pend' = [pend EXCEPT ![t] = [@ EXCEPT !.st = "done", !.r = o.r, !.id = o.id, !.s = o.s, !.v = o.v]]
    /\ svc' = o.nsvc
    /\ gh' = IF o.cr
             THEN [gh EXCEPT !.next = @ + 1, !.idmap = Append(@, 0), !.ncr = Append(@, 1),
                             !.cs = Append(@, o.s)]
             ELSE gh
    /\ UNCHANGED env

Lin(t) ==
    /\ pend[t].st = "called"
    /\ \E o \in Outcomes(t) : LinWith(t, o)

\* ---------------------------------------------------------------- transient documented errors
Transient(a, r, v, ov) ==
    \/ /\ a = "create"
       /\ r \in {"AlreadyExists", "IsBeingCreatedByAnotherInstance", "HangsInCreation"}
       /\ ov \cap Creators # {}
    \/ /\ a = "open" /\ r = "IsMarkedForDestruction" /\ "drop" \in ov
    \/ /\ a = "open" /\ r = "HangsInCreation" /\ ov \cap Mutators # {}
    \/ /\ a = "ooc"
       /\ r \in {"Open:IsMarkedForDestruction", "Open:HangsInCreation", "Open:DoesNotExist",
                 "Create:AlreadyExists", "Create:IsBeingCreatedByAnotherInstance", "SystemInFlux"}
       /\ ov \cap Mutators # {}
    \/ /\ a \in {"exist", "list"} /\ r = "Ok" /\ v = 0 /\ ov \cap Creators # {}

\* ---------------------------------------------------------------- returns
IdRange == {gh.idmap[i] : i \in DOMAIN gh.idmap}

\* `lid` = the incarnation id the real handle shows.  Same abstract incarnation <=> same id.
RetDone(t, a, r, lid, s, v, h) ==
    LET p == pend[t]
        handle == r = "Ok" /\ a \in {"create", "open", "ooc"}
    IN  /\ p.st = "done" /\ p.a = a /\ p.r = r /\ p.h = h
        /\ a \in {"exist", "list"} => p.v = v
        /\ handle => p.s = s /\ lid > 0
        /\ IF handle /\ gh.idmap[p.id] = 0
           THEN /\ lid \notin IdRange
                /\ gh' = [gh EXCEPT !.idmap[p.id] = lid]
           ELSE /\ handle => gh.idmap[p.id] = lid
                /\ gh' = gh
        /\ pend' = [pend EXCEPT ![t] = IdleRec(env.dflt)]
        /\ UNCHANGED <<svc, env>>

RetTransient(t, a, r, v) ==
    /\ pend[t].st = "called" /\ pend[t].a = a
    /\ Transient(a, r, v, pend[t].ov)
    /\ pend' = [pend EXCEPT ![t] = IdleRec(env.dflt)]
    /\ UNCHANGED <<svc, env, gh>>

Ret(t, a, r, lid, s, v, h) == RetDone(t, a, r, lid, s, v, h) \/ RetTransient(t, a, r, v)

\* quiescent observation: nobody inside a call
Quiescent(exist, listed, files, shm) ==
    /\ \A t \in Threads : pend[t].st = "idle"
    /\ exist = (IF svc.ex THEN 1 ELSE 0)
    /\ listed = exist
    /\ ~svc.ex => files = 0 /\ shm = 0
    /\ UNCHANGED avars

\* ---------------------------------------------------------------- named invariants
Handle(p) == p.st = "done" /\ p.r = "Ok" /\ p.a \in {"create", "open", "ooc"}

\* at most one creation succeeds per incarnation, and incarnations are distinguishable
AtMostOneCreator ==
    /\ \A i \in DOMAIN gh.ncr : gh.ncr[i] <= 1
    /\ \A i, j \in DOMAIN gh.idmap : i # j /\ gh.idmap[i] # 0 => gh.idmap[i] # gh.idmap[j]

\* every handle shows exactly the settings its incarnation was created with
OpenSeesCreatorSettings ==
    /\ svc.ex => svc.id \in DOMAIN gh.cs /\ svc.s = gh.cs[svc.id]
    /\ \A t \in Threads : Handle(pend[t]) => pend[t].id \in DOMAIN gh.cs /\ pend[t].s = gh.cs[pend[t].id]

\* a handle that is being returned belongs to the existing, complete incarnation
NoHalfInitialised ==
    \A t \in Threads : Handle(pend[t]) =>
        svc.ex /\ svc.id = pend[t].id /\ <<pend[t].h, pend[t].nd>> \in svc.users

\* the service exists exactly as long as it has users
LifetimeFollowsUsers == svc.ex <=> svc.users # {}

\* once the last user is gone a (statically valid) create is accepted again - with any settings
RecreatableAfterLast ==
    ~svc.ex => \A t \in Threads :
        pend[t].st = "called" /\ pend[t].a = "create" /\ CreateCheck(P, NewS(pend[t].c)) = "Ok"
            => \E o \in Outcomes(t) : o.r = "Ok" /\ o.nsvc.s = NewS(pend[t].c)
=============================================================================
