SPECIFICATION MCSpec
CONSTANTS
 NThreads = 2
 MaxCalls = 5
 Env <- MCEnv
INVARIANTS AtMostOneCreator OpenSeesCreatorSettings NoHalfInitialised LifetimeFollowsUsers RecreatableAfterLast UsersWellFormed
CHECK_DEADLOCK FALSE
