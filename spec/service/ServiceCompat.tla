---------------------------- MODULE ServiceCompat ----------------------------
(***************************************************************************)
(* C06 - the requirement matrix of `verify_service_configuration` (and of  *)
(* the type check of `is_service_available`) for the four messaging        *)
(* patterns, as a TLA+ function.                                           *)
(*                                                                         *)
(* A *settings record* has one field per setting of the pattern.  A        *)
(* creator record `c` holds the settings the service was created with      *)
(* (what `static_config()` of every handle must show).  An opener record   *)
(* `o` holds requirements: UNSET (-2) = the builder setter was not called  *)
(* (nothing is verified), otherwise the value passed to the setter.        *)
(*                                                                         *)
(*   pattern "ps" publish-subscribe                                        *)
(*     ty tv sz al     payload type name / variant (0 fixed, 1 dynamic) /  *)
(*                     size / alignment                                    *)
(*     mp ms           max_publishers, max_subscribers              (>=)   *)
(*     buf hist bor    subscriber_max_buffer_size, history_size,           *)
(*                     subscriber_max_borrowed_samples              (>=)   *)
(*     ov              enable_safe_overflow (0/1)                   (=)    *)
(*     mn              max_nodes                                    (>=)   *)
(*   pattern "ev" event                                                    *)
(*     mnot mlis eid mn  max_notifiers, max_listeners,                     *)
(*                     event_id_max_value, max_nodes                (>=)   *)
(*     ce de xe        notifier created / dropped / dead event id,         *)
(*                     -1 = disabled                                (=)    *)
(*     dl              deadline in ms, -1 = disabled                (=)    *)
(*   pattern "rr" request-response                                         *)
(*     qty qtv qsz qal / sty stv ssz sal   request / response payload type *)
(*     ovq ovs faf     safe overflow for requests / responses,             *)
(*                     fire-and-forget requests                     (=)    *)
(*     act loan bor buf msrv mcli mn                                (>=)   *)
(*   pattern "bb" blackboard                                               *)
(*     kty ksz kal     key type name / size / alignment (exact match)      *)
(*     mr mn           max_readers, max_nodes                       (>=)   *)
(*   all patterns                                                          *)
(*     at              attribute "k": creator -2 = not defined, v >= 0 =   *)
(*                     defined with value v; opener -2 = nothing required, *)
(*                     -1 = key required, v >= 0 = key with value v        *)
(*                                                                         *)
(* The documentation fixes WHICH error belongs to which requirement, not   *)
(* which of several simultaneously failing requirements is reported, so    *)
(* the specified outcome is a SET: {"Ok"} or the errors of all failing     *)
(* requirements.                                                           *)
(***************************************************************************)
EXTENDS Integers, Sequences, FiniteSets

UNSET == -2

\* requirements verified with `existing < required  =>  error`
GEChecks(p) ==
    CASE p = "ps" -> << <<"mp",   "DoesNotSupportRequestedAmountOfPublishers">>,
                        <<"ms",   "DoesNotSupportRequestedAmountOfSubscribers">>,
                        <<"buf",  "DoesNotSupportRequestedMinBufferSize">>,
                        <<"hist", "DoesNotSupportRequestedMinHistorySize">>,
                        <<"bor",  "DoesNotSupportRequestedMinSubscriberBorrowedSamples">>,
                        <<"mn",   "DoesNotSupportRequestedAmountOfNodes">> >>
      [] p = "ev" -> << <<"mnot", "DoesNotSupportRequestedAmountOfNotifiers">>,
                        <<"mlis", "DoesNotSupportRequestedAmountOfListeners">>,
                        <<"eid",  "DoesNotSupportRequestedMaxEventId">>,
                        <<"mn",   "DoesNotSupportRequestedAmountOfNodes">> >>
      [] p = "rr" -> << <<"act",  "DoesNotSupportRequestedAmountOfActiveRequestsPerClient">>,
                        <<"loan", "DoesNotSupportRequestedAmountOfClientRequestLoans">>,
                        <<"bor",  "DoesNotSupportRequestedAmountOfBorrowedResponsesPerPendingResponse">>,
                        <<"buf",  "DoesNotSupportRequestedResponseBufferSize">>,
                        <<"msrv", "DoesNotSupportRequestedAmountOfServers">>,
                        <<"mcli", "DoesNotSupportRequestedAmountOfClients">>,
                        <<"mn",   "DoesNotSupportRequestedAmountOfNodes">> >>
      [] p = "bb" -> << <<"mr",   "DoesNotSupportRequestedAmountOfReaders">>,
                        <<"mn",   "DoesNotSupportRequestedAmountOfNodes">> >>

\* requirements verified with `existing # required  =>  error`
EQChecks(p) ==
    CASE p = "ps" -> << <<"ov",  "IncompatibleOverflowBehavior">> >>
      [] p = "ev" -> << <<"ce",  "IncompatibleNotifierCreatedEvent">>,
                        <<"de",  "IncompatibleNotifierDroppedEvent">>,
                        <<"xe",  "IncompatibleNotifierDeadEvent">>,
                        <<"dl",  "IncompatibleDeadline">> >>
      [] p = "rr" -> << <<"ovq", "IncompatibleOverflowBehaviorForRequests">>,
                        <<"ovs", "IncompatibleOverflowBehaviorForResponses">>,
                        <<"faf", "IncompatibleBehaviorForFireAndForgetRequests">> >>
      [] p = "bb" -> << >>

\* MessageTypeDetails::is_compatible_to (required.is_compatible_to(existing)): same name,
\* variant and size; the required alignment may be smaller.  Blackboard keys: exact equality.
TypeOk(p, c, o) ==
    CASE p = "ps" -> /\ o.ty = c.ty /\ o.tv = c.tv /\ o.sz = c.sz /\ o.al <= c.al
      [] p = "ev" -> TRUE
      [] p = "rr" -> /\ o.qty = c.qty /\ o.qtv = c.qtv /\ o.qsz = c.qsz /\ o.qal <= c.qal
                     /\ o.sty = c.sty /\ o.stv = c.stv /\ o.ssz = c.ssz /\ o.sal <= c.sal
      [] p = "bb" -> /\ o.kty = c.kty /\ o.ksz = c.ksz /\ o.kal = c.kal

TypeErr(p) ==
    CASE p = "ps" -> "IncompatibleTypes"
      [] p = "ev" -> "IncompatibleTypes"       \* unreachable: events carry no payload type
      [] p = "rr" -> "IncompatibleRequestOrResponseType"
      [] p = "bb" -> "IncompatibleKeys"

AttrOk(c, o) ==
    \/ o.at = UNSET
    \/ o.at = -1 /\ c.at # UNSET
    \/ o.at >= 0 /\ c.at = o.at

Failing(p, c, o) ==
    LET ge == GEChecks(p)
        eq == EQChecks(p)
    IN  (IF TypeOk(p, c, o) THEN {} ELSE {TypeErr(p)})
        \cup (IF AttrOk(c, o) THEN {} ELSE {"IncompatibleAttributes"})
        \cup { ge[i][2] : i \in { j \in DOMAIN ge : o[ge[j][1]] # UNSET /\ c[ge[j][1]] < o[ge[j][1]] } }
        \cup { eq[i][2] : i \in { j \in DOMAIN eq : o[eq[j][1]] # UNSET /\ c[eq[j][1]] # o[eq[j][1]] } }

\* the specified outcome of opening a service created with `c` under the requirements `o`
CompatSet(p, c, o) ==
    IF Failing(p, c, o) = {} THEN {"Ok"} ELSE Failing(p, c, o)

Compatible(p, c, o) == Failing(p, c, o) = {}

\* fields a creator may leave to the configured defaults
QosFields(p) ==
    CASE p = "ps" -> {"mp", "ms", "buf", "hist", "bor", "ov", "mn"}
      [] p = "ev" -> {"mnot", "mlis", "eid", "mn", "ce", "de", "xe", "dl"}
      [] p = "rr" -> {"ovq", "ovs", "faf", "act", "loan", "bor", "buf", "msrv", "mcli", "mn"}
      [] p = "bb" -> {"mr", "mn"}

\* the complete settings of a service created from the builder record `c` with defaults `d`
Created(p, c, d) ==
    [f \in DOMAIN c |-> IF f \in QosFields(p) /\ c[f] = UNSET THEN d[f] ELSE c[f]]

\* static validity of a creator record (checked before anything is touched)
\* (tv = 2: a FlatBuffers payload for which no schema file exists - the type definition cannot be acquired)
CreateCheck(p, s) ==
    IF p = "ps" /\ s.ov = 0 /\ s.buf < s.hist
    THEN "SubscriberBufferMustBeLargerThanHistorySize"
    ELSE IF p = "ps" /\ s.tv = 2
    THEN "UnableToAcquireTypeDefinition"
    ELSE "Ok"
=============================================================================
