---------------------------- MODULE ServiceAbsRuns ----------------------------
(***************************************************************************)
(* Validation of INDEPENDENT runs in ONE TLC invocation (C06: the fault-   *)
(* injection and crashed-creator histories - one isolated domain per run,  *)
(* sequential calls).  Every `reset` record is an initial state; a run is  *)
(* explained iff the position behind its last record is reachable.  The    *)
(* furthest position reached in run r is kept in TLC register 100 + r      *)
(* (needs -workers 1); the verdict of every run is printed by the          *)
(* postcondition:   <<"RUN", first record, furthest position, end>>        *)
(* (explained iff furthest = end; otherwise Rec[furthest] is the first     *)
(* unexplained record).  One unexplainable run (a known finding, say) does *)
(* not hide the others.  The actions are those of ServiceAbsTrace.         *)
(***************************************************************************)
EXTENDS ServiceAbsTrace

VARIABLE run
rvars == <<svc, pend, ek, gh, l, run>>

RunStarts == {i \in 1..NRec : Rec[i].k = "reset"}
RunEnd == [r \in RunStarts |->
             LET later == {j \in RunStarts : j > r} IN
             IF later = {} THEN NRec + 1 ELSE CHOOSE j \in later : \A k \in later : j <= k]

RunsInit ==
    \E r \in RunStarts :
        /\ l = r /\ run = r
        /\ AInit(r)
        /\ TLCSet(100 + r, r)

RunsNext ==
    /\ l < RunEnd[run]
    /\ Silent \/ Consume
    /\ UNCHANGED run

RunsSpec == RunsInit /\ [][RunsNext]_rvars

RunsProgress == IF TLCGet(100 + run) < l THEN TLCSet(100 + run, l) ELSE TRUE
RunsVerdict == \A r \in RunStarts : PrintT(<<"RUN", r, TLCGet(100 + r), RunEnd[r]>>)
=============================================================================
