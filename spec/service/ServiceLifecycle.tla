--------------------------- MODULE ServiceLifecycle ---------------------------
(***************************************************************************)
(* C06 - IMPLEMENTATION-SHAPED LAYER.  NThreads nodes (one process each,   *)
(* one handle slot each) x one service name.  One action per step of       *)
(* builder/mod.rs (create / open / open_or_create) and service/mod.rs      *)
(* (ServiceState::drop), over the shared objects                           *)
(*   sfile  the static config file: none | locked (exclusive create, init  *)
(*          permission) | ready (content written, final permission);       *)
(*          removed BY NAME by the last user                               *)
(*   dyn[i] the dynamic config of incarnation i (named by the unique       *)
(*          service id): none | init (created, version 0) | ready          *)
(*          (finalised) | removed (unlinked; processes that mapped it      *)
(*          before still reach its registry), its node registry `reg` and  *)
(*          the lock set by the deregistration of the last node            *)
(*   res[i] the additional resources of incarnation i (blackboard)         *)
(*   tags   the per-node service tags                                      *)
(* Time is abstracted to a retry budget per call.                          *)
(*                                                                         *)
(*  create: c_avail (availability) -> c_tag -> c_lock (create_locked; the  *)
(*          winner is THE creator) -> c_write -> c_unlock -> c_res ->      *)
(*          c_dyn (create, init) -> c_reg (register own node, in the       *)
(*          initializer) -> c_fin (finalise) -> ret                        *)
(*  open:   o_avail (waits while locked; verifies requirements) -> o_tag   *)
(*          -> o_res -> o_dyn (waits while absent / not finalised; then    *)
(*          re-checks availability) -> o_reg (register node or             *)
(*          IsMarkedForDestruction) -> ret                                 *)
(*  ooc:    open; DoesNotExist -> create; AlreadyExists / transient ->     *)
(*          retry while the budget lasts                                   *)
(*  drop:   d_tag -> d_dereg (LockIfLastIndex) -> [last: d_dyn -> d_res    *)
(*          -> d_static (static config LAST)] -> ret                       *)
(*                                                                         *)
(* The property layer runs in lock step as a shadow (EXTENDS ServiceAbs):  *)
(* every call of the model is a Call of the abstract object, the step at   *)
(* which its result is decided is the linearization point, the return is   *)
(* the abstract Ret.  `bad` becomes TRUE as soon as a result of the model  *)
(* cannot be explained by the abstract object (neither linearizable nor a  *)
(* justified transient error).  Checked: Explainable (~bad), the named     *)
(* invariants of ServiceAbs on the shadow, their implementation-level      *)
(* counterparts below, and Termination.                                    *)
(*                                                                         *)
(* Structure parameters (TRUE/TRUE/TRUE = the code as read; the other      *)
(* values are the classic mistakes and must be REFUTED):                   *)
(*   WriteBeforeUnlock  content written before the final permission        *)
(*   LockOnLast         last deregistration locks the registry             *)
(*   RegisterInInit     creator registers its node before finalisation     *)
(*   ReleaseStaticLate  the creator keeps the ownership of the static      *)
(*                      config until the END of create(): every later step *)
(*                      that fails removes it again (FALSE = released      *)
(*                      right after unlock: a failing step leaves a zombie)*)
(*   TagOwnedUntilDone  create()/open() own the service tag until they     *)
(*                      succeeded: every failing step removes it again     *)
(*   BoundedDynWait     open(): the wait for a dynamic config that does    *)
(*                      not exist / is not finalised is bounded by the     *)
(*                      creation timeout (FALSE = retried at once, for     *)
(*                      ever when the creator died)                        *)
(* (The static config is removed last; a different removal order matters   *)
(* for crash recovery - C04 - and is not observable by C06.)               *)
(*                                                                         *)
(* FAILING ENVIRONMENT: at most MaxFaults times in a behaviour the system  *)
(* call of a step of create / open fails (CTagFail ... ODynFail); the      *)
(* call then takes the code's error path: whatever the call still OWNS is  *)
(* removed again and a documented environment error is returned, which the *)
(* property layer accepts only WITHOUT effect (RetEnv).                    *)
(* CRASHES: at most MaxCrashes times a process dies at an arbitrary point  *)
(* (Crash); nothing is cleaned up (dead-node cleanup is C04).  The calls   *)
(* of the surviving processes must still terminate (Termination) and be    *)
(* explained by the property layer.                                        *)
(***************************************************************************)
EXTENDS ServiceAbs, TLC

CONSTANTS MaxOps, Budget, MaxInc, HasResources, UseOoc,
          WriteBeforeUnlock, LockOnLast, RegisterInInit,
          ReleaseStaticLate, TagOwnedUntilDone, BoundedDynWait, MaxFaults, MaxCrashes

VARIABLES sfile, dyn, res, tags, nextInc, pc, loc, incc, bad, nf, nc

ivars == <<sfile, dyn, res, tags, nextInc, pc, loc, incc, bad, nf, nc>>
lvars == <<svc, pend, ek, gh, sfile, dyn, res, tags, nextInc, pc, loc, incc, bad, nf, nc>>

\* ---- the run configuration (blackboard-shaped records are the smallest) -------------------
BB(mr, mn, at) == [kty |-> "u64", ksz |-> 8, kal |-> 8, mr |-> mr, mn |-> mn, at |-> at]
LCfgs == << BB(2, 4, UNSET), BB(3, 4, 7), BB(3, UNSET, UNSET) >>     \* 1, 2 creators; 3 opener (needs mr >= 3)
LDflt == BB(4, 4, UNSET)
LEnv(k) == [pat |-> "bb", cfgs |-> LCfgs, dflt |-> LDflt]
CreatorCfgs == {1, 2}
OpenerCfgs == {1, 3}

NoDyn == [st |-> "none", reg |-> {}, locked |-> FALSE]
LocIdle == [op |-> "-", c |-> 0, ph |-> "-", rid |-> 0, rc |-> 0, hid |-> 0, hc |-> 0,
            budget |-> 0, r |-> "-", ops |-> 0, flt |-> 0]

LInit ==
    /\ AInit(1)
    /\ sfile = [st |-> "none", id |-> 0, c |-> 0]
    /\ dyn = [i \in 1..MaxInc |-> NoDyn]
    /\ res = [i \in 1..MaxInc |-> FALSE]
    /\ tags = {}
    /\ nextInc = 1
    /\ pc = [p \in Threads |-> "idle"]
    /\ loc = [p \in Threads |-> LocIdle]
    /\ incc = [i \in 1..MaxInc |-> 0]
    /\ bad = FALSE
    /\ nf = 0 /\ nc = 0

Slot(p) == p + 1
\* the error paths remove the service tag again as long as the call owns it
DropTag(p) == IF TagOwnedUntilDone THEN tags \ {p} ELSE tags
Goto(p, l) == pc' = [pc EXCEPT ![p] = l]
KeepShadow == UNCHANGED <<svc, pend, ek, gh>>

\* ---- shadow plumbing ------------------------------------------------------------------------
\* the model decided the result r of p's call: linearize if the abstract object can produce r now
Decide(p, r) ==
    LET cand == {o \in Outcomes(p) : o.r = r /\ Obliged(p, o)} IN
    /\ IF pend[p].st = "called" /\ cand # {}
       THEN LinWith(p, CHOOSE o \in cand : TRUE)
       ELSE KeepShadow
    /\ Goto(p, "ret")

SetR(p, r) == [loc EXCEPT ![p].r = r]

Prefix(p) == IF loc[p].op = "ooc" THEN (IF loc[p].ph = "create" THEN "Create:" ELSE "Open:") ELSE ""

\* ---- starting a call -------------------------------------------------------------------------
Start(p, op, c) ==
    /\ pc[p] = "idle" /\ loc[p].ops < MaxOps
    /\ Call(p, op, p, c, Slot(p))
    /\ loc' = [loc EXCEPT ![p].op = op, ![p].c = c, ![p].budget = Budget, ![p].r = "-",
                          ![p].ph = IF op = "create" THEN "create" ELSE IF op = "drop" THEN "-" ELSE "open",
                          ![p].ops = @ + 1, ![p].flt = 0]
    /\ Goto(p, CASE op = "create" -> "c_avail" [] op = "drop" -> "d_tag" [] OTHER -> "o_avail")
    /\ UNCHANGED <<sfile, dyn, res, tags, nextInc, incc, bad, nf, nc>>

StartAny(p) ==
    \/ loc[p].hid = 0 /\ \E c \in CreatorCfgs : Start(p, "create", c)
    \/ loc[p].hid = 0 /\ \E c \in OpenerCfgs : Start(p, "open", c)
    \/ loc[p].hid = 0 /\ UseOoc /\ \E c \in CreatorCfgs : Start(p, "ooc", c)
    \/ loc[p].hid # 0 /\ Start(p, "drop", 0)

\* open_or_create: another round, or give up with the last error when the time is over
Retry(p, err) ==
    IF loc[p].budget > 0
    THEN /\ loc' = [loc EXCEPT ![p].budget = @ - 1, ![p].ph = "open"]
         /\ Goto(p, "o_avail") /\ KeepShadow
    ELSE /\ loc' = SetR(p, err)
         /\ Decide(p, err)

\* a call ends with the error `e` (un-prefixed); inside open_or_create some errors mean "try again"
FailWith(p, e) ==
    IF loc[p].op = "ooc" /\ loc[p].ph = "open" /\ e = "DoesNotExist"
    THEN /\ loc' = [loc EXCEPT ![p].ph = "create"] /\ Goto(p, "c_avail") /\ KeepShadow
    ELSE IF loc[p].op = "ooc" /\ e \in {"HangsInCreation", "IsMarkedForDestruction", "AlreadyExists"}
    THEN Retry(p, Prefix(p) \o e)
    ELSE /\ loc' = SetR(p, Prefix(p) \o e)
         /\ Decide(p, Prefix(p) \o e)

\* ---- create ------------------------------------------------------------------------------------
CAvail(p) ==
    /\ pc[p] = "c_avail"
    /\ UNCHANGED <<sfile, dyn, res, tags, nextInc, incc, bad, nf, nc>>
    /\ CASE sfile.st = "none"   -> Goto(p, "c_tag") /\ UNCHANGED loc /\ KeepShadow
         [] sfile.st = "locked" -> FailWith(p, "AlreadyExists")      \* HangsInCreation -> AlreadyExists
         [] sfile.st = "ready"  -> IF sfile.c = 0
                                   THEN FailWith(p, "ServiceInCorruptedState")
                                   ELSE FailWith(p, "AlreadyExists")

CTag(p) ==
    /\ pc[p] = "c_tag"
    /\ tags' = tags \cup {p}
    /\ Goto(p, "c_lock")
    /\ UNCHANGED <<sfile, dyn, res, nextInc, loc, incc, bad, nf, nc>> /\ KeepShadow

\* StaticStorage::create_locked - exclusive creation decides the creator (linearization point; a later step
\* that fails WITHDRAWS the creation again, see EnvError)
CLock(p) ==
    /\ pc[p] = "c_lock"
    /\ UNCHANGED <<dyn, res, bad, nf, nc>>
    /\ IF sfile.st = "none" /\ nextInc <= MaxInc
       THEN /\ sfile' = [st |-> "locked", id |-> nextInc, c |-> 0]
            /\ nextInc' = nextInc + 1
            /\ incc' = [incc EXCEPT ![nextInc] = loc[p].c]
            /\ loc' = [loc EXCEPT ![p].rid = nextInc, ![p].rc = loc[p].c, ![p].r = "Ok"]
            /\ tags' = tags
            /\ LET cand == {o \in Outcomes(p) : o.r = "Ok"} IN
               IF pend[p].st = "called" /\ cand # {}
               THEN LinWith(p, CHOOSE o \in cand : TRUE) ELSE KeepShadow
            /\ Goto(p, IF WriteBeforeUnlock THEN "c_write" ELSE "c_unlock")
       ELSE /\ sfile.st # "none"                     \* (nextInc > MaxInc: the model is exhausted, no step)
            /\ tags' = DropTag(p)
            /\ UNCHANGED <<sfile, nextInc, incc>>
            /\ FailWith(p, "AlreadyExists")

CWrite(p) ==
    /\ pc[p] = "c_write"
    /\ sfile' = [sfile EXCEPT !.c = loc[p].c]
    /\ Goto(p, IF WriteBeforeUnlock THEN "c_unlock" ELSE "c_res")
    /\ UNCHANGED <<dyn, res, tags, nextInc, loc, incc, bad, nf, nc>> /\ KeepShadow

CUnlock(p) ==
    /\ pc[p] = "c_unlock"
    /\ sfile' = [sfile EXCEPT !.st = "ready"]
    /\ Goto(p, IF WriteBeforeUnlock THEN "c_res" ELSE "c_write")
    /\ UNCHANGED <<dyn, res, tags, nextInc, loc, incc, bad, nf, nc>> /\ KeepShadow

CRes(p) ==
    /\ pc[p] = "c_res"
    /\ res' = [res EXCEPT ![loc[p].rid] = HasResources]
    /\ Goto(p, "c_dyn")
    /\ UNCHANGED <<sfile, dyn, tags, nextInc, loc, incc, bad, nf, nc>> /\ KeepShadow

CDyn(p) ==
    /\ pc[p] = "c_dyn"
    /\ dyn' = [dyn EXCEPT ![loc[p].rid] = [st |-> "init", reg |-> {}, locked |-> FALSE]]
    /\ Goto(p, IF RegisterInInit THEN "c_reg" ELSE "c_fin")
    /\ UNCHANGED <<sfile, res, tags, nextInc, loc, incc, bad, nf, nc>> /\ KeepShadow

CReg(p) ==
    /\ pc[p] = "c_reg"
    /\ UNCHANGED <<sfile, res, tags, nextInc, incc, nf, nc>> /\ KeepShadow
    /\ IF dyn[loc[p].rid].locked
       THEN \* "This should never happen": the creator cannot register in its own service
            /\ bad' = TRUE /\ UNCHANGED <<dyn, loc>> /\ Goto(p, "ret")
       ELSE /\ dyn' = [dyn EXCEPT ![loc[p].rid].reg = @ \cup {p}]
            /\ UNCHANGED <<loc, bad, nf, nc>>
            /\ Goto(p, IF RegisterInInit THEN "c_fin" ELSE "ret")

CFin(p) ==
    /\ pc[p] = "c_fin"
    /\ dyn' = [dyn EXCEPT ![loc[p].rid].st = "ready"]
    /\ Goto(p, IF RegisterInInit THEN "ret" ELSE "c_reg")
    /\ UNCHANGED <<sfile, res, tags, nextInc, loc, incc, bad, nf, nc>> /\ KeepShadow

\* ---- open ----------------------------------------------------------------------------------------
Wait(p) ==   \* one tick of the adaptive wait; HangsInCreation when the time is over
    IF loc[p].budget > 0
    THEN /\ loc' = [loc EXCEPT ![p].budget = @ - 1] /\ Goto(p, "o_avail") /\ KeepShadow
    ELSE FailWith(p, "HangsInCreation")

\* the wait of the "dynamic config absent / not finalised" branch of open()
DynWait(p) ==
    IF BoundedDynWait THEN Wait(p)
    ELSE /\ Goto(p, "o_avail") /\ UNCHANGED loc /\ KeepShadow       \* `continue` without looking at the clock

OAvail(p) ==
    /\ pc[p] = "o_avail"
    /\ UNCHANGED <<sfile, dyn, res, tags, nextInc, incc, bad, nf, nc>>
    /\ CASE sfile.st = "none"   -> FailWith(p, "DoesNotExist")
         [] sfile.st = "locked" -> Wait(p)
         [] sfile.st = "ready"  ->
              IF sfile.c = 0
              THEN FailWith(p, "ServiceInCorruptedState")     \* empty content cannot be deserialized
              ELSE LET cs == CompatSet(P, NewS(sfile.c), Req(loc[p].c)) IN
                   IF cs # {"Ok"}
                   THEN \E e \in cs : FailWith(p, e)
                   ELSE /\ loc' = [loc EXCEPT ![p].rid = sfile.id, ![p].rc = sfile.c]
                        /\ Goto(p, "o_tag") /\ KeepShadow

OTag(p) ==
    /\ pc[p] = "o_tag"
    /\ tags' = tags \cup {p}
    /\ Goto(p, "o_res")
    /\ UNCHANGED <<sfile, dyn, res, nextInc, loc, incc, bad, nf, nc>> /\ KeepShadow

ORes(p) ==
    /\ pc[p] = "o_res"
    /\ UNCHANGED <<sfile, dyn, res, nextInc, incc, bad, nf, nc>>
    /\ IF HasResources /\ ~res[loc[p].rid]
       THEN tags' = DropTag(p) /\ FailWith(p, "ServiceInCorruptedState")
       ELSE tags' = tags /\ Goto(p, "o_dyn") /\ UNCHANGED loc /\ KeepShadow

ODyn(p) ==
    /\ pc[p] = "o_dyn"
    /\ UNCHANGED <<sfile, dyn, res, nextInc, incc, bad, nf, nc>>
    /\ IF dyn[loc[p].rid].st = "ready"
       THEN tags' = tags /\ Goto(p, "o_reg") /\ UNCHANGED loc /\ KeepShadow
       ELSE tags' = DropTag(p) /\ DynWait(p)

ORegister(p) ==
    /\ pc[p] = "o_reg"
    /\ UNCHANGED <<sfile, res, nextInc, incc, bad, nf, nc>>
    /\ IF dyn[loc[p].rid].locked
       THEN /\ tags' = DropTag(p) /\ UNCHANGED dyn
            /\ FailWith(p, "IsMarkedForDestruction")
       ELSE /\ dyn' = [dyn EXCEPT ![loc[p].rid].reg = @ \cup {p}]
            /\ tags' = tags
            /\ loc' = SetR(p, "Ok")
            /\ Decide(p, "Ok")

\* ---- drop ----------------------------------------------------------------------------------------
DTag(p) ==
    /\ pc[p] = "d_tag"
    /\ tags' = tags \ {p}
    /\ Goto(p, "d_dereg")
    /\ UNCHANGED <<sfile, dyn, res, nextInc, loc, incc, bad, nf, nc>> /\ KeepShadow

\* deregister_node_id with ReleaseMode::LockIfLastIndex (one atomic step of the index set)
DDereg(p) ==
    /\ pc[p] = "d_dereg"
    /\ UNCHANGED <<sfile, res, tags, nextInc, incc, bad, nf, nc>>
    /\ LET i == loc[p].hid
           r2 == dyn[i].reg \ {p}
       IN IF r2 = {}
          THEN /\ dyn' = [dyn EXCEPT ![i].reg = r2, ![i].locked = LockOnLast]
               /\ loc' = SetR(p, "Ok")
               /\ Goto(p, "d_dyn") /\ KeepShadow
          ELSE /\ dyn' = [dyn EXCEPT ![i].reg = r2]
               /\ loc' = SetR(p, "Ok")
               /\ Decide(p, "Ok")

DDyn(p) ==
    /\ pc[p] = "d_dyn"
    /\ dyn' = [dyn EXCEPT ![loc[p].hid].st = "removed"]
    /\ Goto(p, "d_res")
    /\ UNCHANGED <<sfile, res, tags, nextInc, loc, incc, bad, nf, nc>> /\ KeepShadow

DRes(p) ==
    /\ pc[p] = "d_res"
    /\ res' = [res EXCEPT ![loc[p].hid] = FALSE]
    /\ UNCHANGED <<sfile, dyn, tags, nextInc, loc, incc, bad, nf, nc>>
    /\ Goto(p, "d_static") /\ KeepShadow

\* the static config is removed BY NAME; with it the service is gone (linearization point)
DStatic(p) ==
    /\ pc[p] = "d_static"
    /\ sfile' = [st |-> "none", id |-> 0, c |-> 0]
    /\ UNCHANGED <<dyn, res, tags, nextInc, loc, incc, bad, nf, nc>>
    /\ Decide(p, "Ok")

\* ---- failing environment -------------------------------------------------------------------------------
\* The system call of the current step of p fails; the call ends with a documented environment error after
\* the code's error path has removed what the call still owns.
EnvError(p) ==
    /\ nf < MaxFaults /\ nf' = nf + 1 /\ nc' = nc
    /\ bad' = bad /\ nextInc' = nextInc /\ incc' = incc
    /\ loc' = [loc EXCEPT ![p].flt = 1, ![p].r = Prefix(p) \o "InternalFailure"]
    \* a creation that was already visible (linearized at CLock) is withdrawn - like the drop of its handle
    /\ IF pend[p].st = "done" THEN Withdraw(p) ELSE KeepShadow
    /\ Goto(p, "ret")

NoFile == [st |-> "none", id |-> 0, c |-> 0]

\* create_service_tag fails: nothing exists yet
CTagFail(p) ==
    /\ pc[p] = "c_tag" /\ EnvError(p)
    /\ UNCHANGED <<sfile, dyn, res, tags>>
\* create_locked fails for another reason than AlreadyExists: the tag goes
CLockFail(p) ==
    /\ pc[p] = "c_lock" /\ sfile.st = "none" /\ EnvError(p)
    /\ tags' = DropTag(p) /\ UNCHANGED <<sfile, dyn, res>>
\* writing / unlocking fails: the locked static config is owned by the call and removed with it
CUnlockFail(p) ==
    /\ pc[p] \in {"c_write", "c_unlock"} /\ EnvError(p)
    /\ sfile' = NoFile /\ tags' = DropTag(p) /\ UNCHANGED <<dyn, res>>
\* creating the resources fails (after the static config was unlocked)
CResFail(p) ==
    /\ pc[p] = "c_res" /\ EnvError(p)
    /\ sfile' = IF ReleaseStaticLate THEN NoFile ELSE sfile
    /\ tags' = DropTag(p) /\ UNCHANGED <<dyn, res>>
\* creating the dynamic config fails: resources, static config and tag are still owned
CDynFail(p) ==
    /\ pc[p] = "c_dyn" /\ EnvError(p)
    /\ sfile' = IF ReleaseStaticLate THEN NoFile ELSE sfile
    /\ res' = [res EXCEPT ![loc[p].rid] = FALSE]
    /\ tags' = DropTag(p) /\ UNCHANGED dyn
\* open: reading the static config / creating the tag / opening the resources / the dynamic config fails
OAvailFail(p) ==
    /\ pc[p] = "o_avail" /\ sfile.st = "ready" /\ EnvError(p)
    /\ UNCHANGED <<sfile, dyn, res, tags>>
OTagFail(p) ==
    /\ pc[p] = "o_tag" /\ EnvError(p)
    /\ UNCHANGED <<sfile, dyn, res, tags>>
OResFail(p) ==
    /\ pc[p] = "o_res" /\ EnvError(p)
    /\ tags' = DropTag(p) /\ UNCHANGED <<sfile, dyn, res>>
ODynFail(p) ==
    /\ pc[p] = "o_dyn" /\ EnvError(p)
    /\ tags' = DropTag(p) /\ UNCHANGED <<sfile, dyn, res>>

EnvFail(p) == \/ CTagFail(p) \/ CLockFail(p) \/ CUnlockFail(p) \/ CResFail(p) \/ CDynFail(p)
              \/ OAvailFail(p) \/ OTagFail(p) \/ OResFail(p) \/ ODynFail(p)

\* ---- crash ----------------------------------------------------------------------------------------------
\* the process dies wherever it is (also between two calls, holding a handle); nothing is cleaned up
Crash_(p) ==
    /\ nc < MaxCrashes /\ nc' = nc + 1 /\ nf' = nf
    /\ pc[p] # "dead"
    /\ pc[p] = "idle" => loc[p].hid # 0 \/ loc[p].ops < MaxOps      \* (a finished process without handle: nothing to see)
    /\ Goto(p, "dead")
    /\ Crash(p, p)
    /\ UNCHANGED <<sfile, dyn, res, tags, nextInc, loc, incc, bad>>

\* ---- return ---------------------------------------------------------------------------------------
\* the settings the returned handle shows: those read from the static config (or written to it)
SeenS(p) == IF loc[p].rc = 0 THEN LDflt ELSE NewS(loc[p].rc)

\* The incarnation numbers of the model (nextInc) and of the property layer (gh.next) advance together (every
\* successful CLock is a linearized creation), so "the handle belongs to the incarnation the call linearized
\* with" is rid = pend.id; the id a real handle SHOWS is only known to the property layer in order of first
\* appearance (a withdrawn creation never shows its id).
ShownId == IF svc.lid = 0 THEN gh.seen + 1 ELSE svc.lid

Return(p) ==
    /\ pc[p] = "ret"
    /\ UNCHANGED <<sfile, dyn, res, tags, nextInc, incc, nf, nc>>
    /\ LET a == loc[p].op
           r == loc[p].r
           isH == r = "Ok" /\ a # "drop"
       IN /\ loc' = [loc EXCEPT ![p].hid = IF isH THEN loc[p].rid ELSE IF a = "drop" THEN 0 ELSE @,
                                ![p].hc = IF isH THEN loc[p].rc ELSE IF a = "drop" THEN 0 ELSE @,
                                ![p].op = "-", ![p].ph = "-"]
          /\ Goto(p, "idle")
          /\ IF pend[p].st = "withdrawn"
             THEN IF RetEnvGuard(p, a, r, loc[p].flt)
                  THEN RetEnv(p, a, r, loc[p].flt) /\ bad' = bad
                  ELSE pend' = [pend EXCEPT ![p] = IdleRec] /\ UNCHANGED <<svc, ek, gh>> /\ bad' = TRUE
             ELSE IF pend[p].st = "done"
             THEN IF (isH => loc[p].rid = pend[p].id) /\ RetDoneGuard(p, a, r, ShownId, SeenS(p), 0, Slot(p))
                  THEN RetDone(p, a, r, ShownId, SeenS(p), 0, Slot(p)) /\ bad' = bad
                  ELSE pend' = [pend EXCEPT ![p] = IdleRec] /\ UNCHANGED <<svc, ek, gh>> /\ bad' = TRUE
             ELSE IF Transient(a, r, 0, pend[p].ov)
                  THEN RetTransient(p, a, r, 0) /\ bad' = bad
                  ELSE IF KnownDeviationGuard(p, a, r)
                  THEN RetKnownDeviation(p, a, r) /\ bad' = bad
                  ELSE IF RetEnvGuard(p, a, r, loc[p].flt)
                  THEN RetEnv(p, a, r, loc[p].flt) /\ bad' = bad
                  ELSE pend' = [pend EXCEPT ![p] = IdleRec] /\ UNCHANGED <<svc, ek, gh>> /\ bad' = TRUE

\* ---- behaviour -------------------------------------------------------------------------------------
Step(p) ==
    \/ StartAny(p)
    \/ CAvail(p) \/ CTag(p) \/ CLock(p) \/ CWrite(p) \/ CUnlock(p) \/ CRes(p) \/ CDyn(p) \/ CReg(p) \/ CFin(p)
    \/ OAvail(p) \/ OTag(p) \/ ORes(p) \/ ODyn(p) \/ ORegister(p)
    \/ DTag(p) \/ DDereg(p) \/ DDyn(p) \/ DRes(p) \/ DStatic(p)
    \/ Return(p)
    \/ EnvFail(p)

AllDone == \A p \in Threads : pc[p] = "dead" \/ (pc[p] = "idle" /\ loc[p].ops = MaxOps)
Finished == AllDone /\ UNCHANGED lvars

\* a crash is not a step the fairness condition may force
LNext == (\E p \in Threads : Step(p) \/ Crash_(p)) \/ Finished
LSpec == LInit /\ [][LNext]_lvars /\ WF_lvars(\E p \in Threads : Step(p))

\* ---- checked ---------------------------------------------------------------------------------------
\* every result of the model is explained by the property layer
Explainable == ~bad

CreatorStates == {"c_write", "c_unlock", "c_res", "c_dyn", "c_reg", "c_fin"}
TeardownStates == {"d_dyn", "d_res", "d_static"}
DropStates == {"d_tag", "d_dereg"} \cup TeardownStates

Alive(p) == pc[p] # "dead"
Dead == {p \in Threads : pc[p] = "dead"}
Holding(p) == /\ Alive(p)
              /\ \/ loc[p].hid # 0 /\ pc[p] \notin DropStates /\ ~(pc[p] = "ret" /\ loc[p].op = "drop")
                 \/ pc[p] = "ret" /\ loc[p].r = "Ok" /\ loc[p].op \in {"create", "open", "ooc"}
HeldInc(p) == IF loc[p].hid # 0 THEN loc[p].hid ELSE loc[p].rid
HeldCfg(p) == IF loc[p].hid # 0 THEN loc[p].hc ELSE loc[p].rc

\* exclusive creation: never two processes past create_locked
ImplAtMostOneCreator == Cardinality({p \in Threads : pc[p] \in CreatorStates}) <= 1

\* nobody holds (or is being handed) a handle of a service that is not completely initialised,
\* whose registry is locked or does not contain the holder, or whose resources are gone
ImplNoHalfInitialised ==
    \A p \in Threads : Holding(p) =>
        LET i == HeldInc(p) IN
        /\ dyn[i].st = "ready" /\ ~dyn[i].locked /\ p \in dyn[i].reg
        /\ sfile.st = "ready" /\ sfile.id = i /\ sfile.c # 0
        /\ HasResources => res[i]

\* what a handle shows is what its incarnation was created with
ImplOpenSeesCreatorSettings ==
    \A p \in Threads : Holding(p) => HeldCfg(p) = incc[HeldInc(p)] /\ HeldCfg(p) # 0

\* never later: resources exist only while somebody uses, creates or tears down the service
ResourcesExist == sfile.st # "none" \/ \E i \in 1..MaxInc : dyn[i].st \in {"init", "ready"} \/ res[i]
Busy == \E p \in Threads : Holding(p) \/ pc[p] \in CreatorStates \cup DropStates
                           \/ (pc[p] = "ret" /\ loc[p].op \in {"drop", "create", "ooc"})
ImplLifetimeFollowsUsers == ResourcesExist => Busy \/ Dead # {}
\* ... and in quiescent states exactly then (what a dead process leaves is the subject of C04)
ImplQuiescentExact ==
    (\A p \in Threads : pc[p] = "idle") => (ResourcesExist <=> \E p \in Threads : loc[p].hid # 0)
\* "leaves the service untouched", "nothing left": in quiescent states a node carries a service tag exactly if it
\* holds a handle - whatever failed or was refused before
ImplTagsFollowHandles ==
    (\A p \in Threads : pc[p] \in {"idle", "dead"}) => tags \ Dead = {p \in Threads \ Dead : loc[p].hid # 0}

\* every call returns (liveness under weak fairness, retry budget instead of time)
Termination == <>[]AllDone
=============================================================================
