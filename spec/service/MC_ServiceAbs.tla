---------------------------- MODULE MC_ServiceAbs ----------------------------
(* Design check of the property layer itself: a small closed system of      *)
(* well-behaved clients (a handle is dropped only after it was returned).   *)
EXTENDS ServiceAbs, TLC

CONSTANT MaxCalls
VARIABLE n

BB(mr, mn, at) == [kty |-> "u64", ksz |-> 8, kal |-> 8, mr |-> mr, mn |-> mn, at |-> at]
Cfgs == << BB(2, 2, UNSET), BB(3, 1, 7), BB(UNSET, UNSET, UNSET), BB(3, UNSET, -1) >>
Dflt == BB(4, 4, UNSET)
Handles == 1..2

mvars == <<svc, pend, ek, gh, n>>

MCEnv(k) == [pat |-> "bb", cfgs |-> Cfgs, dflt |-> Dflt]
MCInit == AInit(1) /\ n = 0

InUse(h) == \/ \E nd \in Threads : <<h, nd>> \in svc.users
            \/ \E t \in Threads : pend[t].st # "idle" /\ pend[t].h = h

DoCall ==
    /\ n < MaxCalls
    /\ n' = n + 1
    /\ \E t \in Threads \ gh.dead, a \in {"create", "open", "ooc", "drop", "exist"} :
         \/ /\ a \in {"create", "open", "ooc"}
            /\ \E c \in DOMAIN Cfgs, h \in Handles : ~InUse(h) /\ Call(t, a, t, c, h)
         \/ /\ a = "drop"
            /\ \E h \in Handles :
                 /\ <<h, t>> \in svc.users
                 /\ \A u \in Threads : pend[u].st # "idle" => pend[u].h # h
                 /\ Call(t, a, t, 0, h)
         \/ /\ a = "exist" /\ Call(t, a, t, 0, 0)

DoLin == (\E t \in Threads : Lin(t)) /\ UNCHANGED n

TransientResults == {"AlreadyExists", "IsBeingCreatedByAnotherInstance", "HangsInCreation",
                     "IsMarkedForDestruction", "Open:IsMarkedForDestruction", "SystemInFlux", "Ok"}

DoRet ==
    /\ UNCHANGED n
    /\ \E t \in Threads :
         LET p == pend[t] IN
         \/ /\ p.st = "done"
            /\ RetDone(t, p.a, p.r,
                       IF Handle(p) THEN (IF svc.lid = 0 THEN gh.seen + 1 ELSE svc.lid) ELSE 0,
                       IF Handle(p) THEN NewS(p.sc) ELSE Dflt, p.v, p.h)
         \/ \E r \in TransientResults : RetTransient(t, p.a, r, 0)

DoQuiescent == Quiescent(IF svc.ex THEN 1 ELSE 0, IF svc.ex THEN 1 ELSE 0, 0, 0, NodesOf(svc.users), 0, FALSE)
               /\ UNCHANGED n

\* failing environment and crashes (at most one crash; a dead thread makes no further calls: DoCall
\* is restricted to live threads by Alive)
DoRetEnv == /\ UNCHANGED n
            /\ \E t \in Threads, r \in {"InternalFailure", "Open:InternalFailure", "Create:InsufficientPermissions"} :
                 RetEnv(t, pend[t].a, r, 1)
DoCrash == /\ UNCHANGED n /\ gh.dead = {}
           /\ \E t \in Threads : Crash(t, t)
DoLinCrashed == (\E t \in Threads : LinCrashed(t)) /\ UNCHANGED n
DoReap == Reap /\ UNCHANGED n
\* a creation whose environment failed after it was visible is withdrawn (then it can only end with DoRetEnv)
DoWithdraw == (\E t \in Threads \ gh.dead : Withdraw(t)) /\ UNCHANGED n

MCNext == DoCall \/ DoLin \/ DoRet \/ DoQuiescent \/ DoRetEnv \/ DoCrash \/ DoLinCrashed \/ DoReap \/ DoWithdraw
MCSpec == MCInit /\ [][MCNext]_mvars

\* a handle number is never in `users` twice
UsersWellFormed == \A u, w \in svc.users : u[1] = w[1] => u = w
\* re-creation with different settings is really reachable (must be REFUTED: non-vacuity, not in the cfg)
NeverRecreated == ~(svc.ex /\ svc.id >= 2 /\ svc.c = 2)
=============================================================================
