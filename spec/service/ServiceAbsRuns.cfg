SPECIFICATION RunsSpec
CONSTANTS
 NThreads = 4
 Env <- TraceEnv
CONSTRAINT RunsProgress
POSTCONDITION RunsVerdict
CHECK_DEADLOCK FALSE
INVARIANTS AtMostOneCreator OpenSeesCreatorSettings NoHalfInitialised LifetimeFollowsUsers RecreatableAfterLast
