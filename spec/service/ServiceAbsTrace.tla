--------------------------- MODULE ServiceAbsTrace ---------------------------
(***************************************************************************)
(* Trace specification of C06: explains call/ret histories recorded from   *)
(* the real service builders (drv-service seq | conc | procs) by the       *)
(* atomic object of ServiceAbs.  Sequential histories are the special case *)
(* without overlap.  Records:                                              *)
(*   reset  pat, cfgs (1-based sequence of builder records), dflt          *)
(*   call   t, a, nd, c, h                                                 *)
(*   ret    t, a, r, id, s, v, h      (id, s: what the handle shows)       *)
(*   obs / end   exist, listed, files, shm   (quiescent observation)       *)
(* The linearization point between call and ret is a silent step chosen by *)
(* TLC; transient documented errors return without one (ServiceAbs).       *)
(***************************************************************************)
EXTENDS ServiceAbs, TraceIO

VARIABLE l
tvars == <<svc, pend, env, gh, l>>

Dummy == [mn |-> 1, at |-> UNSET]

TraceInit ==
    /\ l = 1
    /\ AInit("-", <<>>, Dummy)
    /\ TraceRegInit

Consume ==
    /\ l <= NRec
    /\ l' = l + 1
    /\ LET e == Rec[l] IN
       CASE e.k = "reset" -> AReset(e.pat, e.cfgs, e.dflt)
         [] e.k = "call"  -> Call(e.t, e.a, e.nd, e.c, e.h)
         [] e.k = "ret"   -> Ret(e.t, e.a, e.r, e.id, e.s, e.v, e.h)
         [] e.k \in {"obs", "end"} -> /\ e.panics = 0
                                      /\ Quiescent(e.exist, e.listed, e.files, e.shm)
         [] OTHER -> FALSE

Silent ==
    /\ l <= NRec
    /\ \E t \in Threads : Lin(t)
    /\ UNCHANGED l

TraceNext == Consume \/ Silent
TraceSpec == TraceInit /\ [][TraceNext]_tvars

Progress == TraceProgress(l)
Accepted == TraceAccepted
=============================================================================
