--------------------------- MODULE ServiceAbsTrace ---------------------------
(***************************************************************************)
(* Trace specification of C06: explains call/ret histories recorded from   *)
(* the real service builders (drv-service seq | conc | procs) by the       *)
(* atomic object of ServiceAbs.  Sequential histories are the special case *)
(* without overlap.  Records:                                              *)
(*   reset  pat, cfgs (1-based sequence of builder records), dflt          *)
(*   call   t, a, nd, c, h                                                 *)
(*   ret    t, a, r, id, s, v, h, f   (id, s: what the handle shows; f =    *)
(*          number of libc calls of this call the shim made fail)          *)
(*   obs / end   exist, listed, files, shm, tg, dirs, panics (quiescent    *)
(*          observation; tg = sequence of the nodes carrying a service tag)*)
(*   crash  t, nd     the process of thread t (node nd) was killed         *)
(*   fault / note     informational (which libc call failed, ...)          *)
(* The linearization point between call and ret is a silent step chosen by *)
(* TLC; transient documented errors return without one (ServiceAbs).       *)
(***************************************************************************)
EXTENDS ServiceAbs, TraceIO

VARIABLE l
tvars == <<svc, pend, ek, gh, l>>

\* the configuration of a run is its `reset` record (fields pat, cfgs, dflt)
TraceEnv(k) == Rec[k]

TraceInit ==
    /\ l = 1
    /\ AInit(1)
    /\ TraceRegInit

Consume ==
    /\ l <= NRec
    /\ l' = l + 1
    /\ LET e == Rec[l] IN
       CASE e.k = "reset" -> AReset(l)
         [] e.k = "call"  -> Call(e.t, e.a, e.nd, e.c, e.h)
         [] e.k = "ret"   -> Ret(e.t, e.a, e.r, e.id, e.s, e.v, e.h, e.f)
         [] e.k \in {"obs", "end"} -> /\ e.panics = 0
                                      /\ Quiescent(e.exist, e.listed, e.files, e.shm,
                                                   {e.tg[i] : i \in DOMAIN e.tg}, e.dirs, e.k = "end")
         [] e.k = "crash" -> Crash(e.t, e.nd)
         [] e.k \in {"fault", "note"} -> UNCHANGED avars
         [] OTHER -> FALSE

\* Linearization points can always be postponed to immediately before the next recorded return
\* (calls neither read nor change the object), which keeps the search small.
Silent ==
    /\ l <= NRec
    /\ Rec[l].k = "ret"
    /\ \/ \E t \in Threads : Lin(t)
       \/ \E t \in Threads : LinCrashed(t)
       \/ Reap
       \/ Rec[l].f > 0 /\ Withdraw(Rec[l].t)
    /\ UNCHANGED l

TraceNext == Silent \/ Consume
TraceSpec == TraceInit /\ [][TraceNext]_tvars

\* The first complete explanation ends the search (the queue is a stack: depth first).
Progress ==
    /\ TraceProgress(l)
    /\ l > NRec => TLCSet("exit", TRUE)
Accepted == TraceAccepted
=============================================================================
