SPECIFICATION TraceSpec
CONSTANTS
 NThreads = 4
 Env <- TraceEnv
CONSTRAINT Progress
POSTCONDITION Accepted
CHECK_DEADLOCK FALSE
INVARIANTS AtMostOneCreator OpenSeesCreatorSettings NoHalfInitialised LifetimeFollowsUsers RecreatableAfterLast
