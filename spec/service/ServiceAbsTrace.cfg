SPECIFICATION TraceSpec
CONSTANTS
 NThreads = 8
CONSTRAINT Progress
POSTCONDITION Accepted
CHECK_DEADLOCK FALSE
INVARIANTS AtMostOneCreator OpenSeesCreatorSettings NoHalfInitialised LifetimeFollowsUsers RecreatableAfterLast
