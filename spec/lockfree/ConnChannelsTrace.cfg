SPECIFICATION TraceSpec
INVARIANTS Conservation Bounded
CONSTRAINT Progress
POSTCONDITION Accepted
CHECK_DEADLOCK FALSE
