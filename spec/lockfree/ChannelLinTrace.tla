---------------------------- MODULE ChannelLinTrace ----------------------------
EXTENDS ChannelLin, TraceIO
VARIABLE l
tvars == <<sq, cq, bor, used, buf, maxbor, ovf, pend, l>>
TraceInit == l = 1 /\ ChInit /\ TraceRegInit
Consume ==
    /\ l <= NRec
    /\ l' = l + 1
    /\ LET e == Rec[l] IN
       CASE e.k = "reset" -> ChReset(e.buf, e.maxbor, e.ovf)
         [] e.k = "call" -> Call(e.t, e.a, e.v)
         [] e.k = "ret" -> Ret(e.t, e.a, e.r, e.v)
         [] e.k = "end" -> e.outcome = "completed" /\ e.panics = <<>> /\ Quiescent(e.hasdata, e.borrowed)
         [] OTHER -> FALSE
Silent == l <= NRec /\ (\E t \in Threads : Lin(t)) /\ UNCHANGED l
TraceNext == Consume \/ Silent
TraceSpec == TraceInit /\ [][TraceNext]_tvars
Progress == TraceProgress(l)
Accepted == TraceAccepted
=============================================================================
