---------------------------- MODULE UisImplTrace ----------------------------
(* Atomic-level conformance of UisImpl with executions of the real          *)
(* UniqueIndexSet recorded under the deterministic scheduler (see           *)
(* SpscImplTrace for the idea).  The packed head word is decoded by the     *)
(* check into (h, a, b) fields (b = 999 for the LOCK marker).               *)
EXTENDS UisImpl, TraceIO

VARIABLE l
tvars == <<vars, l>>

TraceInit == Init /\ l = 1 /\ TraceRegInit

ResetAll ==
    /\ mem' = [x \in Loc |-> << [val |-> IF x = HEAD THEN <<0, 0, 0>> ELSE x[2] + 1, view |-> View0] >>]
    /\ tv' = [t \in Thr |-> View0]
    /\ acqv' = [t \in Thr |-> View0]
    /\ relv' = [t \in Thr |-> View0]
    /\ sc' = View0
    /\ pc' = [t \in Thr |-> "idle"]
    /\ opi' = [t \in Thr |-> 1]
    /\ old' = [t \in Thr |-> <<0, 0, 0>>]
    /\ nx' = [t \in Thr |-> 0]
    /\ cur' = [t \in Thr |-> 0]
    /\ holds' = [t \in Thr |-> <<>>]
    /\ owned' = {}
    /\ results' = [t \in Thr |-> <<>>]
    /\ lockedGhost' = FALSE

Rd(e) == <<e.rdh, e.rda, e.rdb>>
Ex(e) == <<e.exh, e.exa, e.exb>>
Nw(e) == <<e.nwh, e.nwa, e.nwb>>

Atom(e) ==
    LET t == e.t IN
    \/ /\ e.op = "load" /\ e.ord = Ord.a_ld /\ pc[t] = "a_ld" /\ ALoad(t) /\ old'[t] = Rd(e)
    \/ /\ e.op = "load" /\ e.ord = Ord.r_ld /\ pc[t] = "r_ld" /\ RLoad(t) /\ old'[t] = Rd(e)
    \/ /\ e.op = "cas" /\ e.ord = Ord.a_cas_s /\ e.ordf = Ord.a_cas_f /\ pc[t] = "a_cas" /\ ACas(t)
       /\ Ex(e) = old[t] /\ Nw(e) = <<nx[t], (old[t][2] + AbaIncA) % AbaMod, old[t][3] + 1>>
       /\ e.ok = (pc'[t] = "a_wrnext") /\ (~e.ok => old'[t] = Rd(e))
    \/ /\ e.op = "cas" /\ e.ord = Ord.r_cas_s /\ e.ordf = Ord.r_cas_f /\ pc[t] = "r_cas" /\ RCas(t)
       /\ Ex(e) = old[t] /\ Nw(e)[1] = cur[t] /\ Nw(e)[2] = (old[t][2] + AbaIncR) % AbaMod
       /\ e.ok = (pc'[t] = "idle") /\ (~e.ok => old'[t] = Rd(e))
    \/ /\ e.op = "fence" /\ e.ord = Ord.a_fence /\ pc[t] = "a_fence" /\ AFence(t)
    \/ /\ e.op = "fence" /\ e.ord = Ord.r_fence /\ pc[t] = "r_fence" /\ RFence(t)

Silent ==
    /\ l <= NRec
    /\ \E t \in Thr : \/ ACheck(t) /\ pc'[t] = "a_rdnext"
                      \/ AReadNext(t) \/ AWriteNext(t) \/ RWriteNext(t)
                      \/ (Start(t) /\ pc'[t] = "idle")          \* skipped release
    /\ UNCHANGED l

LastRes(t) == results[t][Len(results[t])]

Consume ==
    /\ l <= NRec
    /\ l' = l + 1
    /\ LET e == Rec[l] IN
       CASE e.k = "reset" -> ResetAll
         [] e.k = "call" -> /\ Start(e.t) /\ pc'[e.t] # "idle"
                            /\ (e.a = "acq") = (Op(e.t) = "acq")
                            /\ e.a = "rel" => (cur'[e.t] = e.i /\ (e.m = 1) = (Op(e.t) = "rell"))
         [] e.k = "ret" ->
               \* an acquire that ends in ACheck (full / locked) finishes with this silent check
               \/ /\ pc[e.t] = "idle" /\ Len(results[e.t]) > 0
                  /\ LastRes(e.t).r = e.r
                  /\ (e.r = "ok" => LastRes(e.t).v = e.v)
                  /\ UNCHANGED vars
               \/ /\ pc[e.t] = "a_chk" /\ ACheck(e.t) /\ pc'[e.t] = "idle"
                  /\ results'[e.t][Len(results'[e.t])].r = e.r
         [] e.k = "atom" -> Atom(e)
         [] e.k \in {"end", "aux"} -> UNCHANGED vars
         [] OTHER -> FALSE

TraceNext == Consume \/ Silent
TraceSpec == TraceInit /\ [][TraceNext]_tvars
Progress == TraceProgress(l)
Accepted == TraceAccepted
=============================================================================
