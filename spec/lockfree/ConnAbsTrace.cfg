SPECIFICATION TraceSpec
CONSTRAINT Progress
POSTCONDITION Accepted
CHECK_DEADLOCK FALSE
INVARIANT OneEach
