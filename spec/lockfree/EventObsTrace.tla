----------------------------- MODULE EventObsTrace -----------------------------
EXTENDS EventObs, TraceIO
VARIABLE l
tvars == <<inst, started, reported, must, l>>
TraceInit == l = 1 /\ EvInit /\ TraceRegInit
Consume ==
    /\ l <= NRec
    /\ l' = l + 1
    /\ LET e == Rec[l] IN
       CASE e.k = "reset" -> EvReset
         [] e.k = "call" /\ e.a = "notify" -> NotifyCall(e.t, e.id)
         [] e.k = "ret" /\ e.a = "notify" -> NotifyRet(e.t, e.id, e.r)
         [] e.k = "call" /\ e.a = "wait" -> WaitCall
         [] e.k = "ret" /\ e.a = "wait" -> e.r = "ok" /\ WaitRet(e.rep)
         [] e.k = "end" -> e.panics = <<>> /\ End(e.outcome, e.dl, e.listener, e.left)
         [] e.k \in {"atom", "aux"} -> UNCHANGED evars
         [] OTHER -> FALSE
TraceNext == Consume
TraceSpec == TraceInit /\ [][TraceNext]_tvars
Progress == TraceProgress(l)
Accepted == TraceAccepted
=============================================================================
