------------------------------ MODULE ChannelLin ------------------------------
(***************************************************************************)
(* Property layer of C03 (second half): one channel of a zero-copy         *)
(* connection between a sender thread and a receiver thread.               *)
(*   sq  submission queue (sample indices in flight to the receiver)       *)
(*   cq  completion queue (released, not yet reclaimed)                    *)
(*   bor indices the receiver has borrowed, used = indices the sender has  *)
(*   handed out and not yet got back (evicted or reclaimed)                *)
(* No index is lost or duplicated between sender and receiver, the         *)
(* receiver sees them in send order, overflow hands back the oldest one,   *)
(* and a release NEVER fails for lack of space (there is no such result in *)
(* this specification).                                                    *)
(***************************************************************************)
EXTENDS Naturals, Sequences, FiniteSets

VARIABLES sq, cq, bor, used, buf, maxbor, ovf, pend

chvars == <<sq, cq, bor, used, buf, maxbor, ovf, pend>>
Threads == {0, 1}
Idle == [st |-> "idle", a |-> "-", v |-> 0, r |-> "-", rv |-> 0]

ChInit == sq = <<>> /\ cq = <<>> /\ bor = {} /\ used = {} /\ buf = 0 /\ maxbor = 0 /\ ovf = FALSE
          /\ pend = [t \in Threads |-> Idle]
ChReset(b, m, o) == sq' = <<>> /\ cq' = <<>> /\ bor' = {} /\ used' = {} /\ buf' = b /\ maxbor' = m /\ ovf' = o
                    /\ pend' = [t \in Threads |-> Idle]

Call(t, a, v) ==
    /\ pend[t].st = "idle"
    /\ pend' = [pend EXCEPT ![t] = [st |-> "called", a |-> a, v |-> v, r |-> "-", rv |-> 0]]
    /\ UNCHANGED <<sq, cq, bor, used, buf, maxbor, ovf>>

Done(t, r, rv) == pend' = [pend EXCEPT ![t].st = "done", ![t].r = r, ![t].rv = rv]

Lin(t) ==
    /\ pend[t].st = "called"
    /\ UNCHANGED <<buf, maxbor, ovf>>
    /\ LET a == pend[t].a  v == pend[t].v IN
       CASE a = "send" ->
              /\ v \notin used
              /\ IF Len(sq) < buf
                 THEN /\ sq' = Append(sq, v) /\ used' = used \cup {v} /\ Done(t, "ok", 0)
                 ELSE IF ovf
                 THEN /\ sq' = Append(Tail(sq), v)
                      /\ used' = (used \cup {v}) \ {Head(sq)}
                      /\ Done(t, "evicted", Head(sq))
                 ELSE /\ Done(t, "full", 0) /\ UNCHANGED <<sq, used>>
              /\ UNCHANGED <<cq, bor>>
         [] a = "recv" ->
              /\ IF Cardinality(bor) >= maxbor
                 THEN /\ Done(t, "maxborrow", 0) /\ UNCHANGED <<sq, bor>>
                 ELSE IF sq = <<>>
                 THEN /\ Done(t, "none", 0) /\ UNCHANGED <<sq, bor>>
                 ELSE /\ sq' = Tail(sq) /\ bor' = bor \cup {Head(sq)} /\ Done(t, "some", Head(sq))
              /\ UNCHANGED <<cq, used>>
         [] a = "rel" ->
              /\ v \in bor
              /\ cq' = Append(cq, v) /\ bor' = bor \ {v}
              /\ Done(t, "ok", 0)
              /\ UNCHANGED <<sq, used>>
         [] a = "reclaim" ->
              /\ IF cq = <<>>
                 THEN /\ Done(t, "none", 0) /\ UNCHANGED <<cq, used>>
                 ELSE /\ cq' = Tail(cq) /\ used' = used \ {Head(cq)} /\ Done(t, "some", Head(cq))
              /\ UNCHANGED <<sq, bor>>

Ret(t, a, r, rv) ==
    /\ pend[t].st = "done" /\ pend[t].a = a /\ pend[t].r = r /\ pend[t].rv = rv
    /\ pend' = [pend EXCEPT ![t] = Idle]
    /\ UNCHANGED <<sq, cq, bor, used, buf, maxbor, ovf>>

\* quiescent observation: has_data, borrow_count
Quiescent(hasdata, borrowed) ==
    /\ \A t \in Threads : pend[t].st = "idle"
    /\ hasdata = (sq # <<>>)
    /\ borrowed = Cardinality(bor)
    /\ UNCHANGED chvars

\* ---- invariants of the abstract object
Conservation == /\ \A i \in DOMAIN sq : sq[i] \in used
                /\ \A i \in DOMAIN cq : cq[i] \in used
                /\ bor \subseteq used
NoDuplication == /\ \A i, j \in DOMAIN sq : i # j => sq[i] # sq[j]
                 /\ \A i \in DOMAIN sq : sq[i] \notin bor
                 /\ \A i \in DOMAIN cq : cq[i] \notin bor
Bounded == Len(sq) <= buf /\ Cardinality(bor) <= maxbor /\ Len(cq) <= buf + maxbor + 1
=============================================================================
