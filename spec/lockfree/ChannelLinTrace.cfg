SPECIFICATION TraceSpec
CONSTRAINT Progress
POSTCONDITION Accepted
CHECK_DEADLOCK FALSE
INVARIANTS Conservation NoDuplication Bounded
