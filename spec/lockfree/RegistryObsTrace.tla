--------------------------- MODULE RegistryObsTrace ---------------------------
EXTENDS RegistryObs, TraceIO
VARIABLE l
tvars == <<adds, rems, opcount, rd, l>>
TraceInit == l = 1 /\ RegInit /\ TraceRegInit
Consume ==
    /\ l <= NRec
    /\ l' = l + 1
    /\ LET e == Rec[l] IN
       CASE e.k = "reset" -> RegReset
         [] e.k = "call" /\ e.a = "add" -> AddCall(e.t, e.v)
         [] e.k = "ret" /\ e.a = "add" -> AddRet(e.t, e.v, e.r, e.idx)
         [] e.k = "call" /\ e.a = "rem" -> RemCall(e.t, e.v)
         [] e.k = "ret" /\ e.a = "rem" -> RemRet(e.t, e.v, e.r)
         [] e.k = "call" /\ e.a = "rec" -> RecCall(e.t, e.v)
         [] e.k = "ret" /\ e.a = "rec" -> RecRet(e.t, e.v)
         [] e.k = "call" /\ e.a = "ref" -> RefCall(e.t)
         [] e.k = "ret" /\ e.a = "ref" -> RefRet(e.t, e.chg, e.ent)
         [] e.k = "end" -> e.outcome = "completed" /\ e.panics = <<>> /\ UNCHANGED rvars
         [] e.k \in {"atom", "aux"} -> UNCHANGED rvars
         [] OTHER -> FALSE
TraceNext == Consume
TraceSpec == TraceInit /\ [][TraceNext]_tvars
Progress == TraceProgress(l)
Accepted == TraceAccepted
=============================================================================
