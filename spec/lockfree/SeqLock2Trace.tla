---------------------------- MODULE SeqLock2Trace ----------------------------
(* Atomic-level conformance of SeqLock2 with scheduled executions of the real *)
(* UnrestrictedAtomic (see SpscImplTrace for the idea). Payload copies are    *)
(* silent steps; thread 0 is the writer, threads 1.. the readers.             *)
EXTENDS SeqLock2, TraceIO

VARIABLE l
tvars == <<vars, l>>
TraceInit == Init /\ l = 1 /\ TraceRegInit

ResetAll ==
    /\ mem' = [x \in Loc |-> << [val |-> IF x = WC THEN 1 ELSE 0, view |-> View0] >>]
    /\ tv' = [t \in Thr |-> View0] /\ acqv' = [t \in Thr |-> View0]
    /\ relv' = [t \in Thr |-> View0] /\ sc' = View0
    /\ pc' = [t \in Thr |-> "idle"]
    /\ wk' = 0 /\ wcv' = 0 /\ widx' = 0
    /\ cur' = [r \in ReaderIds |-> 0] /\ ridx' = [r \in ReaderIds |-> 0]
    /\ words' = [r \in ReaderIds |-> [w \in 0..W-1 |-> 0]]
    /\ nload' = [r \in ReaderIds |-> 0] /\ rets' = [r \in ReaderIds |-> <<>>]

Atom(e) ==
    \/ /\ e.t = 0 /\ e.op = "load" /\ e.ord = Ord.w_ld /\ WLoad /\ wcv' = e.rd
    \/ /\ e.t = 0 /\ e.op = "fetch_add" /\ e.ord = Ord.w_add /\ WAdd /\ e.rd = LatestVal(WC) /\ e.operand = 1
    \/ /\ e.t \in ReaderIds /\ e.op = "load" /\ e.ord = Ord.r_ld /\ RLoad(e.t) /\ cur'[e.t] = e.rd
    \/ /\ e.t \in ReaderIds /\ e.op = "cas" /\ e.ord = Ord.r_cas_s /\ e.ordf = Ord.r_cas_f /\ RCas(e.t)
       /\ e.expected = cur[e.t] /\ e.operand = cur[e.t]
       /\ e.ok = (pc'[e.t] = "idle") /\ (~e.ok => cur'[e.t] = e.rd)

Silent ==
    /\ l <= NRec
    /\ (WWrite \/ \E r \in ReaderIds : RRead(r))
    /\ UNCHANGED l

Consume ==
    /\ l <= NRec
    /\ l' = l + 1
    /\ LET e == Rec[l] IN
       CASE e.k = "reset" -> ResetAll
         [] e.k = "call" /\ e.a = "store" -> WStart /\ wk' = e.v
         [] e.k = "call" /\ e.a = "load" -> RStart(e.t)
         [] e.k = "ret" /\ e.a = "store" -> pc[0] = "idle" /\ wk = e.v /\ UNCHANGED vars
         [] e.k = "ret" /\ e.a = "load" ->
               /\ pc[e.t] = "idle" /\ Len(rets[e.t]) = nload[e.t]
               /\ rets[e.t][Len(rets[e.t])][0] = e.v
               /\ UNCHANGED vars
         [] e.k = "atom" -> Atom(e)
         [] e.k \in {"end", "aux"} -> UNCHANGED vars
         [] OTHER -> FALSE

TraceNext == Consume \/ Silent
TraceSpec == TraceInit /\ [][TraceNext]_tvars
Progress == TraceProgress(l)
Accepted == TraceAccepted
=============================================================================
