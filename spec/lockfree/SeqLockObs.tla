----------------------------- MODULE SeqLockObs -----------------------------
(***************************************************************************)
(* Property layer of C12 (first half): a single-writer multi-reader value  *)
(* of arbitrary size (UnrestrictedAtomic / blackboard entry).  The writer  *)
(* stores the values 1, 2, 3, ... (value k = every word of the payload is  *)
(* k; 0 = initial value).  A load                                          *)
(*   - returns a value that was written in one piece   (lo = hi = v),      *)
(*   - that was written at all, by a store that has begun (v <= started),  *)
(*   - and never goes back behind a value this reader has already seen.    *)
(* Nothing else is demanded (which of the admissible values is returned is *)
(* left open, as in the statement).                                        *)
(***************************************************************************)
EXTENDS Naturals

VARIABLES started,   \* number of stores that have begun
          seen       \* [reader -> last value returned]

ovars == <<started, seen>>
Readers == 0..7

ObsInit == started = 0 /\ seen = [r \in Readers |-> 0]
ObsReset == started' = 0 /\ seen' = [r \in Readers |-> 0]

StoreCall(k) == k = started + 1 /\ started' = k /\ UNCHANGED seen
StoreRet(k) == k <= started /\ UNCHANGED ovars
LoadCall(t) == UNCHANGED ovars
LoadRet(t, v, lo, hi) ==
    /\ lo = v /\ hi = v            \* atomic: one piece
    /\ v <= started                \* a value that was really written
    /\ v >= seen[t]                \* monotone per reader
    /\ seen' = [seen EXCEPT ![t] = v]
    /\ UNCHANGED started
=============================================================================
