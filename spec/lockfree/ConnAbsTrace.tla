----------------------------- MODULE ConnAbsTrace -----------------------------
EXTENDS ConnAbs, TraceIO
VARIABLE l
tvars == <<att, param, hS, hR, pend, l>>
TraceInit == l = 1 /\ CInit /\ TraceRegInit
Consume ==
    /\ l <= NRec
    /\ l' = l + 1
    /\ LET e == Rec[l] IN
       CASE e.k = "reset" -> CReset
         [] e.k = "call" -> Call(e.t, e.a)
         [] e.k = "ret" -> Ret(e.t, e.a, e.r)
         [] e.k = "obs" -> Obs(e.exists, e.sc, e.rc)
         [] e.k = "end" -> e.outcome = "completed" /\ e.panics = <<>> /\ Obs(e.exists, e.sc, e.rc)
         [] OTHER -> FALSE
Silent == l <= NRec /\ (\E t \in Threads : Lin(t)) /\ UNCHANGED l
TraceNext == Consume \/ Silent
TraceSpec == TraceInit /\ [][TraceNext]_tvars
Progress == TraceProgress(l)
Accepted == TraceAccepted
=============================================================================
