------------------------------- MODULE ConnAbs -------------------------------
(***************************************************************************)
(* Property layer of C13: one zero-copy connection name.                   *)
(*  att    the roles ("S" sender, "R" receiver) currently attached         *)
(*  param  the parameters the connection was created with (0 = none)       *)
(*  hS/hR  does the test hold a live handle of that role                   *)
(* Operations are Call (recorded), a silent linearization step, Ret        *)
(* (recorded).  Clauses of the statement:                                  *)
(*  - at most one sender and one receiver: a create succeeds only if its   *)
(*    role is free, and is refused with AnotherInstanceIsAlreadyConnected  *)
(*    only if it is taken;                                                 *)
(*  - mismatching parameters are refused with the Incompatible* error and  *)
(*    change nothing;                                                      *)
(*  - the shared resource exists exactly while somebody is attached        *)
(*    (quiescent observations: does_exist, is_connected of live handles);  *)
(*  - "being cleaned up" (and the other transient refusals of a creation   *)
(*    race) are only allowed for a call that OVERLAPS another call.        *)
(***************************************************************************)
EXTENDS Integers, Sequences, FiniteSets

VARIABLES att, param, hS, hR, pend

cvars == <<att, param, hS, hR, pend>>
Threads == 0..3
Idle == [st |-> "idle", a |-> "-", r |-> "-", conc |-> FALSE, had |-> FALSE]
Transient == {"IsBeingCleanedUp", "InitializationNotYetFinalized"}

CInit == att = {} /\ param = 0 /\ hS = FALSE /\ hR = FALSE /\ pend = [t \in Threads |-> Idle]
CReset == att' = {} /\ param' = 0 /\ hS' = FALSE /\ hR' = FALSE /\ pend' = [t \in Threads |-> Idle]

RoleOf(a) == IF a \in {"S", "Sx", "s", "as", "fs"} THEN "S" ELSE "R"
ParamOf(a) == IF a \in {"Sx", "Rx"} THEN 3 ELSE 2
OthersPending(t) == \E u \in Threads : u # t /\ pend[u].st # "idle"

\* The test keeps ONE sender handle and ONE receiver handle in slots shared by its threads; a detach
\* ("s", "r", "as", "ar") takes the handle out of its slot when it is CALLED (`had` remembers whether
\* there was one), so a concurrent second detach of that role finds the slot empty.
Call(t, a) ==
    /\ pend[t].st = "idle"
    /\ LET takes == a \in {"s", "r", "as", "ar"}
           had == IF ~takes THEN FALSE ELSE IF RoleOf(a) = "S" THEN hS ELSE hR IN
       /\ pend' = [u \in Threads |->
                     IF u = t THEN [st |-> "called", a |-> a, r |-> "-", conc |-> OthersPending(t), had |-> had]
                     ELSE IF pend[u].st # "idle" THEN [pend[u] EXCEPT !.conc = TRUE] ELSE pend[u]]
       /\ hS' = IF takes /\ RoleOf(a) = "S" THEN FALSE ELSE hS
       /\ hR' = IF takes /\ RoleOf(a) = "R" THEN FALSE ELSE hR
    /\ UNCHANGED <<att, param>>

Done(t, r) == pend' = [pend EXCEPT ![t].st = "done", ![t].r = r]

Lin(t) ==
    /\ pend[t].st = "called"
    /\ LET a == pend[t].a
           role == RoleOf(a) IN
       CASE a \in {"S", "Sx", "R", "Rx"} ->
              \/ /\ role \notin att /\ (att = {} \/ param = ParamOf(a))      \* success
                 /\ att' = att \cup {role}
                 /\ param' = ParamOf(a)
                 /\ Done(t, "ok")
              \/ /\ role \in att
                 /\ Done(t, "AnotherInstanceIsAlreadyConnected")
                 /\ UNCHANGED <<att, param>>
              \/ /\ att # {} /\ param # ParamOf(a)
                 /\ Done(t, "IncompatibleBufferSize")
                 /\ UNCHANGED <<att, param>>
              \/ /\ pend[t].conc                                              \* refused by a race
                 /\ \E e \in Transient : Done(t, e)
                 /\ UNCHANGED <<att, param>>
              \* ... or because an overlapping attach of the SAME role holds the role for a moment before it is
              \* refused itself (a port registers first and checks the parameters afterwards)
              \/ /\ \E u \in Threads \ {t} : /\ pend[u].st # "idle" /\ pend[u].a \in {"S", "Sx", "R", "Rx"}
                                              /\ RoleOf(pend[u].a) = role
                 /\ Done(t, "AnotherInstanceIsAlreadyConnected")
                 /\ UNCHANGED <<att, param>>
              \* ... or by the parameters of the connection that an overlapping call was still holding while it
              \* left or was being refused itself (`param` keeps the parameters of the most recent connection)
              \/ /\ pend[t].conc /\ param # 0 /\ param # ParamOf(a)
                 /\ Done(t, "IncompatibleBufferSize")
                 /\ UNCHANGED <<att, param>>
         [] a \in {"s", "r"} ->       \* orderly detach of my handle (result "none": no handle, no-op)
              \/ /\ pend[t].had
                 /\ att' = att \ {role}
                 /\ param' = param        \* kept: see the attach case
                 /\ Done(t, "ok")
              \/ /\ ~pend[t].had
                 /\ Done(t, "none")
                 /\ UNCHANGED <<att, param>>
         [] a \in {"as", "ar"} ->     \* the handle is leaked: the role stays attached
              /\ Done(t, IF pend[t].had THEN "ok" ELSE "none")
              /\ UNCHANGED <<att, param>>
         [] a \in {"fs", "fr"} ->     \* forced removal on behalf of a dead peer
              \/ /\ att # {}
                 /\ att' = att \ {role}
                 /\ param' = param        \* kept: see the attach case
                 /\ Done(t, "ok")
              \/ /\ att = {}
                 /\ Done(t, "DoesNotExist")
                 /\ UNCHANGED <<att, param>>
    /\ UNCHANGED <<hS, hR>>

Ret(t, a, r) ==
    /\ pend[t].st = "done" /\ pend[t].a = a /\ pend[t].r = r
    /\ pend' = [pend EXCEPT ![t] = Idle]
    /\ hS' = IF a \in {"S", "Sx"} /\ r = "ok" THEN TRUE ELSE hS
    /\ hR' = IF a \in {"R", "Rx"} /\ r = "ok" THEN TRUE ELSE hR
    /\ UNCHANGED <<att, param>>

\* quiescent observation: does_exist, is_connected of the live handles (-1 = no handle)
Obs(exists, sc, rc) ==
    /\ \A t \in Threads : pend[t].st = "idle"
    /\ exists = (att # {})
    /\ sc = (IF ~hS THEN -1 ELSE IF att = {"S", "R"} THEN 1 ELSE 0)
    /\ rc = (IF ~hR THEN -1 ELSE IF att = {"S", "R"} THEN 1 ELSE 0)
    /\ UNCHANGED cvars

OneEach == Cardinality(att) <= 2
=============================================================================
