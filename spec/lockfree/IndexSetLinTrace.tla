--------------------------- MODULE IndexSetLinTrace ---------------------------
EXTENDS IndexSetLin, TraceIO, Integers

VARIABLE l
tvars == <<held, locked, cap, pend, l>>

TraceInit == l = 1 /\ ISInit(0) /\ TraceRegInit

Consume ==
    /\ l <= NRec
    /\ l' = l + 1
    /\ LET e == Rec[l] IN
       CASE e.k = "reset" -> ISReset(e.cap)
         [] e.k = "call"  -> Call(e.t, e.a, e.i, e.m)
         [] e.k = "ret"   -> Ret(e.t, e.a, e.r, e.v, e.idx)
         [] e.k = "end"   -> /\ e.outcome = "completed"
                             /\ e.panics = <<>>
                             /\ Quiescent(e.borrowed, e.locked)
         [] e.k \in {"atom", "aux"} -> UNCHANGED isvars
         [] OTHER -> FALSE

Silent ==
    /\ l <= NRec
    /\ \E t \in Threads : Lin(t)
    /\ UNCHANGED l

TraceNext == Consume \/ Silent
TraceSpec == TraceInit /\ [][TraceNext]_tvars
Progress == TraceProgress(l)
Accepted == TraceAccepted
=============================================================================
