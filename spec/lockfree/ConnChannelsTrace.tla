------------------------- MODULE ConnChannelsTrace -------------------------
EXTENDS ConnChannels, TraceIO
VARIABLE l
tvars == <<sq, cq, bor, used, cfg, alive, l>>
TraceInit == l = 1 /\ CCInit /\ TraceRegInit
RIt(e) == <<e.rseg, e.rv>>
Items(e) == [i \in DOMAIN e.items |-> <<e.items[i][1], e.items[i][2]>>]
Consume ==
    /\ l <= NRec
    /\ l' = l + 1
    /\ LET e == Rec[l] IN
       CASE e.k = "reset" -> CCReset(e.buf, e.maxbor, e.ovf, e.nch, e.nseg)
         [] e.k = "op" /\ e.a = "send"    -> Send(e.c, Item(e), e.r, RIt(e))
         [] e.k = "op" /\ e.a = "recv"    -> Recv(e.c, e.r, RIt(e))
         [] e.k = "op" /\ e.a = "rel"     -> Rel(e.c, Item(e), e.r)
         [] e.k = "op" /\ e.a = "reclaim" -> Reclaim(e.c, e.r, RIt(e))
         [] e.k = "op" /\ e.a = "obs"     -> Obs(e.c, e.hasdata, e.borrowed)
         [] e.k = "op" /\ e.a = "drop_receiver" -> DropReceiver
         [] e.k = "op" /\ e.a = "acquire_used"  -> AcquireUsed(Items(e))
         [] e.k = "end" -> UNCHANGED ccvars
         [] OTHER -> FALSE
TraceNext == Consume
TraceSpec == TraceInit /\ [][TraceNext]_tvars
Progress == TraceProgress(l)
Accepted == TraceAccepted
=============================================================================
