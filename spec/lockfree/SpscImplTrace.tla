--------------------------- MODULE SpscImplTrace ---------------------------
(***************************************************************************)
(* Atomic-level conformance of the implementation-shaped SPSC specification*)
(* (DESIGN.md 3.3/3.4): every atomic access the real queue performed under *)
(* the deterministic scheduler (kind of access, memory ordering, value     *)
(* read, value written, CAS outcome) and every call/return must be the     *)
(* next step of SpscImpl for that thread.  The orderings are the constant  *)
(* `Ord` extracted from the same trace, so acceptance also certifies that  *)
(* the ordering table handed to the weak-memory model run is the code's.   *)
(* Recorded executions are sequentially consistent (x86, serialised), so   *)
(* reads are additionally required to return the recorded value.           *)
(***************************************************************************)
EXTENDS SpscImpl, TraceIO

VARIABLE l
tvars == <<vars, l>>

TraceInit == Init /\ l = 1 /\ TraceRegInit

Ev == Rec[l]

ResetAll ==
    /\ mem' = [x \in Loc |-> << [val |-> IF x = HC THEN 1 ELSE 0, view |-> View0] >>]
    /\ tv' = [t \in Thr |-> View0]
    /\ acqv' = [t \in Thr |-> View0]
    /\ relv' = [t \in Thr |-> View0]
    /\ sc' = View0
    /\ pc' = [t \in Thr |-> "idle"]
    /\ pw' = 0 /\ pr' = 0
    /\ cr' = [c \in Cons |-> 0] /\ cw' = [c \in Cons |-> 0] /\ cval' = [c \in Cons |-> 0]
    /\ nextv' = 1 /\ npop' = [c \in Cons |-> 0] /\ holds' = [c \in Cons |-> FALSE]
    /\ pushres' = <<>> /\ popped' = <<>> /\ nones' = 0 /\ evicted' = <<>>
    /\ race' = FALSE

IsAtom(e, t, op, o, of) == e.k = "atom" /\ e.t = t /\ e.op = op /\ e.ord = o /\ e.ordf = of

\* one recorded atomic access = one (or, with the plain slot access, two) spec steps
AtomP(e) ==
    \/ /\ IsAtom(e, 0, "load", Ord.p_wp, Ord.p_wp) /\ PLoadWp /\ pw' = e.rd
    \/ /\ IsAtom(e, 0, "load", Ord.p_rp, Ord.p_rp) /\ PLoadRp /\ pr' = e.rd
    \/ /\ IsAtom(e, 0, "store", Ord.p_st, Ord.p_st) /\ PStoreWp /\ e.wr = pw + 1
    \/ /\ IsAtom(e, 0, "cas", Ord.p_cas_s, Ord.p_cas_f) /\ PCasRp
       /\ e.expected = pr /\ e.operand = pr + 1
       /\ e.ok = (pc'[0] = "p_rdev") /\ e.rd = LatestVal(RP)

AtomC(e) ==
    \/ /\ IsAtom(e, 1, "load", Ord.c_rp, Ord.c_rp) /\ CLoadRp(1) /\ cr'[1] = e.rd
    \/ /\ IsAtom(e, 1, "load", Ord.c_wp, Ord.c_wp) /\ CLoadWp(1) /\ cw'[1] = e.rd
    \/ /\ IsAtom(e, 1, "store", Ord.c_st, Ord.c_st) /\ CStoreRp(1) /\ e.wr = cr[1] + 1
    \/ /\ IsAtom(e, 1, "cas", Ord.c_cas_s, Ord.c_cas_f) /\ CCasRp(1)
       /\ e.expected = cr[1] /\ e.operand = cr[1] + 1
       /\ e.ok = (pc'[1] = "idle") /\ e.rd = LatestVal(RP)

\* plain slot accesses are not recorded: they are silent steps (bounded: the pc changes)
Silent ==
    /\ l <= NRec
    /\ (PWriteSlot \/ PReadEvicted \/ CReadSlot(1))
    /\ UNCHANGED l

Consume ==
    /\ l <= NRec
    /\ l' = l + 1
    /\ LET e == Ev IN
       CASE e.k = "reset" -> ResetAll
         [] e.k = "call" /\ e.a = "push" -> PStart /\ e.v = nextv
         [] e.k = "call" /\ e.a = "pop" -> CStart(1)
         [] e.k = "ret" /\ e.a = "push" ->
               /\ pc[0] = "idle" /\ Len(pushres) = nextv - 1 /\ nextv > 1
               /\ pushres[nextv - 1].r = e.r /\ pushres[nextv - 1].v = e.v
               /\ UNCHANGED vars
         [] e.k = "ret" /\ e.a = "pop" ->
               /\ pc[1] = "idle"
               /\ IF e.r = "none" THEN TRUE ELSE Len(popped) > 0 /\ popped[Len(popped)] = e.v
               /\ Len(popped) + nones = npop[1]
               /\ UNCHANGED vars
         [] e.k = "atom" -> AtomP(e) \/ AtomC(e)
         [] e.k \in {"end", "aux", "tok"} -> UNCHANGED vars
         [] OTHER -> FALSE

TraceNext == Consume \/ Silent
TraceSpec == TraceInit /\ [][TraceNext]_tvars
Progress == TraceProgress(l)
Accepted == TraceAccepted
=============================================================================
