SPECIFICATION TraceSpec
CONSTRAINT Progress
POSTCONDITION Accepted
CHECK_DEADLOCK FALSE
INVARIANTS Exclusive InRange LockIsFinal
