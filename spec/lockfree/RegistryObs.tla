----------------------------- MODULE RegistryObs -----------------------------
(***************************************************************************)
(* Property layer of C10: what a participant may see when it refreshes its *)
(* snapshot of a registry (mpmc::Container) while others add, remove and   *)
(* recover entries.  Every add carries a fresh value, so an entry is       *)
(* identified by its value.  The four clauses of the statement:            *)
(*  OnlyReal    every snapshot entry (slot, value, intact) was really      *)
(*              added (its add has at least been called), intact, and in   *)
(*              the slot that add returned;                                *)
(*  NoGhost     no entry whose removal had COMPLETED before the refresh    *)
(*              was CALLED;                                                *)
(*  Noticed     every add that had completed before the refresh was called *)
(*              and whose removal has not even been called when the        *)
(*              refresh returns is in the snapshot (=> exact once changes  *)
(*              stop, every completed change is noticed by the next        *)
(*              refresh that starts after it);                             *)
(*  Quiet       "unchanged" leaves the snapshot as it was; and if no       *)
(*              writer operation was in flight when this reader's previous *)
(*              refresh was called and none was called since, the refresh  *)
(*              reports "unchanged".                                       *)
(* Which of the in-flight changes a refresh reflects is left open.         *)
(***************************************************************************)
EXTENDS Naturals, Sequences, FiniteSets

VARIABLES adds,      \* [value -> [st: "called"|"done"|"failed", idx, owner]]   (partial: DOMAIN = values seen)
          rems,      \* [value -> <<"called",0>> | <<"rec",t>> | <<"done",0>>]                             (partial)
          opcount,   \* number of writer operations called so far
          rd         \* [reader -> [st, mustNot, mustHave, opsAtPrevCall, opsAtCall, prev]]

rvars == <<adds, rems, opcount, rd>>

Readers == 0..7
RdIdle == [st |-> "idle", mustNot |-> {}, mustHave |-> {}, opsAtCall |-> 0, opsAtPrevCall |-> 0,
           quietAtCall |-> FALSE, quietAtPrevCall |-> FALSE, hasPrev |-> FALSE, prev |-> {}]

\* no writer operation is in flight
NoneInFlight == /\ \A v \in DOMAIN adds : adds[v].st # "called"
                /\ \A v \in DOMAIN rems : rems[v] = <<"done", 0>>

RegInit == adds = <<>> /\ rems = <<>> /\ opcount = 0 /\ rd = [r \in Readers |-> RdIdle]
RegReset == adds' = <<>> /\ rems' = <<>> /\ opcount' = 0 /\ rd' = [r \in Readers |-> RdIdle]

Put(f, k, v) == [x \in DOMAIN f \cup {k} |-> IF x = k THEN v ELSE f[x]]

AddCall(t, v) ==
    /\ v \notin DOMAIN adds
    /\ adds' = Put(adds, v, [st |-> "called", idx |-> 0, owner |-> t + 1])
    /\ opcount' = opcount + 1
    /\ UNCHANGED <<rems, rd>>

AddRet(t, v, r, idx) ==
    /\ v \in DOMAIN adds /\ adds[v].st = "called"
    /\ adds' = [adds EXCEPT ![v].st = IF r = "ok" THEN "done" ELSE "failed", ![v].idx = idx]
    /\ UNCHANGED <<rems, opcount, rd>>

RemCall(t, v) ==
    /\ v \in DOMAIN adds /\ adds[v].st = "done" /\ v \notin DOMAIN rems
    /\ rems' = Put(rems, v, <<"called", 0>>)
    /\ opcount' = opcount + 1
    /\ UNCHANGED <<adds, rd>>

RemRet(t, v, r) ==
    /\ r = "ok"
    /\ v \in DOMAIN rems /\ rems[v] = <<"called", 0>>
    /\ rems' = [rems EXCEPT ![v] = <<"done", 0>>]
    /\ UNCHANGED <<adds, opcount, rd>>

\* recover(owner o): a removal of every entry of that (finished) owner
OwnedLive(o) == {v \in DOMAIN adds : adds[v].owner = o /\ adds[v].st = "done" /\ v \notin DOMAIN rems}
RecCall(t, o) ==
    /\ rems' = [x \in DOMAIN rems \cup OwnedLive(o) |-> IF x \in OwnedLive(o) THEN <<"rec", t>> ELSE rems[x]]
    /\ opcount' = opcount + 1
    /\ UNCHANGED <<adds, rd>>
RecRet(t, o) ==
    /\ rems' = [x \in DOMAIN rems |-> IF rems[x] = <<"rec", t>> THEN <<"done", 0>> ELSE rems[x]]
    /\ UNCHANGED <<adds, opcount, rd>>

RefCall(t) ==
    /\ rd[t].st = "idle"
    /\ rd' = [rd EXCEPT ![t].st = "called",
                        ![t].mustNot = {v \in DOMAIN rems : rems[v] = <<"done", 0>>},
                        ![t].mustHave = {v \in DOMAIN adds : adds[v].st = "done" /\ v \notin DOMAIN rems},
                        ![t].opsAtPrevCall = rd[t].opsAtCall,
                        ![t].opsAtCall = opcount,
                        ![t].quietAtPrevCall = rd[t].quietAtCall,
                        ![t].quietAtCall = NoneInFlight]
    /\ UNCHANGED <<adds, rems, opcount>>

\* ent: sequence of <<slot, value, intact>>
RefRet(t, chg, ent) ==
    LET E == {ent[k] : k \in DOMAIN ent}
        vals == {e[2] : e \in E}
    IN
    /\ rd[t].st = "called"
    \* well formed: one entry per slot
    /\ \A e1, e2 \in E : e1[1] = e2[1] => e1 = e2
    \* OnlyReal
    /\ \A e \in E : /\ e[3] = TRUE
                    /\ e[2] \in DOMAIN adds
                    /\ adds[e[2]].st # "failed"
                    /\ adds[e[2]].st = "done" => adds[e[2]].idx = e[1]
    \* NoGhost
    /\ vals \cap rd[t].mustNot = {}
    \* Noticed
    /\ \A v \in rd[t].mustHave : v \notin DOMAIN rems => v \in vals
    \* Quiet
    /\ (~chg /\ rd[t].hasPrev) => E = rd[t].prev
    /\ (rd[t].hasPrev /\ rd[t].quietAtPrevCall /\ opcount = rd[t].opsAtPrevCall) => ~chg
    /\ rd' = [rd EXCEPT ![t].st = "idle", ![t].prev = E, ![t].hasPrev = TRUE]
    /\ UNCHANGED <<adds, rems, opcount>>
=============================================================================
