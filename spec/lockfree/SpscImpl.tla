------------------------------ MODULE SpscImpl ------------------------------
(***************************************************************************)
(* Implementation-shaped specification (layer 2) of the three SPSC queues  *)
(* of iceoryx2-bb-lock-free:                                               *)
(*    spsc::index_queue::IndexQueue            (Overflow = FALSE)          *)
(*    spsc::queue::Queue<T, N>                 (Overflow = FALSE)          *)
(*    spsc::safely_overflowing_index_queue     (Overflow = TRUE)           *)
(* one action per shared-memory access, over the C11 view model C11Mem.    *)
(* The memory ordering of every access is a constant (`Ord`), which the    *)
(* check fills with the orderings EXTRACTED from the running code          *)
(* (DESIGN.md 3.3), as is the number of slots (`NSlots`).                  *)
(*                                                                         *)
(* Thread 0 (producer) pushes the values 1..NPush, thread 1 (consumer)     *)
(* pops NPop times.                                                        *)
(***************************************************************************)
EXTENDS Naturals, Sequences, FiniteSets, TLC

CONSTANTS Cap,        \* capacity
          NSlots,     \* number of data cells (Cap, resp. Cap+1 for the overflowing queue)
          Overflow,   \* BOOLEAN
          NPush, NPop,
          Ord         \* record: p_wp p_rp p_st p_cas_s p_cas_f c_rp c_wp c_st c_cas_s c_cas_f

WP == <<"wp", 0>>
RP == <<"rp", 0>>
Slot(i) == <<"s", i>>
Mark(i) == <<"g", i>>
Loc == {WP, RP} \cup {Slot(i) : i \in 0..NSlots-1} \cup {Mark(i) : i \in 0..NSlots-1}
Thr == {0, 1}

VARIABLES mem, tv, acqv, relv, sc
INSTANCE C11Mem

VARIABLES pc,        \* [Thr -> label]
          pw, pr,    \* producer registers: write position, read position
          cr, cw,    \* consumer registers
          cval,      \* value read by the consumer from the slot
          nextv,     \* next value to push
          npop,      \* pops started
          pushres,   \* sequence of push results: "ok" | "full" | <<"ev", v>> as [r, v]
          popped,    \* sequence of values returned by pop (0 = none is not recorded)
          nones,     \* number of pops that returned none
          evicted,   \* sequence of values handed back to the producer
          race       \* a plain write raced with an earlier access (data race)

lvars == <<pc, pw, pr, cr, cw, cval, nextv, npop, pushres, popped, nones, evicted, race>>
vars == <<mem, tv, acqv, relv, sc, lvars>>

UseMarks == ~Overflow

Init ==
    /\ MemInit([l \in Loc |-> 0])
    /\ pc = [t \in Thr |-> "idle"]
    /\ pw = 0 /\ pr = 0 /\ cr = 0 /\ cw = 0 /\ cval = 0
    /\ nextv = 1 /\ npop = 0
    /\ pushres = <<>> /\ popped = <<>> /\ nones = 0 /\ evicted = <<>>
    /\ race = FALSE

Goto(t, lbl) == pc' = [pc EXCEPT ![t] = lbl]

\* ------------------------------------------------------------------ producer
PStart ==
    /\ pc[0] = "idle" /\ nextv <= NPush
    /\ Goto(0, "p_ldwp")
    /\ MemSkip
    /\ UNCHANGED <<pw, pr, cr, cw, cval, nextv, npop, pushres, popped, nones, evicted, race>>

PLoadWp ==
    /\ pc[0] = "p_ldwp"
    /\ \E i \in Readable(0, WP, Ord.p_wp) :
          /\ Load(0, WP, Ord.p_wp, i)
          /\ pw' = ValAt(WP, i)
    /\ Goto(0, "p_ldrp")
    /\ UNCHANGED <<pr, cr, cw, cval, nextv, npop, pushres, popped, nones, evicted, race>>

PLoadRp ==
    /\ pc[0] = "p_ldrp"
    /\ \E i \in Readable(0, RP, Ord.p_rp) :
          /\ Load(0, RP, Ord.p_rp, i)
          /\ pr' = ValAt(RP, i)
          /\ IF ~Overflow /\ pw = ValAt(RP, i) + Cap
             THEN /\ pushres' = Append(pushres, [r |-> "full", v |-> 0])
                  /\ nextv' = nextv + 1
                  /\ Goto(0, "idle")
             ELSE /\ Goto(0, "p_wr")
                  /\ UNCHANGED <<pushres, nextv>>
    /\ UNCHANGED <<pw, cr, cw, cval, npop, popped, nones, evicted, race>>

PWriteSlot ==
    /\ pc[0] = "p_wr"
    /\ LET s == pw % NSlots IN
          /\ Store(0, Slot(s), "Relaxed", nextv)
          /\ race' = (race \/ (UseMarks /\ ~WriteRaceFree(0, Slot(s), Mark(s))))
    /\ Goto(0, "p_st")
    /\ UNCHANGED <<pw, pr, cr, cw, cval, nextv, npop, pushres, popped, nones, evicted>>

PStoreWp ==
    /\ pc[0] = "p_st"
    /\ Store(0, WP, Ord.p_st, pw + 1)
    /\ IF Overflow /\ pw = pr + Cap
       THEN /\ Goto(0, "p_cas")
            /\ UNCHANGED <<pushres, nextv>>
       ELSE /\ pushres' = Append(pushres, [r |-> "ok", v |-> 0])
            /\ nextv' = nextv + 1
            /\ Goto(0, "idle")
    /\ UNCHANGED <<pw, pr, cr, cw, cval, npop, popped, nones, evicted, race>>

PCasRp ==
    /\ pc[0] = "p_cas"
    /\ \E i \in CasChoices(0, RP, Ord.p_cas_s, Ord.p_cas_f, pr) :
          /\ Cas(0, RP, Ord.p_cas_s, Ord.p_cas_f, pr, pr + 1, i)
          /\ IF CasOk(RP, pr, i)
             THEN /\ Goto(0, "p_rdev")
                  /\ UNCHANGED <<pushres, nextv>>
             ELSE /\ pushres' = Append(pushres, [r |-> "ok", v |-> 0])
                  /\ nextv' = nextv + 1
                  /\ Goto(0, "idle")
    /\ UNCHANGED <<pw, pr, cr, cw, cval, npop, popped, nones, evicted, race>>

PReadEvicted ==
    /\ pc[0] = "p_rdev"
    /\ \E i \in Readable(0, Slot(pr % NSlots), "Relaxed") :
          /\ Load(0, Slot(pr % NSlots), "Relaxed", i)
          /\ evicted' = Append(evicted, ValAt(Slot(pr % NSlots), i))
          /\ pushres' = Append(pushres, [r |-> "evicted", v |-> ValAt(Slot(pr % NSlots), i)])
    /\ nextv' = nextv + 1
    /\ Goto(0, "idle")
    /\ UNCHANGED <<pw, pr, cr, cw, cval, npop, popped, nones, race>>

\* ------------------------------------------------------------------ consumer
CStart ==
    /\ pc[1] = "idle" /\ npop < NPop
    /\ npop' = npop + 1
    /\ Goto(1, "c_ldrp")
    /\ MemSkip
    /\ UNCHANGED <<pw, pr, cr, cw, cval, nextv, pushres, popped, nones, evicted, race>>

CLoadRp ==
    /\ pc[1] = "c_ldrp"
    /\ \E i \in Readable(1, RP, Ord.c_rp) :
          /\ Load(1, RP, Ord.c_rp, i)
          /\ cr' = ValAt(RP, i)
    /\ Goto(1, "c_ldwp")
    /\ UNCHANGED <<pw, pr, cw, cval, nextv, npop, pushres, popped, nones, evicted, race>>

CLoadWp ==
    /\ pc[1] = "c_ldwp"
    /\ \E i \in Readable(1, WP, Ord.c_wp) :
          /\ Load(1, WP, Ord.c_wp, i)
          /\ cw' = ValAt(WP, i)
          /\ IF cr = ValAt(WP, i)
             THEN /\ nones' = nones + 1
                  /\ Goto(1, "idle")
             ELSE /\ Goto(1, "c_rd")
                  /\ UNCHANGED nones
    /\ UNCHANGED <<pw, pr, cr, cval, nextv, npop, pushres, popped, evicted, race>>

CReadSlot ==
    /\ pc[1] = "c_rd"
    /\ LET s == cr % NSlots IN
       \E i \in Readable(1, Slot(s), "Relaxed") :
          /\ IF UseMarks THEN PlainRead(1, Slot(s), Mark(s), i)
                         ELSE Load(1, Slot(s), "Relaxed", i)
          /\ cval' = ValAt(Slot(s), i)
    /\ Goto(1, IF Overflow THEN "c_cas" ELSE "c_st")
    /\ UNCHANGED <<pw, pr, cr, cw, nextv, npop, pushres, popped, nones, evicted, race>>

CStoreRp ==
    /\ pc[1] = "c_st"
    /\ Store(1, RP, Ord.c_st, cr + 1)
    /\ popped' = Append(popped, cval)
    /\ Goto(1, "idle")
    /\ UNCHANGED <<pw, pr, cr, cw, cval, nextv, npop, pushres, nones, evicted, race>>

CCasRp ==
    /\ pc[1] = "c_cas"
    /\ \E i \in CasChoices(1, RP, Ord.c_cas_s, Ord.c_cas_f, cr) :
          /\ Cas(1, RP, Ord.c_cas_s, Ord.c_cas_f, cr, cr + 1, i)
          /\ IF CasOk(RP, cr, i)
             THEN /\ popped' = Append(popped, cval)
                  /\ Goto(1, "idle")
                  /\ UNCHANGED cr
             ELSE /\ cr' = ValAt(RP, i)
                  /\ Goto(1, "c_rd")
                  /\ UNCHANGED popped
    /\ UNCHANGED <<pw, pr, cw, cval, nextv, npop, pushres, nones, evicted, race>>

Next ==
    \/ PStart \/ PLoadWp \/ PLoadRp \/ PWriteSlot \/ PStoreWp \/ PCasRp \/ PReadEvicted
    \/ CStart \/ CLoadRp \/ CLoadWp \/ CReadSlot \/ CStoreRp \/ CCasRp

Spec == Init /\ [][Next]_vars

\* ------------------------------------------------------------------ properties
Range(s) == {s[i] : i \in DOMAIN s}
Increasing(s) == \A i, j \in DOMAIN s : i < j => s[i] < s[j]

Done == pc[0] = "idle" /\ pc[1] = "idle" /\ nextv > NPush /\ npop = NPop

PushedOk == {v \in 1..NPush : v <= Len(pushres) /\ pushres[v].r # "full"}

\* nothing invented: whatever left the queue was pushed (written AND published) before
Published == IF pc[0] \in {"p_cas", "p_rdev"} THEN nextv ELSE nextv - 1
NoInvention ==
    /\ Range(popped) \subseteq 1..Published
    /\ Range(evicted) \subseteq 1..Published

\* nothing duplicated: popped and evicted values are pairwise distinct
NoDuplication ==
    /\ Increasing(popped)          \* also FIFO order
    /\ Increasing(evicted)
    /\ Range(popped) \cap Range(evicted) = {}

\* cursors never cross, the number of published elements respects the capacity
Bounded ==
    /\ LatestVal(RP) <= LatestVal(WP)
    /\ LatestVal(WP) - LatestVal(RP) <= Cap + (IF Overflow THEN 1 ELSE 0)

Remaining == { LatestVal(Slot(p % NSlots)) : p \in LatestVal(RP)..(LatestVal(WP) - 1) }

\* nothing lost: at quiescence every accepted value is in exactly one place
Conservation ==
    Done => /\ Range(popped) \cup Range(evicted) \cup Remaining = PushedOk
            /\ Cardinality(Remaining) = LatestVal(WP) - LatestVal(RP)
            /\ Len(popped) + Len(evicted) + Cardinality(Remaining) = Cardinality(PushedOk)

NoDataRace == ~race

TypeOK == pc \in [Thr -> {"idle", "p_ldwp", "p_ldrp", "p_wr", "p_st", "p_cas", "p_rdev",
                           "c_ldrp", "c_ldwp", "c_rd", "c_st", "c_cas"}]
=============================================================================
