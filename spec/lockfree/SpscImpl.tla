------------------------------ MODULE SpscImpl ------------------------------
(***************************************************************************)
(* Implementation-shaped specification (layer 2) of the three SPSC queues  *)
(* of iceoryx2-bb-lock-free:                                               *)
(*    spsc::index_queue::IndexQueue            (Overflow = FALSE)          *)
(*    spsc::queue::Queue<T, N>                 (Overflow = FALSE)          *)
(*    spsc::safely_overflowing_index_queue     (Overflow = TRUE)           *)
(* one action per shared-memory access, over the C11 view model C11Mem.    *)
(* The memory ordering of every access is a constant (`Ord`), which the    *)
(* check fills with the orderings EXTRACTED from the running code          *)
(* (DESIGN.md 3.3), as is the number of slots (`NSlots`).                  *)
(*                                                                         *)
(* Thread 0 (producer) pushes the values 1..NPush, every consumer thread   *)
(* (1..NCons) pops NPop times.  With Handover the consumers pass the       *)
(* has_consumer token (acquire_consumer = CAS, drop = store) - the         *)
(* "producer/consumer hand-over between threads" of the statement.         *)
(***************************************************************************)
EXTENDS Naturals, Sequences, FiniteSets, TLC

CONSTANTS Cap,        \* capacity
          NSlots,     \* number of data cells (Cap, resp. Cap+1 for the overflowing queue)
          Overflow,   \* BOOLEAN
          NPush, NPop,
          NCons,      \* number of consumer threads (1; 2 = consumer hand-over between two threads)
          Handover,   \* BOOLEAN: consumers must hold the has_consumer token (acquire_consumer / drop)
          Ord         \* record: p_wp p_rp p_st p_cas_s p_cas_f c_rp c_wp c_st c_cas_s c_cas_f hc_s hc_f hc_rel

WP == <<"wp", 0>>
RP == <<"rp", 0>>
Slot(i) == <<"s", i>>
Mark(i) == <<"g", i>>
HC == <<"hc", 0>>           \* has_consumer flag: 1 = a consumer may be acquired
Loc == {WP, RP, HC} \cup {Slot(i) : i \in 0..NSlots-1} \cup {Mark(i) : i \in 0..NSlots-1}
Cons == 1..NCons
Thr == 0..NCons

VARIABLES mem, tv, acqv, relv, sc
INSTANCE C11Mem

VARIABLES pc,        \* [Thr -> label]
          pw, pr,    \* producer registers: write position, read position
          cr, cw,    \* consumer registers
          cval,      \* value read by the consumer from the slot
          nextv,     \* next value to push
          npop,      \* [consumer -> pops started]
          holds,     \* [consumer -> holds the consumer token]
          pushres,   \* sequence of push results: "ok" | "full" | <<"ev", v>> as [r, v]
          popped,    \* sequence of values returned by pop (0 = none is not recorded)
          nones,     \* number of pops that returned none
          evicted,   \* sequence of values handed back to the producer
          race       \* a plain write raced with an earlier access (data race)

lvars == <<pc, pw, pr, cr, cw, cval, nextv, npop, holds, pushres, popped, nones, evicted, race>>
vars == <<mem, tv, acqv, relv, sc, lvars>>

UseMarks == ~Overflow

Init ==
    /\ MemInit([l \in Loc |-> IF l = HC THEN 1 ELSE 0])
    /\ pc = [t \in Thr |-> "idle"]
    /\ pw = 0 /\ pr = 0
    /\ cr = [c \in Cons |-> 0] /\ cw = [c \in Cons |-> 0] /\ cval = [c \in Cons |-> 0]
    /\ nextv = 1 /\ npop = [c \in Cons |-> 0] /\ holds = [c \in Cons |-> FALSE]
    /\ pushres = <<>> /\ popped = <<>> /\ nones = 0 /\ evicted = <<>>
    /\ race = FALSE

Goto(t, lbl) == pc' = [pc EXCEPT ![t] = lbl]

\* ------------------------------------------------------------------ producer
PStart ==
    /\ pc[0] = "idle" /\ nextv <= NPush
    /\ Goto(0, "p_ldwp")
    /\ MemSkip
    /\ UNCHANGED <<pw, pr, cr, cw, cval, nextv, npop, holds, pushres, popped, nones, evicted, race>>

PLoadWp ==
    /\ pc[0] = "p_ldwp"
    /\ \E i \in Readable(0, WP, Ord.p_wp) :
          /\ Load(0, WP, Ord.p_wp, i)
          /\ pw' = ValAt(WP, i)
    /\ Goto(0, "p_ldrp")
    /\ UNCHANGED <<pr, cr, cw, cval, nextv, npop, holds, pushres, popped, nones, evicted, race>>

PLoadRp ==
    /\ pc[0] = "p_ldrp"
    /\ \E i \in Readable(0, RP, Ord.p_rp) :
          /\ Load(0, RP, Ord.p_rp, i)
          /\ pr' = ValAt(RP, i)
          /\ IF ~Overflow /\ pw = ValAt(RP, i) + Cap
             THEN /\ pushres' = Append(pushres, [r |-> "full", v |-> 0])
                  /\ nextv' = nextv + 1
                  /\ Goto(0, "idle")
             ELSE /\ Goto(0, "p_wr")
                  /\ UNCHANGED <<pushres, nextv>>
    /\ UNCHANGED <<pw, cr, cw, cval, npop, holds, popped, nones, evicted, race>>

PWriteSlot ==
    /\ pc[0] = "p_wr"
    /\ LET s == pw % NSlots IN
          /\ Store(0, Slot(s), "Relaxed", nextv)
          /\ race' = (race \/ (UseMarks /\ ~WriteRaceFree(0, Slot(s), Mark(s))))
    /\ Goto(0, "p_st")
    /\ UNCHANGED <<pw, pr, cr, cw, cval, nextv, npop, holds, pushres, popped, nones, evicted>>

PStoreWp ==
    /\ pc[0] = "p_st"
    /\ Store(0, WP, Ord.p_st, pw + 1)
    /\ IF Overflow /\ pw = pr + Cap
       THEN /\ Goto(0, "p_cas")
            /\ UNCHANGED <<pushres, nextv>>
       ELSE /\ pushres' = Append(pushres, [r |-> "ok", v |-> 0])
            /\ nextv' = nextv + 1
            /\ Goto(0, "idle")
    /\ UNCHANGED <<pw, pr, cr, cw, cval, npop, holds, popped, nones, evicted, race>>

PCasRp ==
    /\ pc[0] = "p_cas"
    /\ \E i \in CasChoices(0, RP, Ord.p_cas_s, Ord.p_cas_f, pr) :
          /\ Cas(0, RP, Ord.p_cas_s, Ord.p_cas_f, pr, pr + 1, i)
          /\ IF CasOk(RP, pr, i)
             THEN /\ Goto(0, "p_rdev")
                  /\ UNCHANGED <<pushres, nextv>>
             ELSE /\ pushres' = Append(pushres, [r |-> "ok", v |-> 0])
                  /\ nextv' = nextv + 1
                  /\ Goto(0, "idle")
    /\ UNCHANGED <<pw, pr, cr, cw, cval, npop, holds, popped, nones, evicted, race>>

PReadEvicted ==
    /\ pc[0] = "p_rdev"
    /\ \E i \in Readable(0, Slot(pr % NSlots), "Relaxed") :
          /\ Load(0, Slot(pr % NSlots), "Relaxed", i)
          /\ evicted' = Append(evicted, ValAt(Slot(pr % NSlots), i))
          /\ pushres' = Append(pushres, [r |-> "evicted", v |-> ValAt(Slot(pr % NSlots), i)])
    /\ nextv' = nextv + 1
    /\ Goto(0, "idle")
    /\ UNCHANGED <<pw, pr, cr, cw, cval, npop, holds, popped, nones, race>>

\* ------------------------------------------------------------------ consumer(s)
\* token hand-over: acquire_consumer = CAS has_consumer 1 -> 0, drop of the Consumer = store 1
CAcquire(c) ==
    /\ Handover /\ pc[c] = "idle" /\ ~holds[c] /\ npop[c] < NPop
    /\ \E i \in CasChoices(c, HC, Ord.hc_s, Ord.hc_f, 1) :
          /\ Cas(c, HC, Ord.hc_s, Ord.hc_f, 1, 0, i)
          /\ holds' = [holds EXCEPT ![c] = CasOk(HC, 1, i)]
    /\ UNCHANGED <<pc, pw, pr, cr, cw, cval, nextv, npop, pushres, popped, nones, evicted, race>>

CRelease(c) ==
    /\ Handover /\ pc[c] = "idle" /\ holds[c] /\ npop[c] = NPop
    /\ Store(c, HC, Ord.hc_rel, 1)
    /\ holds' = [holds EXCEPT ![c] = FALSE]
    /\ npop' = [npop EXCEPT ![c] = NPop + 1]          \* done for good
    /\ UNCHANGED <<pc, pw, pr, cr, cw, cval, nextv, pushres, popped, nones, evicted, race>>

CStart(c) ==
    /\ pc[c] = "idle" /\ npop[c] < NPop /\ (Handover => holds[c])
    /\ npop' = [npop EXCEPT ![c] = @ + 1]
    /\ Goto(c, "c_ldrp")
    /\ MemSkip
    /\ UNCHANGED <<pw, pr, cr, cw, cval, nextv, holds, pushres, popped, nones, evicted, race>>

CLoadRp(c) ==
    /\ pc[c] = "c_ldrp"
    /\ \E i \in Readable(c, RP, Ord.c_rp) :
          /\ Load(c, RP, Ord.c_rp, i)
          /\ cr' = [cr EXCEPT ![c] = ValAt(RP, i)]
    /\ Goto(c, "c_ldwp")
    /\ UNCHANGED <<pw, pr, cw, cval, nextv, npop, holds, pushres, popped, nones, evicted, race>>

CLoadWp(c) ==
    /\ pc[c] = "c_ldwp"
    /\ \E i \in Readable(c, WP, Ord.c_wp) :
          /\ Load(c, WP, Ord.c_wp, i)
          /\ cw' = [cw EXCEPT ![c] = ValAt(WP, i)]
          /\ IF cr[c] = ValAt(WP, i)
             THEN /\ nones' = nones + 1
                  /\ Goto(c, "idle")
             ELSE /\ Goto(c, "c_rd")
                  /\ UNCHANGED nones
    /\ UNCHANGED <<pw, pr, cr, cval, nextv, npop, holds, pushres, popped, evicted, race>>

CReadSlot(c) ==
    /\ pc[c] = "c_rd"
    /\ LET s == cr[c] % NSlots IN
       \E i \in Readable(c, Slot(s), "Relaxed") :
          /\ IF UseMarks THEN PlainRead(c, Slot(s), Mark(s), i)
                         ELSE Load(c, Slot(s), "Relaxed", i)
          /\ cval' = [cval EXCEPT ![c] = ValAt(Slot(s), i)]
    /\ Goto(c, IF Overflow THEN "c_cas" ELSE "c_st")
    /\ UNCHANGED <<pw, pr, cr, cw, nextv, npop, holds, pushres, popped, nones, evicted, race>>

CStoreRp(c) ==
    /\ pc[c] = "c_st"
    /\ Store(c, RP, Ord.c_st, cr[c] + 1)
    /\ popped' = Append(popped, cval[c])
    /\ Goto(c, "idle")
    /\ UNCHANGED <<pw, pr, cr, cw, cval, nextv, npop, holds, pushres, nones, evicted, race>>

CCasRp(c) ==
    /\ pc[c] = "c_cas"
    /\ \E i \in CasChoices(c, RP, Ord.c_cas_s, Ord.c_cas_f, cr[c]) :
          /\ Cas(c, RP, Ord.c_cas_s, Ord.c_cas_f, cr[c], cr[c] + 1, i)
          /\ IF CasOk(RP, cr[c], i)
             THEN /\ popped' = Append(popped, cval[c])
                  /\ Goto(c, "idle")
                  /\ UNCHANGED cr
             ELSE /\ cr' = [cr EXCEPT ![c] = ValAt(RP, i)]
                  /\ Goto(c, "c_rd")
                  /\ UNCHANGED popped
    /\ UNCHANGED <<pw, pr, cw, cval, nextv, npop, holds, pushres, nones, evicted, race>>

Next ==
    \/ PStart \/ PLoadWp \/ PLoadRp \/ PWriteSlot \/ PStoreWp \/ PCasRp \/ PReadEvicted
    \/ \E c \in Cons : CAcquire(c) \/ CRelease(c) \/ CStart(c) \/ CLoadRp(c) \/ CLoadWp(c) \/ CReadSlot(c)
                       \/ CStoreRp(c) \/ CCasRp(c)

Spec == Init /\ [][Next]_vars

\* ------------------------------------------------------------------ properties
Range(s) == {s[i] : i \in DOMAIN s}
Increasing(s) == \A i, j \in DOMAIN s : i < j => s[i] < s[j]

Done == /\ \A t \in Thr : pc[t] = "idle"
        /\ nextv > NPush
        /\ \A c \in Cons : npop[c] >= NPop

PushedOk == {v \in 1..NPush : v <= Len(pushres) /\ pushres[v].r # "full"}

\* nothing invented: whatever left the queue was pushed (written AND published) before
Published == IF pc[0] \in {"p_cas", "p_rdev"} THEN nextv ELSE nextv - 1
NoInvention ==
    /\ Range(popped) \subseteq 1..Published
    /\ Range(evicted) \subseteq 1..Published

\* nothing duplicated: popped and evicted values are pairwise distinct
NoDuplication ==
    /\ Increasing(popped)          \* also FIFO order
    /\ Increasing(evicted)
    /\ Range(popped) \cap Range(evicted) = {}

\* cursors never cross, the number of published elements respects the capacity
Bounded ==
    /\ LatestVal(RP) <= LatestVal(WP)
    /\ LatestVal(WP) - LatestVal(RP) <= Cap + (IF Overflow THEN 1 ELSE 0)

Remaining == { LatestVal(Slot(p % NSlots)) : p \in LatestVal(RP)..(LatestVal(WP) - 1) }

\* nothing lost: at quiescence every accepted value is in exactly one place
Conservation ==
    Done => /\ Range(popped) \cup Range(evicted) \cup Remaining = PushedOk
            /\ Cardinality(Remaining) = LatestVal(WP) - LatestVal(RP)
            /\ Len(popped) + Len(evicted) + Cardinality(Remaining) = Cardinality(PushedOk)

NoDataRace == ~race

TypeOK == pc \in [Thr -> {"idle", "p_ldwp", "p_ldrp", "p_wr", "p_st", "p_cas", "p_rdev",
                           "c_ldrp", "c_ldwp", "c_rd", "c_st", "c_cas"}]
=============================================================================
