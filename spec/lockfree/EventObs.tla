------------------------------- MODULE EventObs -------------------------------
(***************************************************************************)
(* Property layer of C05: what notifiers and a listener of one event       *)
(* concept may observe.  Events in the global order: notify call/return,   *)
(* wait call/return with the reported (id, count) pairs, end of run.       *)
(*                                                                         *)
(*  NoPhantom   a wait only reports ids that were notified, and for every  *)
(*              id the sum of reported counts never exceeds the number of  *)
(*              notify calls for it that have begun;                       *)
(*  NoLost      a notify that RETURNED success before a wait was CALLED is *)
(*              reported by that wait unless an earlier report (that ended *)
(*              after the notify began) already covered it - notifications *)
(*              of one id may be merged, never dropped;                    *)
(*  NoSleep     the listener never stays blocked for ever (blocking wait,  *)
(*              trigger empty, everybody else finished) while a notify     *)
(*              that returned success is not covered by a report.          *)
(* "Covered" is judged generously (any report of that id that ended after  *)
(* the notify began), so a correct implementation is never rejected.       *)
(***************************************************************************)
EXTENDS Naturals, Sequences, FiniteSets

VARIABLES inst,      \* sequence of notify instances [t, id, st: "called"|"ok"|"fail", covered]
          started,   \* [id -> number of notify calls begun]
          reported,  \* [id -> sum of reported counts]
          must       \* set of instance indices that the pending wait has to cover (returned ok before its call)

evars == <<inst, started, reported, must>>
Ids == 0..15

EvInit == inst = <<>> /\ started = [i \in Ids |-> 0] /\ reported = [i \in Ids |-> 0] /\ must = {}
EvReset == inst' = <<>> /\ started' = [i \in Ids |-> 0] /\ reported' = [i \in Ids |-> 0] /\ must' = {}

NotifyCall(t, id) ==
    /\ inst' = Append(inst, [t |-> t, id |-> id, st |-> "called", covered |-> FALSE])
    /\ started' = [started EXCEPT ![id] = @ + 1]
    /\ UNCHANGED <<reported, must>>

\* the pending instance of thread t
Pending(t) == CHOOSE n \in DOMAIN inst : inst[n].t = t /\ inst[n].st = "called"

NotifyRet(t, id, r) ==
    /\ \E n \in DOMAIN inst : inst[n].t = t /\ inst[n].st = "called"
    /\ inst[Pending(t)].id = id
    /\ inst' = [inst EXCEPT ![Pending(t)].st = IF r = "ok" THEN "ok" ELSE "fail"]
    /\ UNCHANGED <<started, reported, must>>

WaitCall ==
    /\ must' = {n \in DOMAIN inst : inst[n].st = "ok" /\ ~inst[n].covered}
    /\ UNCHANGED <<inst, started, reported>>

\* rep: sequence of <<id, count>>
WaitRet(rep) ==
    LET ids == {rep[k][1] : k \in DOMAIN rep} IN
    /\ \A k \in DOMAIN rep : rep[k][2] >= 1
    /\ \A k1, k2 \in DOMAIN rep : rep[k1][1] = rep[k2][1] => k1 = k2
    \* NoPhantom
    /\ \A k \in DOMAIN rep : reported[rep[k][1]] + rep[k][2] <= started[rep[k][1]]
    \* NoLost
    /\ \A n \in must : inst[n].covered \/ inst[n].id \in ids
    /\ reported' = [i \in Ids |-> IF \E k \in DOMAIN rep : rep[k][1] = i
                                  THEN reported[i] + (CHOOSE c \in 1..1000 : \E k \in DOMAIN rep : rep[k] = <<i, c>>)
                                  ELSE reported[i]]
    /\ inst' = [n \in DOMAIN inst |-> IF inst[n].id \in ids THEN [inst[n] EXCEPT !.covered = TRUE] ELSE inst[n]]
    /\ must' = {}
    /\ UNCHANGED started

\* end of run. dl = threads blocked for ever, listener = thread id of the listener, left = what a
\* final drain (after everybody has finished or is blocked for ever) still finds in the event state
End(outcome, dl, listener, left) ==
    /\ outcome \in {"completed", "deadlock"}
    /\ outcome = "deadlock" =>
          /\ dl = <<listener>>                                   \* only the listener may block
          /\ \A n \in DOMAIN inst : inst[n].st = "ok" => inst[n].covered    \* NoSleep (generous)
          \* NoSleep (exact): every notifier has returned, so anything still recorded in the event
          \* state belongs to a completed notification the sleeping listener will never get
          /\ left = <<>>
    /\ UNCHANGED evars
=============================================================================
