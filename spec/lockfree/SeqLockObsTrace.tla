--------------------------- MODULE SeqLockObsTrace ---------------------------
EXTENDS SeqLockObs, TraceIO
VARIABLE l
tvars == <<started, seen, l>>
TraceInit == l = 1 /\ ObsInit /\ TraceRegInit
Consume ==
    /\ l <= NRec
    /\ l' = l + 1
    /\ LET e == Rec[l] IN
       CASE e.k = "reset" -> ObsReset
         [] e.k = "call" /\ e.a = "store" -> StoreCall(e.v)
         [] e.k = "ret" /\ e.a = "store" -> StoreRet(e.v)
         [] e.k = "call" /\ e.a = "load" -> LoadCall(e.t)
         [] e.k = "ret" /\ e.a = "load" -> LoadRet(e.t, e.v, e.lo, e.hi)
         [] e.k = "end" -> e.outcome = "completed" /\ e.panics = <<>> /\ UNCHANGED ovars
         [] e.k \in {"atom", "aux"} -> UNCHANGED ovars
         [] OTHER -> FALSE
TraceNext == Consume
TraceSpec == TraceInit /\ [][TraceNext]_tvars
Progress == TraceProgress(l)
Accepted == TraceAccepted
=============================================================================
