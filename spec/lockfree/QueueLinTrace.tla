---------------------------- MODULE QueueLinTrace ----------------------------
(* Trace specification: explains call/ret histories recorded from the real  *)
(* SPSC queues (drv-lockfree spsc) by the linearizable FIFO of QueueLin.    *)
EXTENDS QueueLin, TraceIO

VARIABLE l
tvars == <<q, cap, kind, pend, l>>

AbsKind(k) == IF k \in {"oq", "oqf"} THEN "overflow" ELSE "plain"

TraceInit ==
    /\ l = 1
    /\ QInit("plain", 0)
    /\ TraceRegInit

Ev == Rec[l]

Consume ==
    /\ l <= NRec
    /\ l' = l + 1
    /\ LET e == Ev IN
       CASE e.k = "reset" -> QReset(AbsKind(e.kind), e.cap)
         [] e.k = "call"  -> Call(e.t, e.a, e.v)
         [] e.k = "ret"   -> Ret(e.t, e.a, e.r, e.v)
         [] e.k = "end"   -> /\ e.outcome = "completed"
                             /\ e.panics = <<>>
                             /\ Quiescent(e.len)
         [] e.k \in {"atom", "aux", "tok"} -> UNCHANGED qvars
         [] OTHER -> FALSE

Silent ==
    /\ l <= NRec
    /\ \E t \in Threads : Lin(t)
    /\ UNCHANGED l

TraceNext == Consume \/ Silent
TraceSpec == TraceInit /\ [][TraceNext]_tvars

Progress == TraceProgress(l)
Accepted == TraceAccepted
=============================================================================
