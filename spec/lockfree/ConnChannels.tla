---------------------------- MODULE ConnChannels ----------------------------
(***************************************************************************)
(* Property layer of C03 (zero-copy connection, several channels and       *)
(* several data segments), sequential histories: "a zero-copy connection   *)
(* never loses or duplicates a sample offset between sender and receiver,  *)
(* and a release by the receiver never fails for lack of space".           *)
(* An item is <<segment, sample index>>.  Per channel c:                   *)
(*   sq[c]  submission queue, cq[c] completion queue, bor[c] borrowed set  *)
(*   used   the items the sender has handed out and not yet got back, with *)
(*          the channel they travel on                                     *)
(* The borrow limit is PER CHANNEL; a release has no failing result here;  *)
(* after the receiver is gone acquire_used_offsets hands back exactly the  *)
(* items that are still out (nothing lost, duplicated or invented, with    *)
(* the right segment).                                                     *)
(***************************************************************************)
EXTENDS Naturals, Sequences, FiniteSets

VARIABLES sq, cq, bor, used, cfg, alive
ccvars == <<sq, cq, bor, used, cfg, alive>>
MaxCh == 8
Ch == 0..(MaxCh - 1)

CCInit == /\ sq = [c \in Ch |-> <<>>] /\ cq = [c \in Ch |-> <<>>] /\ bor = [c \in Ch |-> {}] /\ used = {}
          /\ cfg = [buf |-> 0, maxbor |-> 0, ovf |-> FALSE, nch |-> 0, nseg |-> 0] /\ alive = TRUE
CCReset(b, m, o, nch, nseg) ==
    /\ sq' = [c \in Ch |-> <<>>] /\ cq' = [c \in Ch |-> <<>>] /\ bor' = [c \in Ch |-> {}] /\ used' = {}
    /\ cfg' = [buf |-> b, maxbor |-> m, ovf |-> o, nch |-> nch, nseg |-> nseg] /\ alive' = TRUE

Item(e) == <<e.seg, e.v>>
InFlight == {u[2] : u \in used}

\* r / rseg / rv: observed result and returned item
Send(c, it, r, rit) ==
    /\ alive /\ c < cfg.nch /\ it \notin InFlight
    /\ UNCHANGED <<cq, bor, cfg, alive>>
    /\ IF Len(sq[c]) < cfg.buf
       THEN r = "ok" /\ sq' = [sq EXCEPT ![c] = Append(@, it)] /\ used' = used \cup {<<c, it>>}
       ELSE IF cfg.ovf
       THEN /\ r = "evicted" /\ rit = Head(sq[c])
            /\ sq' = [sq EXCEPT ![c] = Append(Tail(@), it)]
            /\ used' = (used \cup {<<c, it>>}) \ {<<c, Head(sq[c])>>}
       ELSE r = "full" /\ UNCHANGED <<sq, used>>

Recv(c, r, rit) ==
    /\ alive /\ c < cfg.nch
    /\ UNCHANGED <<cq, used, cfg, alive>>
    /\ IF Cardinality(bor[c]) >= cfg.maxbor
       THEN r = "maxborrow" /\ UNCHANGED <<sq, bor>>
       ELSE IF sq[c] = <<>>
       THEN r = "none" /\ UNCHANGED <<sq, bor>>
       ELSE /\ r = "some" /\ rit = Head(sq[c])
            /\ sq' = [sq EXCEPT ![c] = Tail(@)] /\ bor' = [bor EXCEPT ![c] = @ \cup {Head(sq[c])}]

\* a release never fails
Rel(c, it, r) ==
    /\ alive /\ c < cfg.nch /\ it \in bor[c]
    /\ r = "ok"
    /\ cq' = [cq EXCEPT ![c] = Append(@, it)] /\ bor' = [bor EXCEPT ![c] = @ \ {it}]
    /\ UNCHANGED <<sq, used, cfg, alive>>

Reclaim(c, r, rit) ==
    /\ c < cfg.nch
    /\ UNCHANGED <<sq, bor, cfg, alive>>
    /\ IF cq[c] = <<>>
       THEN r = "none" /\ UNCHANGED <<cq, used>>
       ELSE /\ r = "some" /\ rit = Head(cq[c])
            /\ cq' = [cq EXCEPT ![c] = Tail(@)] /\ used' = used \ {<<c, Head(cq[c])>>}

\* observations per channel
Obs(c, hasdata, borrowed) ==
    /\ alive /\ c < cfg.nch
    /\ hasdata = (sq[c] # <<>>) /\ borrowed = Cardinality(bor[c])
    /\ UNCHANGED ccvars

\* the receiver is dropped (its borrowed and queued items stay out)
DropReceiver == alive /\ alive' = FALSE /\ UNCHANGED <<sq, cq, bor, used, cfg>>

\* acquire_used_offsets after the receiver is gone: exactly the items that are still out, each once
AcquireUsed(items) ==
    /\ ~alive
    /\ Len(items) = Cardinality(InFlight)
    /\ {items[i] : i \in DOMAIN items} = InFlight
    /\ used' = {} /\ sq' = [c \in Ch |-> <<>>] /\ cq' = [c \in Ch |-> <<>>] /\ bor' = [c \in Ch |-> {}]
    /\ UNCHANGED <<cfg, alive>>

Conservation == \A c \in Ch : /\ \A i \in DOMAIN sq[c] : <<c, sq[c][i]>> \in used
                              /\ \A i \in DOMAIN cq[c] : <<c, cq[c][i]>> \in used
                              /\ \A it \in bor[c] : <<c, it>> \in used
Bounded == \A c \in Ch : Len(sq[c]) <= cfg.buf /\ Cardinality(bor[c]) <= cfg.maxbor
                         /\ Len(cq[c]) <= cfg.buf + cfg.maxbor + 1
=============================================================================
