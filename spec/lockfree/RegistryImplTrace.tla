------------------------- MODULE RegistryImplTrace -------------------------
(* Atomic-level conformance of RegistryImpl with executions of the real      *)
(* mpmc::Container recorded under the deterministic scheduler: every atomic   *)
(* access of add / remove / update_state (role, slot, ordering, value read,   *)
(* outcome - labelled by checks/registry_impl.py from the access site and     *)
(* operands) must be the next step of the model.  The plain word copies are   *)
(* not observable (silent steps).  A rejection is DRIFT (the weak-memory      *)
(* argument is then not attributed to the code), never a violation.           *)
EXTENDS RegistryImpl, TraceIO

VARIABLE l
tvars == <<vars, l>>

TraceInit == Init /\ l = 1 /\ TraceRegInit

ResetAll ==
    /\ mem' = [x \in Loc |-> << [val |-> 0, view |-> View0] >>]
    /\ tv' = [t \in Thr |-> View0] /\ acqv' = [t \in Thr |-> View0] /\ relv' = [t \in Thr |-> View0] /\ sc' = View0
    /\ pc' = [t \in Thr |-> "idle"] /\ ip' = [t \in Thr |-> 1]
    /\ cur' = [t \in Thr |-> 0] /\ scan' = [t \in Thr |-> 0] /\ idx' = [t \in Thr |-> 0]
    /\ g' = [t \in Thr |-> 0] /\ wi' = [t \in Thr |-> 0] /\ val' = [t \in Thr |-> 0]
    /\ live' = [t \in Thr |-> <<>>] /\ nadd' = [t \in Thr |-> 0]
    /\ pcc' = [t \in Thr |-> 0]
    /\ pgen' = [t \in Thr |-> [i \in Slots |-> 0]]
    /\ pdata' = [t \in Thr |-> [i \in Slots |-> [w \in Words |-> 0]]]
    /\ ri' = [t \in Thr |-> 0]
    /\ addSt' = [v \in AllVals |-> "none"] /\ addIdx' = [v \in AllVals |-> 0]
    /\ remSt' = [v \in AllVals |-> "none"]
    /\ mustNot' = [t \in Thr |-> {}] /\ mustHave' = [t \in Thr |-> {}]
    /\ final' = "no" /\ viol' = {}

Atom(e) ==
    LET t == e.t IN
    CASE e.role = "s_gc_ld" -> e.ord = Ord.s_gc_ld /\ SGc(t) /\ cur'[t] = e.rd
      [] e.role = "cell_acq" -> /\ e.ord = Ord.s_acq_s /\ e.ordf = Ord.s_acq_f
                                /\ pc[t] = "s_cell" /\ scan[t] = e.slot /\ SCell(t) /\ e.ok = (pc'[t] = "s_inc")
      [] e.role = "gc_inc" -> /\ e.ord = Ord.s_gc_inc
                              /\ \/ pc[t] = "s_inc" /\ SInc(t)
                                 \/ pc[t] = "r_inc" /\ RInc(t)
      [] e.role = "gc_full" -> /\ e.ord = Ord.s_full_s /\ e.ordf = Ord.s_full_f
                               /\ SFull(t) /\ e.ok = (pc'[t] = "idle")
      [] e.role = "a_ld" -> e.ord = Ord.a_ld /\ pc[t] = "a_ld" /\ idx[t] = e.slot /\ ALd(t) /\ g'[t] = e.rd
      [] e.role = "a_cas" -> e.ord = Ord.a_cas_s /\ e.ordf = Ord.a_cas_f /\ pc[t] = "a_cas" /\ idx[t] = e.slot /\ ACas(t)
      [] e.role = "a_pub" -> e.ord = Ord.a_pub /\ pc[t] = "a_pub" /\ idx[t] = e.slot /\ APub(t)
      [] e.role = "a_cc" -> e.ord = Ord.a_cc /\ ACc(t)
      [] e.role = "r_ld" -> e.ord = Ord.r_ld /\ pc[t] = "r_ld" /\ idx[t] = e.slot /\ RLd(t) /\ g'[t] = e.rd
      [] e.role = "cell_rel" -> /\ e.ord = Ord.s_rel_s /\ e.ordf = Ord.s_rel_f
                                /\ pc[t] = "r_cell" /\ idx[t] = e.slot /\ e.ok /\ RCell(t)
      [] e.role = "r_cas" -> e.ord = Ord.r_cas_s /\ e.ordf = Ord.r_cas_f /\ pc[t] = "r_cas" /\ idx[t] = e.slot /\ RCas(t)
      [] e.role = "r_cc" -> e.ord = Ord.r_cc /\ RCc(t)
      [] e.role = "u_cc" -> e.ord = Ord.u_cc /\ UCc(t) /\ (pcc'[t] = e.rd)
      [] e.role = "u_ld" -> /\ e.ord = Ord.u_ld /\ pc[t] = "u_ld" /\ ri[t] = e.slot /\ ULd(t)
                            /\ pgen'[t][e.slot] = e.rd
      [] e.role = "u_cas" -> /\ e.ord = Ord.u_cas_s /\ e.ordf = Ord.u_cas_f
                             /\ pc[t] = "u_cas" /\ ri[t] = e.slot /\ UCas(t)
      [] OTHER -> FALSE

Silent ==
    /\ l <= NRec
    /\ \E t \in Thr : AWr(t) \/ URd(t)
    /\ UNCHANGED l

Consume ==
    /\ l <= NRec
    /\ l' = l + 1
    /\ LET e == Rec[l] IN
       CASE e.k = "reset" -> ResetAll
         [] e.k = "call" -> pc[e.t] = "idle" /\ ip[e.t] <= Len(Prog[e.t]) /\ Prog[e.t][ip[e.t]] = e.a /\ Start(e.t)
         [] e.k = "ret" -> pc[e.t] = "idle" /\ UNCHANGED vars
         [] e.k = "atom" -> Atom(e)
         [] e.k \in {"end", "aux"} -> UNCHANGED vars
         [] OTHER -> FALSE

TraceNext == Consume \/ Silent
TraceSpec == TraceInit /\ [][TraceNext]_tvars
Progress == TraceProgress(l)
Accepted == TraceAccepted
=============================================================================
