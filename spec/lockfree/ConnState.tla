------------------------------ MODULE ConnState ------------------------------
(***************************************************************************)
(* Implementation-shaped specification of the life cycle of a zero-copy    *)
(* connection (iceoryx2-cal zero_copy_connection::common, create_or_open,  *)
(* reserve_port, remove_state, ownership of the underlying named dynamic   *)
(* storage).  One connection NAME; the storage registered under the name   *)
(* is an instance number (0 = none); destruction is BY NAME (it removes    *)
(* whatever instance is registered at that moment).                        *)
(*                                                                         *)
(* CreatorReserves = TRUE : the creator's port is reserved as part of the  *)
(*   initialisation of the storage (before anybody can open it);           *)
(* CreatorReserves = FALSE: the creator reserves its port after creation   *)
(*   like an opener, while it still owns the storage.                      *)
(* The value is EXTRACTED from the running code (does the creator perform  *)
(* a reserving CAS on the state byte after the storage became visible?).   *)
(***************************************************************************)
EXTENDS Naturals, Sequences, FiniteSets, TLC

CONSTANTS Prog,             \* sequence (one per thread) of sequences of "S" | "R" | "s" | "r"
          CreatorReserves   \* BOOLEAN

Thr == 1..Len(Prog)
MaxInst == 6

VARIABLES store,      \* instance registered under the name (0 = none)
          ninst,      \* number of instances created so far
          state,      \* [instance -> subset of {"S", "R", "M"}]   M = marked for destruction
          destroyed,  \* [instance -> how often it was destroyed]
          pc, opi,    \* per thread: program counter label, index of the current operation
          hinst,      \* per thread and role: instance the handle refers to (0 = no handle)
          tmp, own,   \* per thread: instance of the operation in progress, ownership flag
          results

vars == <<store, ninst, state, destroyed, pc, opi, hinst, tmp, own, results>>

Init ==
    /\ store = 0 /\ ninst = 0
    /\ state = [i \in 1..MaxInst |-> {}]
    /\ destroyed = [i \in 1..MaxInst |-> 0]
    /\ pc = [t \in Thr |-> "idle"] /\ opi = [t \in Thr |-> 1]
    /\ hinst = [t \in Thr |-> [r \in {"S", "R"} |-> 0]]
    /\ tmp = [t \in Thr |-> 0] /\ own = [t \in Thr |-> FALSE]
    /\ results = [t \in Thr |-> <<>>]

Op(t) == Prog[t][opi[t]]
Role(o) == IF o \in {"S", "s"} THEN "S" ELSE "R"
Goto(t, l) == pc' = [pc EXCEPT ![t] = l]
Finish(t, r) ==
    /\ results' = [results EXCEPT ![t] = Append(@, r)]
    /\ opi' = [opi EXCEPT ![t] = @ + 1]
    /\ Goto(t, "idle")

\* destruction by name: removes whatever is registered now
DestroyByName ==
    /\ store' = 0
    /\ destroyed' = IF store # 0 THEN [destroyed EXCEPT ![store] = @ + 1] ELSE destroyed

Start(t) ==
    /\ pc[t] = "idle" /\ opi[t] <= Len(Prog[t])
    /\ IF Op(t) \in {"S", "R"}
       THEN /\ Goto(t, "open") /\ UNCHANGED <<opi, results, tmp>>
       ELSE IF hinst[t][Role(Op(t))] = 0
            THEN /\ Finish(t, "none") /\ UNCHANGED tmp
            ELSE /\ tmp' = [tmp EXCEPT ![t] = hinst[t][Role(Op(t))]]
                 /\ Goto(t, "remove_state") /\ UNCHANGED <<opi, results>>
    /\ UNCHANGED <<store, ninst, state, destroyed, hinst, own>>

\* ---------------------------------------------------------------- attach
OpenOrCreate(t) ==
    /\ pc[t] = "open" /\ ninst < MaxInst
    /\ IF store = 0
       THEN /\ ninst' = ninst + 1
            /\ store' = ninst + 1
            /\ state' = [state EXCEPT ![ninst + 1] = IF CreatorReserves THEN {Role(Op(t))} ELSE {}]
            /\ tmp' = [tmp EXCEPT ![t] = ninst + 1]
            /\ own' = [own EXCEPT ![t] = TRUE]
            /\ Goto(t, IF CreatorReserves THEN "release" ELSE "reserve")
       ELSE /\ tmp' = [tmp EXCEPT ![t] = store]
            /\ own' = [own EXCEPT ![t] = FALSE]
            /\ Goto(t, "reserve")
            /\ UNCHANGED <<ninst, store, state>>
    /\ UNCHANGED <<destroyed, opi, hinst, results>>

Reserve(t) ==
    /\ pc[t] = "reserve"
    /\ LET i == tmp[t] r == Role(Op(t)) IN
       IF r \in state[i] \/ "M" \in state[i]
       THEN /\ Goto(t, "fail_drop") /\ UNCHANGED state
       ELSE /\ state' = [state EXCEPT ![i] = @ \cup {r}]
            /\ Goto(t, "release")
    /\ UNCHANGED <<store, ninst, destroyed, opi, hinst, tmp, own, results>>

\* the failed attach drops its storage handle: an owner destroys the storage by name
FailDrop(t) ==
    /\ pc[t] = "fail_drop"
    /\ IF own[t] THEN DestroyByName ELSE UNCHANGED <<store, destroyed>>
    /\ own' = [own EXCEPT ![t] = FALSE]
    /\ Finish(t, IF "M" \in state[tmp[t]] THEN "IsBeingCleanedUp" ELSE "AnotherInstanceIsAlreadyConnected")
    /\ UNCHANGED <<ninst, state, hinst, tmp>>

Release(t) ==
    /\ pc[t] = "release"
    /\ own' = [own EXCEPT ![t] = FALSE]
    /\ hinst' = [hinst EXCEPT ![t][Role(Op(t))] = tmp[t]]
    /\ Finish(t, "ok")
    /\ UNCHANGED <<store, ninst, state, destroyed, tmp>>

\* ---------------------------------------------------------------- detach
RemoveState(t) ==
    /\ pc[t] = "remove_state"
    /\ LET i == tmp[t] r == Role(Op(t)) IN
       IF state[i] = {r}
       THEN /\ state' = [state EXCEPT ![i] = {"M"}]
            /\ own' = [own EXCEPT ![t] = TRUE]         \* acquire ownership
       ELSE /\ state' = [state EXCEPT ![i] = @ \ {r}]
            /\ UNCHANGED own
    /\ Goto(t, "drop")
    /\ UNCHANGED <<store, ninst, destroyed, opi, hinst, tmp, results>>

Drop(t) ==
    /\ pc[t] = "drop"
    /\ IF own[t] THEN DestroyByName ELSE UNCHANGED <<store, destroyed>>
    /\ own' = [own EXCEPT ![t] = FALSE]
    /\ hinst' = [hinst EXCEPT ![t][Role(Op(t))] = 0]
    /\ Finish(t, "ok")
    /\ UNCHANGED <<ninst, state, tmp>>

Next == \E t \in Thr : Start(t) \/ OpenOrCreate(t) \/ Reserve(t) \/ FailDrop(t) \/ Release(t)
                       \/ RemoveState(t) \/ Drop(t)
Spec == Init /\ [][Next]_vars

\* ------------------------------------------------------------------ properties
\* a handle in the middle of its own detach (registration already removed) no longer counts
Attached(r) == {t \in Thr : hinst[t][r] # 0 /\ ~(pc[t] = "drop" /\ Role(Op(t)) = r)}

\* at most one sender and one receiver per name
OneSenderOneReceiver == \A r \in {"S", "R"} : Cardinality(Attached(r)) <= 1
\* the shared resource is destroyed at most once
DestroyedAtMostOnce == \A i \in 1..MaxInst : destroyed[i] <= 1
\* ... and never while somebody is attached to it: a live handle refers to the registered instance
\* (a handle in the middle of its own detach has already given up its registration)
NotWhileAttached ==
    \A t \in Thr : \A r \in {"S", "R"} :
        (hinst[t][r] # 0 /\ ~(pc[t] = "drop" /\ Role(Op(t)) = r)) => store = hinst[t][r]
\* an attach never ends up on a destroyed resource
AttachNeverOnDestroyed ==
    \A t \in Thr : \A r \in {"S", "R"} :
        (hinst[t][r] # 0 /\ ~(pc[t] = "drop" /\ Role(Op(t)) = r)) => destroyed[hinst[t][r]] = 0
=============================================================================
