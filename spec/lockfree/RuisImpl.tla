------------------------------ MODULE RuisImpl ------------------------------
(***************************************************************************)
(* Implementation-shaped specification of                                   *)
(*   iceoryx2-bb-lock-free  mpmc::RobustUniqueIndexSet                      *)
(* (the crash-robust index set behind the port / node registries), one      *)
(* action per shared-memory access over C11Mem:                             *)
(*   cell[i]  owner id or 0 (EMPTY)         gc  generation counter, LOCK    *)
(*   acquire(o)   load gc (locked -> IsLocked); for n: CAS cell[n] 0->o;    *)
(*                on success gc += 1 (finds LOCK -> IsLocked, the cell      *)
(*                stays taken); all taken: CAS gc cur->cur ok ->            *)
(*                OutOfIndices, changed -> rescan                           *)
(*   release(i,o,mode)  CAS cell[i] o->0; gc += 1; mode LockIfLast: lock()  *)
(*   lock()       is_locked (relaxed load) -> Locked; loop: snapshot =      *)
(*                { load gc = g0 (LOCK -> count 0); count the non-empty     *)
(*                  cells; gc += 1 = g1; g0 + 1 = g1 ? done : again };      *)
(*                count = 0 ? CAS gc g1->LOCK (ok -> Locked, else loop)     *)
(*                          : Unlocked                                      *)
(*   borrowed_indices()  the observer: the same snapshot loop, WITHOUT the  *)
(*                locking CAS - it increments gc although the set is        *)
(*                unchanged (op "obs")                                      *)
(* LockRetries: does lock() go back to the snapshot when its CAS fails      *)
(* (TRUE, the loop above) or give up and report Unlocked (FALSE)?           *)
(* EXTRACTED from the atomic-level records like the orderings.              *)
(* Orderings are EXTRACTED from the running code (checks/C09.py).           *)
(* Ops of a program: "acq", "rel" (oldest held index, Default), "rell"      *)
(* (oldest held index, LockIfLastIndex), "obs" (borrowed_indices).          *)
(***************************************************************************)
EXTENDS Naturals, Sequences, FiniteSets, TLC

CONSTANTS Cap, Prog, Ord, LockRetries

OrdLabels == {"gc_ld", "acq_s", "acq_f", "inc", "full_s", "full_f", "rel_s", "rel_f", "il_ld", "cnt_ld", "lock_s", "lock_f"}
LOCK == 999
Slots == 0..(Cap - 1)
GC == <<"gc", 0>>
CELL(i) == <<"cell", i>>
Loc == {GC} \cup {CELL(i) : i \in Slots}
Thr == 1..Len(Prog)

VARIABLES mem, tv, acqv, relv, sc
INSTANCE C11Mem

VARIABLES pc, ip, cur, scan, idx, cnt, g0, mode,
          holds,        \* [t -> sequence of indices handed out to t and not yet released]
          results,      \* [t -> sequence of results: <<"ok", i>>, <<"full">>, <<"locked">>, <<"rel", "Locked"|"Unlocked">>]
          fullSeen,     \* ghost: an in-flight acquire has seen a moment at which every cell was taken
          lockedAt,     \* ghost: number of acquires started (over all threads) when gc became LOCK, -1 before
          started,      \* ghost: [t -> ordinal of the acquire in flight / last started], counter in `nstart`
          otherSeen,    \* ghost: [t -> since t's lock-if-last release emptied its cell, some OTHER index was taken at some moment]
          badUnlock     \* ghost: a lock-if-last release returned Unlocked although no other index was taken at any moment of it
VARIABLE nstart

lvars == <<pc, ip, cur, scan, idx, cnt, g0, mode, holds, results, fullSeen, lockedAt, started, nstart, otherSeen, badUnlock>>
vars == <<mem, tv, acqv, relv, sc, lvars>>

Init ==
    /\ MemInit([l \in Loc |-> 0])
    /\ pc = [t \in Thr |-> "idle"] /\ ip = [t \in Thr |-> 1]
    /\ cur = [t \in Thr |-> 0] /\ scan = [t \in Thr |-> 0] /\ idx = [t \in Thr |-> 0]
    /\ cnt = [t \in Thr |-> 0] /\ g0 = [t \in Thr |-> 0] /\ mode = [t \in Thr |-> "rel"]
    /\ holds = [t \in Thr |-> <<>>] /\ results = [t \in Thr |-> <<>>]
    /\ fullSeen = [t \in Thr |-> FALSE] /\ lockedAt = 0 - 1
    /\ started = [t \in Thr |-> 0] /\ nstart = 0
    /\ otherSeen = [t \in Thr |-> FALSE] /\ badUnlock = FALSE

Set(f, t, x) == [f EXCEPT ![t] = x]
Goto(t, l) == pc' = Set(pc, t, l)
Ret(t, r) == /\ results' = Set(results, t, Append(results[t], r))
             /\ pc' = Set(pc, t, "idle") /\ ip' = Set(ip, t, ip[t] + 1)
\* an index counts as taken from the moment an acquire has claimed its cell until the release of it has RETURNED
\* (a release in flight may linearize after an overlapping acquire that reports OutOfIndices)
ReleasePhase == {"r_cell", "r_inc", "l_il", "l_gc", "l_cnt", "l_inc", "l_dec", "l_cas"}
\* (an observer runs through the l_* labels too, but its idx is meaningless: mode = "obs")
TakenBy(i, u, pcv, holdsv, idxv, modev) ==
    \/ \E k \in DOMAIN holdsv[u] : holdsv[u][k] = i
    \/ pcv[u] = "a_inc" /\ idxv[u] = i
    \/ pcv[u] \in ReleasePhase /\ modev[u] # "obs" /\ idxv[u] = i
AllTakenNow(pcv, holdsv, idxv, modev) ==
    \A i \in Slots : \E u \in Thr : TakenBy(i, u, pcv, holdsv, idxv, modev)
\* the window of a lock-if-last release in which "is anything else taken?" is judged: from the moment its own cell is empty
LockWindow == {"r_inc", "l_il", "l_gc", "l_cnt", "l_inc", "l_dec", "l_cas"}
\* some index is taken by somebody - not counting the index that the lock-if-last release of t itself is giving back
OtherTakenNow(t, pcv, holdsv, idxv, modev) ==
    \E i \in Slots :
       \/ \E k \in DOMAIN holdsv[t] : holdsv[t][k] = i
       \/ \E w \in Thr \ {t} : TakenBy(i, w, pcv, holdsv, idxv, modev)

\* ---------------------------------------------------------------- start of an operation
Start(t) ==
    /\ pc[t] = "idle" /\ ip[t] <= Len(Prog[t])
    /\ MemSkip
    /\ LET op == Prog[t][ip[t]] IN
       IF op = "acq"
       THEN /\ Goto(t, "a_gc")
            /\ nstart' = nstart + 1 /\ started' = Set(started, t, nstart + 1)
            /\ UNCHANGED <<ip, cur, scan, idx, cnt, g0, mode, holds, results, lockedAt>>
       ELSE IF op = "obs"
       THEN /\ mode' = Set(mode, t, "obs")
            /\ Goto(t, "l_gc")
            /\ UNCHANGED <<ip, cur, scan, idx, cnt, g0, holds, results, lockedAt, started, nstart>>
       ELSE IF holds[t] = <<>>
       THEN /\ ip' = Set(ip, t, ip[t] + 1)      \* nothing to release: skip
            /\ UNCHANGED <<pc, cur, scan, idx, cnt, g0, mode, holds, results, lockedAt, started, nstart>>
       ELSE /\ idx' = Set(idx, t, Head(holds[t]))
            /\ mode' = Set(mode, t, op)
            /\ Goto(t, "r_cell")
            /\ UNCHANGED <<ip, cur, scan, cnt, g0, holds, results, lockedAt, started, nstart>>

\* ---------------------------------------------------------------- acquire
AGc(t) ==
    /\ pc[t] = "a_gc"
    /\ \E i \in Readable(t, GC, Ord.gc_ld) :
          /\ Load(t, GC, Ord.gc_ld, i)
          /\ IF ValAt(GC, i) = LOCK
             THEN Ret(t, <<"locked">>) /\ UNCHANGED <<cur, scan>>
             ELSE /\ cur' = Set(cur, t, ValAt(GC, i)) /\ scan' = Set(scan, t, 0)
                  /\ Goto(t, "a_cell") /\ UNCHANGED <<ip, results>>
    /\ UNCHANGED <<idx, cnt, g0, mode, holds, lockedAt, started, nstart>>

ACell(t) ==
    /\ pc[t] = "a_cell"
    /\ LET l == CELL(scan[t]) IN
       \E i \in CasChoices(t, l, Ord.acq_s, Ord.acq_f, 0) :
          /\ Cas(t, l, Ord.acq_s, Ord.acq_f, 0, t, i)
          /\ IF CasOk(l, 0, i)
             THEN idx' = Set(idx, t, scan[t]) /\ Goto(t, "a_inc") /\ UNCHANGED scan
             ELSE /\ UNCHANGED idx
                  /\ IF scan[t] + 1 = Cap THEN Goto(t, "a_full") /\ UNCHANGED scan
                     ELSE scan' = Set(scan, t, scan[t] + 1) /\ UNCHANGED pc
    /\ UNCHANGED <<ip, cur, cnt, g0, mode, holds, results, lockedAt, started, nstart>>

\* increment_generation_counter(ord): relaxed load + CAS loop; never changes LOCK
Inc(t, thenLocked, thenOk) ==
    IF LatestVal(GC) = LOCK
    THEN \* the relaxed load / failed CAS reads LOCK (a stale non-LOCK read makes the CAS fail and re-read)
         /\ \E i \in {Latest(GC)} : Load(t, GC, "Relaxed", i)
         /\ thenLocked
    ELSE /\ Rmw(t, GC, Ord.inc, LatestVal(GC) + 1)
         /\ thenOk

AInc(t) ==
    /\ pc[t] = "a_inc"
    /\ Inc(t,
           Ret(t, <<"locked">>) /\ UNCHANGED holds,
           Ret(t, <<"ok", idx[t]>>) /\ holds' = Set(holds, t, Append(holds[t], idx[t])))
    /\ UNCHANGED <<cur, scan, idx, cnt, g0, mode, lockedAt, started, nstart>>

AFull(t) ==
    /\ pc[t] = "a_full"
    /\ \E i \in CasChoices(t, GC, Ord.full_s, Ord.full_f, cur[t]) :
          /\ Cas(t, GC, Ord.full_s, Ord.full_f, cur[t], cur[t], i)
          /\ IF CasOk(GC, cur[t], i)
             THEN Ret(t, <<"full">>) /\ UNCHANGED <<cur, scan>>
             ELSE IF ValAt(GC, i) = LOCK
             THEN Ret(t, <<"locked">>) /\ UNCHANGED <<cur, scan>>
             ELSE /\ cur' = Set(cur, t, ValAt(GC, i)) /\ scan' = Set(scan, t, 0)
                  /\ Goto(t, "a_cell") /\ UNCHANGED <<ip, results>>
    /\ UNCHANGED <<idx, cnt, g0, mode, holds, lockedAt, started, nstart>>

\* ---------------------------------------------------------------- release (+ lock)
RCell(t) ==
    /\ pc[t] = "r_cell"
    /\ \E i \in CasChoices(t, CELL(idx[t]), Ord.rel_s, Ord.rel_f, t) :
          Cas(t, CELL(idx[t]), Ord.rel_s, Ord.rel_f, t, 0, i)
    /\ holds' = Set(holds, t, Tail(holds[t]))
    /\ Goto(t, "r_inc")
    /\ UNCHANGED <<ip, cur, scan, idx, cnt, g0, mode, results, lockedAt, started, nstart>>

RInc(t) ==
    /\ pc[t] = "r_inc"
    /\ Inc(t, TRUE, TRUE)
    /\ IF mode[t] = "rell" THEN Goto(t, "l_il") /\ UNCHANGED <<ip, results>>
       ELSE Ret(t, <<"rel", "Unlocked">>)
    /\ UNCHANGED <<cur, scan, idx, cnt, g0, mode, holds, lockedAt, started, nstart>>

LIsLocked(t) ==     \* is_locked(): relaxed load
    /\ pc[t] = "l_il"
    /\ \E i \in Readable(t, GC, Ord.il_ld) :
          /\ Load(t, GC, Ord.il_ld, i)
          /\ IF ValAt(GC, i) = LOCK THEN Ret(t, <<"rel", "Locked">>) ELSE Goto(t, "l_gc") /\ UNCHANGED <<ip, results>>
    /\ UNCHANGED <<cur, scan, idx, cnt, g0, mode, holds, lockedAt, started, nstart>>

LGc(t) ==           \* borrowed_indices_and_generation_counter: load gc
    /\ pc[t] = "l_gc"
    /\ \E i \in Readable(t, GC, Ord.gc_ld) :
          /\ Load(t, GC, Ord.gc_ld, i)
          /\ IF ValAt(GC, i) = LOCK
             THEN \* SetState{LOCK, 0}: lock() then CASes LOCK -> LOCK; the observer reports 0
                  /\ g0' = Set(g0, t, LOCK) /\ cnt' = Set(cnt, t, 0) /\ UNCHANGED scan
                  /\ IF mode[t] = "obs" THEN Ret(t, <<"obs", 0>>) ELSE Goto(t, "l_cas") /\ UNCHANGED <<ip, results>>
             ELSE /\ g0' = Set(g0, t, ValAt(GC, i)) /\ cnt' = Set(cnt, t, 0) /\ scan' = Set(scan, t, 0)
                  /\ Goto(t, "l_cnt") /\ UNCHANGED <<ip, results>>
    /\ UNCHANGED <<cur, idx, mode, holds, lockedAt, started, nstart>>

LCnt(t) ==
    /\ pc[t] = "l_cnt"
    /\ \E i \in Readable(t, CELL(scan[t]), Ord.cnt_ld) :
          /\ Load(t, CELL(scan[t]), Ord.cnt_ld, i)
          /\ cnt' = Set(cnt, t, cnt[t] + (IF ValAt(CELL(scan[t]), i) # 0 THEN 1 ELSE 0))
    /\ IF scan[t] + 1 = Cap THEN Goto(t, "l_inc") /\ UNCHANGED scan
       ELSE scan' = Set(scan, t, scan[t] + 1) /\ UNCHANGED pc
    /\ UNCHANGED <<ip, cur, idx, g0, mode, holds, results, lockedAt, started, nstart>>

LInc(t) ==
    /\ pc[t] = "l_inc"
    /\ IF LatestVal(GC) = LOCK
       THEN \* increment returns LOCK: g0 + 1 # LOCK -> snapshot again (which then sees LOCK)
            /\ \E i \in {Latest(GC)} : Load(t, GC, "Relaxed", i)
            /\ Goto(t, "l_gc") /\ UNCHANGED g0
       ELSE /\ Rmw(t, GC, Ord.inc, LatestVal(GC) + 1)
            /\ IF g0[t] + 1 = LatestVal(GC) + 1
               THEN g0' = Set(g0, t, LatestVal(GC) + 1) /\ Goto(t, "l_dec")
               ELSE Goto(t, "l_gc") /\ UNCHANGED g0
    /\ UNCHANGED <<ip, cur, scan, idx, cnt, mode, holds, results, lockedAt, started, nstart>>

LDecide(t) ==       \* local: count = 0 ? try to lock : Unlocked; the observer returns the count
    /\ pc[t] = "l_dec" /\ MemSkip
    /\ IF mode[t] = "obs" THEN Ret(t, <<"obs", cnt[t]>>)
       ELSE IF cnt[t] = 0 THEN Goto(t, "l_cas") /\ UNCHANGED <<ip, results>> ELSE Ret(t, <<"rel", "Unlocked">>)
    /\ UNCHANGED <<cur, scan, idx, cnt, g0, mode, holds, lockedAt, started, nstart>>

LCas(t) ==
    /\ pc[t] = "l_cas"
    /\ \E i \in CasChoices(t, GC, Ord.lock_s, Ord.lock_f, g0[t]) :
          /\ Cas(t, GC, Ord.lock_s, Ord.lock_f, g0[t], LOCK, i)
          /\ IF CasOk(GC, g0[t], i)
             THEN /\ Ret(t, <<"rel", "Locked">>)
                  /\ lockedAt' = IF lockedAt < 0 THEN nstart ELSE lockedAt
             ELSE IF LockRetries THEN Goto(t, "l_gc") /\ UNCHANGED <<ip, results, lockedAt>>
             ELSE \* lock() without the retry: gives up (already locked by somebody else -> Locked, else Unlocked)
                  /\ Ret(t, <<"rel", IF ValAt(GC, i) = LOCK THEN "Locked" ELSE "Unlocked">>)
                  /\ UNCHANGED lockedAt
    /\ UNCHANGED <<cur, scan, idx, cnt, g0, mode, holds, started, nstart>>

Step(t) == \/ Start(t) \/ AGc(t) \/ ACell(t) \/ AInc(t) \/ AFull(t)
           \/ RCell(t) \/ RInc(t) \/ LIsLocked(t) \/ LGc(t) \/ LCnt(t) \/ LInc(t) \/ LDecide(t) \/ LCas(t)

\* ghost monitor: an in-flight acquire remembers whether every cell was ever taken during the call
InFlightAcq(t) == pc[t] \in {"a_gc", "a_cell", "a_inc", "a_full"}
InLockWindow(u) == mode[u] = "rell" /\ pc[u] \in LockWindow
Monitor ==
    /\ fullSeen' = [u \in Thr |->
                          IF ~InFlightAcq(u) /\ pc'[u] = "a_gc" THEN AllTakenNow(pc', holds', idx', mode')
                          ELSE IF InFlightAcq(u) THEN fullSeen[u] \/ AllTakenNow(pc', holds', idx', mode')
                          ELSE fullSeen[u]]
    \* ghost of a lock-if-last release: was any OTHER index taken at some moment since its own cell became empty?
    /\ otherSeen' = [u \in Thr |->
                          IF mode'[u] = "rell" /\ pc'[u] \in LockWindow
                          THEN (InLockWindow(u) /\ otherSeen[u]) \/ OtherTakenNow(u, pc', holds', idx', mode')
                          ELSE FALSE]
    /\ badUnlock' = (badUnlock \/ \E u \in Thr : /\ InLockWindow(u) /\ pc'[u] = "idle"
                                                    /\ results'[u][Len(results'[u])] = <<"rel", "Unlocked">>
                                                    /\ ~otherSeen[u])
Next == (\E t \in Thr : Step(t)) /\ Monitor
Spec == Init /\ [][Next]_vars

\* ---------------------------------------------------------------- properties
Holders(i) == {t \in Thr : \E k \in DOMAIN holds[t] : holds[t][k] = i}
\* no two holders own the same index, every index lies within the capacity
Exclusive == \A i \in Slots : Cardinality(Holders(i)) <= 1
InRange == \A t \in Thr : \A k \in DOMAIN holds[t] : holds[t][k] \in Slots
\* a holder's cell carries its id (nobody can take it away)
HeldIsMarked == \A t \in Thr : \A k \in DOMAIN holds[t] : LatestVal(CELL(holds[t][k])) = t
\* the lock is final and only taken when nothing is held
LockIsFinal == lockedAt >= 0 => LatestVal(GC) = LOCK
LockedIsEmpty == LatestVal(GC) = LOCK => \A t \in Thr : holds[t] = <<>>
\* no acquire that STARTED after the lock succeeds
NoAcquireAfterLock ==
    lockedAt >= 0 => \A t \in Thr : (started[t] > lockedAt /\ pc[t] = "idle" /\ Len(results[t]) > 0
                                     /\ Prog[t][ip[t] - 1] = "acq")
                                    => results[t][Len(results[t])][1] # "ok"
\* "an acquire fails [with OutOfIndices] only when all indices are genuinely taken": at some moment of the call every
\* cell was taken (ghost fullSeen, maintained by Monitor)
LastWasFullAcquire(t) == /\ pc[t] = "idle" /\ ip[t] > 1 /\ Prog[t][ip[t] - 1] = "acq"
                         /\ Len(results[t]) > 0 /\ results[t][Len(results[t])] = <<"full">>
FullOnlyWhenFull == \A t \in Thr : LastWasFullAcquire(t) => fullSeen[t]
\* "after the last index is released with the lock-if-last option no acquire ever succeeds again": a lock-if-last release
\* may report Unlocked only if some other index was taken (held, claimed by an acquire in flight, or being released by a
\* call that has not returned) at some moment after its own cell became empty - observers and other lock attempts, which
\* change the generation counter but not the set, are no excuse
UnlockedOnlyWhenOthers == ~badUnlock
=============================================================================
