---------------------------- MODULE RegistryImpl ----------------------------
(***************************************************************************)
(* Implementation-shaped specification of the port registry                *)
(*   iceoryx2-bb-lock-free  mpmc::Container  (add / remove / update_state)  *)
(* on top of  mpmc::RobustUniqueIndexSet  (acquire / release),             *)
(* one action per shared-memory access over C11Mem:                        *)
(*                                                                         *)
(*   index set   cell[i]  owner id or 0 (EMPTY)        gc  generation cnt  *)
(*     acquire   load gc; for n: CAS cell[n] 0->owner; inc gc; (all taken: *)
(*               CAS gc cur->cur, retry when it changed)                   *)
(*     release   CAS cell[i] owner->0; inc gc                              *)
(*   container   gen[i] element generation counter (odd = contains data),  *)
(*               d[i][w] the W words of the value, cc change counter       *)
(*     add       acquire; load gen; if odd: CAS gen g->g+1 ("mark empty"); *)
(*               write the words; gen += 1; cc += 1                        *)
(*     remove    load gen; release; CAS gen g->g+1; cc += 1                *)
(*     refresh   load cc; unchanged -> false; per slot: load gen; loop     *)
(*               { same as before -> next; remember; odd -> copy words;    *)
(*                 CAS gen g->g ok -> next, else g := read }               *)
(*                                                                         *)
(* Parameters EXTRACTED from the running code (checks/registry_impl.py):   *)
(*   Ord            memory ordering of every access                       *)
(*   RemLoadFirst   remove() loads gen BEFORE it releases the index        *)
(*   AddMarksEmpty  add() marks a slot it finds "full" as empty before it  *)
(*                  writes the words                                       *)
(* Values: the n-th add of thread t adds the value 10*t + n (all words).   *)
(*                                                                         *)
(* Properties (latched in `viol` when a refresh returns):                  *)
(*   Torn / Invented / WrongSlot  = clause OnlyReal of RegistryObs.tla     *)
(*   Ghost / Missed               = NoGhost / Noticed; they speak about    *)
(*       real time, which in a weak memory model only means something when *)
(*       the refresh is ordered after the writers: checked for every       *)
(*       refresh when RealTime = TRUE (use it with SeqCst orderings) and   *)
(*       always for the FINAL refresh, which the last thread performs      *)
(*       after joining all other threads (thread join = happens-before);   *)
(*       there the snapshot has to be exact ("once changes stop ...").     *)
(*   SlotConsistent  at quiescence a slot is owned iff its generation      *)
(*       counter says "contains data" and its words are the owner's value. *)
(***************************************************************************)
EXTENDS Naturals, Sequences, FiniteSets, TLC

CONSTANTS Cap,            \* number of slots
          W,              \* words per value
          Prog,           \* << ops of thread 1, ops of thread 2, ... >>, ops \in {"add","rem","ref"}
          Ord,            \* record of orderings, see OrdLabels
          RemLoadFirst, AddMarksEmpty,
          RealTime        \* judge Ghost / Missed for every refresh (interleaving reading of "before")

OrdLabels == {"s_gc_ld", "s_acq_s", "s_acq_f", "s_gc_inc", "s_full_s", "s_full_f", "s_rel_s", "s_rel_f",
              "a_ld", "a_cas_s", "a_cas_f", "a_pub", "a_cc", "r_ld", "r_cas_s", "r_cas_f", "r_cc",
              "u_cc", "u_ld", "u_cas_s", "u_cas_f"}

Slots == 0..(Cap - 1)
Words == 0..(W - 1)
GC == <<"gc", 0>>
CC == <<"cc", 0>>
CELL(i) == <<"cell", i>>
GEN(i) == <<"gen", i>>
D(i, w) == <<"d", i * 16 + w>>
Loc == {GC, CC} \cup {CELL(i) : i \in Slots} \cup {GEN(i) : i \in Slots} \cup {D(i, w) : i \in Slots, w \in Words}
Thr == 1..Len(Prog)
Last == Len(Prog)          \* performs the final refresh after the join

VARIABLES mem, tv, acqv, relv, sc
INSTANCE C11Mem

MaxAdds == 4
AllVals == {10 * t + n : t \in Thr, n \in 1..MaxAdds}

VARIABLES pc, ip,          \* program counter / index of the next operation, per thread
          cur, scan, idx, g, wi, val,     \* locals
          live, nadd,      \* handles a thread holds <<slot, value>>, adds started
          pcc, pgen, pdata, ri,           \* reader state (ContainerState) and slot cursor
          addSt, addIdx, remSt,           \* ghost: life of every value
          mustNot, mustHave,              \* ghost: fixed when a refresh starts
          final, viol

lvars == <<pc, ip, cur, scan, idx, g, wi, val, live, nadd, pcc, pgen, pdata, ri,
           addSt, addIdx, remSt, mustNot, mustHave, final, viol>>
vars == <<mem, tv, acqv, relv, sc, lvars>>
\* ghosts do not influence the behaviour; keep them out of the fingerprint where they only describe the past
View == <<mem, tv, acqv, relv, sc, pc, ip, cur, scan, idx, g, wi, val, live, nadd, pcc, pgen, pdata, ri,
          addSt, addIdx, remSt, mustNot, mustHave, final, viol>>

Odd(x) == x % 2 = 1

Init ==
    /\ MemInit([l \in Loc |-> 0])
    /\ pc = [t \in Thr |-> "idle"] /\ ip = [t \in Thr |-> 1]
    /\ cur = [t \in Thr |-> 0] /\ scan = [t \in Thr |-> 0] /\ idx = [t \in Thr |-> 0]
    /\ g = [t \in Thr |-> 0] /\ wi = [t \in Thr |-> 0] /\ val = [t \in Thr |-> 0]
    /\ live = [t \in Thr |-> <<>>] /\ nadd = [t \in Thr |-> 0]
    /\ pcc = [t \in Thr |-> 0]
    /\ pgen = [t \in Thr |-> [i \in Slots |-> 0]]
    /\ pdata = [t \in Thr |-> [i \in Slots |-> [w \in Words |-> 0]]]
    /\ ri = [t \in Thr |-> 0]
    /\ addSt = [v \in AllVals |-> "none"] /\ addIdx = [v \in AllVals |-> 0]
    /\ remSt = [v \in AllVals |-> "none"]
    /\ mustNot = [t \in Thr |-> {}] /\ mustHave = [t \in Thr |-> {}]
    /\ final = "no" /\ viol = {}

Goto(t, lbl) == pc' = [pc EXCEPT ![t] = lbl]
Done(t) == pc' = [pc EXCEPT ![t] = "idle"] /\ ip' = [ip EXCEPT ![t] = @ + 1]
Set(f, t, x) == [f EXCEPT ![t] = x]

LiveVals == {v \in AllVals : addSt[v] = "done" /\ remSt[v] = "none"}
GoneVals == {v \in AllVals : remSt[v] = "done"}

\* ------------------------------------------------------------------ operation start
StartAdd(t) ==
    /\ val' = Set(val, t, 10 * t + nadd[t] + 1)
    /\ nadd' = Set(nadd, t, nadd[t] + 1)
    /\ addSt' = [addSt EXCEPT ![10 * t + nadd[t] + 1] = "called"]
    /\ Goto(t, "s_gc") /\ MemSkip
    /\ UNCHANGED <<ip, cur, scan, idx, g, wi, live, pcc, pgen, pdata, ri, addIdx, remSt, mustNot, mustHave, final, viol>>

StartRem(t) ==
    IF live[t] = <<>>
    THEN /\ Done(t) /\ MemSkip
         /\ UNCHANGED <<cur, scan, idx, g, wi, val, live, nadd, pcc, pgen, pdata, ri, addSt, addIdx, remSt, mustNot, mustHave, final, viol>>
    ELSE /\ idx' = Set(idx, t, Head(live[t])[1])
         /\ val' = Set(val, t, Head(live[t])[2])
         /\ remSt' = [remSt EXCEPT ![Head(live[t])[2]] = "called"]
         /\ Goto(t, IF RemLoadFirst THEN "r_ld" ELSE "r_cell") /\ MemSkip
         /\ UNCHANGED <<ip, cur, scan, g, wi, live, nadd, pcc, pgen, pdata, ri, addSt, addIdx, mustNot, mustHave, final, viol>>

StartRef(t) ==
    /\ mustNot' = Set(mustNot, t, GoneVals)
    /\ mustHave' = Set(mustHave, t, LiveVals)
    /\ Goto(t, "u_cc") /\ MemSkip
    /\ UNCHANGED <<ip, cur, scan, idx, g, wi, val, live, nadd, pcc, pgen, pdata, ri, addSt, addIdx, remSt, final, viol>>

Start(t) ==
    /\ pc[t] = "idle" /\ ip[t] <= Len(Prog[t])
    /\ LET op == Prog[t][ip[t]] IN
       CASE op = "add" -> StartAdd(t)
         [] op = "rem" -> StartRem(t)
         [] op = "ref" -> StartRef(t)

\* ------------------------------------------------------------------ index set: acquire
SGc(t) ==
    /\ pc[t] = "s_gc"
    /\ \E i \in Readable(t, GC, Ord.s_gc_ld) :
          /\ Load(t, GC, Ord.s_gc_ld, i)
          /\ cur' = Set(cur, t, ValAt(GC, i))
    /\ scan' = Set(scan, t, 0)
    /\ Goto(t, "s_cell")
    /\ UNCHANGED <<ip, idx, g, wi, val, live, nadd, pcc, pgen, pdata, ri, addSt, addIdx, remSt, mustNot, mustHave, final, viol>>

SCell(t) ==
    /\ pc[t] = "s_cell"
    /\ LET l == CELL(scan[t]) IN
       \E i \in CasChoices(t, l, Ord.s_acq_s, Ord.s_acq_f, 0) :
          /\ Cas(t, l, Ord.s_acq_s, Ord.s_acq_f, 0, t, i)
          /\ IF CasOk(l, 0, i)
             THEN /\ idx' = Set(idx, t, scan[t]) /\ Goto(t, "s_inc") /\ UNCHANGED scan
             ELSE /\ UNCHANGED idx
                  /\ IF scan[t] + 1 = Cap THEN Goto(t, "s_full") /\ UNCHANGED scan
                     ELSE scan' = Set(scan, t, scan[t] + 1) /\ UNCHANGED pc
    /\ UNCHANGED <<ip, cur, g, wi, val, live, nadd, pcc, pgen, pdata, ri, addSt, addIdx, remSt, mustNot, mustHave, final, viol>>

\* increment_generation_counter: relaxed load + CAS loop = one RMW with the success ordering
SInc(t) ==
    /\ pc[t] = "s_inc"
    /\ Rmw(t, GC, Ord.s_gc_inc, LatestVal(GC) + 1)
    /\ Goto(t, "a_ld")
    /\ UNCHANGED <<ip, cur, scan, idx, g, wi, val, live, nadd, pcc, pgen, pdata, ri, addSt, addIdx, remSt, mustNot, mustHave, final, viol>>

SFull(t) ==
    /\ pc[t] = "s_full"
    /\ \E i \in CasChoices(t, GC, Ord.s_full_s, Ord.s_full_f, cur[t]) :
          /\ Cas(t, GC, Ord.s_full_s, Ord.s_full_f, cur[t], cur[t], i)
          /\ IF CasOk(GC, cur[t], i)
             THEN \* OutOfIndices: the add fails
                  /\ addSt' = [addSt EXCEPT ![val[t]] = "failed"]
                  /\ Done(t) /\ UNCHANGED <<cur, scan>>
             ELSE /\ cur' = Set(cur, t, ValAt(GC, i)) /\ scan' = Set(scan, t, 0)
                  /\ Goto(t, "s_cell") /\ UNCHANGED <<ip, addSt>>
    /\ UNCHANGED <<idx, g, wi, val, live, nadd, pcc, pgen, pdata, ri, addIdx, remSt, mustNot, mustHave, final, viol>>

\* ------------------------------------------------------------------ container: add
ALd(t) ==
    /\ pc[t] = "a_ld"
    /\ \E i \in Readable(t, GEN(idx[t]), Ord.a_ld) :
          /\ Load(t, GEN(idx[t]), Ord.a_ld, i)
          /\ g' = Set(g, t, ValAt(GEN(idx[t]), i))
          /\ Goto(t, IF Odd(ValAt(GEN(idx[t]), i)) /\ AddMarksEmpty THEN "a_cas" ELSE "a_wr")
    /\ wi' = Set(wi, t, 0)
    /\ UNCHANGED <<ip, cur, scan, idx, val, live, nadd, pcc, pgen, pdata, ri, addSt, addIdx, remSt, mustNot, mustHave, final, viol>>

ACas(t) ==
    /\ pc[t] = "a_cas"
    /\ \E i \in CasChoices(t, GEN(idx[t]), Ord.a_cas_s, Ord.a_cas_f, g[t]) :
          Cas(t, GEN(idx[t]), Ord.a_cas_s, Ord.a_cas_f, g[t], g[t] + 1, i)     \* result ignored
    /\ Goto(t, "a_wr")
    /\ UNCHANGED <<ip, cur, scan, idx, g, wi, val, live, nadd, pcc, pgen, pdata, ri, addSt, addIdx, remSt, mustNot, mustHave, final, viol>>

AWr(t) ==
    /\ pc[t] = "a_wr"
    /\ Store(t, D(idx[t], wi[t]), "Relaxed", val[t])
    /\ wi' = Set(wi, t, wi[t] + 1)
    /\ Goto(t, IF wi[t] + 1 = W THEN "a_pub" ELSE "a_wr")
    /\ UNCHANGED <<ip, cur, scan, idx, g, val, live, nadd, pcc, pgen, pdata, ri, addSt, addIdx, remSt, mustNot, mustHave, final, viol>>

APub(t) ==
    /\ pc[t] = "a_pub"
    /\ Rmw(t, GEN(idx[t]), Ord.a_pub, LatestVal(GEN(idx[t])) + 1)
    /\ Goto(t, "a_cc")
    /\ UNCHANGED <<ip, cur, scan, idx, g, wi, val, live, nadd, pcc, pgen, pdata, ri, addSt, addIdx, remSt, mustNot, mustHave, final, viol>>

ACc(t) ==
    /\ pc[t] = "a_cc"
    /\ Rmw(t, CC, Ord.a_cc, LatestVal(CC) + 1)
    /\ addSt' = [addSt EXCEPT ![val[t]] = "done"]
    /\ addIdx' = [addIdx EXCEPT ![val[t]] = idx[t]]
    /\ live' = Set(live, t, Append(live[t], <<idx[t], val[t]>>))
    /\ Done(t)
    /\ UNCHANGED <<cur, scan, idx, g, wi, val, nadd, pcc, pgen, pdata, ri, remSt, mustNot, mustHave, final, viol>>

\* ------------------------------------------------------------------ container: remove
RLd(t) ==
    /\ pc[t] = "r_ld"
    /\ \E i \in Readable(t, GEN(idx[t]), Ord.r_ld) :
          /\ Load(t, GEN(idx[t]), Ord.r_ld, i)
          /\ g' = Set(g, t, ValAt(GEN(idx[t]), i))
    /\ Goto(t, IF RemLoadFirst THEN "r_cell" ELSE "r_cas")
    /\ UNCHANGED <<ip, cur, scan, idx, wi, val, live, nadd, pcc, pgen, pdata, ri, addSt, addIdx, remSt, mustNot, mustHave, final, viol>>

RCell(t) ==     \* the owner releases its cell: the CAS reads the owner's own (latest) write
    /\ pc[t] = "r_cell"
    /\ \E i \in CasChoices(t, CELL(idx[t]), Ord.s_rel_s, Ord.s_rel_f, t) :
          Cas(t, CELL(idx[t]), Ord.s_rel_s, Ord.s_rel_f, t, 0, i)
    /\ Goto(t, "r_inc")
    /\ UNCHANGED <<ip, cur, scan, idx, g, wi, val, live, nadd, pcc, pgen, pdata, ri, addSt, addIdx, remSt, mustNot, mustHave, final, viol>>

RInc(t) ==
    /\ pc[t] = "r_inc"
    /\ Rmw(t, GC, Ord.s_gc_inc, LatestVal(GC) + 1)
    /\ Goto(t, IF RemLoadFirst THEN "r_cas" ELSE "r_ld")
    /\ UNCHANGED <<ip, cur, scan, idx, g, wi, val, live, nadd, pcc, pgen, pdata, ri, addSt, addIdx, remSt, mustNot, mustHave, final, viol>>

RCas(t) ==
    /\ pc[t] = "r_cas"
    /\ \E i \in CasChoices(t, GEN(idx[t]), Ord.r_cas_s, Ord.r_cas_f, g[t]) :
          Cas(t, GEN(idx[t]), Ord.r_cas_s, Ord.r_cas_f, g[t], g[t] + 1, i)     \* result ignored
    /\ Goto(t, "r_cc")
    /\ UNCHANGED <<ip, cur, scan, idx, g, wi, val, live, nadd, pcc, pgen, pdata, ri, addSt, addIdx, remSt, mustNot, mustHave, final, viol>>

RCc(t) ==
    /\ pc[t] = "r_cc"
    /\ Rmw(t, CC, Ord.r_cc, LatestVal(CC) + 1)
    /\ remSt' = [remSt EXCEPT ![val[t]] = "done"]
    /\ live' = Set(live, t, Tail(live[t]))
    /\ Done(t)
    /\ UNCHANGED <<cur, scan, idx, g, wi, val, nadd, pcc, pgen, pdata, ri, addSt, addIdx, mustNot, mustHave, final, viol>>

\* ------------------------------------------------------------------ container: update_state
\* judgement of the snapshot a refresh of thread t returns
Snapshot(pg, pd) == {<<i, pd[i]>> : i \in {j \in Slots : Odd(pg[j])}}
Judge(t, pg, pd) ==
    LET S == Snapshot(pg, pd)
        vals == {e[2][0] : e \in S}
        rt == RealTime \/ final = "running"
    IN  {"Torn" : x \in {e \in S : \E w \in Words : e[2][w] # e[2][0]}}
        \cup {"Invented" : x \in {e \in S : e[2][0] \notin AllVals \/ (e[2][0] \in AllVals /\ addSt[e[2][0]] \in {"none", "failed"})}}
        \cup {"WrongSlot" : x \in {e \in S : e[2][0] \in AllVals /\ addSt[e[2][0]] = "done" /\ addIdx[e[2][0]] # e[1]}}
        \cup (IF rt THEN {"Ghost" : x \in vals \cap mustNot[t]} ELSE {})
        \cup (IF rt THEN {"Missed" : x \in {v \in mustHave[t] : remSt[v] = "none" /\ v \notin vals}} ELSE {})

RefRet(t, pg, pd) ==
    /\ viol' = viol \cup Judge(t, pg, pd)
    /\ final' = IF final = "running" THEN "done" ELSE final
    /\ Done(t)

UCc(t) ==
    /\ pc[t] = "u_cc"
    /\ \E i \in Readable(t, CC, Ord.u_cc) :
          /\ Load(t, CC, Ord.u_cc, i)
          /\ IF ValAt(CC, i) = pcc[t]
             THEN RefRet(t, pgen[t], pdata[t]) /\ UNCHANGED <<pcc, ri>>
             ELSE /\ pcc' = Set(pcc, t, ValAt(CC, i)) /\ ri' = Set(ri, t, 0)
                  /\ Goto(t, "u_ld") /\ UNCHANGED <<ip, viol, final>>
    /\ UNCHANGED <<cur, scan, idx, g, wi, val, live, nadd, pgen, pdata, addSt, addIdx, remSt, mustNot, mustHave>>

\* after a generation count x was read for slot ri: same as remembered -> next slot, else remember, copy, CAS
NextSlot(t, pg, pd) ==
    IF ri[t] + 1 = Cap
    THEN RefRet(t, pg, pd) /\ UNCHANGED ri
    ELSE ri' = Set(ri, t, ri[t] + 1) /\ Goto(t, "u_ld") /\ UNCHANGED <<ip, viol, final>>

Examine(t, x) ==
    IF x = pgen[t][ri[t]]
    THEN NextSlot(t, pgen[t], pdata[t]) /\ UNCHANGED <<pgen, g, wi>>
    ELSE /\ pgen' = [pgen EXCEPT ![t][ri[t]] = x]
         /\ g' = Set(g, t, x) /\ wi' = Set(wi, t, 0)
         /\ Goto(t, IF Odd(x) THEN "u_rd" ELSE "u_cas")
         /\ UNCHANGED <<ip, ri, viol, final>>

ULd(t) ==
    /\ pc[t] = "u_ld"
    /\ \E i \in Readable(t, GEN(ri[t]), Ord.u_ld) :
          /\ Load(t, GEN(ri[t]), Ord.u_ld, i)
          /\ Examine(t, ValAt(GEN(ri[t]), i))
    /\ UNCHANGED <<cur, scan, idx, val, live, nadd, pcc, pdata, addSt, addIdx, remSt, mustNot, mustHave>>

URd(t) ==
    /\ pc[t] = "u_rd"
    /\ LET l == D(ri[t], wi[t]) IN
       \E i \in Readable(t, l, "Relaxed") :
          /\ Load(t, l, "Relaxed", i)
          /\ pdata' = [pdata EXCEPT ![t][ri[t]][wi[t]] = ValAt(l, i)]
    /\ wi' = Set(wi, t, wi[t] + 1)
    /\ Goto(t, IF wi[t] + 1 = W THEN "u_cas" ELSE "u_rd")
    /\ UNCHANGED <<ip, cur, scan, idx, g, val, live, nadd, pcc, pgen, ri, addSt, addIdx, remSt, mustNot, mustHave, final, viol>>

UCas(t) ==
    /\ pc[t] = "u_cas"
    /\ \E i \in CasChoices(t, GEN(ri[t]), Ord.u_cas_s, Ord.u_cas_f, g[t]) :
          /\ Cas(t, GEN(ri[t]), Ord.u_cas_s, Ord.u_cas_f, g[t], g[t], i)
          /\ IF CasOk(GEN(ri[t]), g[t], i)
             THEN NextSlot(t, pgen[t], pdata[t]) /\ UNCHANGED <<pgen, g, wi>>
             ELSE Examine(t, ValAt(GEN(ri[t]), i))
    /\ UNCHANGED <<cur, scan, idx, val, live, nadd, pcc, pdata, addSt, addIdx, remSt, mustNot, mustHave>>

\* ------------------------------------------------------------------ join + final refresh
AllDone == \A t \in Thr : pc[t] = "idle" /\ ip[t] > Len(Prog[t])
JoinedView == [l \in Loc |-> LET S == {tv[t][l] : t \in Thr} IN CHOOSE m \in S : \A x \in S : m >= x]

JoinAndRefresh ==
    /\ AllDone /\ final = "no"
    /\ tv' = [tv EXCEPT ![Last] = JoinedView]
    /\ UNCHANGED <<mem, acqv, relv, sc>>
    /\ final' = "running"
    /\ mustNot' = Set(mustNot, Last, GoneVals)
    /\ mustHave' = Set(mustHave, Last, LiveVals)
    /\ Goto(Last, "u_cc")
    /\ UNCHANGED <<ip, cur, scan, idx, g, wi, val, live, nadd, pcc, pgen, pdata, ri, addSt, addIdx, remSt, viol>>

Step(t) ==
    \/ Start(t)
    \/ SGc(t) \/ SCell(t) \/ SInc(t) \/ SFull(t)
    \/ ALd(t) \/ ACas(t) \/ AWr(t) \/ APub(t) \/ ACc(t)
    \/ RLd(t) \/ RCell(t) \/ RInc(t) \/ RCas(t) \/ RCc(t)
    \/ UCc(t) \/ ULd(t) \/ URd(t) \/ UCas(t)

Next == (\E t \in Thr : Step(t)) \/ JoinAndRefresh
Spec == Init /\ [][Next]_vars

\* ------------------------------------------------------------------ properties
NoTorn == "Torn" \notin viol
NoInvention == "Invented" \notin viol
RightSlot == "WrongSlot" \notin viol
NoGhost == "Ghost" \notin viol
Noticed == "Missed" \notin viol

\* at quiescence (everything finished, before or after the final refresh)
SlotConsistent ==
    AllDone =>
        \A i \in Slots :
            LET o == LatestVal(CELL(i)) IN
            /\ (o # 0) <=> Odd(LatestVal(GEN(i)))
            /\ o # 0 => \E k \in DOMAIN live[o] :
                           /\ live[o][k][1] = i
                           /\ \A w \in Words : LatestVal(D(i, w)) = live[o][k][2]
\* the final snapshot (after the join) is exact: latched as Ghost / Missed above; and it must be reached
FinalExact == final = "done" => ~("Ghost" \in viol \/ "Missed" \in viol)
=============================================================================
