------------------------------ MODULE SeqLock2 ------------------------------
(***************************************************************************)
(* Implementation-shaped specification of                                   *)
(* iceoryx2-bb-lock-free spmc::unrestricted_atomic (two data cells and a    *)
(* write_cell counter): one action per shared-memory access over C11Mem,    *)
(* the payload is W words that are copied one by one (so torn reads are     *)
(* representable).  Orderings are extracted from the running code.          *)
(***************************************************************************)
EXTENDS Naturals, Sequences, FiniteSets, TLC

CONSTANTS W,          \* words per value
          NCells,     \* number of data cells (2 in the code)
          K,          \* number of stores
          NReaders, NLoads,
          Ord         \* record w_ld w_add r_ld r_cas_s r_cas_f

WC == <<"wc", 0>>
D(c, w) == <<"d", c * 16 + w>>
Loc == {WC} \cup {D(c, w) : c \in 0..NCells-1, w \in 0..W-1}
Writer == 0
ReaderIds == 1..NReaders
Thr == 0..NReaders

VARIABLES mem, tv, acqv, relv, sc
INSTANCE C11Mem

VARIABLES pc, wk, wcv, widx, cur, ridx, words, nload, rets

lvars == <<pc, wk, wcv, widx, cur, ridx, words, nload, rets>>
vars == <<mem, tv, acqv, relv, sc, lvars>>

Init ==
    /\ MemInit([l \in Loc |-> IF l = WC THEN 1 ELSE 0])
    /\ pc = [t \in Thr |-> "idle"]
    /\ wk = 0 /\ wcv = 0 /\ widx = 0
    /\ cur = [r \in ReaderIds |-> 0]
    /\ ridx = [r \in ReaderIds |-> 0]
    /\ words = [r \in ReaderIds |-> [w \in 0..W-1 |-> 0]]
    /\ nload = [r \in ReaderIds |-> 0]
    /\ rets = [r \in ReaderIds |-> <<>>]

Goto(t, lbl) == pc' = [pc EXCEPT ![t] = lbl]

\* ---------------------------------------------------------------- writer
WStart ==
    /\ pc[Writer] = "idle" /\ wk < K
    /\ wk' = wk + 1
    /\ MemSkip /\ Goto(Writer, "w_ld")
    /\ UNCHANGED <<wcv, widx, cur, ridx, words, nload, rets>>

WLoad ==
    /\ pc[Writer] = "w_ld"
    /\ \E i \in Readable(Writer, WC, Ord.w_ld) :
          /\ Load(Writer, WC, Ord.w_ld, i)
          /\ wcv' = ValAt(WC, i)
    /\ widx' = 0
    /\ Goto(Writer, "w_wr")
    /\ UNCHANGED <<wk, cur, ridx, words, nload, rets>>

WWrite ==
    /\ pc[Writer] = "w_wr"
    /\ Store(Writer, D(wcv % NCells, widx), "Relaxed", wk)
    /\ widx' = widx + 1
    /\ Goto(Writer, IF widx + 1 = W THEN "w_add" ELSE "w_wr")
    /\ UNCHANGED <<wk, wcv, cur, ridx, words, nload, rets>>

WAdd ==
    /\ pc[Writer] = "w_add"
    /\ Rmw(Writer, WC, Ord.w_add, LatestVal(WC) + 1)
    /\ Goto(Writer, "idle")
    /\ UNCHANGED <<wk, wcv, widx, cur, ridx, words, nload, rets>>

\* ---------------------------------------------------------------- readers
RStart(r) ==
    /\ pc[r] = "idle" /\ nload[r] < NLoads
    /\ nload' = [nload EXCEPT ![r] = @ + 1]
    /\ MemSkip /\ Goto(r, "r_ld")
    /\ UNCHANGED <<wk, wcv, widx, cur, ridx, words, rets>>

RLoad(r) ==
    /\ pc[r] = "r_ld"
    /\ \E i \in Readable(r, WC, Ord.r_ld) :
          /\ Load(r, WC, Ord.r_ld, i)
          /\ cur' = [cur EXCEPT ![r] = ValAt(WC, i)]
    /\ ridx' = [ridx EXCEPT ![r] = 0]
    /\ Goto(r, "r_rd")
    /\ UNCHANGED <<wk, wcv, widx, words, nload, rets>>

RRead(r) ==
    /\ pc[r] = "r_rd"
    /\ LET loc == D((cur[r] - 1) % NCells, ridx[r]) IN
       \E i \in Readable(r, loc, "Relaxed") :
          /\ Load(r, loc, "Relaxed", i)
          /\ words' = [words EXCEPT ![r][ridx[r]] = ValAt(loc, i)]
    /\ ridx' = [ridx EXCEPT ![r] = @ + 1]
    /\ Goto(r, IF ridx[r] + 1 = W THEN "r_cas" ELSE "r_rd")
    /\ UNCHANGED <<wk, wcv, widx, cur, nload, rets>>

RCas(r) ==
    /\ pc[r] = "r_cas"
    /\ \E i \in CasChoices(r, WC, Ord.r_cas_s, Ord.r_cas_f, cur[r]) :
          /\ Cas(r, WC, Ord.r_cas_s, Ord.r_cas_f, cur[r], cur[r], i)
          /\ IF CasOk(WC, cur[r], i)
             THEN /\ rets' = [rets EXCEPT ![r] = Append(@, words[r])]
                  /\ Goto(r, "idle")
                  /\ UNCHANGED <<cur, ridx>>
             ELSE /\ cur' = [cur EXCEPT ![r] = ValAt(WC, i)]
                  /\ ridx' = [ridx EXCEPT ![r] = 0]
                  /\ Goto(r, "r_rd")
                  /\ UNCHANGED rets
    /\ UNCHANGED <<wk, wcv, widx, words, nload>>

Next ==
    \/ WStart \/ WLoad \/ WWrite \/ WAdd
    \/ \E r \in ReaderIds : RStart(r) \/ RLoad(r) \/ RRead(r) \/ RCas(r)

Spec == Init /\ [][Next]_vars

\* ------------------------------------------------------------------ properties
\* every returned value was written in one piece
ReadIsSomeWrite ==
    \A r \in ReaderIds : \A n \in DOMAIN rets[r] :
        \A w \in 0..W-1 : rets[r][n][w] = rets[r][n][0]
\* ... by a store that has begun
NoFuture ==
    \A r \in ReaderIds : \A n \in DOMAIN rets[r] : rets[r][n][0] <= wk
\* successive reads of one reader never go back
Monotone ==
    \A r \in ReaderIds : \A n, m \in DOMAIN rets[r] : n < m => rets[r][n][0] <= rets[r][m][0]
=============================================================================
