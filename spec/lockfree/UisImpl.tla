------------------------------- MODULE UisImpl -------------------------------
(***************************************************************************)
(* Implementation-shaped specification (layer 2) of                         *)
(* iceoryx2-bb-lock-free mpmc::unique_index_set::UniqueIndexSet: a lock-   *)
(* free free-list whose head word packs (head index, ABA tag, number of    *)
(* borrowed indices | LOCK) and whose links live in plain cells next[0..Cap]*)
(* One action per shared-memory access, over C11Mem.  Orderings (`Ord`)    *)
(* are extracted from the running code.  `AbaMod` is the size of the tag   *)
(* domain (2^16 in the code; a small value in the model, 1 = no tag).      *)
(***************************************************************************)
EXTENDS Naturals, Sequences, FiniteSets, TLC

CONSTANTS Cap, AbaMod, AbaIncA, AbaIncR, Prog, Ord
\* AbaIncA / AbaIncR: by how much acquire / release advance the ABA tag (1 in the code; EXTRACTED)
\* Prog : sequence (one per thread) of sequences of "acq" | "rel" | "rell"
\* Ord  : record a_ld a_cas_s a_cas_f a_fence r_fence r_ld r_cas_s r_cas_f

NThreads == Len(Prog)
Thr == 0..(NThreads - 1)
HEAD == <<"h", 0>>
Next(i) == <<"n", i>>
Loc == {HEAD} \cup {Next(i) : i \in 0..Cap}
LOCK == 999

VARIABLES mem, tv, acqv, relv, sc
INSTANCE C11Mem

VARIABLES pc, opi, old, nx, cur, holds, owned, results, lockedGhost

lvars == <<pc, opi, old, nx, cur, holds, owned, results, lockedGhost>>
vars == <<mem, tv, acqv, relv, sc, lvars>>

Init ==
    /\ MemInit([l \in Loc |-> IF l = HEAD THEN <<0, 0, 0>> ELSE l[2] + 1])
    /\ pc = [t \in Thr |-> "idle"]
    /\ opi = [t \in Thr |-> 1]
    /\ old = [t \in Thr |-> <<0, 0, 0>>]
    /\ nx = [t \in Thr |-> 0]
    /\ cur = [t \in Thr |-> 0]
    /\ holds = [t \in Thr |-> <<>>]
    /\ owned = {}
    /\ results = [t \in Thr |-> <<>>]
    /\ lockedGhost = FALSE

Goto(t, l) == pc' = [pc EXCEPT ![t] = l]
Finish(t, r) ==
    /\ results' = [results EXCEPT ![t] = Append(@, r)]
    /\ opi' = [opi EXCEPT ![t] = @ + 1]
    /\ Goto(t, "idle")

Op(t) == Prog[t + 1][opi[t]]

Start(t) ==
    /\ pc[t] = "idle" /\ opi[t] <= Len(Prog[t + 1])
    /\ MemSkip
    /\ IF Op(t) = "acq"
       THEN /\ Goto(t, "a_ld")
            /\ UNCHANGED <<opi, old, nx, cur, holds, owned, results, lockedGhost>>
       ELSE IF holds[t] = <<>>
            THEN /\ opi' = [opi EXCEPT ![t] = @ + 1]      \* nothing to release: skip
                 /\ UNCHANGED <<pc, old, nx, cur, holds, owned, results, lockedGhost>>
            ELSE /\ cur' = [cur EXCEPT ![t] = Head(holds[t])]
                 /\ holds' = [holds EXCEPT ![t] = Tail(@)]
                 /\ Goto(t, "r_fence")
                 /\ UNCHANGED <<opi, old, nx, owned, results, lockedGhost>>

\* --------------------------------------------------------------- acquire
ALoad(t) ==
    /\ pc[t] = "a_ld"
    /\ \E i \in Readable(t, HEAD, Ord.a_ld) :
          /\ Load(t, HEAD, Ord.a_ld, i)
          /\ old' = [old EXCEPT ![t] = ValAt(HEAD, i)]
    /\ Goto(t, "a_chk")
    /\ UNCHANGED <<opi, nx, cur, holds, owned, results, lockedGhost>>

ACheck(t) ==
    /\ pc[t] = "a_chk"
    /\ MemSkip
    /\ IF old[t][1] >= Cap
       THEN /\ Finish(t, [r |-> "full", v |-> 0])
            /\ UNCHANGED <<old, nx, cur, holds, owned, lockedGhost>>
       ELSE IF old[t][3] = LOCK
       THEN /\ Finish(t, [r |-> "locked", v |-> 0])
            /\ UNCHANGED <<old, nx, cur, holds, owned, lockedGhost>>
       ELSE /\ Goto(t, "a_rdnext")
            /\ UNCHANGED <<opi, old, nx, cur, holds, owned, results, lockedGhost>>

AReadNext(t) ==
    /\ pc[t] = "a_rdnext"
    /\ \E i \in Readable(t, Next(old[t][1]), "Relaxed") :
          /\ Load(t, Next(old[t][1]), "Relaxed", i)
          /\ nx' = [nx EXCEPT ![t] = ValAt(Next(old[t][1]), i)]
    /\ Goto(t, "a_cas")
    /\ UNCHANGED <<opi, old, cur, holds, owned, results, lockedGhost>>

ACas(t) ==
    /\ pc[t] = "a_cas"
    /\ LET new == <<nx[t], (old[t][2] + AbaIncA) % AbaMod, old[t][3] + 1>> IN
       \E i \in CasChoices(t, HEAD, Ord.a_cas_s, Ord.a_cas_f, old[t]) :
          /\ Cas(t, HEAD, Ord.a_cas_s, Ord.a_cas_f, old[t], new, i)
          /\ IF CasOk(HEAD, old[t], i)
             THEN /\ cur' = [cur EXCEPT ![t] = old[t][1]]
                  /\ owned' = owned \cup {<<old[t][1], t>>}
                  /\ Goto(t, "a_wrnext")
                  /\ UNCHANGED old
             ELSE /\ old' = [old EXCEPT ![t] = ValAt(HEAD, i)]
                  /\ Goto(t, "a_chk")
                  /\ UNCHANGED <<cur, owned>>
    /\ UNCHANGED <<opi, nx, holds, results, lockedGhost>>

AWriteNext(t) ==
    /\ pc[t] = "a_wrnext"
    /\ Store(t, Next(cur[t]), "Relaxed", Cap + 1)
    /\ Goto(t, "a_fence")
    /\ UNCHANGED <<opi, old, nx, cur, holds, owned, results, lockedGhost>>

AFence(t) ==
    /\ pc[t] = "a_fence"
    /\ Fence(t, Ord.a_fence)
    /\ holds' = [holds EXCEPT ![t] = Append(@, cur[t])]
    /\ Finish(t, [r |-> "ok", v |-> cur[t]])
    /\ UNCHANGED <<old, nx, cur, owned, lockedGhost>>

\* --------------------------------------------------------------- release
RFence(t) ==
    /\ pc[t] = "r_fence"
    /\ Fence(t, Ord.r_fence)
    /\ Goto(t, "r_ld")
    /\ UNCHANGED <<opi, old, nx, cur, holds, owned, results, lockedGhost>>

RLoad(t) ==
    /\ pc[t] = "r_ld"
    /\ \E i \in Readable(t, HEAD, Ord.r_ld) :
          /\ Load(t, HEAD, Ord.r_ld, i)
          /\ old' = [old EXCEPT ![t] = ValAt(HEAD, i)]
    /\ Goto(t, "r_wrnext")
    /\ UNCHANGED <<opi, nx, cur, holds, owned, results, lockedGhost>>

RWriteNext(t) ==
    /\ pc[t] = "r_wrnext"
    /\ Store(t, Next(cur[t]), "Relaxed", old[t][1])
    /\ Goto(t, "r_cas")
    /\ UNCHANGED <<opi, old, nx, cur, holds, owned, results, lockedGhost>>

RCas(t) ==
    /\ pc[t] = "r_cas"
    /\ LET lockit == Op(t) = "rell" /\ old[t][3] = 1
           new == <<cur[t], (old[t][2] + AbaIncR) % AbaMod, IF lockit THEN LOCK ELSE old[t][3] - 1>>
       IN
       \E i \in CasChoices(t, HEAD, Ord.r_cas_s, Ord.r_cas_f, old[t]) :
          /\ Cas(t, HEAD, Ord.r_cas_s, Ord.r_cas_f, old[t], new, i)
          /\ IF CasOk(HEAD, old[t], i)
             THEN /\ owned' = owned \ {<<cur[t], t>>}
                  /\ lockedGhost' = (lockedGhost \/ lockit)
                  /\ Finish(t, [r |-> IF lockit THEN "locked" ELSE "unlocked", v |-> 0])
                  /\ UNCHANGED old
             ELSE /\ old' = [old EXCEPT ![t] = ValAt(HEAD, i)]
                  /\ Goto(t, "r_wrnext")
                  /\ UNCHANGED <<owned, lockedGhost, results, opi>>
    /\ UNCHANGED <<nx, cur, holds>>

Step(t) == \/ Start(t) \/ ALoad(t) \/ ACheck(t) \/ AReadNext(t) \/ ACas(t) \/ AWriteNext(t) \/ AFence(t)
           \/ RFence(t) \/ RLoad(t) \/ RWriteNext(t) \/ RCas(t)

Next_ == \E t \in Thr : Step(t)
Spec == Init /\ [][Next_]_vars

\* ------------------------------------------------------------------ properties
OwnedIdx == {o[1] : o \in owned}

\* no index is owned twice (an acquire CAS never hands out an index somebody owns)
Exclusive == \A o1, o2 \in owned : o1[1] = o2[1] => o1 = o2
InRange == \A o \in owned : o[1] \in 0..Cap-1

Quiet == \A t \in Thr : pc[t] = "idle" /\ opi[t] > Len(Prog[t + 1])

\* the free list reachable from the head (latest values), as a sequence, bounded walk
RECURSIVE Walk(_, _)
Walk(i, n) == IF i >= Cap \/ n = 0 THEN <<>> ELSE <<i>> \o Walk(LatestVal(Next(i)), n - 1)
FreeSeq == Walk(LatestVal(HEAD)[1], Cap + 1)
FreeSet == {FreeSeq[k] : k \in DOMAIN FreeSeq}

\* at quiescence: free list is acyclic and covers exactly the non-owned indices, counter exact
FreeListWellFormed ==
    Quiet => /\ Len(FreeSeq) = Cardinality(FreeSet)
             /\ FreeSet = (0..Cap-1) \ OwnedIdx
BorrowedExact ==
    Quiet => LET b == LatestVal(HEAD)[3] IN
             IF b = LOCK THEN owned = {} ELSE b = Cardinality(owned)
\* once locked, no acquire succeeds any more
LockIsFinal == lockedGhost => (LatestVal(HEAD)[3] = LOCK)
=============================================================================
