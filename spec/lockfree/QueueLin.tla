------------------------------ MODULE QueueLin ------------------------------
(***************************************************************************)
(* Property layer of C03 (first half): a single-producer single-consumer   *)
(* queue is a linearizable FIFO that conserves every element.              *)
(*                                                                         *)
(* The abstract object is a sequence `q` with capacity `cap`.  An          *)
(* operation of thread t is `Call` (recorded), a silent linearization step *)
(* `Lin` at which it takes effect on `q` and fixes its result, and `Ret`   *)
(* (recorded) whose logged result must equal the fixed one.  Kinds:        *)
(*   "plain"    push on a full queue fails ("full") and changes nothing    *)
(*   "overflow" push on a full queue evicts and returns the oldest element *)
(* Conservation / no invention / FIFO are consequences of being explainable*)
(* by this object: a value can only be popped or evicted if it was pushed, *)
(* once, and in order.                                                     *)
(***************************************************************************)
EXTENDS Naturals, Sequences

VARIABLES q,      \* abstract queue content
          cap,    \* capacity
          kind,   \* "plain" | "overflow"
          pend    \* per thread: pending operation

qvars == <<q, cap, kind, pend>>

Threads == 0..2     \* 0 = producer, 1..2 = consumers (2 only with consumer hand-over)
Idle == [st |-> "idle", a |-> "-", v |-> 0, r |-> "-", rv |-> 0]

QInit(k, c) ==
    /\ q = <<>>
    /\ cap = c
    /\ kind = k
    /\ pend = [t \in Threads |-> Idle]

QReset(k, c) ==
    /\ q' = <<>>
    /\ cap' = c
    /\ kind' = k
    /\ pend' = [t \in Threads |-> Idle]

Call(t, a, v) ==
    /\ pend[t].st = "idle"
    /\ pend' = [pend EXCEPT ![t] = [st |-> "called", a |-> a, v |-> v, r |-> "-", rv |-> 0]]
    /\ UNCHANGED <<q, cap, kind>>

\* the linearization point
Lin(t) ==
    /\ pend[t].st = "called"
    /\ UNCHANGED <<cap, kind>>
    /\ LET p == pend[t] IN
       IF p.a = "push" THEN
           IF Len(q) < cap THEN
               /\ q' = Append(q, p.v)
               /\ pend' = [pend EXCEPT ![t] = [p EXCEPT !.st = "done", !.r = "ok", !.rv = 0]]
           ELSE IF kind = "overflow" THEN
               /\ q' = Append(Tail(q), p.v)
               /\ pend' = [pend EXCEPT ![t] = [p EXCEPT !.st = "done", !.r = "evicted", !.rv = Head(q)]]
           ELSE
               /\ q' = q
               /\ pend' = [pend EXCEPT ![t] = [p EXCEPT !.st = "done", !.r = "full", !.rv = 0]]
       ELSE \* pop
           IF q = <<>> THEN
               /\ q' = q
               /\ pend' = [pend EXCEPT ![t] = [p EXCEPT !.st = "done", !.r = "none", !.rv = 0]]
           ELSE
               /\ q' = Tail(q)
               /\ pend' = [pend EXCEPT ![t] = [p EXCEPT !.st = "done", !.r = "some", !.rv = Head(q)]]

Ret(t, a, r, rv) ==
    /\ pend[t].st = "done"
    /\ pend[t].a = a
    /\ pend[t].r = r
    /\ pend[t].rv = rv
    /\ pend' = [pend EXCEPT ![t] = Idle]
    /\ UNCHANGED <<q, cap, kind>>

\* quiescent observation of the length
Quiescent(len) ==
    /\ \A t \in Threads : pend[t].st = "idle"
    /\ Len(q) = len
    /\ UNCHANGED qvars

\* ---- invariants of the abstract object (checked in MC_QueueLin) ----
Bounded == Len(q) <= cap
=============================================================================
