----------------------------- MODULE IndexSetLin -----------------------------
(***************************************************************************)
(* Property layer of C09: a set of unique indices 0..cap-1 shared by       *)
(* concurrently acquiring / releasing threads (UniqueIndexSet,             *)
(* RobustUniqueIndexSet, and the pool allocator seen as index allocator).  *)
(*                                                                         *)
(*  - acquire returns an index nobody holds (WHICH free index is left      *)
(*    open), fails with "full" only at an instant at which all indices are *)
(*    held, and with "locked" only after the set was locked;               *)
(*  - release makes the index acquirable again; with the lock-if-last      *)
(*    option the set is locked if nothing is held any more (release and    *)
(*    lock attempt are two linearization steps - the statement does not    *)
(*    demand more); once locked no acquire ever succeeds;                  *)
(*  - recover(owner) releases exactly the indices of that (dead) owner;     *)
(*    with the lock-if-last option every recovered index is followed by a  *)
(*    lock attempt (a linearization step of its own: locks iff nothing is  *)
(*    held at that instant);                                               *)
(*  - observers: "obs" (borrowed_indices) returns the number of held       *)
(*    indices at SOME instant of its call, "il" (is_locked) the lock state *)
(*    at some instant of its call.  Observers never change the object: a   *)
(*    release of the last index with lock-if-last must lock the set no     *)
(*    matter how many observers / other lock attempts overlap it.          *)
(* Operations are Call (recorded), silent linearization steps, Ret         *)
(* (recorded, must agree with the fixed result).                           *)
(***************************************************************************)
EXTENDS Naturals, Sequences, FiniteSets

VARIABLES held,     \* set of <<index, owner>>
          locked,   \* BOOLEAN
          cap,
          pend      \* [thread -> pending operation]

isvars == <<held, locked, cap, pend>>

MaxThreads == 3
Threads == 0..MaxThreads
Idle == [st |-> "idle", a |-> "-", i |-> 0, m |-> 0, r |-> "-", v |-> 0, got |-> {}, try |-> FALSE]

HeldIdx == {h[1] : h \in held}
Free == (0..cap-1) \ HeldIdx

ISInit(c) == held = {} /\ locked = FALSE /\ cap = c /\ pend = [t \in Threads |-> Idle]
ISReset(c) == held' = {} /\ locked' = FALSE /\ cap' = c /\ pend' = [t \in Threads |-> Idle]

Call(t, a, i, m) ==
    /\ pend[t].st = "idle"
    /\ pend' = [pend EXCEPT ![t] = [Idle EXCEPT !.st = "called", !.a = a, !.i = i, !.m = m]]
    /\ UNCHANGED <<held, locked, cap>>

\* ---- acquire: one linearization step
LinAcq(t) ==
    /\ pend[t].st = "called" /\ pend[t].a = "acq"
    /\ UNCHANGED cap
    /\ \/ /\ locked
          /\ pend' = [pend EXCEPT ![t].st = "done", ![t].r = "locked"]
          /\ UNCHANGED <<held, locked>>
       \/ /\ ~locked /\ Free = {}
          /\ pend' = [pend EXCEPT ![t].st = "done", ![t].r = "full"]
          /\ UNCHANGED <<held, locked>>
       \/ /\ ~locked
          /\ \E i \in Free :
                /\ held' = held \cup {<<i, t + 1>>}
                /\ pend' = [pend EXCEPT ![t].st = "done", ![t].r = "ok", ![t].v = i]
          /\ UNCHANGED locked

\* ---- release: step 1 frees the index, step 2 (only with lock-if-last) tries to lock
LinRel1(t) ==
    /\ pend[t].st = "called" /\ pend[t].a = "rel"
    /\ UNCHANGED <<cap, locked>>
    /\ IF <<pend[t].i, t + 1>> \in held
       THEN /\ held' = held \ {<<pend[t].i, t + 1>>}
            /\ pend' = [pend EXCEPT ![t].st = IF pend[t].m = 1 THEN "rel2" ELSE "done",
                                    ![t].r = "unlocked"]
       ELSE /\ pend' = [pend EXCEPT ![t].st = "done", ![t].r = "notowner"]
            /\ UNCHANGED held

LinRel2(t) ==
    /\ pend[t].st = "rel2"
    /\ UNCHANGED <<cap, held>>
    /\ IF held = {} \/ locked
       THEN /\ locked' = TRUE
            /\ pend' = [pend EXCEPT ![t].st = "done", ![t].r = "locked"]
       ELSE /\ pend' = [pend EXCEPT ![t].st = "done", ![t].r = "unlocked"]
            /\ UNCHANGED locked

\* ---- recover(owner o = pend.i): frees the owner's indices one by one, then finishes
\* in lock-if-last mode a recovered index is followed by a lock attempt (`try`) that has to be linearized before the
\* next index is recovered / before the call finishes
LinRecOne(t) ==
    /\ pend[t].st = "called" /\ pend[t].a = "rec" /\ ~locked /\ ~pend[t].try
    /\ \E h \in held :
          /\ h[2] = pend[t].i
          /\ held' = held \ {h}
          /\ pend' = [pend EXCEPT ![t].got = @ \cup {h[1]}, ![t].try = (pend[t].m = 1)]
    /\ UNCHANGED <<cap, locked>>

LinRecLock(t) ==   \* lock attempt after a recovered index (lock-if-last mode): locks iff nothing is held now
    /\ pend[t].st = "called" /\ pend[t].a = "rec" /\ pend[t].try
    /\ locked' = (locked \/ held = {})
    /\ pend' = [pend EXCEPT ![t].try = FALSE]
    /\ UNCHANGED <<cap, held>>

LinRecDone(t) ==
    /\ pend[t].st = "called" /\ pend[t].a = "rec" /\ ~pend[t].try
    /\ (locked \/ \A h \in held : h[2] # pend[t].i)    \* nothing of that owner remains
    /\ pend' = [pend EXCEPT ![t].st = "done", ![t].r = IF locked THEN "locked" ELSE "unlocked"]
    /\ UNCHANGED <<cap, held, locked>>

\* ---- observers: one linearization step, the object is unchanged
LinObs(t) ==
    /\ pend[t].st = "called" /\ pend[t].a = "obs"
    /\ \E n \in (IF locked THEN 0..cap ELSE {Cardinality(held)}) :
          pend' = [pend EXCEPT ![t].st = "done", ![t].r = "ok", ![t].v = n]
    /\ UNCHANGED <<cap, held, locked>>

LinIsLocked(t) ==
    /\ pend[t].st = "called" /\ pend[t].a = "il"
    /\ pend' = [pend EXCEPT ![t].st = "done", ![t].r = IF locked THEN "true" ELSE "false"]
    /\ UNCHANGED <<cap, held, locked>>

Lin(t) == LinAcq(t) \/ LinRel1(t) \/ LinRel2(t) \/ LinRecOne(t) \/ LinRecLock(t) \/ LinRecDone(t)
          \/ LinObs(t) \/ LinIsLocked(t)

SeqToSet(s) == {s[k] : k \in DOMAIN s}

Ret(t, a, r, v, idx) ==
    /\ pend[t].st = "done"
    /\ pend[t].a = a
    /\ pend[t].r = r
    /\ (a = "acq" /\ r = "ok") => pend[t].v = v
    /\ a = "obs" => pend[t].v = v
    /\ a = "rec" => /\ SeqToSet(idx) = pend[t].got
                    /\ Len(idx) = Cardinality(pend[t].got)
    /\ pend' = [pend EXCEPT ![t] = Idle]
    /\ UNCHANGED <<held, locked, cap>>

\* quiescent observation: borrowed_indices() (b = -1: not observable) and is_locked()
Quiescent(b, lk) ==
    /\ \A t \in Threads : pend[t].st = "idle"
    /\ lk = locked
    /\ (b >= 0 /\ ~locked) => b = Cardinality(held)
    /\ UNCHANGED isvars

\* ---- invariants of the abstract object
Exclusive == \A h1, h2 \in held : h1[1] = h2[1] => h1 = h2
InRange == \A h \in held : h[1] \in 0..cap-1
LockIsFinal == locked => held = {}
=============================================================================
