----------------------------- MODULE EventProtocol -----------------------------
(***************************************************************************)
(* Implementation-shaped specification of the notification hand-shake of   *)
(* iceoryx2-cal event::common (Handle::notify / Waiter::drain_events).     *)
(* One action per shared-memory access.  All accesses of the protocol      *)
(* state are SeqCst in the code, the model is a plain interleaving model.  *)
(*                                                                         *)
(* The ORDER of the steps of notify and of the two paths of wait, and the  *)
(* set of protocol states on which notify returns without triggering, are  *)
(* constants that the check EXTRACTS from atomic-level traces of the       *)
(* running code (DESIGN.md 3.3), so that a reordering in the code changes  *)
(* the model that TLC checks.                                              *)
(*                                                                         *)
(* state: 0 = IDLE, 1 = PENDING, 2 = NOTIFIED.                             *)
(***************************************************************************)
EXTENDS Naturals, Sequences, FiniteSets, TLC

CONSTANTS NProg,      \* sequence (one per notifier) of sequences of event ids
          LProg,      \* sequence of "try" | "block"   (the listener's waits)
          MaxId,      \* ids are 0..MaxId
          TrigCap,    \* capacity of the trigger buffer
          FailFull,   \* BOOLEAN: notify fails when the trigger buffer is full
          Counting,   \* BOOLEAN: counting event state (else bit set)
          NSteps,     \* e.g. <<"activate", "cas_ip", "post", "cas_pn">>
          SkipOn,     \* protocol states on which a failed cas_ip returns without trigger, e.g. {2}
          LSlow,      \* e.g. <<"wait", "store_idle", "empty", "drain">>   (after cas_ni failed)
          LFast,      \* e.g. <<"empty", "drain">>                        (after cas_ni succeeded)
          LDecide     \* "cas": the path is chosen by CAS NOTIFIED->IDLE (which resets the state),
                      \* "load": by a load (state = NOTIFIED => fast path, nothing changed)

NN == Len(NProg)
Notifiers == 1..NN
Ids == 0..MaxId

VARIABLES state, trig, ev,        \* shared memory: protocol state, trigger counter, event state [id -> count]
          npc, nop,               \* notifier: index into NSteps (0 = idle), index of the current notification
          lpc, lpath, lop, did,   \* listener: index into the path, path ("-", "cas", "slow", "fast"), wait index, drain id
          ninst,                  \* ghost: notify instances [n, id, st, covered]
          reports,                \* ghost: sequence of reports (sets of <<id, count>>) of completed waits
          cur,                    \* ghost: report under construction
          last                    \* ghost: <<thread, role>> of the step that led here (for directed replay;
                                  \* excluded from the fingerprint by VIEW)

vars == <<state, trig, ev, npc, nop, lpc, lpath, lop, did, ninst, reports, cur, last>>
View == <<state, trig, ev, npc, nop, lpc, lpath, lop, did, ninst, reports, cur>>

Role(s) == CASE s \in {"activate", "drain"} -> "bits"
             [] s \in {"cas_ip", "cas_pn", "store_idle", "reset_ni"} -> "state"
             [] s \in {"post", "wait", "empty"} -> "trig"

Init ==
    /\ state = 0 /\ trig = 0 /\ ev = [i \in Ids |-> 0]
    /\ npc = [n \in Notifiers |-> 0] /\ nop = [n \in Notifiers |-> 1]
    /\ lpc = 0 /\ lpath = "-" /\ lop = 1 /\ did = 0
    /\ ninst = <<>> /\ reports = <<>> /\ cur = {}
    /\ last = <<0, "init">>

\* ---------------------------------------------------------------- notifier
CurId(n) == NProg[n][nop[n]]
MyInst(n) == CHOOSE k \in DOMAIN ninst : ninst[k].n = n /\ ninst[k].st = "called"

NStart(n) ==
    /\ npc[n] = 0 /\ nop[n] <= Len(NProg[n])
    /\ npc' = [npc EXCEPT ![n] = 1]
    /\ ninst' = Append(ninst, [n |-> n, id |-> CurId(n), st |-> "called", covered |-> FALSE])
    /\ last' = <<n - 1, "api">>
    /\ UNCHANGED <<state, trig, ev, nop, lpc, lpath, lop, did, reports, cur>>

NFinish(n, res) ==
    /\ npc' = [npc EXCEPT ![n] = 0]
    /\ nop' = [nop EXCEPT ![n] = @ + 1]
    /\ ninst' = [ninst EXCEPT ![MyInst(n)].st = res]

NAdvance(n) ==
    IF npc[n] = Len(NSteps)
    THEN NFinish(n, "ok")
    ELSE /\ npc' = [npc EXCEPT ![n] = @ + 1] /\ UNCHANGED <<nop, ninst>>

NStep(n) ==
    /\ npc[n] > 0
    /\ LET s == NSteps[npc[n]] IN
       CASE s = "activate" ->
              /\ ev' = [ev EXCEPT ![CurId(n)] = IF Counting THEN @ + 1 ELSE 1]
              /\ NAdvance(n)
              /\ UNCHANGED <<state, trig>>
         [] s = "cas_ip" ->
              IF state = 0
              THEN /\ state' = 1 /\ NAdvance(n) /\ UNCHANGED <<trig, ev>>
              ELSE IF state \in SkipOn
                   THEN /\ NFinish(n, "ok") /\ UNCHANGED <<state, trig, ev>>
                   ELSE /\ NAdvance(n) /\ UNCHANGED <<state, trig, ev>>
         [] s = "post" ->
              IF trig < TrigCap
              THEN /\ trig' = trig + 1 /\ NAdvance(n) /\ UNCHANGED <<state, ev>>
              ELSE IF FailFull
                   THEN /\ NFinish(n, "fail") /\ UNCHANGED <<state, trig, ev>>
                   ELSE /\ NAdvance(n) /\ UNCHANGED <<state, trig, ev>>
         [] s = "cas_pn" ->
              /\ state' = IF state = 1 THEN 2 ELSE state
              /\ NAdvance(n)
              /\ UNCHANGED <<trig, ev>>
    /\ last' = <<n - 1, Role(NSteps[npc[n]])>>
    /\ UNCHANGED <<lpc, lpath, lop, did, reports, cur>>

\* ---------------------------------------------------------------- listener
LStart ==
    /\ lpath = "-" /\ lop <= Len(LProg)
    /\ lpath' = "cas"
    /\ last' = <<NN, "api">>
    /\ UNCHANGED <<state, trig, ev, npc, nop, lpc, lop, did, ninst, reports, cur>>

LCas ==   \* CAS NOTIFIED -> IDLE decides the path
    /\ lpath = "cas"
    /\ IF state = 2
       THEN /\ state' = IF LDecide = "cas" THEN 0 ELSE state
            /\ lpath' = "fast"
       ELSE /\ lpath' = "slow" /\ UNCHANGED state
    /\ lpc' = 1 /\ did' = 0 /\ cur' = {}
    /\ last' = <<NN, "state">>
    /\ UNCHANGED <<trig, ev, npc, nop, lop, ninst, reports>>

Path == IF lpath = "fast" THEN LFast ELSE LSlow

LFinishWait ==
    LET ids == {r[1] : r \in cur} IN
    /\ reports' = Append(reports, cur)
    /\ ninst' = [k \in DOMAIN ninst |-> IF ninst[k].id \in ids THEN [ninst[k] EXCEPT !.covered = TRUE] ELSE ninst[k]]
    /\ lpath' = "-" /\ lop' = lop + 1 /\ lpc' = 0

LAdvance ==
    IF lpc = Len(Path) THEN LFinishWait
    ELSE /\ lpc' = lpc + 1 /\ UNCHANGED <<lpath, lop, reports, ninst>>

LStep ==
    /\ lpath \in {"slow", "fast"}
    /\ LET s == Path[lpc] IN
       CASE s = "wait" ->
              IF LProg[lop] = "block"
              THEN /\ trig > 0                      \* blocked while the trigger is empty
                   /\ trig' = 0                     \* take one, then empty the buffer
                   /\ LAdvance /\ UNCHANGED <<state, ev, did, cur>>
              ELSE /\ trig' = 0
                   /\ LAdvance /\ UNCHANGED <<state, ev, did, cur>>
         [] s = "store_idle" ->
              /\ state' = 0 /\ LAdvance /\ UNCHANGED <<trig, ev, did, cur>>
         [] s = "reset_ni" ->      \* CAS NOTIFIED -> IDLE, result ignored
              /\ state' = IF state = 2 THEN 0 ELSE state
              /\ LAdvance /\ UNCHANGED <<trig, ev, did, cur>>
         [] s = "empty" ->
              /\ trig' = 0 /\ LAdvance /\ UNCHANGED <<state, ev, did, cur>>
         [] s = "drain" ->      \* one id per step
              /\ ev' = [ev EXCEPT ![did] = 0]
              /\ cur' = IF ev[did] > 0 THEN cur \cup {<<did, ev[did]>>} ELSE cur
              /\ IF did = MaxId
                 THEN /\ did' = 0
                      /\ IF lpc = Len(Path)
                         THEN LET c2 == IF ev[did] > 0 THEN cur \cup {<<did, ev[did]>>} ELSE cur
                                  ids == {r[1] : r \in c2}
                              IN /\ reports' = Append(reports, c2)
                                 /\ ninst' = [k \in DOMAIN ninst |->
                                                IF ninst[k].id \in ids THEN [ninst[k] EXCEPT !.covered = TRUE] ELSE ninst[k]]
                                 /\ lpath' = "-" /\ lop' = lop + 1 /\ lpc' = 0
                         ELSE /\ lpc' = lpc + 1 /\ UNCHANGED <<lpath, lop, reports, ninst>>
                 ELSE /\ did' = did + 1 /\ UNCHANGED <<lpc, lpath, lop, reports, ninst>>
              /\ UNCHANGED <<state, trig>>
    /\ last' = <<NN, Role(Path[lpc])>>
    /\ UNCHANGED <<npc, nop>>

Next == (\E n \in Notifiers : NStart(n) \/ NStep(n)) \/ LStart \/ LCas \/ LStep
Spec == Init /\ [][Next]_vars

\* ------------------------------------------------------------------ properties
NotifiersDone == \A n \in Notifiers : npc[n] = 0 /\ nop[n] > Len(NProg[n])

\* the listener is inside a blocking wait with an empty trigger
Sleeping == /\ lpath \in {"slow", "fast"} /\ Path[lpc] = "wait" /\ LProg[lop] = "block" /\ trig = 0

\* NoSleep: never asleep while a notify that returned success is not covered by a report
\* and can no longer be covered by the wait in progress (its id has already been passed by the drain
\* is impossible here because the drain comes after the wait step)
NoSleepWithPending ==
    Sleeping => \A k \in DOMAIN ninst : ninst[k].st = "ok" => ninst[k].covered

\* the deciding form: the listener is never asleep FOR EVER (every notifier has finished, nobody will
\* post any more) while a notify that returned success is not covered.  (NoSleepWithPending, the
\* instantaneous reading, also flags windows that end as soon as another in-flight notifier posts.)
NoSleepForever ==
    (Sleeping /\ NotifiersDone) => \A k \in DOMAIN ninst : ninst[k].st = "ok" => ninst[k].covered

\* NoLost at quiescence: everything that was notified successfully has been reported or is still
\* recorded in the event state for the next wait
NoLostAtQuiescence ==
    (NotifiersDone /\ lpath = "-") =>
        \A k \in DOMAIN ninst : ninst[k].st = "ok" => (ninst[k].covered \/ ev[ninst[k].id] > 0)

\* NoPhantom: reported counts never exceed the notifications begun
Started(i) == Cardinality({k \in DOMAIN ninst : ninst[k].id = i})
RECURSIVE SumRep(_, _)
SumRep(i, k) == IF k = 0 THEN 0
                ELSE SumRep(i, k - 1) + (IF \E r \in reports[k] : r[1] = i
                                         THEN (CHOOSE c \in 1..100 : <<i, c>> \in reports[k]) ELSE 0)
NoPhantom == \A i \in Ids : SumRep(i, Len(reports)) <= Started(i)

\* a try_wait issued after a successful notify returned reports it (checked through ninst.covered at the
\* end of every wait that started after the notify returned): generous version = NoLostAtQuiescence
=============================================================================
