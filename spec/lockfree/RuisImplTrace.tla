--------------------------- MODULE RuisImplTrace ---------------------------
(* Atomic-level conformance of RuisImpl with executions of the real          *)
(* RobustUniqueIndexSet recorded under the deterministic scheduler; roles are *)
(* assigned by checks/ruis_impl.py from operands and position.  A rejection   *)
(* is DRIFT, never a violation.                                               *)
EXTENDS RuisImpl, TraceIO

VARIABLE l
tvars == <<vars, l>>

TraceInit == Init /\ l = 1 /\ TraceRegInit

ResetAll ==
    /\ mem' = [x \in Loc |-> << [val |-> 0, view |-> View0] >>]
    /\ tv' = [t \in Thr |-> View0] /\ acqv' = [t \in Thr |-> View0] /\ relv' = [t \in Thr |-> View0] /\ sc' = View0
    /\ pc' = [t \in Thr |-> "idle"] /\ ip' = [t \in Thr |-> 1]
    /\ cur' = [t \in Thr |-> 0] /\ scan' = [t \in Thr |-> 0] /\ idx' = [t \in Thr |-> 0]
    /\ cnt' = [t \in Thr |-> 0] /\ g0' = [t \in Thr |-> 0] /\ mode' = [t \in Thr |-> "rel"]
    /\ holds' = [t \in Thr |-> <<>>] /\ results' = [t \in Thr |-> <<>>]
    /\ fullSeen' = [t \in Thr |-> FALSE] /\ lockedAt' = 0 - 1
    /\ started' = [t \in Thr |-> 0] /\ nstart' = 0
    /\ otherSeen' = [t \in Thr |-> FALSE] /\ badUnlock' = FALSE

Atom(e) ==
    LET t == e.t IN
    CASE e.role = "gc_ld" -> /\ e.ord = Ord.gc_ld
                             /\ \/ pc[t] = "a_gc" /\ AGc(t) /\ (e.rd # LOCK => cur'[t] = e.rd) /\ (e.rd = LOCK) = (pc'[t] = "idle")
                                \/ pc[t] = "l_gc" /\ LGc(t) /\ g0'[t] = e.rd
                                   /\ (mode[t] = "obs" => (e.rd = LOCK) = (pc'[t] = "idle"))
      [] e.role = "cell_acq" -> /\ e.ord = Ord.acq_s /\ e.ordf = Ord.acq_f
                                /\ pc[t] = "a_cell" /\ scan[t] = e.slot /\ ACell(t) /\ e.ok = (pc'[t] = "a_inc")
      [] e.role = "inc" -> /\ (e.lk = 0 => e.ord = Ord.inc)
                           /\ (e.lk = 1) = (LatestVal(GC) = LOCK)
                           /\ \/ pc[t] = "a_inc" /\ AInc(t)
                              \/ pc[t] = "r_inc" /\ RInc(t)
                              \/ pc[t] = "l_inc" /\ LInc(t)
      [] e.role = "full" -> /\ e.ord = Ord.full_s /\ e.ordf = Ord.full_f /\ pc[t] = "a_full" /\ AFull(t)
                            /\ e.ok = (pc'[t] = "idle" /\ results'[t][Len(results'[t])] = <<"full">>)
      [] e.role = "cell_rel" -> /\ e.ord = Ord.rel_s /\ e.ordf = Ord.rel_f
                                /\ pc[t] = "r_cell" /\ idx[t] = e.slot /\ e.ok /\ RCell(t)
      [] e.role = "il_ld" -> e.ord = Ord.il_ld /\ pc[t] = "l_il" /\ LIsLocked(t) /\ (e.rd = LOCK) = (pc'[t] = "idle")
      [] e.role = "cnt_ld" -> e.ord = Ord.cnt_ld /\ pc[t] = "l_cnt" /\ scan[t] = e.slot /\ LCnt(t)
                              /\ cnt'[t] = cnt[t] + (IF e.rd # 0 THEN 1 ELSE 0)
      [] e.role = "lock" -> /\ e.ord = Ord.lock_s /\ e.ordf = Ord.lock_f /\ pc[t] = "l_cas" /\ LCas(t)
                            /\ e.ok = (pc'[t] = "idle" /\ results'[t][Len(results'[t])] = <<"rel", "Locked">> /\ e.rd = g0[t])
                            /\ (~e.ok => IF LockRetries THEN pc'[t] = "l_gc"
                                          ELSE results'[t][Len(results'[t])] = <<"rel", IF e.rd = LOCK THEN "Locked" ELSE "Unlocked">>)
      [] OTHER -> FALSE

\* LDecide is a local step (for the observer "obs" it is the return of the count); a release with nothing held is skipped by the driver without a call record
SkipRelease(t) == pc[t] = "idle" /\ ip[t] <= Len(Prog[t]) /\ Prog[t][ip[t]] # "acq" /\ holds[t] = <<>> /\ Start(t)
Silent == l <= NRec /\ (\E t \in Thr : LDecide(t) \/ SkipRelease(t)) /\ Monitor /\ UNCHANGED l

Consume ==
    /\ l <= NRec
    /\ l' = l + 1
    /\ LET e == Rec[l] IN
       CASE e.k = "reset" -> ResetAll
         [] e.k = "call" -> /\ pc[e.t] = "idle" /\ ip[e.t] <= Len(Prog[e.t]) /\ Prog[e.t][ip[e.t]] = e.a
                            /\ Start(e.t) /\ Monitor
         [] e.k = "ret" -> pc[e.t] = "idle" /\ UNCHANGED vars
         [] e.k = "atom" -> Atom(e) /\ Monitor
         [] e.k \in {"end", "aux"} -> UNCHANGED vars
         [] OTHER -> FALSE

TraceNext == Consume \/ Silent
TraceSpec == TraceInit /\ [][TraceNext]_tvars
Progress == TraceProgress(l)
Accepted == TraceAccepted
=============================================================================
