--------------------------- MODULE PubSubTraceFfi ---------------------------
(* Property C18: trace specification for the publish-subscribe traces that   *)
(* harness/drivers/ffi records through the Rust API, the C API or both on    *)
(* one service.  It is spec/api/PubSubTrace.tla (the reference of C01 / C02  *)
(* / C08; PubSub.tla decides) with two additions:                            *)
(*  - a copy-send (iox2_publisher_send_copy / Publisher::send_copy) is the   *)
(*    loan/send pair it consists of; the chunk of that loan is not           *)
(*    observable (c = -1) and modelled as a virtual chunk of its own;        *)
(*  - handle release: every record of a port creation / drop carries the     *)
(*    number of publishers (np) and subscribers (ns) the dynamic config      *)
(*    lists afterwards (read through the Rust API by an observer); it must   *)
(*    equal the number of live ports of the model - a dropped C handle is    *)
(*    gone from the registry, a created one is in it.                        *)
(* Fields the specification does not mention (payload digest, length, header *)
(* fields, API tag) are compared between the front ends by checks/C18.py.    *)
EXTENDS PubSub, TraceIO

VARIABLE l
tvars == <<vars, l>>

DummyQ == [maxpubs |-> 1, maxsubs |-> 1, bufmax |-> 1, hist |-> 0, borrow |-> 1, loan |-> 1,
           overflow |-> FALSE, strategy |-> "discard", expbuf |-> 64]

TraceInit ==
    /\ l = 1
    /\ InitWith(DummyQ)
    /\ TraceRegInit

QosOf(e) == [maxpubs |-> e.maxpubs, maxsubs |-> e.maxsubs, bufmax |-> e.bufmax, hist |-> e.hist,
             borrow |-> e.borrow, loan |-> e.loan, overflow |-> (e.overflow = 1),
             strategy |-> e.strategy, expbuf |-> e.expbuf]

Clean(e) == e.bad = <<>>

\* registry as the Rust API lists it after the call
Registry(e) == /\ e.np = Cardinality({p \in PubIds : pst'[p] = "live"})
               /\ e.ns = Cardinality({s \in SubIds : sst'[s] \in {"live", "abandoned"}})

\* the chunk of a copy-sent sample is not observable: it is modelled as a virtual chunk of its own (index beyond
\* every real one), so that no later observed chunk index can collide with a guess - chunk identity is the
\* subject of C02, here only the number of chunks in use matters
LoanAny(e) == IF e.c >= 0 THEN Loan(e.p, e.c) ELSE Loan(e.p, 1000 + nextid)

Op(e) ==
    CASE e.a = "create_pub"  -> CreatePublisher(e.p, e.n, e.deg) /\ out'.r = e.r /\ Registry(e)
      [] e.a = "drop_pub"    -> DropPublisher(e.p) /\ Registry(e)
      [] e.a = "create_sub"  -> CreateSubscriber(e.s, e.buf, e.req, e.deg) /\ out'.r = e.r /\ Registry(e)
      [] e.a = "drop_sub"    -> DropSubscriber(e.s) /\ Registry(e)
      [] e.a = "loan"        -> LoanAny(e) /\ out'.r = e.r /\ out'.id = e.id
      [] e.a = "drop_loan"   -> DropLoan(e.p, e.id)
      [] e.a = "probe"       -> ProbeLoans(e.p, e.cs) /\ out'.cnt = e.cnt /\ out'.r = e.r
      [] e.a = "update_pub"  -> UpdatePub(e.p) /\ out'.r = e.r
      [] e.a = "send"        -> Send(e.p, e.id) /\ out'.r = e.r /\ out'.n = e.n /\ out'.blk = e.blk
      [] e.a = "recv"        -> /\ IF e.r = "some" THEN Receive(e.s, e.p) ELSE \E p \in PubIds : Receive(e.s, p)
                                /\ out'.r = e.r /\ out'.p = e.p /\ out'.id = e.id
                                /\ e.cok = 1                        \* byte-identical to what was written
      [] e.a = "drop_sample" -> DropSample(e.s, e.id)
      [] e.a = "has"         -> HasSamples(e.s) /\ out'.r = e.r /\ out'.v = e.v
      [] OTHER -> FALSE

\* end of run: everything was released in some order; the registry seen by the observer after the
\* ports were dropped is empty, the service name can be created again
EndOk(e) == e.teardown = "ok" /\ e.reg.np = 0 /\ e.reg.ns = 0 /\ e.reuse = "ok"

Consume ==
    /\ l <= NRec
    /\ l' = l + 1
    /\ LET e == Rec[l] IN
       CASE e.k = "reset" -> QosOK(QosOf(e)) /\ Reset(QosOf(e))
         [] e.k = "op"    -> Clean(e) /\ Op(e)
         [] e.k = "end"   -> EndOk(e) /\ UNCHANGED vars
         [] OTHER -> FALSE

TraceNext == Consume
TraceSpec == TraceInit /\ [][TraceNext]_tvars

Progress == TraceProgress(l)
Accepted == TraceAccepted
=============================================================================
