SPECIFICATION TraceSpec
CONSTANTS
 PubIds = {1,2,3,4,5,6,7,8}
 SubIds = {1,2,3,4,5,6,7,8,9,10}
 Q <- DummyQ
 BufChoices = {}
 ReqChoices = {}
 NChunks = 0
 MaxIds = 0
CONSTRAINT Progress
POSTCONDITION Accepted
CHECK_DEADLOCK FALSE
INVARIANTS TypeOK Order LossOverflow LossNoOverflow Recipients RefExact FreeIffZero ChunkUnique ChunksSuffice UsedBound LoanInside LimitsRespected
