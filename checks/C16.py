"""C16 - Fixed-capacity containers match reference models, drop elements exactly once."""
import concurrent.futures
import json
import os
import re
import threading
import time

import vp

META = {
    "level": "model_checking",
    "engine": "tla-graph-lockstep",
    "technique": "TLC model checking of TLA+ reference models of the containers (unbounded sequence / map restricted by "
                 "'capacity exceeded => documented error and UNCHANGED', token conservation per step); the bounded state "
                 "graph is dumped by TLC and walked in graph lock-step with the real containers of every storage flavour "
                 "(edge cover, all paths up to length 6 within a node budget, seeded random walks); walks recorded from "
                 "the real code are validated by TLC against trace specifications of the same models",
    "text": "TLC exhaustively checks CVec/CQueue/CSlotMap/CFlatMap/CString.tla for all capacities of the tier: the named "
            "clauses LenBounded, ErrorLeavesUnchanged, ErrorOnlyWhenDocumented, DropExactlyOnce (conservation of tokens "
            "per step: in + content = content' + returned + dropped), NoInvention, InsertUsesFreeKey, OthersUntouched, "
            "FindIsFirst/RfindIsLast are invariants / action properties of the models. Every edge of TLC's state graph "
            "(state x operation+arguments -> result, net drops per token, next state) is then executed on the real "
            "heap / inline / relocatable containers (strings also through a SemanticString wrapper: find/rfind, error "
            "mapping, copy-modify-validate) with a drop-counting element type and compared after every step "
            "(result, len/is_empty/is_full, full contents / iteration order, drops); in the other direction recorded "
            "walks are accepted or rejected by TLC.",
    "note": "Trusted: TLC, the JSON edge dump (one line per transition printed from an ACTION_CONSTRAINT, -workers 1), "
            "the driver's adapters. Where the statement leaves a choice open (which free key a slot map hands out, which "
            "of two applicable errors is reported, list_keys order) the model is nondeterministic and the walker follows "
            "the implementation. 'All paths of length <= 6' is exhaustive over the full operation alphabet for the inline "
            "and relocatable flavours (objects with byte-identical memory in the same model state are merged); for the "
            "heap flavours up to the depth that fits the node budget (reported per container in the evidence) and over "
            "a core alphabet (two token values, boundary positions) beyond it. Elements are 3 tokens, string bytes are {NUL,'a','b','/',0xC8}, "
            "slices have length <= 2. Operations whose precondition is a documented contract (insert index > len of a "
            "string: fatal panic; push_with_overflow on a zero-capacity queue) are not part of the models.",
    "design_ref": "DESIGN.md 5 C16, 3.5, 3.4",
    "replay": True,
}

DRIVER = "drv-containers"

# ------------------------------------------------------------------------------------------------
# container families

FLAVOURS = ["heap", "inline", "reloc"]


def flavours_of(kind):
    # "semantic": SemanticString wrapper (semantic_string! macro, no content restriction) over StaticString
    return FLAVOURS + (["semantic"] if kind == "string" else [])

KINDS = {
    "vec": {"module": "CVec", "consts": {"MaxSlice": "2"}, "invs": ["TypeOK", "LenBounded"], "trace": "CVecTrace",
            "need": [("push", "ok"), ("push", "full"), ("pop", "some"), ("pop", "none"), ("insert", "ok"), ("insert", "full"),
                     ("insert", "oob"), ("remove", "some"), ("remove", "none"), ("truncate", "ok"), ("resize", "ok"),
                     ("resize", "full"), ("extend_from_slice", "ok"), ("extend_from_slice", "full"), ("clear", "ok"),
                     ("destroy", "ok"), ("relocate", "ok")]},
    "queue": {"module": "CQueue", "consts": {}, "invs": ["TypeOK", "LenBounded"], "trace": "CQueueTrace",
              "need": [("push", "true"), ("push", "false"), ("pop", "some"), ("pop", "none"), ("push_with_overflow", "none"),
                       ("push_with_overflow", "some"), ("clear", "ok"), ("destroy", "ok"), ("relocate", "ok")]},
    "slotmap": {"module": "CSlotMap", "consts": {}, "invs": ["TypeOK", "LenBounded", "NextFreeKeyIsFree"], "trace": "CSlotMapTrace",
                "need": [("insert", "some"), ("insert", "none"), ("insert_at", "true"), ("insert_at", "false"),
                         ("remove", "some"), ("remove", "none"), ("get", "some"), ("get", "none"), ("contains", "true"),
                         ("contains", "false"), ("destroy", "ok"), ("relocate", "ok")]},
    "flatmap": {"module": "CFlatMap", "consts": {}, "invs": ["TypeOK", "LenBounded"], "trace": "CFlatMapTrace",
                "need": [("insert", "ok"), ("insert", "exists"), ("insert", "full"), ("get", "some"), ("get", "none"),
                         ("remove", "some"), ("remove", "none"), ("contains", "true"), ("contains", "false"),
                         ("destroy", "ok"), ("relocate", "ok")]},
    "string": {"module": "CString", "consts": {"MaxSlice": "2"}, "invs": ["TypeOK", "LenBounded", "OnlyValidBytes"],
               "trace": "CStringTrace",
               "need": [("push", "ok"), ("push", "full"), ("push", "invalid"), ("push_bytes", "ok"), ("push_bytes", "full"),
                        ("push_bytes", "invalid"), ("insert", "ok"), ("insert_bytes", "ok"), ("remove", "some"),
                        ("remove", "none"), ("remove_range", "true"), ("remove_range", "false"), ("pop", "some"),
                        ("pop", "none"), ("truncate", "ok"), ("strip_prefix", "true"), ("strip_prefix", "false"),
                        ("strip_suffix", "true"), ("strip_suffix", "false"), ("find", "some"), ("find", "none"),
                        ("rfind", "some"), ("rfind", "none"), ("clear", "ok"), ("destroy", "ok"), ("relocate", "ok")]},
}

# Divergence classes of the driver carry detail ("slotmap:after-insert_at:insert:state"); the signature that is
# reported (and matched by vp.Ctx.report against /verif/known_findings.json for the running property id) is the
# stable prefix below where one applies, otherwise the full class. Nothing is suppressed here.
SIGNATURE_PREFIXES = ["slotmap:after-insert_at", "slotmap:cap0", "string:nul-terminator", "string:static-full-zero-range"]


def signature_of(cls):
    for k in SIGNATURE_PREFIXES:
        if cls == k or cls.startswith(k + ":"):
            return k
    return cls


# ------------------------------------------------------------------------------------------------
# TLC: model check + dump of the state graph

_lock = threading.Lock()


def parallel(fn, argsets, workers=5):
    with concurrent.futures.ThreadPoolExecutor(max_workers=workers) as ex:
        futs = [ex.submit(fn, *a) for a in argsets]
        return [f.result() for f in futs]


_re_edge = re.compile(r'^<<"EDGE", (".*")>>$')


def mc_graph(ctx, module, caps, consts, invs, tag):
    """Model-checks spec/data/<module>.tla for the capacity set and returns (edges, TlcResult)."""
    name = f"MC_{module}"
    d = ctx.path("mc", f"{tag}-{module}", "x")[:-2]
    with open(os.path.join(d, f"{name}.tla"), "w") as f:
        f.write(f"---- MODULE {name} ----\nEXTENDS {module}, TLC, Json\n"
                "Emit == PrintT(<<\"EDGE\", ToJson([f |-> Obs, l |-> last', t |-> Obs'])>>)\n====\n")
    cs = "\n".join(f" {k} = {v}" for k, v in consts.items())
    with open(os.path.join(d, f"{name}.cfg"), "w") as f:
        f.write("SPECIFICATION Spec\nCONSTANTS\n"
                f" Caps = {{{','.join(map(str, caps))}}}\n{cs}\n"
                f"INVARIANTS {' '.join(invs)}\nPROPERTY StepProp\nACTION_CONSTRAINT Emit\nVIEW view\nCHECK_DEADLOCK FALSE\n")
    res = vp.tlc(d, name, workers=1, timeout=900, libs=["data"], heap="4g")
    with _lock:
        vp.record_tlc(ctx, f"{module}[caps={caps}]", res)
    vp.tlc_require_ok(res, f"{module} caps={caps}")
    edges = []
    for line in res.prints:
        m = _re_edge.match(line)
        if m:
            edges.append(json.loads(json.loads(m.group(1))))
    if not edges:
        raise vp.ToolError(f"TLC printed no edges for {module}")
    return edges, res


def ov_of(kind, o):
    if kind in ("vec", "queue", "string"):
        return [o["cap"], len(o["c"])] + list(o["c"])
    if kind == "slotmap":
        return [o["cap"], o["nxt"]] + list(o["m"])
    if kind == "flatmap":
        return [o["cap"]] + list(o["m"])
    if kind in ("indexqueue", "oindexqueue"):
        return [o["cap"], len(o["c"])]
    if kind == "indexset":
        return [o["cap"], o["locked"], sum(o["b"])]
    if kind == "bitset":
        return [o["cap"]]
    raise KeyError(kind)


def is_core(kind, o, l):
    """The reduced operation alphabet used beyond the depth the full alphabet can be enumerated to."""
    a, i, s = l["a"], l["i"], l["s"]
    if a in ("destroy", "relocate"):
        return False
    if kind == "vec":
        n = len(o["c"])
        if a == "push":
            return i[0] <= 2
        if a == "insert":
            return i[1] == 1 and i[0] in (0, n)
        if a == "remove":
            return i[0] in (0, n - 1)
        if a == "truncate":
            return i[0] in (0, 1)
        if a == "resize":
            return i[1] == 2 and i[0] == o["cap"]
        if a == "extend_from_slice":
            return s == [1, 2]
        return True
    if kind in ("queue", "indexqueue", "oindexqueue"):
        return not (a in ("push", "push_with_overflow") and i[0] > 2)
    if kind == "slotmap":
        if a == "insert":
            return i[0] <= 2
        if a == "insert_at":
            return i[1] == 3 and i[0] < o["cap"]
        if a == "remove":
            return i[0] < o["cap"]
        return False
    if kind == "flatmap":
        if a == "insert":
            return i[1] <= 2
        return a == "remove"
    if kind == "string":
        n = len(o["c"])
        if a == "push":
            return i[0] in (97, 47)
        if a == "insert":
            return i == [0, 98]
        if a == "remove":
            return i[0] == 0
        if a == "remove_range":
            return i == [0, 1] or i == [n - 1, 1]
        if a == "truncate":
            return i[0] == 1
        if a == "push_bytes":
            return s == [97, 47]
        if a == "strip_prefix":
            return s == [97]
        if a == "strip_suffix":
            return s == [47]
        return a in ("pop", "clear")
    return True


def build_automaton(ctx, kind, edges, tag):
    states, index = [], {}

    def sid(o):
        k = json.dumps(o, sort_keys=True)
        if k not in index:
            index[k] = len(states)
            states.append({"ov": ov_of(kind, o), "o": o})
        return index[k]

    out, seen = [], set()
    for e in edges:
        f, t, l = sid(e["f"]), sid(e["t"]), e["l"]
        key = (f, t, json.dumps(l, sort_keys=True))
        if key in seen:
            continue
        seen.add(key)
        out.append([f, t, l["a"], l["i"], l["s"], l["r"], l["v"], l["d"], is_core(kind, e["f"], l)])
    init = {}
    for n, s in enumerate(states):
        o = s["o"]
        empty = (not o.get("c")) and not any(o.get("m", [])) and not any(o.get("b", [])) and not o.get("locked")
        if empty:
            init.setdefault(str(o["cap"]), []).append(n)
    path = ctx.path("automata", f"{tag}-{kind}.json")
    with open(path, "w") as f:
        json.dump({"kind": kind, "states": states, "edges": out, "init": init}, f, separators=(",", ":"))
    return path, len(states), len(out)


def check_vacuity(kind, edges, need):
    have = {(e["l"]["a"], e["l"]["r"]) for e in edges}
    missing = [p for p in need if p not in have]
    if missing:
        raise vp.ToolError(f"vacuous model of {kind}: no edge with (action, result) in {missing}")


# ------------------------------------------------------------------------------------------------
# driver runs

_re_crash = re.compile(r"CRASH sig=(\d+) path=([\d,]*) truncated=(\d+)")


def run_walk(ctx, aut, kind, flavour, cap, mode, opts=(), timeout=1500, salt=0):
    """One child process = one (container, flavour, capacity, mode). A fault of the child is data."""
    args = ["walk", "--automaton", aut, "--kind", kind, "--flavour", flavour, "--cap", cap, "--mode", mode,
            "--salt", salt] + list(opts)
    t0 = time.time()
    rc, so, se = vp.run_driver(DRIVER, args, timeout=timeout, env={"VERIF_SEED": ctx.seed}, ok_codes=None)
    wall = round(time.time() - t0, 2)
    base = {"kind": kind, "flavour": flavour, "cap": cap, "mode": mode, "opts": list(map(str, opts)), "automaton": aut}
    if rc == 0:
        s = vp.last_json_line(so)
        s.update({"opts": base["opts"], "automaton": aut, "wall": wall})
        return s
    m = _re_crash.search(se)
    if rc == 86 and m:
        base["crash"] = {"signal": int(m.group(1)), "path": [int(x) for x in m.group(2).split(",") if x],
                         "truncated": int(m.group(3))}
        return base
    if rc < 0:
        base["crash"] = {"signal": -rc, "path": [], "truncated": 0}
        return base
    raise vp.ToolError(f"driver failed (exit {rc}): {' '.join(map(str, args))}\n{so[-1500:]}\n{se[-1500:]}")


def run_jobs(ctx, jobs, workers=6):
    with concurrent.futures.ThreadPoolExecutor(max_workers=workers) as ex:
        futs = [ex.submit(run_walk, ctx, *j[0], **j[1]) for j in jobs]
        return [f.result() for f in futs]


def report(ctx, cls, what, replay):
    ctx.report(vp.Violation(what, replay=replay, signature=signature_of(cls)))


def digest(ctx, summaries, stats):
    """Turns the divergences of all driver runs into KNOWN-FINDING / VIOLATION reports."""
    by_class = {}
    for s in summaries:
        if "crash" in s:
            cls = f"{s['kind']}:crash"
            by_class.setdefault(cls, []).append((0, {"kind": s["kind"], "flavour": s["flavour"], "cap": s["cap"],
                                                     "crash": s["crash"], "path": s["crash"]["path"],
                                                     "history": ["<child process died with signal %d>" % s["crash"]["signal"]]}, s))
            continue
        stats["steps"] += s["steps"]
        stats["paths"] += s["paths"]
        stats["edges"] += s["distinct_edges"]
        stats["drop_checks"] += s["drop_checks"]
        for a, n in s["per_action"].items():
            stats["per_action"][a] = stats["per_action"].get(a, 0) + n
        for d in s["divergences"]:
            by_class.setdefault(d["class"], []).append((d["count"], d["example"], s))
    for cls, items in sorted(by_class.items()):
        items.sort(key=lambda x: len(x[1].get("history", [])))
        count = sum(c for c, _, _ in items)
        ex, s = items[0][1], items[0][2]
        stats["divergence_classes"][cls] = count
        what = (f"{ex['kind']}/{ex['flavour']} cap={ex['cap']}: after {ex.get('history', [])[:-1]} the step "
                f"{ex.get('failing_step')} gives {json.dumps(ex.get('observed'))}, the model allows "
                f"{json.dumps(ex.get('expected_one_of'))} [{cls}, {count} paths]")
        report(ctx, cls, what, {"class": cls, "paths_affected": count, "example": ex,
                                "flavours": sorted({f"{i[1]['flavour']}/{i[1]['cap']}" for i in items}),
                                "automaton": s["automaton"], "opts": s["opts"],
                                "cmd": f"harness/target/debug/{DRIVER} walk --automaton {s['automaton']} --kind {ex['kind']} "
                                       f"--flavour {ex['flavour']} --cap {ex['cap']} --mode replay --path "
                                       + ",".join(map(str, ex.get("path", [])))})


# ------------------------------------------------------------------------------------------------
# trace validation (impl -> spec)

def validate_trace(ctx, kind, trace_module, files, walks):
    merged = ctx.path("traces", f"{kind}.ndjson")
    recs = []
    for f in files:
        if os.path.exists(f):
            recs += vp.read_ndjson(f)
    if not recs:
        if ctx.violations:
            # every recorded walk of this container ended in a divergence the lock-step already reported
            ctx.note(f"no divergence-free walk of {kind} to validate (see the reported violations)")
            return None, [], False
        raise vp.ToolError(f"no trace recorded for {kind}")
    vp.write_ndjson(merged, recs)
    v = vp.tlc_trace("data", trace_module, merged, timeout=1200)
    with _lock:
        vp.record_tlc(ctx, f"{trace_module}[{len(recs)} records]", v.res, count=False)
        if v.accepted:
            ctx.traces_validated += walks
    if v.accepted:
        return merged, recs, True
    run, rel = vp.run_containing(recs, v.pos) if v.pos else (recs[:40], 0)
    first = run[rel - 1] if 0 < rel <= len(run) else v.record
    sig = f"trace:{kind}:{first.get('a') if isinstance(first, dict) else '?'}"
    ctx.report(vp.Violation(
        f"{kind}: a walk recorded from the real container is not explainable by {trace_module[:-5]}.tla "
        f"(record #{rel} of the walk: {json.dumps(first)}; invariant: {v.invariant})",
        replay={"kind": kind, "run": run[:max(rel, 1) + 1], "first_unexplained": first, "invariant": v.invariant,
                "cmd": f"TRACE={merged} tlc {trace_module} (spec/data)"}, signature=sig))
    return merged, recs, False


# ------------------------------------------------------------------------------------------------

def selftest(ctx, aut_queue, trace_file, trace_module):
    """Demonstrates the binding in both directions: a corrupted expected result must be detected by the
    lock-step walker, a corrupted recorded result must be rejected by TLC."""
    a = json.load(open(aut_queue))
    hit = None
    for e in a["edges"]:
        if e[2] == "pop" and e[5] == "some" and a["states"][e[0]]["o"]["cap"] == 2:
            e[6] = [e[6][0] % 3 + 1]
            hit = e
            break
    if hit is None:
        raise vp.ToolError("selftest: no pop edge to corrupt")
    bad = ctx.path("selftest", "queue-corrupt.json")
    json.dump(a, open(bad, "w"))
    s = run_walk(ctx, bad, "queue", "heap", 2, "cover", ["--avoid-known"])
    classes = [d["class"] for d in s.get("divergences", [])]
    if "queue:pop:result" not in classes:
        raise vp.ToolError(f"selftest failed: corrupted expected result of pop was not detected ({classes})")
    recs = vp.read_ndjson(trace_file)
    k = next((n for n, r in enumerate(recs) if r.get("k") == "op" and r.get("a") == "pop" and r.get("r") == "some"), None)
    if k is None:
        raise vp.ToolError("selftest: no pop record to corrupt")
    recs = recs[:k + 200]
    recs[k] = dict(recs[k], v=[recs[k]["v"][0] % 3 + 1])
    badt = ctx.path("selftest", "queue-corrupt.ndjson")
    vp.write_ndjson(badt, recs)
    v = vp.tlc_trace("data", trace_module, badt)
    if v.accepted or v.pos != k + 1:
        raise vp.ToolError(f"selftest failed: corrupted trace record {k + 1} was not rejected there (accepted={v.accepted}, pos={v.pos})")
    ctx.coverage["selftest"] = {"corrupted_automaton_edge_detected_as": "queue:pop:result",
                                "corrupted_trace_record_rejected_at": v.pos}


def cex_summary(res):
    out = []
    for hdr, lines in res.cex:
        keep = [l.strip()[3:] for l in lines if l.startswith("/\\ ") and l[3:].split(" ")[0] in ("head", "i2d", "prv", "nxl", "cap")]
        lastl = " ".join(x.strip() for x in lines if "|->" in x)[:200]
        out.append({"step": hdr.split(" line ")[0], "state": keep, "last": lastl})
    return out


def impl_layers(ctx, quick):
    """Layer 2 (implementation-shaped) refines layer 1: the ring buffer of the queue, and the free list of the
    slot map instantiated with parameters probed from the running code (V2 with conformance, else DRIFT)."""
    res = vp.tlc("data", "MC_CQueueRing", workers=4, timeout=900)
    vp.record_tlc(ctx, "CQueueRing refines CQueue [caps 0..3]", res)
    vp.tlc_require_ok(res, "CQueueRing refines CQueue")
    vp.check_action_coverage(res, ["RPop", "RClear", "RDestroy"], "MC_CQueueRing")
    _, so, _ = vp.run_driver(DRIVER, ["slotprobe"])
    par = vp.last_json_line(so)
    ctx.coverage["slotmap_impl_parameters_extracted"] = par
    caps = [1, 2]            # graph dump / conformance (capacity 3: 125 MB of edges in the defective variant)
    rcaps = [1, 2] if quick else [1, 2, 3]
    d = ctx.path("mc", "slotimpl", "x")[:-2]
    with open(os.path.join(d, "MC_SI.tla"), "w") as f:
        f.write("---- MODULE MC_SI ----\nEXTENDS CSlotMapImpl, TLC, Json\n"
                "Emit == PrintT(<<\"EDGE\", ToJson([f |-> Obs, l |-> last', t |-> Obs'])>>)\n====\n")
    def consts(cs):
        return (f"CONSTANTS\n Caps = {{{','.join(map(str, cs))}}}\n FixHead = {'TRUE' if par['fix_head'] else 'FALSE'}\n"
                f" ClearLinks = {'TRUE' if par['clear_links'] else 'FALSE'}\n")
    with open(os.path.join(d, "dump.cfg"), "w") as f:
        f.write("SPECIFICATION ISpec\n" + consts(caps) + "ACTION_CONSTRAINT Emit\nVIEW iview\nCHECK_DEADLOCK FALSE\n")
    with open(os.path.join(d, "refine.cfg"), "w") as f:
        f.write("SPECIFICATION ISpec\n" + consts(rcaps) + "INVARIANT HeadIsFree\nPROPERTY Refines\nCHECK_DEADLOCK FALSE\n")
    # (a) conformance of the real slot maps to the implementation-shaped model (its graph, edge cover)
    dump = vp.tlc(d, "MC_SI", cfg="dump.cfg", workers=1, timeout=900, libs=["data"], heap="4g")
    vp.record_tlc(ctx, f"CSlotMapImpl graph [caps={caps} {par}]", dump)
    vp.tlc_require_ok(dump, "CSlotMapImpl graph dump")
    edges = [json.loads(json.loads(m.group(1))) for m in (_re_edge.match(l) for l in dump.prints) if m]
    aut, ns, ne = build_automaton(ctx, "slotmap", edges, "impl")
    ctx.coverage.setdefault("graphs", {})["slotmap_impl"] = {"states": ns, "edges": ne}
    sums = run_jobs(ctx, [((aut, "slotmap", fl, cap, "cover", []), {}) for fl in FLAVOURS for cap in caps])
    divs = {dv["class"]: dv for s in sums for dv in s.get("divergences", [])}
    crashed = [s for s in sums if "crash" in s]
    conform = not divs and not crashed
    covered = sum(s.get("distinct_edges", 0) for s in sums)
    ctx.coverage["slotmap_impl_conformance"] = {"conforms": conform, "edges_executed": covered,
                                                "divergences": {c: dv["count"] for c, dv in divs.items()}}
    # (b) refinement of the property layer
    ref = vp.tlc(d, "MC_SI", cfg="refine.cfg", workers=6, timeout=1500, libs=["data"], heap="6g")
    vp.record_tlc(ctx, f"CSlotMapImpl refines CSlotMap [caps={rcaps} {par}]", ref)
    if ref.timed_out or (not ref.ok and not ref.violated):
        raise vp.ToolError(f"TLC failed on CSlotMapImpl: {ref.error}\n{ref.output[-2000:]}")
    if not conform:
        ex = next(iter(divs.values()))["example"] if divs else {}
        print(f"DRIFT: the slot map's free-list handling differs from CSlotMapImpl.tla: {ex.get('history')} -> {ex.get('observed')}")
        ctx.note(f"drift: real slot map does not conform to CSlotMapImpl (classes {list(divs)}); the refinement result "
                 f"({'refuted ' + str(ref.violated) if ref.violated else 'holds'}) is not attributed to the code")
        return
    if ref.violated:
        report(ctx, "slotmap:after-insert_at",
               f"slotmap: TLC refutes {ref.violated} for the implementation-shaped free-list model CSlotMapImpl.tla with the "
               f"parameters probed from the code ({par}); the real slot maps conform to that model on all {covered} edges executed",
               {"invariant": ref.violated, "parameters": par, "counterexample": cex_summary(ref),
                "cmd": f"tlc -config refine.cfg MC_SI.tla  (work/C16-{ctx.tier}/mc/slotimpl)"})
    else:
        ctx.note("CSlotMapImpl (free list as coded, parameters probed from the code) refines CSlotMap; the real slot maps conform to it")


def new_stats():
    return {"steps": 0, "paths": 0, "edges": 0, "drop_checks": 0, "per_action": {}, "divergence_classes": {},
            "not_constructible": [], "depths": {}}


def run(ctx):
    vp.cargo_build([DRIVER])
    quick = ctx.quick
    caps = [0, 1, 2] if quick else [0, 1, 2, 3, 4]
    # the slot map's free list needs three keys before a non-head key with a successor exists (seeded change C16/4: stale
    # back link after insert_at on a non-head key): capacity 3 also in the quick tier
    caps_k = {kind: (caps + [3] if quick and kind == "slotmap" else caps) for kind in KINDS}
    budget = 400_000 if quick else 2_000_000
    ctx.assumptions += [
        "element domain: 3 tokens; string bytes {0,'a','b','/',0xC8}; slices of length <= 2; capacities " + str(caps),
        "graph lock-step compares after EVERY step: result, net drops per token (drop-counting element), len/is_empty/"
        "is_full/capacity, full contents or iteration order, and observer consistency (peek vs get(0), get/contains vs iter)",
        "all label paths up to the reported depth are enumerated (prefix replay from a fresh container); beyond that "
        "depth only the core alphabet up to length 6",
        "inline and relocatable flavours: the driver owns the complete memory of the object (struct resp. header + "
        "payload block); two objects in the same model state with byte-identical memory behave identically, so the "
        "enumeration of ALL paths of length <= 6 over the full alphabet merges them (sound, reported as "
        "exhaustive_to_depth_6_by_merging_identical_memory_images); heap flavours: node budget",
        "the order in which elements are dropped inside one operation is not compared (the statement fixes 'exactly once')",
    ]
    stats = new_stats()
    automata, jobs, trace_jobs = {}, [], {}
    # ---- 1. TLC: model check the reference models, dump the graphs
    graphs = parallel(mc_graph, [(ctx, k["module"], caps_k[kind], k["consts"], k["invs"], "c16") for kind, k in KINDS.items()])
    for (kind, k), (edges, res) in zip(KINDS.items(), graphs):
        check_vacuity(kind, edges, k["need"])
        aut, ns, ne = build_automaton(ctx, kind, edges, "c16")
        automata[kind] = aut
        ctx.coverage.setdefault("graphs", {})[kind] = {"states": ns, "edges": ne}
    # ---- 2. lock-step on every flavour and capacity
    for kind in KINDS:
        for fl in flavours_of(kind):
            for cap in caps_k[kind]:
                common = ["--avoid-known"]
                jobs.append(((automata[kind], kind, fl, cap, "cover", []), {}))
                jobs.append(((automata[kind], kind, fl, cap, "paths", common + ["--merge", "--depth", 6, "--budget", budget]), {}))
                if not quick:
                    # (the claim_index defect of the slot map is repaired - f225b0a - so there is no longer a second
                    # family of runs that stays clear of insert_at)
                    for n, excl in enumerate(([],)):
                        o = common + ["--walks", 12, "--steps", 10000] + (["--exclude", ",".join(excl)] if excl else [])
                        jobs.append(((automata[kind], kind, fl, cap, "random", o), {"salt": 100 + n}))
                # recorded walks for the impl -> spec direction
                tf = ctx.path("traces", f"{kind}-{fl}-{cap}.ndjson")
                walks, steps = (3, 60) if quick else (4, 150)
                o = common + ["--walks", walks, "--steps", steps, "--trace-out", tf] 
                jobs.append(((automata[kind], kind, fl, cap, "random", o), {"salt": 7}))
                trace_jobs.setdefault(kind, []).append((tf, walks))
    summaries = run_jobs(ctx, jobs, workers=8)
    slow = sorted((s for s in summaries if "wall" in s), key=lambda s: -s["wall"])[:5]
    vp.log("slowest driver runs: " + "; ".join(f"{s['kind']}/{s['flavour']}/{s['cap']} {s['mode']} {s['wall']}s" for s in slow))
    clean_traces = set()
    for s in summaries:
        if "--trace-out" in s["opts"] and "crash" not in s and \
                all(d["class"].startswith("string:nul-terminator") for d in s["divergences"]):
            clean_traces.add(s["opts"][s["opts"].index("--trace-out") + 1])
    for s in summaries:
        if "crash" in s:
            continue
        key = f"{s['kind']}/{s['flavour']}/{s['cap']}"
        det = s.get("detail", {})
        if det.get("constructible") is False:
            if key not in stats["not_constructible"]:
                stats["not_constructible"].append(key)
            continue
        if s["mode"] == "paths" and "--exclude" not in s["opts"]:
            stats["depths"][key] = {"full_alphabet_depth": det.get("depth_full"), "paths_full": det.get("paths_full", 0),
                                    "core_alphabet_depth": det.get("depth_core"), "paths_core": det.get("paths_core", 0),
                                    "exhaustive_to_depth_6_by_merging_identical_memory_images": det.get("exhaustive_by_merging", False),
                                    "memory_images": det.get("memory_images", 0), "truncated": det.get("truncated", False)}
        if s["mode"] == "cover" and not s["divergences"] and s["kind"] in ("vec", "queue", "flatmap", "string"):
            if det["edges_covered"] < det["edges_total"]:
                raise vp.ToolError(f"edge cover incomplete for {key}: {det}")
        if s.get("sample"):
            ctx.sample({"container": key, "mode": s["mode"], "history": s["sample"]})
    digest(ctx, summaries, stats)
    vp.log(f"lock-step: {len(jobs)} driver runs, {sum(s.get('wall', 0) for s in summaries):.0f}s summed, done at {ctx.elapsed():.0f}s")
    # ---- 3. vacuity of the executions
    for kind, k in KINDS.items():
        for a, _ in k["need"]:
            if a == "relocate" or ctx.violations:
                continue
            if stats["per_action"].get(a, 0) == 0:
                raise vp.ToolError(f"vacuous execution: action {a} was never executed on a real container")
    # ---- 4. impl -> spec: TLC validates the recorded walks
    targs = []
    for kind, files in trace_jobs.items():
        files = [(f, w) for f, w in files if f in clean_traces]
        targs.append((ctx, kind, KINDS[kind]["trace"], [f for f, _ in files],
                      sum(w for f, w in files if os.path.exists(f) and os.path.getsize(f) > 0)))
    tres = parallel(validate_trace, targs)
    qtrace = next(m for (m, _, _), a in zip(tres, targs) if a[1] == "queue")
    if qtrace is None:
        return
    # ---- 5. implementation-shaped layers (ring head, free list) refine the property layer
    impl_layers(ctx, quick)
    # ---- 6. selftest of the binding
    if ctx.violations:
        ctx.note("selftest skipped: violations were found on this tree")
    else:
        selftest(ctx, automata["queue"], qtrace, "CQueueTrace")
    ctx.evaluations = stats["paths"]
    ctx.distinct = stats["edges"]
    ctx.coverage["lockstep"] = {"steps_executed": stats["steps"], "paths_and_walks": stats["paths"],
                                "container_drop_checks": stats["drop_checks"], "per_action": stats["per_action"],
                                "divergence_classes": stats["divergence_classes"],
                                "not_constructible": sorted(stats["not_constructible"]),
                                "enumeration_depths": stats["depths"]}
    ctx.coverage["exhaustive"] = False
    ctx.coverage["rule"] = ("evaluations = label paths (DFS leaves, cover paths, random walks) executed on real containers; "
                            "distinct_nontrivial = distinct (automaton state, operation+arguments) pairs executed, summed over "
                            "container x flavour x capacity; states/transitions = TLC on the reference models")
    if stats["not_constructible"]:
        ctx.note("flavours that cannot be constructed with that capacity (construction is not an operation of the "
                 "property; skipped): " + ", ".join(sorted(stats["not_constructible"])))


def replay(ctx, path):
    body = json.load(open(path))
    ex = body.get("example", {})
    print(json.dumps({k: body.get(k) for k in ("what", "class", "cmd")}, indent=1))
    if not ex.get("path"):
        return 0
    vp.cargo_build([DRIVER])
    caps = [0, 1, 2] if body.get("tier") == "quick" else [0, 1, 2, 3, 4]
    kind = ex["kind"]
    k = KINDS[kind]
    edges, _ = mc_graph(ctx, k["module"], caps, k["consts"], k["invs"], "replay")
    aut, _, _ = build_automaton(ctx, kind, edges, "replay")
    s = run_walk(ctx, aut, kind, ex["flavour"], ex["cap"], "replay", ["--path", ",".join(map(str, ex["path"]))])
    print(json.dumps(s.get("detail", s), indent=1))
    return 1 if s.get("detail", {}).get("diverged") or "crash" in s else 0
