"""C10 - Port registry snapshots: never torn, never ghost, eventually exact."""
import json
import os

import vp

META = {
    "level": "model_checking",
    "engine": "tla-atomics-scheduler",
    "technique": "schedule enumeration (deterministic scheduler over instrumented atomics) and free-running runs of the "
                 "real mpmc::Container, every history validated by TLC against the TLA+ registry-snapshot specification; "
                 "implementation-shaped TLA+ model of add/remove/update_state checked by TLC",
    "text": "All preemption-bounded schedules (yield points before every atomic access and after every publishing write) "
            "of 1..2 writers doing add/remove/recover with slot reuse and a refreshing reader on capacities 1..3, plus "
            "long free-running real-thread runs with tear-detecting payloads, are executed on the real "
            "FixedSizeContainer and validated by TLC against RegistryObs.tla (OnlyReal, NoGhost, Noticed, Quiet = the "
            "four clauses of the statement). RegistryImpl.tla (when present) model-checks the generation-counter "
            "protocol over C11Mem.",
    "note": "Trusted: TLC, drop-in atomics, SC replay on x86, preemption bound, SeqCst stamps for free-running runs. "
            "The dynamic_config wrappers are exercised through the port-level checks (C01/C11), not here.",
    "design_ref": "DESIGN.md 5 C10",
    "replay": True,
}


def drv(ctx, args, tag, timeout=1800):
    out = ctx.path("traces", f"{tag}.ndjson")
    _, so, _ = vp.run_driver("drv-lockfree", ["registry"] + args + ["--out", out], timeout=timeout,
                             env={"VERIF_SEED": ctx.seed})
    return out, vp.last_json_line(so)


def on_reject(ctx):
    def f(meta, v, run, rel):
        what, summ = meta if meta else ("?", {})
        lo = max(0, rel - 25)
        end = [r for r in run if r.get("k") == "end"]
        ctx.report(vp.Violation(
            f"{what}: a refresh of the real registry returned a snapshot the registry specification does not allow "
            f"(torn / never added / ghost / missing entry or wrong change flag): {v.record}",
            replay={"what": what, "summary": summ, "events_before": run[lo:rel], "first_unexplained": v.record,
                    "schedule": end[0].get("sched") if end else None},
            signature="obs:registry"))
    return f


def run(ctx):
    vp.cargo_build(["drv-lockfree"])
    q = ctx.quick
    ctx.assumptions += ["preemption-bounded schedule enumeration; free-running runs sample real interleavings",
                        "every add uses a fresh value, so an entry is identified by its value"]
    A, R, F = "add", "rem0", "ref"
    bv = vp.BatchValidator(ctx, "lockfree", "RegistryObsTrace", on_reject(ctx))
    progs = [(2, [[A, R, A], [F, F]], 2), (1, [[A, R, A], [F, F, F]], 2), (2, [[A, R], [A], [F, F]], 2),
             (2, [[A, A], ["rec0", A], [F, F]], 2),
             # exhaustive single-preemption sweeps of small programs with slot reuse by ANOTHER writer and with
             # two concurrent recoverers (every window of one operation is hit by complete other operations)
             (1, [[A, R], [A], [F]], 1), (2, [[A, R], [A, R], [F]], 1), (1, [[A, R, A], [A, R], [F, F]], 1),
             (2, [[A], ["rec0"], ["rec0", A], [F]], 1)]
    if not q:
        progs += [(1, [[A, R, A, R], [F, F, F]], 3), (2, [[A, A, R, A], [A, R], [F, F]], 2),
                  (3, [[A, R, A], [A, A, R], [F, F, F]], 2), (2, [[A, A], ["rec0", A, R], [F, F, F]], 3)]
    for n, (cap, prog, bound) in enumerate(progs):
        trace, summ = drv(ctx, ["--cap", cap, "--prog", json.dumps(prog), "--mode", "dfs", "--bound", bound,
                                "--runs", (1500 if bound == 1 else 400) if q else 12000, "--yield-after"], f"dfs-{n}")
        ctx.evaluations += summ["executions"]
        recs = vp.read_ndjson(trace)
        ctx.distinct += len({tuple(r["sched"]) for r in recs if r.get("k") == "end"})
        if summ["anomalies"]:
            bad = [r for r in recs if r.get("k") == "end" and (r["outcome"] != "completed" or r["panics"])]
            ctx.report(vp.Violation(f"execution did not complete normally: {bad[0]}", replay={"end": bad[0], "prog": prog},
                                    signature="anomaly:registry"))
            continue
        bv.add(trace, (f"scheduled cap={cap} prog={prog}", summ), summ["executions"])
        if len(ctx.samples) < 3:
            r0 = vp.split_runs(recs)[len(recs) // 40 % 7]
            ctx.sample({"cap": cap, "prog": prog,
                        "history": [f"t{r['t']}:{r['k']}:{r['a']}:{r.get('v')}:{r.get('ent', '')}" for r in r0
                                    if r.get("k") in ("call", "ret")]})
    # seeded random schedules on a longer program
    prog = [[A, A, R, A, R, R, A], [A, R, A, R], [F, F, F, F, F]]
    trace, summ = drv(ctx, ["--cap", 3, "--prog", json.dumps(prog), "--mode", "random", "--runs", 60 if q else 3000,
                            "--yield-after"], "random")
    ctx.evaluations += summ["executions"]
    bv.add(trace, ("random schedules cap=3", summ), summ["executions"])
    # free-running real threads, tear-detecting payloads
    free = [(2, [[A, A, R, R], [A, R], [F]], 100), (1, [[A, R], [F]], 150)]
    if not q:
        free += [(4, [[A, A, R, A, R, R], [A, R, A, R], [F], [F]], 600), (3, [[A, R, A, R], [A, A, R, R], [F]], 800),
                 (2, [[A, A, R, R], [A, R], [F]], 1500)]
    for n, (cap, prog, reps) in enumerate(free):
        for rep in range(1 if q else 3):
            trace, summ = drv(ctx, ["--cap", cap, "--prog", json.dumps(prog), "--mode", "free", "--reps", reps], f"free-{n}-{rep}")
            ctx.evaluations += summ["lines"] // 2
            bv.add(trace, (f"free-running cap={cap}", summ), 1)
    bv.run()
    impl = os.path.join(vp.SPEC, "lockfree", "RegistryImpl.tla")
    if os.path.exists(impl):
        import importlib.util
        spec = importlib.util.spec_from_file_location("registry_impl", os.path.join(vp.VERIF, "checks", "registry_impl.py"))
        mod = importlib.util.module_from_spec(spec)
        spec.loader.exec_module(mod)
        mod.run_impl(ctx)
    else:
        ctx.note("implementation-shaped model RegistryImpl.tla not built yet: weak-memory clause decided by real executions only")
    ctx.coverage["rule"] = ("evaluations = scheduled executions + operations of free-running runs; distinct = distinct schedules; "
                            "states/transitions = TLC states while explaining the recorded histories (+ RegistryImpl when built)")


def replay(ctx, path):
    body = json.load(open(path))
    print(json.dumps({k: body.get(k) for k in ("what", "schedule", "first_unexplained")}, indent=1))
    return 0
