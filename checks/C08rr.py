"""temporary: runs reqres_parts.c08_reqres under property id C08 (mutbox test of the revert patch)"""
import os, sys
sys.path.insert(0, os.path.dirname(os.path.abspath(__file__)))
import reqres_parts as rp
META = {"level": "model_checking", "engine": "tla-roundtrip", "technique": "t", "text": "t", "note": "t"}
def run(ctx):
    ctx.pid = "C08"
    rp.c08_reqres(ctx)
    ctx.sample("see C08")
