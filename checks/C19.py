"""C19 - Names are validated and domains are isolated."""
import glob
import json
import os
import re

import vp

META = {
    "level": "model_checking",
    "engine": "tla-roundtrip",
    "technique": "TLC model checking of the naming rules and of the resource naming scheme (TLA+), TLC-emitted oracle "
                 "table compared in lock-step with the real constructors over all byte strings up to length 3, TLC "
                 "trace validation of random edit sequences and of observations from two real iceoryx2 domains",
    "text": "TLC checks Names.tla (validity predicates of FileName, Path, FilePath, ServiceName, NodeName, "
            "RestrictedFileName over byte classes; editing operations refuse invalid results) for the safety lemmas "
            "(an accepted file name has no separator / NUL / traversal component; root/prefix+name+suffix stays under "
            "the root) over all class strings up to length 4, and emits the oracle table class tuple -> accept; the "
            "driver enumerates ALL byte strings up to length 3 (16.8 M, both tiers) through every real constructor and compares verdict and as_bytes() round trip; random strings "
            "up to the maximum length and edit sequences are validated by NamesTrace.tla. Domains.tla models path_for / "
            "extract_name / listing / cleanup for pairs of configurations and TLC checks RoundTrip and Isolation; two "
            "REAL domains (shared and separate roots, unrelated / extended prefixes) are driven through Node::list, "
            "Service::list, does_exist, open and dead-node cleanup and every observation is validated by "
            "DomainsTrace.tla.",
    "note": "Bounded (strings up to length 4 in the model, length 3 exhaustively on the code, sampled above). Rules are "
            "the ones of the POSIX target (':' is only forbidden on Windows). ServiceName / NodeName take &str, byte "
            "strings that are not UTF-8 cannot be passed and are skipped for them. Error kinds are not compared. The "
            "paths touched by the real runs are not traced (no syscall shim); isolation is judged from the API "
            "observations of both domains. Known finding: node token names are ambiguous when two domains share a root "
            "and one prefix is the other extended by decimal digits (see known_findings.json).",
    "design_ref": "DESIGN.md 5 C19, 3.4, 3.5, 7 (hypothesis 4)",
    "replay": True,
}

SIG_PREFIX = "domains:prefix-extension-same-root:NodeListIsolated"
NODE_CLAUSES = ("NodeListIsolated", "NodeListComplete", "CleanupIsolated", "CleanupComplete")


def last_state(res):
    if not res.cex:
        return {}
    out, cur = {}, None
    for line in res.cex[-1][1]:
        m = re.match(r"^/\\ (\w+) = (.*)$", line)
        if m:
            cur = m.group(1)
            out[cur] = m.group(2)
        elif cur:
            out[cur] += " " + line.strip()
    return out


def digit_extension(p, q):
    return len(q) > len(p) and q.startswith(p) and q[len(p):].isdigit()


def ambiguous(reset):
    return reset["same_root"] and (digit_extension(reset["prefix0"], reset["prefix1"])
                                   or digit_extension(reset["prefix1"], reset["prefix0"]))


def cleanup_shm(tag):
    for p in glob.glob(f"/dev/shm/{tag}*"):
        try:
            os.remove(p)
        except OSError:
            pass


def gen_cfg(ctx, name, base, lines):
    d = ctx.path("mc", name, "x")[:-2]
    with open(os.path.join(d, f"{name}.tla"), "w") as f:
        f.write(f"---- MODULE {name} ----\nEXTENDS {base}\n====\n")
    with open(os.path.join(d, f"{name}.cfg"), "w") as f:
        f.write("\n".join(lines) + "\n")
    return d


def names_model(ctx):
    res = vp.tlc("data", "MC_Names", cfg="MC_Names_quick.cfg" if ctx.quick else "MC_Names.cfg", workers=8,
                 timeout=900 if ctx.quick else 1800)
    vp.record_tlc(ctx, "Names[all class strings up to length 4, all edit operations]", res)
    vp.tlc_require_ok(res, "MC_Names (safety lemmas and edit model of Names.tla)")
    vp.check_action_coverage(res, ["Grow", "Edit"], "MC_Names")
    oracle = None
    for p in res.prints:
        m = re.match(r'<<"ORACLE", "(.*)">>$', p)
        if m:
            oracle = json.loads(m.group(1).encode().decode("unicode_escape"))
    if not oracle or len(oracle.get("map", [])) != 256:
        raise vp.ToolError("TLC did not emit the oracle table\n" + res.output[-2000:])
    path = ctx.path("oracle.json")
    with open(path, "w") as f:
        json.dump(oracle, f)
    return path, oracle


def enumerate_strings(ctx, oracle_path, oracle):
    # all 16.8 M byte strings of length <= 3 take ~25 s: exhaustive in both tiers
    args = ["enumerate", "--oracle", oracle_path, "--len", 3]
    _, so, _ = vp.run_driver("drv-names", args, timeout=1500, env={"VERIF_SEED": ctx.seed})
    s = vp.last_json_line(so)
    ctx.coverage["enumeration"] = {k: s[k] for k in ("max_len", "sample", "strings", "evaluated", "skipped_not_utf8",
                                                     "class_tuples_covered", "mismatches", "accepted")}
    ctx.coverage["exhaustive"] = s["max_len"] == 3
    ctx.evaluations += s["evaluated"]
    ctx.distinct += s["class_tuples_covered"]
    want = sum(len(oracle["classes"]) ** k for k in range(0, 4))
    if s["class_tuples_covered"] < want:
        raise vp.ToolError(f"vacuous enumeration: only {s['class_tuples_covered']} of {want} class tuples covered")
    for ty, n in s["accepted"].items():
        if n == 0:
            raise vp.ToolError(f"vacuous enumeration: {ty} never accepted a string")
    for m in s["first"][:4]:
        cl = [oracle["classes"][c - 1] for c in m["classes"]]
        ctx.report(vp.Violation(
            f"{m['ty']}::new({bytes(m['bytes'])!r}) "
            + (f"accepts={m['real_accepts']} but the documented rules say accepts={m['oracle_accepts']} (byte classes {cl})"
               if m["kind"] == "verdict" else f"reads back {bytes(m['read_back'])!r}"),
            replay={"mismatch": m, "classes": cl, "total_mismatches": s["mismatches"],
                    "cmd": "harness/target/debug/drv-names enumerate --oracle work/C19-<tier>/oracle.json --len 2"},
            signature=f"names:{m['ty']}:{m['kind']}:{'-'.join(cl)}"))
    ctx.sample({"oracle_accepts_FileName": oracle["accept"]["FileName"][:12], "classes": oracle["classes"]})


def edits(ctx):
    trace = ctx.path("traces", "edits.ndjson")
    _, so, _ = vp.run_driver("drv-names", ["edits", "--runs", 90 if ctx.quick else 900, "--ops", 25, "--out", trace],
                             timeout=600, env={"VERIF_SEED": ctx.seed})
    s = vp.last_json_line(so)
    ctx.coverage["edits"] = s
    need = ["new:ok", "new:err", "push:ok", "push:err", "insert:ok", "insert:err", "remove:ok", "remove:err", "pop:ok",
            "pop:err", "truncate:ok", "truncate:err", "strip_prefix:true", "strip_prefix:err", "strip_suffix:true",
            "strip_suffix:err"]
    missing = [a for a in need if not s["per_action"].get(a)]
    if missing:
        raise vp.ToolError(f"vacuous edit run: never observed {missing}")
    ctx.evaluations += s["events"]
    v = vp.tlc_trace("data", "NamesTrace", trace, timeout=1500, heap="6g")
    vp.record_tlc(ctx, "NamesTrace[edits]", v.res, count=False)
    if v.accepted:
        ctx.traces_validated += s["runs"]
    else:
        st = last_state(v.res)
        recs = vp.read_ndjson(trace)
        pos = (int(st.get("l", "1")) - 1) if v.invariant else v.pos
        run, rel = vp.run_containing(recs, pos) if pos else (recs[:20], 0)
        clause = v.invariant or "unexplained-event"
        ty = run[0].get("ty") if run else "?"
        ctx.report(vp.Violation(
            f"{ty}: recorded operation violates {clause}: {recs[pos - 1] if pos else None}; model expects {st.get('nwhy')}",
            replay={"clause": clause, "run": run[:rel + 1], "state": st, "trace_module": "NamesTrace"},
            signature=f"names-trace:{ty}:{clause}:{recs[pos - 1].get('a') if pos else '?'}"))
    recs = vp.read_ndjson(trace)
    ctx.sample({"edit_events": [r for r in recs[:40] if r.get("k") == "op" and len(r["s"]) < 12][:6]})
    return trace


def domains_model(ctx):
    mf = 3 if ctx.quick else 5
    base = ["CONSTANTS", f" Configs <- {'QuickConfigs' if ctx.quick else 'MCConfigs'}", " NodeIds <- MCNodeIds", " Hashes <- MCHashes", " HashLen = 2",
            f" MaxFiles = {mf}", "INVARIANTS RoundTrip Isolation", "CONSTRAINT Small", "CHECK_DEADLOCK FALSE"]
    d = gen_cfg(ctx, "MCD_safe", "MC_Domains", ["SPECIFICATION SpecSafe"] + base)
    res = vp.tlc(d, "MCD_safe", workers=8, timeout=1200 if ctx.quick else 2400, libs=["data"])
    vp.record_tlc(ctx, f"Domains[pairs without digit-extended prefix in one root, <= {mf} files]", res)
    vp.tlc_require_ok(res, "MC_Domains (safe configuration pairs)")
    vp.check_action_coverage(res, ["CreateNode", "CreateService", "Kill", "CleanupDead"], "MC_Domains safe")
    d = gen_cfg(ctx, "MCD_amb", "MC_Domains", ["SPECIFICATION SpecAmbiguous"] + base)
    res = vp.tlc(d, "MCD_amb", workers=4, timeout=600, libs=["data"])
    vp.record_tlc(ctx, "Domains[same root, prefix extended by digits]", res, count=False)
    if res.timed_out or (not res.ok and not res.violated):
        raise vp.ToolError(f"TLC failed on the ambiguous instance: {res.error}\n{res.output[-2000:]}")
    return res


def domains_real(ctx, model_amb):
    tag = f"c19{'q' if ctx.quick else 't'}{ctx.seed % 1000}"
    work = ctx.path("dom", "x")[:-2]
    trace = ctx.path("traces", "domains.ndjson")
    cleanup_shm(tag)
    try:
        _, so, _ = vp.run_driver("drv-names", ["domains", "--work", work, "--tag", tag, "--out", trace]
                                 + ([] if ctx.quick else ["--more"]), timeout=900)
    finally:
        cleanup_shm(tag)
    s = vp.last_json_line(so)
    ctx.coverage["domains"] = s
    recs = vp.read_ndjson(trace)
    runs = vp.split_runs(recs)
    dead_seen = sum(1 for r in recs if r.get("a") == "list_nodes" and "dead" in r["states"])
    cleaned = sum(1 for r in recs if r.get("a") == "cleanup" and r["n"] >= 1)
    for a in ("create_node", "create_service", "list_nodes", "list_services", "exists", "open", "kill", "cleanup",
              "drop_node", "drop_service"):
        if not s["per_action"].get(a):
            raise vp.ToolError(f"vacuous domain run: no {a} event")
    if not dead_seen or not cleaned:
        raise vp.ToolError(f"vacuous domain run: dead nodes listed {dead_seen}, successful cleanups {cleaned}")
    kinds = {(r[0]["same_root"], r[0]["same_prefix"], ambiguous(r[0])) for r in runs}
    if not {(True, False, False), (True, False, True), (False, True, False), (False, False, False)} <= kinds:
        raise vp.ToolError(f"vacuous domain run: configuration classes covered {kinds}")
    ctx.evaluations += s["events"]
    ctx.distinct += len(runs)
    safe = [r for r in runs if not ambiguous(r[0])]
    amb = [r for r in runs if ambiguous(r[0])]
    p = ctx.path("traces", "domains_safe.ndjson")
    vp.write_ndjson(p, [e for r in safe for e in r])
    v = vp.tlc_trace("data", "DomainsTrace", p, timeout=1200)
    vp.record_tlc(ctx, "DomainsTrace[pairs without naming ambiguity]", v.res, count=False)
    if v.accepted:
        ctx.traces_validated += len(safe)
    else:
        report_domain(ctx, v, p, None)
    known_seen = False
    for i, r in enumerate(amb):
        p = ctx.path("traces", f"domains_amb{i}.ndjson")
        vp.write_ndjson(p, r)
        v = vp.tlc_trace("data", "DomainsTrace", p, timeout=600)
        vp.record_tlc(ctx, f"DomainsTrace[{r[0]['pair']}]", v.res, count=False)
        if v.accepted:
            ctx.traces_validated += 1
            continue
        if v.invariant in NODE_CLAUSES:
            known_seen = True
            report_domain(ctx, v, p, SIG_PREFIX)
            v2 = vp.tlc_trace("data", "DomainsTrace", p, cfg="DomainsTrace_services.cfg", timeout=600)
            vp.record_tlc(ctx, f"DomainsTrace[{r[0]['pair']}, service clauses only]", v2.res, count=False)
            if v2.accepted:
                ctx.traces_validated += 1
            else:
                report_domain(ctx, v2, p, None)
        else:
            report_domain(ctx, v, p, None)
    # V2: the model refutes Isolation for that configuration class; it is reported only together with the
    # confirmation on the real code (otherwise the model is wrong about the code: drift)
    if model_amb.violated and not known_seen:
        print("DRIFT: Domains.tla predicts a naming ambiguity for digit-extended prefixes in one root, the real "
              "domains did not show it")
        ctx.note("drift: MC_Domains (ambiguous pairs) violated %s but the real run was clean" % model_amb.violated)
    if known_seen and not model_amb.violated:
        ctx.note("the real domains show a node-naming ambiguity that Domains.tla does not predict")
    ctx.sample({"domain_observations": [e for e in runs[1] if e.get("a") in ("list_nodes", "cleanup")][:6]})
    return trace


def report_domain(ctx, v, path, known_sig):
    recs = vp.read_ndjson(path)
    st = last_state(v.res)
    pos = (int(st.get("l", "1")) - 1) if v.invariant else v.pos
    run, rel = vp.run_containing(recs, pos) if pos else (recs[:30], 0)
    reset = run[0] if run else {}
    clause = v.invariant or "unexplained-event"
    rec = recs[pos - 1] if pos else None
    what = (f"domain pair {reset.get('pair')} (prefixes {reset.get('prefix0')!r} / {reset.get('prefix1')!r}, "
            f"same root: {reset.get('same_root')}): observation {rec} under domain {rec.get('d') if rec else '?'} "
            f"violates {clause}")
    sig = known_sig if known_sig else f"domains:{reset.get('pair')}:{clause}"
    ctx.report(vp.Violation(what, replay={"clause": clause, "record": rec, "run": run[:rel + 1], "state": st,
                                          "trace_module": "DomainsTrace",
                                          "cmd": "harness/target/debug/drv-names domains --work <dir> --tag <t> "
                                                 f"--pairs {reset.get('pair')} --out <trace>"},
                            signature=sig))


def selftest(ctx, edit_trace, dom_trace):
    recs = vp.read_ndjson(edit_trace)[:300]
    idx = next((i for i, r in enumerate(recs) if r.get("a") == "new" and r.get("r") == "ok" and r["arg"]), None)
    if idx is None:
        raise vp.ToolError("selftest: no accepted constructor call in the first records")
    bad = [dict(r) for r in recs]
    bad[idx]["r"] = "InvalidContent"
    p = ctx.path("selftest", "edits_bad.ndjson")
    vp.write_ndjson(p, bad)
    v = vp.tlc_trace("data", "NamesTrace", p)
    if v.accepted or v.invariant != "Validated":
        raise vp.ToolError(f"selftest: corrupted name trace was not rejected ({v.invariant})")
    d = vp.read_ndjson(dom_trace)[:200]
    idx = next((i for i, r in enumerate(d) if r.get("a") == "list_services" and r["names"]), None)
    if idx is None:
        raise vp.ToolError("selftest: no service listing in the first records")
    bad = [dict(r) for r in d]
    bad[idx]["names"] = bad[idx]["names"] + ["own1/of-the-other-domain"]
    p = ctx.path("selftest", "domains_bad.ndjson")
    vp.write_ndjson(p, bad)
    v2 = vp.tlc_trace("data", "DomainsTrace", p)
    if v2.accepted or v2.invariant != "ServiceListIsolated":
        raise vp.ToolError(f"selftest: corrupted domain trace was not rejected ({v2.invariant})")
    ctx.note(f"selftest: flipped constructor verdict rejected by {v.invariant}; foreign service in a listing rejected by "
             f"{v2.invariant}")


def run(ctx):
    vp.cargo_build(["drv-names"])
    ctx.assumptions += [
        "POSIX rule set (':' allowed); byte strings that are not UTF-8 cannot reach the &str based ServiceName / NodeName",
        "isolation is judged from the API observations of two domains driven from one process plus one killed helper "
        "process per domain; the file system paths touched are not traced",
        "node ids are u128 decimal strings, service files are named by fixed-length hashes (as in the pinned commit)",
    ]
    oracle_path, oracle = names_model(ctx)
    enumerate_strings(ctx, oracle_path, oracle)
    edit_trace = edits(ctx)
    model_amb = domains_model(ctx)
    dom_trace = domains_real(ctx, model_amb)
    if not ctx.quick:
        selftest(ctx, edit_trace, ctx.path("traces", "domains_safe.ndjson"))
    ctx.coverage["rule"] = ("evaluations = constructor calls compared with the TLC oracle + recorded edit events + recorded "
                            "domain observations; distinct = byte-class tuples (length <= 3) covered by the enumeration + "
                            "domain configuration pairs; states/transitions = TLC on MC_Names and MC_Domains (safe pairs)")


def replay(ctx, path):
    body = json.load(open(path))
    print(json.dumps({k: body.get(k) for k in ("what", "signature", "clause", "record", "cmd")}, indent=1))
    if body.get("run") and body.get("trace_module"):
        p = ctx.path("replay", "run.ndjson")
        vp.write_ndjson(p, body["run"])
        v = vp.tlc_trace("data", body["trace_module"], p)
        print(f"re-validation of the recorded run by {body['trace_module']}: accepted={v.accepted} "
              f"invariant={v.invariant} pos={v.pos}")
    elif body.get("mismatch"):
        print("re-run: bin/check C19 --tier quick (the enumeration revisits every string up to length 2)")
    return 0
