"""C19 - Names are validated and domains are isolated."""
import glob
import json
import os
import re

import vp

META = {
    "level": "model_checking",
    "engine": "tla-roundtrip",
    "technique": "TLC model checking of the naming rules and of the resource naming scheme (TLA+), TLC-emitted oracle "
                 "table compared in lock-step with the real constructors over all byte strings up to length 3, TLC "
                 "trace validation of every construction path with arguments around the capacity, of random edit "
                 "sequences, of observations from two real iceoryx2 domains and of every path the domains create or "
                 "remove (LD_PRELOAD shim log)",
    "text": "TLC checks Names.tla (validity predicates of FileName, Path, FilePath, ServiceName, NodeName, "
            "RestrictedFileName over byte classes; editing operations refuse invalid results) for the safety lemmas "
            "(an accepted file name has no separator / NUL / traversal component; root/prefix+name+suffix stays under "
            "the root) over all class strings up to length 4, and emits the oracle table class tuple -> accept; the "
            "driver enumerates ALL byte strings up to length 3 (16.8 M, both tiers) through every real constructor and compares verdict and as_bytes() round trip; random strings "
            "up to the maximum length and edit sequences are validated by NamesTrace.tla; so is every public construction "
            "path (new, from_c_str, TryFrom/TryInto/FromStr, serde, conversions between the types, from_path_and_file, "
            "new_normalized, the StaticString constructors incl. the truncating ones) with arguments of length 0..3, "
            "CAPACITY-1 .. CAPACITY+1, 2*CAPACITY(+1) (NUL / invalid byte before, at and after the capacity) and the "
            "accessors of the accepted value (as_c_str, serialisation, file_name, path, entries, normalize); from_c_str "
            "is also part of the exhaustive enumeration (length <= 2, length 3 for the capacity-2 type). Domains.tla models path_for / "
            "extract_name / listing / cleanup for pairs of configurations and TLC checks RoundTrip and Isolation; two "
            "REAL domains (shared and separate roots, unrelated / extended prefixes) are driven through Node::list, "
            "Service::list, does_exist, open and dead-node cleanup and every observation is validated by "
            "DomainsTrace.tla. `drv-names resources` runs two real domains (different / same root, different / same "
            "prefix, configuration loaded from a file with custom directories and suffixes) under harness/sysshim with "
            "IOX2_VERIF_ROOT=/: node, the four messaging patterns, the eight port kinds, a dynamic data segment, a "
            "helper process that owns all of it and is killed, dead-node cleanup and orderly shutdown, one step at a "
            "time; every path a step creates or removes ANYWHERE is a created / removed record judged by "
            "CreatedUnderDomain / RemovedUnderDomain, and list / does_exist / remove of every cal concept are called "
            "with the other domain's names (ConceptListIsolated, ConceptExists*, ConceptRemoveIsolated).",
    "note": "Bounded (strings up to length 4 in the model, length 3 exhaustively on the code, sampled above). Rules are "
            "the ones of the POSIX target (':' is only forbidden on Windows). ServiceName / NodeName take &str, byte "
            "strings that are not UTF-8 cannot be passed and are skipped for them. Error kinds are not compared. The "
            "paths touched by the real runs are not traced (no syscall shim); isolation is judged from the API "
            "observations of both domains. Known finding: node token names are ambiguous when two domains share a root "
            "and one prefix is the other extended by decimal digits (see known_findings.json).",
    "design_ref": "DESIGN.md 5 C19, 3.4, 3.5, 7 (hypothesis 4)",
    "replay": True,
}

SIG_PREFIX = "domains:prefix-extension-same-root:NodeListIsolated"
SIG_FPAF = "names-trace:FilePath:Validated:from_path_and_file:panic-at-capacity"
NODE_CLAUSES = ("NodeListIsolated", "NodeListComplete", "CleanupIsolated", "CleanupComplete")


def last_state(res):
    if not res.cex:
        return {}
    out, cur = {}, None
    for line in res.cex[-1][1]:
        m = re.match(r"^/\\ (\w+) = (.*)$", line)
        if m:
            cur = m.group(1)
            out[cur] = m.group(2)
        elif cur:
            out[cur] += " " + line.strip()
    return out


def digit_extension(p, q):
    return len(q) > len(p) and q.startswith(p) and q[len(p):].isdigit()


def ambiguous(reset):
    return reset["same_root"] and (digit_extension(reset["prefix0"], reset["prefix1"])
                                   or digit_extension(reset["prefix1"], reset["prefix0"]))


def cleanup_shm(tag):
    for p in glob.glob(f"/dev/shm/{tag}*"):
        try:
            os.remove(p)
        except OSError:
            pass


def gen_cfg(ctx, name, base, lines):
    d = ctx.path("mc", name, "x")[:-2]
    with open(os.path.join(d, f"{name}.tla"), "w") as f:
        f.write(f"---- MODULE {name} ----\nEXTENDS {base}\n====\n")
    with open(os.path.join(d, f"{name}.cfg"), "w") as f:
        f.write("\n".join(lines) + "\n")
    return d


def names_model(ctx):
    res = vp.tlc("data", "MC_Names", cfg="MC_Names_quick.cfg" if ctx.quick else "MC_Names.cfg", workers=8,
                 timeout=900 if ctx.quick else 1800)
    vp.record_tlc(ctx, "Names[all class strings up to length 4, all edit operations, all entry points]", res)
    vp.tlc_require_ok(res, "MC_Names (safety lemmas and edit model of Names.tla)")
    vp.check_action_coverage(res, ["Grow", "Edit", "Ctor"], "MC_Names")
    oracle = None
    for p in res.prints:
        m = re.match(r'<<"ORACLE", "(.*)">>$', p)
        if m:
            oracle = json.loads(m.group(1).encode().decode("unicode_escape"))
    if not oracle or len(oracle.get("map", [])) != 256:
        raise vp.ToolError("TLC did not emit the oracle table\n" + res.output[-2000:])
    path = ctx.path("oracle.json")
    with open(path, "w") as f:
        json.dump(oracle, f)
    return path, oracle


def enumerate_strings(ctx, oracle_path, oracle):
    # all 16.8 M byte strings of length <= 3 take ~25 s: exhaustive in both tiers
    args = ["enumerate", "--oracle", oracle_path, "--len", 3]
    _, so, _ = vp.run_driver("drv-names", args, timeout=1500, env={"VERIF_SEED": ctx.seed})
    s = vp.last_json_line(so)
    ctx.coverage["enumeration"] = {k: s[k] for k in ("max_len", "sample", "strings", "evaluated", "skipped_not_utf8",
                                                     "class_tuples_covered", "mismatches", "accepted", "from_c_str_calls")}
    if s["from_c_str_calls"] < 2 * 16_000_000:
        raise vp.ToolError(f"vacuous enumeration: only {s['from_c_str_calls']} from_c_str calls")
    ctx.coverage["exhaustive"] = s["max_len"] == 3
    ctx.evaluations += s["evaluated"]
    ctx.distinct += s["class_tuples_covered"]
    want = sum(len(oracle["classes"]) ** k for k in range(0, 4))
    if s["class_tuples_covered"] < want:
        raise vp.ToolError(f"vacuous enumeration: only {s['class_tuples_covered']} of {want} class tuples covered")
    for ty, n in s["accepted"].items():
        if n == 0:
            raise vp.ToolError(f"vacuous enumeration: {ty} never accepted a string")
    for m in s["first"][:4]:
        cl = [oracle["classes"][c - 1] for c in m["classes"]]
        ctx.report(vp.Violation(
            f"{m['ty']}::{m.get('via', 'new')}({bytes(m['bytes'])!r}) "
            + (f"accepts={m['real_accepts']} but the documented rules say accepts={m['oracle_accepts']} (byte classes {cl})"
               if m["kind"] == "verdict" else f"reads back {bytes(m['read_back'])!r}"),
            replay={"mismatch": m, "classes": cl, "total_mismatches": s["mismatches"],
                    "cmd": "harness/target/debug/drv-names enumerate --oracle work/C19-<tier>/oracle.json --len 2"},
            signature=f"names:{m['ty']}:{m.get('via', 'new')}:{m['kind']}:{'-'.join(cl)}"))
    ctx.sample({"oracle_accepts_FileName": oracle["accept"]["FileName"][:12], "classes": oracle["classes"]})


VIAS_NEEDED = ["new", "from_c_str", "try_from_str", "serde_json", "try_into", "from_bytes", "try_from_bytes", "from_str",
               "from_bytes_truncated", "from_str_truncated", "from_FileName", "from_ref_FileName", "from_FilePath",
               "from_ref_FilePath", "from_RFileName2", "try_from_FileName"]


def report_names(ctx, v, trace, known=False):
    st = last_state(v.res)
    recs = vp.read_ndjson(trace)
    pos = (int(st.get("l", "1")) - 1) if v.invariant else v.pos
    run, rel = vp.run_containing(recs, pos) if pos else (recs[:20], 0)
    clause = v.invariant or "unexplained-event"
    ty = run[0].get("ty") if run else "?"
    rec = recs[pos - 1] if pos else {}
    sig = f"names-trace:{ty}:{clause}:{rec.get('a', '?')}" + (f":{rec['via']}" if rec.get("a") == "new" else "")
    if known and rec.get("a") == "from_path_and_file" and rec.get("r") == "panic" and clause == "Validated" \
            and 254 <= len(rec["arg"]) + len(rec["arg2"]) <= 255:
        sig = SIG_FPAF
    short = {k: (bytes(x).decode("latin1") if isinstance(x, list) else x) for k, x in rec.items()}
    m = re.search(r'expected \|->\s*\[\s*r \|-> "(\w+)"', st.get("nwhy", ""))
    ctx.report(vp.Violation(
        f"{ty}: recorded operation violates {clause}: {short}" + (f"; the documented rules demand r={m.group(1)}" if m else ""),
        replay={"clause": clause, "run": run[:rel + 1], "state": st, "trace_module": "NamesTrace"}, signature=sig))


def edits(ctx):
    """random edit sequences (drv-names edits) and every construction path around the capacity (drv-names ctors),
    validated by NamesTrace.tla in one TLC run"""
    etrace = ctx.path("traces", "edits_only.ndjson")
    ctrace = ctx.path("traces", "ctors.ndjson")
    trace = ctx.path("traces", "edits.ndjson")
    _, so, _ = vp.run_driver("drv-names", ["edits", "--runs", 84 if ctx.quick else 910, "--ops", 25, "--out", etrace],
                             timeout=600, env={"VERIF_SEED": ctx.seed})
    s = vp.last_json_line(so)
    _, so, _ = vp.run_driver("drv-names", ["ctors", "--out", ctrace] + ([] if ctx.quick else ["--more"]),
                             timeout=600, env={"VERIF_SEED": ctx.seed})
    c = vp.last_json_line(so)
    ctx.coverage["edits"] = s
    ctx.coverage["ctors"] = c
    need = ["new:ok", "new:err", "push:ok", "push:err", "insert:ok", "insert:err", "remove:ok", "remove:err", "pop:ok",
            "pop:err", "truncate:ok", "truncate:err", "strip_prefix:true", "strip_prefix:err", "strip_suffix:true",
            "strip_suffix:err", "remove_range:ok", "remove_range:err", "retain:ok", "retain:err"]
    missing = [a for a in need if not s["per_action"].get(a)]
    if missing:
        raise vp.ToolError(f"vacuous edit run: never observed {missing}")
    need = [f"via:{v}:ok" for v in VIAS_NEEDED] + [f"via:{v}:err" for v in VIAS_NEEDED if not v.startswith("from_F")
                                                   and not v.startswith("from_ref") and v != "from_RFileName2"] \
        + ["from_path_and_file:ok", "from_path_and_file:err", "new_normalized:ok", "new_normalized:err", "add_path_entry:ok",
           "add_path_entry:err", "as_c_str:ok", "to_string:ok", "serialize:ok", "file_name:ok", "path:ok", "entries:ok",
           "normalize:ok"]
    missing = [a for a in need if not c["per_action"].get(a)]
    if missing:
        raise vp.ToolError(f"vacuous constructor run: never observed {missing}")
    ctx.evaluations += s["events"] + c["events"]
    erecs, crecs = vp.read_ndjson(etrace), vp.read_ndjson(ctrace)
    vp.write_ndjson(trace, erecs + crecs)
    v = vp.tlc_trace("data", "NamesTrace", trace, timeout=1500, heap="6g")
    vp.record_tlc(ctx, "NamesTrace[edits + every construction path]", v.res, count=False)
    if v.accepted:
        ctx.traces_validated += s["runs"] + c["runs"]
    else:
        report_names(ctx, v, trace)
    # the runs of the class with the KNOWN finding (from_path_and_file at the capacity) once more without tolerance
    cand = [r for r in vp.split_runs(crecs) if r[0].get("cls") == "fpaf-capacity"]
    if not cand:
        raise vp.ToolError("vacuous constructor run: no from_path_and_file at the capacity")
    p = ctx.path("traces", "ctors_fpaf.ndjson")
    vp.write_ndjson(p, [e for r in cand for e in r])
    v2 = vp.tlc_trace("data", "NamesTrace", p, cfg="NamesTrace_strict.cfg", timeout=600)
    vp.record_tlc(ctx, "NamesTrace[from_path_and_file at the capacity, no tolerance]", v2.res, count=False)
    if v2.accepted:
        ctx.traces_validated += len(cand)
    else:
        report_names(ctx, v2, p, known=True)
    ctx.sample({"edit_events": [r for r in erecs[:40] if r.get("k") == "op" and len(r["s"]) < 12][:6]})
    ctx.sample({"ctor_events": [r for r in crecs if r.get("via") == "from_c_str" and len(r["arg"]) < 6][:4]})
    return trace


def domains_model(ctx):
    mf = 3 if ctx.quick else 5
    base = ["CONSTANTS", f" Configs <- {'QuickConfigs' if ctx.quick else 'MCConfigs'}", " NodeIds <- MCNodeIds", " Hashes <- MCHashes", " HashLen = 2",
            f" MaxFiles = {mf}", "INVARIANTS RoundTrip Isolation ShmIsolation", "CONSTRAINT Small", "CHECK_DEADLOCK FALSE"]
    d = gen_cfg(ctx, "MCD_safe", "MC_Domains", ["SPECIFICATION SpecSafe"] + base)
    res = vp.tlc(d, "MCD_safe", workers=8, timeout=1200 if ctx.quick else 2400, libs=["data"])
    vp.record_tlc(ctx, f"Domains[pairs without digit-extended prefix in one root, <= {mf} files]", res)
    vp.tlc_require_ok(res, "MC_Domains (safe configuration pairs)")
    vp.check_action_coverage(res, ["CreateNode", "CreateService", "CreateShm", "Kill", "CleanupDead"], "MC_Domains safe")
    d = gen_cfg(ctx, "MCD_amb", "MC_Domains", ["SPECIFICATION SpecAmbiguous"] + base)
    res = vp.tlc(d, "MCD_amb", workers=4, timeout=600, libs=["data"])
    vp.record_tlc(ctx, "Domains[same root, prefix extended by digits]", res, count=False)
    if res.timed_out or (not res.ok and not res.violated):
        raise vp.ToolError(f"TLC failed on the ambiguous instance: {res.error}\n{res.output[-2000:]}")
    return res


def run_tag(ctx, kind):
    """prefix tag of the iceoryx2 objects of this run: unique per check process so that concurrent runs (other boxes,
    other seeds) neither see nor clean up each other's shared memory objects"""
    return f"{kind}{'q' if ctx.quick else 't'}{ctx.seed % 100}{os.getpid() % 46656:x}"


def shim_so(ctx):
    """The shim compiled from the CURRENT source into the work directory (never races with another check that is
    rebuilding harness/sysshim/sysshim.so)."""
    import subprocess
    src = os.path.join(vp.HARNESS, "sysshim", "sysshim.c")
    out = ctx.path("shim", "sysshim.so")
    r = subprocess.run(["gcc", "-O2", "-g", "-fPIC", "-D_GNU_SOURCE", "-shared", "-o", out, src, "-ldl", "-lpthread"],
                       stdout=subprocess.PIPE, stderr=subprocess.STDOUT, text=True, timeout=600)
    if r.returncode != 0:
        raise vp.ToolError("cannot build the sysshim:\n" + r.stdout[-2000:])
    return out


RES_KINDS = ["created:dir", "created:file", "created:shm", "created:socket", "created:listener-socket", "removed:dir",
             "removed:file", "removed:shm", "removed:listener-socket"]
RES_ACTIONS = ["created", "removed", "port_step", "create_node", "create_service", "kill", "cleanup", "concept_list",
               "concept_listed", "concept_exists", "concept_remove", "list_nodes", "list_services", "drop_node"]


def resources_real(ctx):
    """every kind of resource of two real domains under the LD_PRELOAD shim (IOX2_VERIF_ROOT=/ logs every path)"""
    tag = run_tag(ctx, "r")
    work = ctx.path("rs", "x")[:-2]
    # <root>/<prefix><listener id: up to 39 digits>.event must fit into sun_path (107 bytes); deepest root: <work>/1/nodes
    if len(work) + len("/1/nodes") + 1 + len(tag) + 2 + 39 + len(".event") > 107:
        raise vp.ToolError(f"the work directory {work} is too long for the unix sockets of the resources scenario")
    trace = ctx.path("traces", "resources.ndjson")
    syslog = ctx.path("traces", "resources.syslog")
    if os.path.exists(syslog):
        os.remove(syslog)
    env = {"LD_PRELOAD": shim_so(ctx), "IOX2_VERIF_ROOT": "/", "IOX2_VERIF_SYSLOG": syslog, "IOX2_VERIF_TAG": "res",
           "IOX2_VERIF_COUNT": "s", "VERIF_SEED": ctx.seed}
    for k in list(os.environ):
        if k.startswith("IOX2_VERIF_") and k not in env:
            env[k] = ""
    cleanup_shm(tag)
    try:
        _, so, _ = vp.run_driver("drv-names", ["resources", "--work", work, "--tag", tag, "--out", trace, "--syslog", syslog]
                                 + ([] if ctx.quick else ["--more"]), timeout=1200, env=env)
    finally:
        cleanup_shm(tag)
    s = vp.last_json_line(so)
    ctx.coverage["resources"] = s
    if not s.get("shim_records"):
        raise vp.ToolError("the LD_PRELOAD shim logged nothing (resources scenario)")
    missing = [k for k in RES_KINDS if k not in s["kinds"]] + [a for a in RES_ACTIONS if not s["per_action"].get(a)]
    if missing:
        raise vp.ToolError(f"vacuous resources run: never observed {missing}")
    if s["per_action"].get("victim_failed"):
        raise vp.ToolError("resources run: a helper process could not create its resources")
    recs = vp.read_ndjson(trace)
    runs = vp.split_runs(recs)
    nres = sum(1 for r in runs if r[0]["pair"].startswith("res-"))
    ncal = sum(1 for r in runs if r[0]["pair"].startswith("cal-"))
    want = (4, 2) if ctx.quick else (6, 3)
    if (nres, ncal) != want:
        raise vp.ToolError(f"vacuous resources run: {nres} domain pairs and {ncal} cal pairs instead of {want}")
    if s["per_action"]["port_step"] - s["per_action"].get("cal_create", 0) < 2 * 14 * nres \
            or s["per_action"].get("cal_create", 0) < 11 * 4 * ncal:
        raise vp.ToolError(f"vacuous resources run: only {s['per_action']['port_step']} port / concept creation steps")
    ctx.evaluations += s["events"] + s["per_action"]["created_paths"] + s["per_action"]["removed_paths"]
    ctx.distinct += len(runs)
    v = vp.tlc_trace("data", "DomainsTrace", trace, timeout=1200, heap="6g")
    vp.record_tlc(ctx, "DomainsTrace[every resource kind, created / removed paths from the shim]", v.res, count=False)
    if v.accepted:
        ctx.traces_validated += len(runs)
    else:
        report_domain(ctx, v, trace, None)
    ctx.sample({"created": [{"d": r["d"], "step": r["step"], "paths": [bytes(p).decode("latin1") for p in r["paths"]][:3]}
                            for r in recs if r.get("a") == "created" and r["step"] in ("listener", "grow")][:4]})
    return trace


def domains_real(ctx, model_amb):
    tag = run_tag(ctx, "d")
    work = ctx.path("dom", "x")[:-2]
    trace = ctx.path("traces", "domains.ndjson")
    cleanup_shm(tag)
    try:
        _, so, _ = vp.run_driver("drv-names", ["domains", "--work", work, "--tag", tag, "--out", trace]
                                 + ([] if ctx.quick else ["--more"]), timeout=900)
    finally:
        cleanup_shm(tag)
    s = vp.last_json_line(so)
    ctx.coverage["domains"] = s
    recs = vp.read_ndjson(trace)
    runs = vp.split_runs(recs)
    dead_seen = sum(1 for r in recs if r.get("a") == "list_nodes" and "dead" in r["states"])
    cleaned = sum(1 for r in recs if r.get("a") == "cleanup" and r["n"] >= 1)
    for a in ("create_node", "create_service", "list_nodes", "list_services", "exists", "open", "kill", "cleanup",
              "drop_node", "drop_service"):
        if not s["per_action"].get(a):
            raise vp.ToolError(f"vacuous domain run: no {a} event")
    if not dead_seen or not cleaned:
        raise vp.ToolError(f"vacuous domain run: dead nodes listed {dead_seen}, successful cleanups {cleaned}")
    kinds = {(r[0]["same_root"], r[0]["same_prefix"], ambiguous(r[0])) for r in runs}
    if not {(True, False, False), (True, False, True), (False, True, False), (False, False, False)} <= kinds:
        raise vp.ToolError(f"vacuous domain run: configuration classes covered {kinds}")
    ctx.evaluations += s["events"]
    ctx.distinct += len(runs)
    safe = [r for r in runs if not ambiguous(r[0])]
    amb = [r for r in runs if ambiguous(r[0])]
    p = ctx.path("traces", "domains_safe.ndjson")
    vp.write_ndjson(p, [e for r in safe for e in r])
    v = vp.tlc_trace("data", "DomainsTrace", p, timeout=1200)
    vp.record_tlc(ctx, "DomainsTrace[pairs without naming ambiguity]", v.res, count=False)
    if v.accepted:
        ctx.traces_validated += len(safe)
    else:
        report_domain(ctx, v, p, None)
    known_seen = False
    for i, r in enumerate(amb):
        p = ctx.path("traces", f"domains_amb{i}.ndjson")
        vp.write_ndjson(p, r)
        v = vp.tlc_trace("data", "DomainsTrace", p, timeout=600)
        vp.record_tlc(ctx, f"DomainsTrace[{r[0]['pair']}]", v.res, count=False)
        if v.accepted:
            ctx.traces_validated += 1
            continue
        if v.invariant in NODE_CLAUSES:
            known_seen = True
            report_domain(ctx, v, p, SIG_PREFIX)
            v2 = vp.tlc_trace("data", "DomainsTrace", p, cfg="DomainsTrace_services.cfg", timeout=600)
            vp.record_tlc(ctx, f"DomainsTrace[{r[0]['pair']}, service clauses only]", v2.res, count=False)
            if v2.accepted:
                ctx.traces_validated += 1
            else:
                report_domain(ctx, v2, p, None)
        else:
            report_domain(ctx, v, p, None)
    # V2: the model refutes Isolation for that configuration class; it is reported only together with the
    # confirmation on the real code (otherwise the model is wrong about the code: drift)
    if model_amb.violated and not known_seen:
        print("DRIFT: Domains.tla predicts a naming ambiguity for digit-extended prefixes in one root, the real "
              "domains did not show it")
        ctx.note("drift: MC_Domains (ambiguous pairs) violated %s but the real run was clean" % model_amb.violated)
    if known_seen and not model_amb.violated:
        ctx.note("the real domains show a node-naming ambiguity that Domains.tla does not predict")
    ctx.sample({"domain_observations": [e for e in runs[1] if e.get("a") in ("list_nodes", "cleanup")][:6]})
    return trace


def report_domain(ctx, v, path, known_sig):
    recs = vp.read_ndjson(path)
    st = last_state(v.res)
    pos = (int(st.get("l", "1")) - 1) if v.invariant else v.pos
    run, rel = vp.run_containing(recs, pos) if pos else (recs[:30], 0)
    reset = run[0] if run else {}
    clause = v.invariant or "unexplained-event"
    rec = recs[pos - 1] if pos else None
    if rec and rec.get("a") in ("created", "removed"):
        # name the offending paths (re-evaluating the recorded observation only for the message)
        root, prefix = reset.get(f"root{rec['d']}", ""), reset.get(f"prefix{rec['d']}", "")
        paths = [(bytes(p).decode("latin1"), k) for p, k in zip(rec["paths"], rec["kinds"])]
        odd = [f"{p} ({k})" for p, k in paths if not ((k == "shm" and p.startswith("/dev/shm/" + prefix))
                                                      or (k != "shm" and os.path.normpath(p).startswith(os.path.normpath(root))))]
        rec = {"a": rec["a"], "d": rec["d"], "step": rec["step"], "outside_root_or_prefix": odd[:6] or [p for p, _ in paths][:6]}
    elif rec and rec.get("a", "").startswith("concept_"):
        def text(x):
            if isinstance(x, list) and x and isinstance(x[0], int):
                return bytes(x).decode("latin1")
            if isinstance(x, list) and x and isinstance(x[0], list):
                return [text(y) for y in x[:12]]
            return x
        rec = {k: text(x) for k, x in rec.items()}
    what = (f"domain pair {reset.get('pair')} (prefixes {reset.get('prefix0')!r} / {reset.get('prefix1')!r}, "
            f"same root: {reset.get('same_root')}): observation {rec} under domain {rec.get('d') if rec else '?'} "
            f"violates {clause}")
    sig = known_sig if known_sig else f"domains:{reset.get('pair')}:{clause}"
    if len(st.get("owned", "")) > 4000:
        st["owned"] = st["owned"][:4000] + " ..."
    ctx.report(vp.Violation(what, replay={"clause": clause, "record": rec, "run": run[:rel + 1], "state": st,
                                          "trace_module": "DomainsTrace",
                                          "cmd": "harness/target/debug/drv-names domains --work <dir> --tag <t> "
                                                 f"--pairs {reset.get('pair')} --out <trace>"},
                            signature=sig))


def selftest(ctx, edit_trace, dom_trace, res_trace):
    # (1) an over-long C string that is "accepted" truncated, (2) a listener socket in /tmp, (3) a foreign object listed
    recs = vp.read_ndjson(edit_trace)
    runs = vp.split_runs(recs)
    done = 0
    for run in runs:
        idx = next((i for i, r in enumerate(run) if r.get("via") == "from_c_str" and r.get("r") not in ("ok",)
                    and len(r["arg"]) == 256 and 0 not in r["arg"] and run[0]["ty"] == "FileName"
                    and all(32 < b < 127 and chr(b) not in '/\\*<>"|?' for b in r["arg"])), None)
        if idx is None:
            continue
        bad = [dict(r) for r in run[:idx + 1]]
        bad[idx]["r"] = "ok"
        bad[idx]["s"] = bad[idx]["arg"][:255]
        p = ctx.path("selftest", "ctors_bad.ndjson")
        vp.write_ndjson(p, bad)
        v = vp.tlc_trace("data", "NamesTrace", p)
        if v.accepted or v.invariant != "Validated":
            raise vp.ToolError(f"selftest: a truncating from_c_str was not rejected ({v.invariant})")
        done += 1
        break
    if not done:
        raise vp.ToolError("selftest: no refused over-long from_c_str call of FileName in the trace")
    rr = vp.read_ndjson(res_trace)
    run = vp.split_runs(rr)[0]
    idx = next((i for i, r in enumerate(run) if r.get("a") == "created" and "socket" in r["kinds"]), None)
    if idx is None:
        raise vp.ToolError("selftest: no created socket in the first resource scenario")
    bad = [dict(r) for r in run[:idx + 1]]
    k = bad[idx]["kinds"].index("socket")
    name = bytes(bad[idx]["paths"][k]).decode().rsplit("/", 1)[1]
    bad[idx]["paths"] = list(bad[idx]["paths"])
    bad[idx]["paths"][k] = list(("/tmp/" + name).encode())
    p = ctx.path("selftest", "resources_bad.ndjson")
    vp.write_ndjson(p, bad)
    v = vp.tlc_trace("data", "DomainsTrace", p)
    if v.accepted or v.invariant != "CreatedUnderDomain":
        raise vp.ToolError(f"selftest: a listener socket in /tmp was not rejected ({v.invariant})")
    idx = next((i for i, r in enumerate(run) if r.get("a") == "concept_list" and r["names"] and r["d"] == 0), None)
    other = next((r for r in run if r.get("a") == "concept_list" and r["names"] and r["d"] == 1
                  and r["concept"] == run[idx]["concept"]), None) if idx is not None else None
    if other is None:
        raise vp.ToolError("selftest: no concept listing in the first resource scenario")
    bad = [dict(r) for r in run[:idx + 1]]
    bad[idx]["names"] = list(bad[idx]["names"]) + [other["names"][0]]
    p = ctx.path("selftest", "resources_bad2.ndjson")
    vp.write_ndjson(p, bad)
    v = vp.tlc_trace("data", "DomainsTrace", p)
    if v.accepted or v.invariant != "ConceptListIsolated":
        raise vp.ToolError(f"selftest: a foreign object in a concept listing was not rejected ({v.invariant})")
    ctx.note("selftest: truncating from_c_str rejected by Validated; listener socket in /tmp rejected by CreatedUnderDomain; "
             "foreign object in a concept listing rejected by ConceptListIsolated")
    recs = vp.read_ndjson(edit_trace)[:300]
    idx = next((i for i, r in enumerate(recs) if r.get("a") == "new" and r.get("r") == "ok" and r["arg"]), None)
    if idx is None:
        raise vp.ToolError("selftest: no accepted constructor call in the first records")
    bad = [dict(r) for r in recs]
    bad[idx]["r"] = "InvalidContent"
    p = ctx.path("selftest", "edits_bad.ndjson")
    vp.write_ndjson(p, bad)
    v = vp.tlc_trace("data", "NamesTrace", p)
    if v.accepted or v.invariant != "Validated":
        raise vp.ToolError(f"selftest: corrupted name trace was not rejected ({v.invariant})")
    d = vp.read_ndjson(dom_trace)[:200]
    idx = next((i for i, r in enumerate(d) if r.get("a") == "list_services" and r["names"]), None)
    if idx is None:
        raise vp.ToolError("selftest: no service listing in the first records")
    bad = [dict(r) for r in d]
    bad[idx]["names"] = bad[idx]["names"] + ["own1/of-the-other-domain"]
    p = ctx.path("selftest", "domains_bad.ndjson")
    vp.write_ndjson(p, bad)
    v2 = vp.tlc_trace("data", "DomainsTrace", p)
    if v2.accepted or v2.invariant != "ServiceListIsolated":
        raise vp.ToolError(f"selftest: corrupted domain trace was not rejected ({v2.invariant})")
    ctx.note(f"selftest: flipped constructor verdict rejected by {v.invariant}; foreign service in a listing rejected by "
             f"{v2.invariant}")


def run(ctx):
    vp.cargo_build(["drv-names"])
    ctx.assumptions += [
        "POSIX rule set (':' allowed); byte strings that are not UTF-8 cannot reach the &str based ServiceName / NodeName",
        "isolation is judged from the API observations of two domains driven from one process plus one killed helper "
        "process per domain, and from the paths the libc calls of these processes create / remove (LD_PRELOAD shim: "
        "open O_CREAT, shm_open O_CREAT, mkdir, bind, rename, unlink, remove, rmdir, shm_unlink)",
        "node ids are u128 decimal strings, service files are named by fixed-length hashes (as in the pinned commit)",
    ]
    oracle_path, oracle = names_model(ctx)
    enumerate_strings(ctx, oracle_path, oracle)
    edit_trace = edits(ctx)
    model_amb = domains_model(ctx)
    dom_trace = domains_real(ctx, model_amb)
    res_trace = resources_real(ctx)
    if not ctx.quick:
        selftest(ctx, edit_trace, ctx.path("traces", "domains_safe.ndjson"), res_trace)
    ctx.coverage["rule"] = ("evaluations = constructor calls compared with the TLC oracle + recorded edit / constructor "
                            "events + recorded domain observations + created / removed paths judged; distinct = byte-class tuples (length <= 3) covered by the enumeration + "
                            "domain configuration pairs (observation scenarios + resource scenarios); states/transitions = TLC on MC_Names and MC_Domains (safe pairs)")


def replay(ctx, path):
    body = json.load(open(path))
    print(json.dumps({k: body.get(k) for k in ("what", "signature", "clause", "record", "cmd")}, indent=1))
    if body.get("run") and body.get("trace_module"):
        p = ctx.path("replay", "run.ndjson")
        vp.write_ndjson(p, body["run"])
        v = vp.tlc_trace("data", body["trace_module"], p)
        print(f"re-validation of the recorded run by {body['trace_module']}: accepted={v.accepted} "
              f"invariant={v.invariant} pos={v.pos}")
    elif body.get("mismatch"):
        print("re-run: bin/check C19 --tier quick (the enumeration revisits every string up to length 2)")
    return 0
