"""C12 - Blackboard reads are atomic and monotone; one writer at a time."""
import json
import os

import vp

META = {
    "level": "model_checking",
    "engine": "tla-atomics-scheduler",
    "technique": "TLC model checking of a word-granular TLA+ spec of the two-cell sequence lock over a C11 view model "
                 "with orderings extracted from the running code; scheduled and free-running executions of the real "
                 "UnrestrictedAtomic validated by TLC trace specifications",
    "text": "SeqLock2.tla (one action per access, payload copied word by word so torn reads are representable, C11Mem) "
            "is model-checked for ReadIsSomeWrite, NoFuture, Monotone with the extracted orderings; all "
            "preemption-bounded schedules (yield points before every atomic access and after every publishing write) of "
            "a writer (copy and loan-style updates) with 1..2 readers on the real UnrestrictedAtomic, plus free-running "
            "real-thread runs with self-checking payloads of 1 byte .. 512 bytes and odd alignments through the raw "
            "management API, are validated by TLC against SeqLockObs.tla (whole, written, monotone per reader) and, at "
            "the atomic level, against SeqLock2.tla.",
    "note": "Scheduled runs exist in two forms: yield points before every atomic access and after publishing writes, and additionally AFTER every load (the reader can then be preempted between its counter load and the plain copy of the value). Trusted: TLC, C11Mem simplifications (reads are instantaneous: a payload read that is reordered after the "
            "validating CAS is not representable), drop-in atomics, SC replay on x86. The writer-port / entry-handle "
            "uniqueness clause of C12 is exercised by the blackboard part of this check only when built (see notes).",
    "design_ref": "DESIGN.md 5 C12",
}

LABELS = ["w_ld", "w_add", "r_ld", "r_cas_s", "r_cas_f"]


def prepare(recs):
    tab, drift, out = {}, [], []
    main = {e["off"] for e in recs if e.get("k") == "atom" and e["op"].startswith("fetch_add")}
    cur = {}

    def bind(label, val):
        if tab.setdefault(label, val) != val:
            drift.append(f"{label}: {tab[label]} vs {val}")

    for e in recs:
        k = e.get("k")
        if k == "call":
            cur[e["t"]] = e["a"]
        if k == "atom":
            if e["op"] != "fence" and e["off"] not in main:
                out.append({"k": "aux"})
                continue
            a = cur.get(e["t"])
            op = e["op"]
            if a == "store" and op == "load":
                bind("w_ld", e["ord"])
            elif a == "store" and op == "fetch_add":
                bind("w_add", e["ord"])
            elif a == "load" and op == "load":
                bind("r_ld", e["ord"])
            elif a == "load" and op in ("cas", "cas_weak"):
                bind("r_cas_s", e["ord"])
                bind("r_cas_f", e["ordf"])
                op = "cas"
            else:
                drift.append(f"unexpected {op} in {a} at {e.get('site')}")
            out.append({"k": "atom", "t": e["t"], "op": op, "ord": e["ord"], "ordf": e["ordf"], "ok": e["ok"],
                        "rd": e["rd"], "operand": e["operand"], "expected": e["expected"]})
            continue
        out.append(e)
    return out, tab, sorted(set(drift))


def gen(ctx, name, base, w, k, nr, nl, tab, trace):
    ordv = ", ".join(f'{l} |-> "{tab.get(l, "SeqCst")}"' for l in LABELS)
    d = ctx.path("mc", name, "x")[:-2]
    with open(os.path.join(d, f"{name}.tla"), "w") as f:
        f.write(f"---- MODULE {name} ----\nEXTENDS {base}\nOrdVal == [{ordv}]\n====\n")
    with open(os.path.join(d, f"{name}.cfg"), "w") as f:
        f.write(f"SPECIFICATION {'TraceSpec' if trace else 'Spec'}\nCONSTANTS\n W = {w}\n NCells = 2\n K = {k}\n"
                f" NReaders = {nr}\n NLoads = {nl}\n Ord <- OrdVal\n")
        if trace:
            f.write("CONSTRAINT Progress\nPOSTCONDITION Accepted\nCHECK_DEADLOCK FALSE\n")
        else:
            f.write("INVARIANTS ReadIsSomeWrite NoFuture Monotone\nCHECK_DEADLOCK FALSE\n")
    return d


def drv(ctx, args, tag, timeout=1200):
    out = ctx.path("traces", f"{tag}.ndjson")
    _, so, _ = vp.run_driver("drv-lockfree", ["seqlock"] + args + ["--out", out], timeout=timeout,
                             env={"VERIF_SEED": ctx.seed})
    return out, vp.last_json_line(so)


def on_reject(ctx):
    def f(meta, v, run, rel):
        what, summ = meta if meta else ("?", {})
        lo = max(0, rel - 12)
        end = [r for r in run if r.get("k") == "end"]
        ctx.report(vp.Violation(
            f"{what}: a load of the real UnrestrictedAtomic returned a value that is torn, was never written or is older "
            f"than one this reader had already seen: {v.record}",
            replay={"what": what, "summary": summ, "events_before": [r for r in run[lo:rel] if r.get("k") != "atom"],
                    "first_unexplained": v.record, "schedule": end[0].get("sched") if end else None},
            signature=f"obs:{what.split(' ')[0]}"))
    return f


def run(ctx):
    vp.cargo_build(["drv-lockfree"])
    q = ctx.quick
    ctx.assumptions += ["C11Mem simplifications; payload reads instantaneous in the model",
                        "preemption-bounded schedule enumeration; free-running runs sample real interleavings"]
    tab_final, drift_any = {}, False
    bv = vp.BatchValidator(ctx, "lockfree", "SeqLockObsTrace", on_reject(ctx))
    cfgs = [(2, 3, 1, 2, 2), (1, 2, 2, 2, 2)] if q else [(2, 3, 1, 2, 3), (1, 3, 2, 2, 2), (3, 4, 1, 3, 2), (9, 3, 2, 2, 2)]
    # (words, stores, readers, loads, preemption bound); a negative bound marks the runs that ALSO yield after every load:
    # the reader can then be preempted between its counter load and the (plain) copy of the value, the window in which
    # the writer publishes and starts to refill the cell that is being copied (seeded change C12/2: no re-check for
    # word-sized values) - these runs are judged at API level only (their atomic-level trace has extra scheduling
    # points but the same accesses)
    cfgs += [(1, 3, 1, 2, -2), (2, 3, 1, 2, -2)] if q else [(1, 4, 1, 3, -3), (1, 3, 2, 2, -2), (2, 4, 1, 2, -3), (3, 3, 1, 2, -2)]
    for (w, k, nr, nl, bound) in cfgs:
        after_loads = bound < 0
        bound = abs(bound)
        tag = f"dfs-w{w}-k{k}-r{nr}-l{nl}" + ("-al" if after_loads else "")
        trace, summ = drv(ctx, ["--words", w, "--stores", k, "--readers", nr, "--loads", nl, "--mode", "dfs",
                                "--bound", bound, "--runs", (1500 if after_loads else 500) if q else 30000, "--yield-after", "--atoms"]
                          + (["--yield-after-loads"] if after_loads else []), tag)
        ctx.evaluations += summ["executions"]
        recs = vp.read_ndjson(trace)
        ctx.distinct += len({tuple(r["sched"]) for r in recs if r.get("k") == "end"})
        if summ["anomalies"]:
            bad = [r for r in recs if r.get("k") == "end" and (r["outcome"] != "completed" or r["panics"])]
            ctx.report(vp.Violation(f"execution did not complete normally: {bad[0]}", replay={"end": bad[0]},
                                    signature="anomaly:seqlock"))
            continue
        recs2, tab, drift = prepare(recs)
        api = ctx.path("traces", f"{tag}-api.ndjson")
        vp.write_ndjson(api, [r for r in recs2 if r.get("k") not in ("atom", "aux")])
        bv.add(api, (f"scheduled words={w}", summ), summ["executions"])
        if after_loads:
            continue
        if drift or (tab_final and tab != tab_final):
            drift_any = True
            print(f"DRIFT: UnrestrictedAtomic access structure differs from SeqLock2.tla: {drift[:3]} {tab} (so far: {tab_final})")
            ctx.note(f"drift: {drift[:4]} {tab} vs {tab_final}")
        else:
            tab_final = tab
            vp.write_ndjson(trace, recs2)
            name = f"TR_{w}_{k}_{nr}"
            d = gen(ctx, name, "SeqLock2Trace", 1, 99, nr, 99, tab, True)
            v = vp.tlc_trace(d, name, trace, libs=["lockfree"])
            vp.record_tlc(ctx, f"SeqLock2Trace[{tag}]", v.res, count=False)
            if not v.accepted:
                drift_any = True
                print(f"DRIFT: atomic-level trace not explained by SeqLock2.tla at {v.pos}: {v.record}")
                ctx.note(f"atomic-level drift at {v.pos}: {v.record}")
        if len(ctx.samples) < 2:
            r0 = vp.split_runs(recs)[-1]
            ctx.sample({"words": w, "history": [f"t{r['t']}:{r['k']}:{r['a']}:{r['v']}" for r in r0
                                                if r.get("k") in ("call", "ret")]})
    # random schedules, longer programs
    trace, summ = drv(ctx, ["--words", 3, "--stores", 6, "--readers", 2, "--loads", 5, "--mode", "random",
                            "--runs", 60 if q else 3000, "--yield-after"], "random")
    ctx.evaluations += summ["executions"]
    bv.add(trace, ("random-schedules words=3", summ), summ["executions"])
    # free-running real threads, self-checking payloads, raw API with odd sizes / alignments
    free = [("--words", 64, 1500), ("--raw", "7,1", 200), ("--raw", "129,64", 200)]
    if not q:
        free += [("--words", 9, 20000), ("--raw", "3,2", 240), ("--raw", "24,8", 240), ("--raw", "512,16", 240),
                 ("--raw", "65,1", 240), ("--words", 64, 20000)]
    for n, (flag, val, stores) in enumerate(free):
        for rep in range(1 if q else 3):
            trace, summ = drv(ctx, [flag, val, "--stores", stores, "--readers", 2, "--mode", "free"], f"free-{n}-{rep}")
            ctx.evaluations += summ.get("loads", 1)
            bv.add(trace, (f"free-running {flag}={val}", summ), 1)
    bv.run()
    ctx.sample({"free_running": "writer stores k=1..N ([k; W] words / k bytes), 2 readers load concurrently; "
                                "events merged by SeqCst stamps"})

    # TLC on the implementation-shaped model with the extracted orderings
    mcs = [(2, 3, 1, 2), (2, 2, 2, 1)] if q else [(2, 3, 1, 2), (2, 2, 2, 2), (3, 3, 1, 2), (2, 4, 1, 3)]
    if tab_final:
        for (w, k, nr, nl) in mcs:
            name = f"MC_{w}_{k}_{nr}_{nl}"
            d = gen(ctx, name, "SeqLock2", w, k, nr, nl, tab_final, False)
            res = vp.tlc(d, name, workers=8, timeout=900 if q else 2400, libs=["lockfree"])
            vp.record_tlc(ctx, f"SeqLock2[W={w} K={k} readers={nr} loads={nl} ord=extracted]", res)
            if res.timed_out:
                raise vp.ToolError(f"TLC timed out on {name}")
            if res.violated:
                ctx.report(vp.Violation(
                    f"TLC refutes {res.violated} for the two-cell sequence lock with the orderings used by the code {tab_final}",
                    replay={"invariant": res.violated, "orderings": tab_final, "W": w, "K": k,
                            "counterexample": [h for h, _ in res.cex]},
                    signature=f"c11:seqlock:{res.violated}"))
                break
            if not res.ok:
                raise vp.ToolError(f"TLC failed on {name}: {res.error}\n{res.output[-3000:]}")
            vp.check_action_coverage(res, ["WWrite", "WAdd", "RRead", "RCas"], name)
        if not q:
            weak = dict(tab_final, w_add="Relaxed")
            d = gen(ctx, "MF_wadd", "SeqLock2", 2, 3, 1, 2, weak, False)
            res = vp.tlc(d, "MF_wadd", workers=8, timeout=600, libs=["lockfree"])
            vp.record_tlc(ctx, "must-fail w_add=Relaxed", res, count=False)
            if not res.violated:
                raise vp.ToolError("must-fail instance w_add=Relaxed was not refuted: model is vacuous")
    else:
        ctx.note("no ordering table extracted: weak-memory argument not applicable to this build")
    ctx.coverage["orderings_extracted"] = tab_final
    ctx.coverage["rule"] = ("evaluations = scheduled executions + loads of free-running runs; distinct = distinct schedules")
    try:
        import importlib.util
        p = os.path.join(vp.VERIF, "checks", "blackboard_part.py")
        if os.path.exists(p):
            spec = importlib.util.spec_from_file_location("blackboard_part", p)
            mod = importlib.util.module_from_spec(spec)
            spec.loader.exec_module(mod)
            mod.c12_blackboard(ctx)
        else:
            ctx.note("blackboard port-level clause (one writer port / one write handle per key) not built yet")
    except vp.ToolError:
        raise
