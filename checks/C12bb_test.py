"""stand-alone runner of the blackboard part of C12 (development only)"""
import importlib.util
import os
import vp

META = {"level": "model_checking", "engine": "tla-roundtrip", "technique": "test", "text": "test", "note": "", "design_ref": ""}


def run(ctx):
    p = os.path.join(vp.VERIF, "checks", "blackboard_part.py")
    spec = importlib.util.spec_from_file_location("blackboard_part", p)
    mod = importlib.util.module_from_spec(spec)
    spec.loader.exec_module(mod)
    mod.c12_blackboard(ctx)
