"""C04 - Crash at any instant: survivor cleanup restores a clean, usable system."""
import concurrent.futures
import json
import os
import random
import re
import shutil
import subprocess
import sys

import vp

sys.path.insert(0, os.path.join(vp.HARNESS, "sysshim"))
import shimctl  # noqa: E402

META = {
    "level": "model_checking",
    "engine": "tla-sysshim-kill-enumeration",
    "technique": "TLC model checking of a TLA+ crash/cleanup spec whose victim step sequence and cleanup order are "
                 "extracted from a system-call log of the current code, bound to the code by REAL kill enumeration: "
                 "a real process is SIGKILLed before its N-th state-changing system call for every N, a real survivor "
                 "cleans up and uses the API, and the leftovers are compared with TLC's prediction for that crash point",
    "text": "CrashCleanup.tla: resources (node details dir/file, monitor token context/state/owner_lock, service tag, "
            "port tags, static config, dynamic config, data segments, connections, event sockets, blackboard segments, "
            "persistent per-domain resources) with the tag that leads a cleanup to them; the victim is a program counter "
            "into Steps, the sequence of its state-changing system calls extracted from the LD_PRELOAD sysshim log of a "
            "dry run per scenario (node create, service create/open, port create, send/receive/notify, orderly "
            "shutdown); Crash is enabled at every pc; the survivor cleanup follows node/mod.rs + "
            "stale_resource_cleanup.rs (found only through the monitor token, service tags, port tags, node files, "
            "token last; removal order extracted), a cleaner may crash at every step and a second one continues. TLC "
            "checks CleanAfterCleanup, SurvivorsIntact, DeadIsReportedDeadOrAbsent, CleanupAlwaysEnabled and prints "
            "the predicted leftovers for every crash point. FAULT ENUMERATION on the real code: for N = 1..K the "
            "victim runs under sysshim with IOX2_VERIF_KILL_AT=N in an isolated domain (own root path + prefix "
            "installed as global config); a survivor process then lists nodes, removes stale resources, lists again "
            "and exercises the API (open_or_create the service, create ports, round-trip a sample / event / request / "
            "blackboard value) under a watchdog; the directory and /dev/shm listing of the domain is compared with "
            "the prediction for that crash point (persistent per-domain resources allowed). Thorough adds every point "
            "of every scenario, a shared-service scenario with a live peer that continues with a new peer, and a "
            "second crash during cleanup (survivor killed at N', a third process finishes).",
    "note": "Trusted: TLC, the shim (cross-checked with strace in the thorough tier), SIGKILL before a libc call as the "
            "crash model (crash points inside shared-memory writes between two system calls are not enumerated here). "
            "The model knows existence, initialised-permission and tag reachability of resources, not registry "
            "contents; what the real cleanup does beyond that is judged on the real runs.",
    "design_ref": "DESIGN.md 5 C04, 3.3, 3.6, 7 (hypothesis 2)",
    "replay": True,
}

BIN = os.path.join(vp.TARGET_BIN, "drv-crash")
WATCHDOG = 40     # only for the set-up of peers in dry runs

SCENARIOS = {
    # name: (victim script, survivor exercise, expected values)
    "node": ("mark setup;node;mark shutdown;drop all", "node;svc pubsub;port pub;port sub;send 7;recv", {"recv": 7}),
    "pubsub": ("mark setup;node;svc pubsub;port pub;port sub;send 5;recv;mark shutdown;drop all",
               "node;svc pubsub;port pub;port sub;send 7;recv", {"recv": 7}),
    "event": ("mark setup;node;svc event;port notifier;port listener;notify 3;wait;mark shutdown;drop all",
              "node;svc event;port notifier;port listener;notify 4;wait", {"wait": [[4, 1]]}),
    "reqres": ("mark setup;node;svc reqres;port client;port server;request 4;serve;response;mark shutdown;drop all",
               "node;svc reqres;port client;port server;request 8;serve;response", {"serve": 8, "response": 9}),
    "blackboard": ("mark setup;node;bb_create;port writer;port reader;write 9;read;mark shutdown;drop all",
                   "node;bb_create;port writer;port reader;write 6;read", {"read": 6}),
}

# a live peer P (node + service + subscriber + publisher) shares the service with the victim and survives it
SHARED = {
    "shared_pubsub": {
        "peer": "node;svc pubsub;port sub;port pub",
        "victim": "mark setup;node;svc pubsub;port pub;port sub;send 5;recv;mark shutdown;drop all",
    },
}

CLASS_BY_SUFFIX = [
    (".global_mgmt", "GM"), (".node_monitor_context", "TC"), (".node_monitor_owner_lock", "TO"), (".node_monitor", "TS"),
    (".details", "DF"), (".service_tag", "ST"), (".port_tag", "PT"), (".service", "SC"), (".dynamic", "DY"),
    (".data", "DS"), (".connection", "CN"), (".event_mgmt", "EM"), (".event", "EV"), (".blackboard_mgmt", "BM"),
    (".blackboard_data", "BD"),
]
SERVICE_LEVEL = {"SC", "DY", "BM", "BD"}
PORT_LEVEL = {"DS", "CN", "EV", "EM"}
STATIC_FILES = {"DF", "ST", "PT", "SC"}     # static storage files: initialised = read-only (0400)
NODE_LEVEL = {"DD", "DF", "TC", "TS", "TO"}
PERSISTENT = {"GM", "ND", "SD"}
SINGLETON = {"GM", "ND", "SD", "DD", "DF", "TC", "TS", "TO"}


class Domain:
    """An isolated iceoryx2 domain: root directory + prefix, installed as the global config of every agent."""

    def __init__(self, base, tag):
        # short paths: unix domain socket files (event concept) live under the root and sun_path is 108 bytes
        short = tag.lower()
        for long_, abbr in (("shared_pubsub", "xp"), ("blackboard", "bl"), ("pubsub", "pu"), ("reqres", "re"),
                            ("event", "ev"), ("node", "no"), ("cleanup", "cl")):
            short = short.replace(long_, abbr)
        short = re.sub(r"[^a-z0-9]", "", short)
        self.dir = os.path.join(base, short)
        os.makedirs(self.dir, exist_ok=True)
        self.root = os.path.join(self.dir, "r")
        os.makedirs(self.root, exist_ok=True)
        self.prefix = f"c{os.getpid() % 100000}{short}_"
        self.cfg = os.path.join(self.dir, "iceoryx2.toml")
        with open(self.cfg, "w") as f:
            f.write(f'[global]\nroot-path = "{self.root}"\nprefix = "{self.prefix}"\n[global.node]\n'
                    "cleanup-dead-nodes-on-creation = false\ncleanup-dead-nodes-on-destruction = false\n")
        self.roots = [self.root + "/", self.root, "/dev/shm/" + self.prefix]
        self.argv = [BIN, "agent", "--global-config", self.cfg]
        self.ids = {}        # path -> abstract id
        self.count = {}      # class -> number of ids

    def classify(self, path, known_only=False):
        """path -> (class, abstract id); ids are numbered per class in order of first appearance"""
        if path in self.ids:
            rid = self.ids[path]
            return re.sub(r"\d+$", "", rid), rid
        if known_only:
            return "FOREIGN", "FOREIGN"
        rel = path[len(self.root) + 1:] if path.startswith(self.root + "/") else path
        cls = None
        if path == self.root:
            cls = "ROOT"
        elif rel == "nodes":
            cls = "ND"
        elif rel == "services":
            cls = "SD"
        elif re.fullmatch(r"nodes/\d+", rel):
            cls = "DD"
        else:
            for suf, c in CLASS_BY_SUFFIX:
                if path.endswith(suf):
                    cls = c
                    break
        if cls is None:
            cls = "UNKNOWN"
        if cls in SINGLETON or cls == "ROOT":
            rid = cls
        else:
            self.count[cls] = self.count.get(cls, 0) + 1
            rid = f"{cls}{self.count[cls]}"
        self.ids[path] = rid
        return cls, rid

    def snapshot(self):
        """{path: (size, mode)} of everything in the domain"""
        out = {}
        for dp, dn, fn in os.walk(self.root):
            for x in dn + fn:
                p = os.path.join(dp, x)
                try:
                    st = os.lstat(p)
                    out[p] = (st.st_size, st.st_mode & 0o7777)
                except OSError:
                    pass
        for f in os.listdir("/dev/shm"):
            if f.startswith(self.prefix):
                p = "/dev/shm/" + f
                try:
                    st = os.lstat(p)
                    out[p] = (st.st_size, st.st_mode & 0o7777)
                except OSError:
                    pass
        return out

    def destroy(self):
        for f in os.listdir("/dev/shm"):
            if f.startswith(self.prefix):
                try:
                    os.unlink("/dev/shm/" + f)
                except OSError:
                    pass
        shutil.rmtree(self.dir, ignore_errors=True)


def abstract_steps(dom, recs, known_only=False):
    """sysshim records of one process -> abstract steps [{n, op, r, cls, call}] (state-changing calls only)"""
    out = []
    for r in recs:
        if r["k"] != "sys" or r["c"] != "s":
            continue
        cls, rid = dom.classify(r["path"].split(" -> ")[0], known_only)
        if cls == "FOREIGN":
            continue
        ok = r["ret"] >= 0
        call = r["call"]
        if call in ("open", "shm_open"):
            op = "create" if (r["flags"] & os.O_CREAT) and ok else ("open" if ok else "probe")
        elif call in ("mkdir", "bind"):
            op = "create" if ok else "probe"
        elif call in ("fchmod", "chmod"):
            if cls in STATIC_FILES:
                op = "final" if r["mode"] == 0o400 else "init"
            else:
                op = "init" if r["mode"] == 0o200 else "final"
        elif call == "fcntl":
            op = "lock" if ok else "probe"
        elif call in ("remove", "unlink", "shm_unlink", "rmdir"):
            op = "remove" if ok else "probe"
        elif call == "close":
            op = "close"
        elif call == "ftruncate":
            op = "size"
        elif call == "mmap":
            op = "map"
        elif call == "write":
            op = "write"
        else:
            op = call
        out.append({"n": r["n"], "op": op, "r": rid, "cls": cls, "call": call})
    return out


HARD_LIMIT = 600       # seconds; only a process that is neither finished nor provably spinning waits that long


def spinning_on(syslog):
    """If the tail of a process' shim log is one tight retry loop on a single object (the same few calls on the
    same path, hundreds of times), returns (path, calls in the tail); else None."""
    try:
        with open(syslog, "rb") as f:
            f.seek(0, os.SEEK_END)
            size = f.tell()
            f.seek(max(0, size - 120000))
            tail = f.read().decode(errors="replace").splitlines()[1:]
    except OSError:
        return None
    recs = []
    for line in tail:
        try:
            recs.append(json.loads(line))
        except ValueError:
            pass
    recs = [r for r in recs if r.get("k") == "sys"]
    if len(recs) < 300:
        return None
    paths = {r["path"] for r in recs}
    calls = {r["call"] for r in recs}
    if len(paths) == 1 and calls <= {"shm_open", "open", "fstat", "close", "mmap"}:
        return paths.pop(), len(recs)
    return None


def watch(poll, syslog):
    """Waits for poll() to become true. A HANG is declared only on proof: two samples, >= 2 s apart, that both show
    the process inside the same retry loop while its log keeps growing - machine load alone can never produce
    that. Returns None (finished) or a description of the loop."""
    import time
    t0 = time.time()
    last = None
    while True:
        if poll():
            return None
        time.sleep(0.05 if time.time() - t0 < 2 else 0.5)
        el = time.time() - t0
        if syslog and el > 3:
            sp = spinning_on(syslog)
            size = os.path.getsize(syslog) if os.path.exists(syslog) else 0
            if sp and last and last[0] == sp[0] and size > last[1] and el - last[2] >= 2:
                return f"retry loop on {os.path.basename(sp[0])} ({size // 250} calls so far)"
            if sp and (not last or last[0] != sp[0]):
                last = (sp[0], size, el)
            elif not sp:
                last = None
        if el > HARD_LIMIT:
            return f"no progress and no exit within {HARD_LIMIT}s"


def run_agent(dom, tag, script, syslog=None, kill_at=None, timeout=None):
    """Free run of one agent. Returns (returncode, answers, hang description or None)."""
    env = shimctl.shim_env(dom.roots, syslog, tag, "s", kill_at, None, 1, None)
    errf = open(os.path.join(dom.dir, "stderr.txt"), "ab")
    outp = os.path.join(dom.dir, f"stdout-{tag}-{kill_at or 0}.txt")
    try:
        with open(outp, "wb") as so:
            p = subprocess.Popen(dom.argv, stdin=subprocess.PIPE, stdout=so, stderr=errf, env=env)
            try:
                p.stdin.write((script.replace(";", "\n") + "\n").encode())
                p.stdin.close()
            except BrokenPipeError:
                pass
            hang = watch(lambda: p.poll() is not None, syslog)
            if hang:
                p.kill()
            p.wait()
    finally:
        errf.close()
    outs = []
    for line in open(outp, errors="replace"):
        line = line.strip()
        if line.startswith("{"):
            try:
                outs.append(json.loads(line))
            except ValueError:
                pass
    return p.returncode, outs, hang


# ---------------------------------------------------------------------------------------------
# extraction (dry runs)

def tags_of(dom, steps):
    """resource id -> set of tags that lead a cleanup to it (by the ids its name carries)"""
    path_of = {rid: p for p, rid in dom.ids.items()}

    def idnum(p):
        return set(re.findall(r"\d{20,}", os.path.basename(p)))
    pts = {rid: idnum(path_of[rid]) for rid in path_of if rid.startswith("PT")}
    sts = sorted(rid for rid in path_of if rid.startswith("ST"))
    out = {}
    for rid, p in path_of.items():
        cls = re.sub(r"\d+$", "", rid)
        if cls in NODE_LEVEL:
            out[rid] = ["node"]
        elif cls in ("ST", "PT"):
            out[rid] = [rid]
        elif cls in SERVICE_LEVEL:
            out[rid] = sts[:1]
        elif cls in PORT_LEVEL:
            ids = idnum(p)
            out[rid] = sorted(t for t, ti in pts.items() if ti & ids)
        else:
            out[rid] = []
    return out


def start_peer(dom, script, tag="P", syslog=None):
    syslog = syslog or os.path.join(dom.dir, f"peer-{tag}.ndjson")
    p = shimctl.Proc(dom.argv, dom.roots, tag, syslog, "s", stderr_path=os.path.join(dom.dir, "stderr.txt"))
    p.syslog = syslog
    answers = [ask(p, cmd) for cmd in script.split(";")]
    return p, answers


def ask(p, cmd):
    """Sends one command to an interactive agent; returns its answer, or None if it died; raises shimctl.Hang only
    on proof (see watch)."""
    p.send(cmd)
    got = []

    def poll():
        try:
            ev = p.wait(0.05)
        except shimctl.Hang:
            return False
        if ev[0] in ("out", "exit"):
            got.append(ev)
            return True
        return False
    hang = watch(poll, getattr(p, "syslog", None))
    if hang:
        raise shimctl.Hang(hang)
    return got[0][1] if got[0][0] == "out" else None


def extract(ctx, name):
    shared = name in SHARED
    victim = SHARED[name]["victim"] if shared else SCENARIOS[name][0]
    base = ctx.path("d", "x")[:-2]
    dom = Domain(base, name)
    drift = []
    peer = None
    try:
        if shared:
            peer, pa = start_peer(dom, SHARED[name]["peer"])
            if any(a is None or a.get("r") != "Ok" for a in pa):
                raise vp.ToolError(f"peer set-up of scenario {name} failed: {pa}")
        log = os.path.join(dom.dir, "victim.ndjson")
        rc, outs, hang = run_agent(dom, "V", victim, log)
        if rc != 0 or hang or any(o.get("r") != "Ok" for o in outs):
            raise vp.ToolError(f"dry run of scenario {name} failed: rc={rc} {outs}")
        recs = shimctl.read_syslog(log)
        steps = abstract_steps(dom, recs)
        marks = {}
        last_n = 0
        for r in recs:
            if r["k"] == "mark":
                marks[r["name"]] = last_n + 1
            elif r["k"] == "sys" and r["n"]:
                last_n = r["n"]
        k_total = last_n
        for s in steps:
            if s["cls"] == "UNKNOWN":
                drift.append(f"{name}: system call on a path of unknown kind: {s}")
        if peer:
            peer.close()
            peer = None
        # second dry run: the victim is killed at the end of its set-up, the survivor's cleanup is logged
        dom2 = Domain(base, name + "-cleanup")
        peer2 = None
        try:
            slog = os.path.join(dom2.dir, "survivor.ndjson")
            if shared:
                peer2, _ = start_peer(dom2, SHARED[name]["peer"], syslog=slog)
            vlog = os.path.join(dom2.dir, "victim.ndjson")
            run_agent(dom2, "V", victim, vlog, kill_at=marks["shutdown"])
            abstract_steps(dom2, shimctl.read_syslog(vlog))          # same numbering as the first run
            if shared:
                outs2 = [ask(peer2, "list"), ask(peer2, "cleanup"), ask(peer2, "list")]
                rc2, hang2 = 0, any(o is None for o in outs2)
                dead = [x for x in (outs2[1] or {}).get("nodes", []) if x["s"] == "Dead"]
            else:
                rc2, outs2, hang2 = run_agent(dom2, "S", "list;cleanup;list", slog)
                dead = (outs2[1].get("nodes", []) if len(outs2) > 1 else [])
            csteps = abstract_steps(dom2, shimctl.read_syslog(slog), known_only=True)
            cleanup_seq = [s["r"] for s in csteps if s["op"] == "remove"]
            if hang2 or rc2 != 0 or not dead or dead[0].get("c") != "Ok(())":
                drift.append(f"{name}: dry-run cleanup of a fully set-up dead node did not succeed: {outs2}")
        finally:
            if peer2:
                peer2.close()
            dom2.destroy()
        tags = tags_of(dom, steps)
        res = sorted(set(tags) - {"ROOT"})
        return {"name": name, "steps": steps, "K": k_total, "marks": marks, "cleanup_seq": cleanup_seq,
                "tags": tags, "res": res, "ids": dict(dom.ids), "shared": shared}, drift
    finally:
        if peer:
            peer.close()
        dom.destroy()


# ---------------------------------------------------------------------------------------------
# TLC

def tla_str_set(xs):
    return "{" + ", ".join(f'"{x}"' for x in sorted(xs)) + "}"


def model(ctx, ext, shared=False, ccrash=True, ncleaners=2):
    name = f"MC_{ext['name']}{'_shared' if shared else ''}"
    d = ctx.path("mc", name, "x")[:-2]
    res = [r for r in ext["res"] if not r.startswith("UNKNOWN")]
    op_map = {"create": "create", "final": "final", "init": "init", "lock": "lock", "remove": "remove", "close": "close"}
    steps = ", ".join(f'[op |-> "{op_map.get(s["op"], "other")}", r |-> "{s["r"]}"]' for s in ext["steps"])
    tagof = " @@ ".join(f'("{r}" :> {tla_str_set(ext["tags"].get(r, []))})' for r in res)
    persistent = [r for r in res if re.sub(r"\d+$", "", r) in PERSISTENT]
    slevel = [r for r in res if re.sub(r"\d+$", "", r) in SERVICE_LEVEL]
    cseq = ", ".join(f'"{r}"' for r in ext["cleanup_seq"] if r in res)
    with open(os.path.join(d, name + ".tla"), "w") as f:
        f.write(f"---- MODULE {name} ----\nEXTENDS CrashCleanup\n"
                f"StepsVal == << {steps} >>\nCleanupSeqVal == << {cseq} >>\nResVal == {tla_str_set(res)}\n"
                f"TagOfVal == {tagof}\nPersistentVal == {tla_str_set(persistent)}\n"
                f"ServiceLevelVal == {tla_str_set(slevel)}\n"
                f"StaticConfigsVal == {tla_str_set([r for r in res if r.startswith('SC')])}\n====\n")
    cfg = ("SPECIFICATION Spec\nCONSTANTS\n Steps <- StepsVal\n CleanupSeq <- CleanupSeqVal\n Res <- ResVal\n"
           " TagOf <- TagOfVal\n Persistent <- PersistentVal\n ServiceLevel <- ServiceLevelVal\n"
           " StaticConfigs <- StaticConfigsVal\n"
           f" Shared = {'TRUE' if shared else 'FALSE'}\n Cleaners = {tla_str_set(['K1', 'K2'][:ncleaners])}\n"
           f" CleanerMayCrash = {'TRUE' if ccrash else 'FALSE'}\nCHECK_DEADLOCK FALSE\n")
    invs = ["CleanAfterCleanup", "SurvivorsIntact", "DeadIsReportedDeadOrAbsent", "CleanupAlwaysEnabled"]
    with open(os.path.join(d, name + ".cfg"), "w") as f:
        f.write(cfg + "INVARIANTS " + " ".join(invs) + "\n")
    with open(os.path.join(d, name + "_predict.cfg"), "w") as f:
        f.write(cfg + "INVARIANTS Predict SurvivorsIntact\n")
    return d, name, invs


def run_model(ctx, ext, shared=False, double_crash=True):
    """One TLC run: SurvivorsIntact and DeadIsReportedDeadOrAbsent as invariants; CleanAfterCleanup and
    CleanupAlwaysEnabled are evaluated on every state and every refutation is printed with its crash point
    (REFUTED lines); the predicted leftovers per crash point are printed as PREDICT lines."""
    d, name, invs = model(ctx, ext, shared, ccrash=double_crash, ncleaners=2 if double_crash else 1)
    with open(os.path.join(d, name + ".cfg")) as f:
        cfg = f.read()
    with open(os.path.join(d, name + ".cfg"), "w") as f:
        f.write(re.sub(r"INVARIANTS .*\n", "INVARIANTS Predict Refutations SurvivorsIntact DeadIsReportedDeadOrAbsent\n", cfg))
    res = vp.tlc(d, name, workers=4, timeout=1200, libs=["process"])
    vp.record_tlc(ctx, f"CrashCleanup[{ext['name']}{' shared' if shared else ''}]", res)
    if res.timed_out:
        raise vp.ToolError(f"TLC timed out on {name}")
    failed = {}
    if res.violated in ("SurvivorsIntact", "DeadIsReportedDeadOrAbsent"):
        failed[res.violated] = [("?", 0)]
    elif not res.ok:
        raise vp.ToolError(f"TLC failed on {name}: {res.violated} {res.error}\n{res.output[-3000:]}")
    else:
        vp.check_action_coverage(res, ["VStep", "VCrash", "CStart", "CRemove", "CDone"] + (["CCrash"] if double_crash else []), name)
    pred = {}
    for line in res.prints:
        if line.startswith('<<"PREDICT", "'):
            pc, cc, stale, verdict = json.loads(line[len('<<"PREDICT", "'):-3].encode().decode("unicode_escape"))
            pred.setdefault((pc, 1 if cc else 0), set()).add((tuple(sorted(stale)), verdict))
        elif line.startswith('<<"REFUTED", "'):
            inv, pc, cc, stale, verdict = json.loads(line[len('<<"REFUTED", "'):-3].encode().decode("unicode_escape"))
            failed.setdefault(inv, [])
            if (pc, 1 if cc else 0) not in failed[inv]:
                failed[inv].append((pc, 1 if cc else 0))
    return failed, pred


# ---------------------------------------------------------------------------------------------
# real kill enumeration

def collapse(classes):
    cs = set()
    for c in classes:
        c = re.sub(r"\d+$", "", c)
        cs.add("TOK" if c in ("TC", "TS", "TO") else c)
    return "+".join(sorted(cs)) or "nothing"


def kill_run(ctx, ext, n, second=None, base=None):
    """Victim killed before its n-th state-changing call; survivor cleans up (optionally killed itself before its
    `second`-th call, a third process then finishes) and exercises the API. Returns the outcome record."""
    name = ext["name"]
    victim, exercise, expect = SCENARIOS[name]
    dom = Domain(base, f"{name}-k{n}" + (f"-c{second}" if second else ""))
    out = {"scenario": name, "n": n, "second": second, "problems": [], "hang": None}
    try:
        vlog = os.path.join(dom.dir, "victim.ndjson")
        rc, vouts, vhang = run_agent(dom, "V", victim, vlog, kill_at=n)
        vrecs = shimctl.read_syslog(vlog)
        vsteps = abstract_steps(dom, vrecs)
        kill = [r for r in vrecs if r["k"] == "kill"]
        out["victim_rc"] = rc
        if vhang:
            out["hang"] = "victim"
            out["problems"].append(("hang", "victim"))
        if not kill:
            out["killed_at"] = None      # the victim finished before its n-th call
        else:
            cls, rid = dom.classify(kill[0]["path"].split(" -> ")[0])
            out["killed_at"] = f"{kill[0]['call']}({rid})"
            out["killed_cls"] = cls
        # structural conformance of the prefix with the extracted steps
        want = [(s["op"], s["r"]) for s in ext["steps"][:n - 1]]
        got = [(s["op"], s["r"]) for s in vsteps][:n - 1]
        out["prefix_ok"] = want == got
        pre = dom.snapshot()
        out["pre"] = {dom.classify(p)[1]: v for p, v in pre.items()}
        out["zero_size_shm"] = sorted(dom.classify(p)[1] for p, (sz, md) in pre.items() if p.startswith("/dev/shm/") and sz == 0)
        out["uninitialized"] = sorted(dom.classify(p)[1] for p, (sz, md) in pre.items() if not os.path.isdir(p)
                                      and (md != 0o400 if dom.classify(p)[0] in STATIC_FILES else md == 0o200))
        # ---- survivor(s)
        script = "list;cleanup;list;" + exercise
        answers = []
        if second:
            rc1, o1, h1 = run_agent(dom, "S1", "list;cleanup", os.path.join(dom.dir, "s1.ndjson"), kill_at=second)
            out["second_killed"] = rc1 == -9
            if h1:
                out["hang"] = "first survivor"
        rc2, answers, h2 = run_agent(dom, "S", script, os.path.join(dom.dir, "s.ndjson"))
        out["answers"] = answers
        out["survivor_rc"] = rc2
        if h2:
            cmds = script.split(";")
            cmd = cmds[len(answers)] if len(answers) < len(cmds) else "end"
            out["hang"] = f"survivor in `{cmd}`: {h2}"
            out["problems"].append(("hang", cmd.split()[0]))
        elif rc2 != 0:
            out["problems"].append(("crash", f"rc={rc2}"))
        evs = {a.get("ev"): a for a in answers}
        lists = [a for a in answers if a.get("ev") == "list"]
        if lists:
            out["listed"] = [x["s"] for x in lists[0].get("nodes", [])]
            for st in out["listed"]:
                if st not in ("Dead",):
                    out["problems"].append(("reported", st))
        cl = evs.get("cleanup")
        if cl:
            for x in cl.get("nodes", []):
                if x["s"] == "Dead" and x["c"] != "Ok(())":
                    out["problems"].append(("cleanup_fails", re.sub(r"^Err\((.*)\)$", r"\1", x["c"])))
        if len(lists) > 1 and lists[1].get("nodes"):
            out["problems"].append(("still_listed", "+".join(x["s"] for x in lists[1]["nodes"])))
        if not h2:
            for a in answers[3:]:
                if a.get("r") != "Ok" and a.get("r") != "missing":
                    out["problems"].append(("unusable", f"{a.get('ev')}:{a.get('r')}"))
                    break
            else:
                for k, v in expect.items():
                    if k in evs and evs[k].get("v", evs[k].get("ids")) != v and evs[k].get("r") == "Ok":
                        out["problems"].append(("corrupted", f"{k}={evs[k].get('v', evs[k].get('ids'))}"))
        # ---- leftovers
        post = dom.snapshot()
        left = sorted(dom.classify(p)[1] for p in post)
        out["left"] = [r for r in left if re.sub(r"\d+$", "", r) not in PERSISTENT]
        out["left_unknown"] = [p for p in post if dom.classify(p)[0] == "UNKNOWN"]
        return out
    finally:
        dom.destroy()


def kill_run_shared(ctx, ext, n, base):
    """A live peer P shares the service with the victim; the victim is killed before its n-th call; P lists, removes
    the stale resources, keeps using its ports and continues with a new peer Q; finally Q and P shut down orderly."""
    name = ext["name"]
    dom = Domain(base, f"{name}-k{n}")
    out = {"scenario": name, "n": n, "second": None, "problems": [], "hang": None, "answers": []}
    P = Q = None
    try:
        P, pa = start_peer(dom, SHARED[name]["peer"])
        vlog = os.path.join(dom.dir, "victim.ndjson")
        rc, vouts, vhang = run_agent(dom, "V", SHARED[name]["victim"], vlog, kill_at=n)
        vrecs = shimctl.read_syslog(vlog)
        vsteps = abstract_steps(dom, vrecs)
        kill = [r for r in vrecs if r["k"] == "kill"]
        out["killed_at"] = None
        if kill:
            cls, rid = dom.classify(kill[0]["path"].split(" -> ")[0])
            out["killed_at"] = f"{kill[0]['call']}({rid})"
        out["prefix_ok"] = [(s["op"], s["r"]) for s in ext["steps"][:n - 1]] == [(s["op"], s["r"]) for s in vsteps][:n - 1]
        pre = dom.snapshot()
        out["zero_size_shm"] = sorted(dom.classify(p, True)[1] for p, (sz, md) in pre.items() if p.startswith("/dev/shm/") and sz == 0)
        out["uninitialized"] = sorted(dom.classify(p, True)[1] for p, (sz, md) in pre.items() if not os.path.isdir(p)
                                      and dom.classify(p, True)[0] != "FOREIGN"
                                      and (md != 0o400 if dom.classify(p, True)[0] in STATIC_FILES else md == 0o200))

        def step(proc, who, cmd):
            try:
                a = ask(proc, cmd)
            except shimctl.Hang as h:
                out["hang"] = f"{who} in `{cmd}`: {h}"
                out["problems"].append(("hang", f"{who}_{cmd.split()[0]}"))
                raise StopIteration
            if a is None:
                out["problems"].append(("crash", f"{who} died in `{cmd}`"))
                raise StopIteration
            out["answers"].append(dict(a, who=who))
            if a.get("r") != "Ok":
                out["problems"].append(("unusable", f"{who}_{a.get('ev')}:{a.get('r')}"))
            return a
        try:
            l1 = step(P, "P", "list")
            states = sorted(x["s"] for x in l1.get("nodes", []))
            out["listed"] = states
            if states not in (["Alive"], ["Alive", "Dead"]):
                out["problems"].append(("reported", "+".join(states)))
            cl = step(P, "P", "cleanup")
            for x in cl.get("nodes", []):
                if x["s"] == "Dead" and x["c"] != "Ok(())":
                    out["problems"].append(("cleanup_fails", re.sub(r"^Err\((.*)\)$", r"\1", x["c"])))
            l2 = step(P, "P", "list")
            if sorted(x["s"] for x in l2.get("nodes", [])) != ["Alive"]:
                out["problems"].append(("still_listed", "+".join(sorted(x["s"] for x in l2.get("nodes", [])))))
            step(P, "P", "send 11")
            got = []
            for _ in range(6):
                a = step(P, "P", "recv")
                if a.get("v") is None:
                    break
                got.append(a["v"])
            if 11 not in got or any(v not in (5, 11) for v in got):
                out["problems"].append(("corrupted", f"P_recv={got}"))
            Q = shimctl.Proc(dom.argv, dom.roots, "Q", os.path.join(dom.dir, "peer-Q.ndjson"), "s",
                             stderr_path=os.path.join(dom.dir, "stderr.txt"))
            Q.syslog = os.path.join(dom.dir, "peer-Q.ndjson")
            for cmd in ("node", "svc pubsub", "port sub"):
                step(Q, "Q", cmd)
            step(P, "P", "send 12")
            a = step(Q, "Q", "recv")
            if a.get("v") != 12:
                out["problems"].append(("corrupted", f"Q_recv={a.get('v')}"))
            step(Q, "Q", "port pub")
            step(Q, "Q", "send 13")
            got = []
            for _ in range(6):
                a = step(P, "P", "recv")
                if a.get("v") is None:
                    break
                got.append(a["v"])
            if 13 not in got or any(v not in (12, 13) for v in got):
                out["problems"].append(("corrupted", f"P_recv2={got}"))
            step(Q, "Q", "drop all")
            step(P, "P", "drop all")
        except StopIteration:
            pass
        for pr in (Q, P):
            if pr:
                pr.close()
        Q = P = None
        post = dom.snapshot()
        left = sorted(dom.classify(p)[1] for p in post)
        out["left"] = [r for r in left if re.sub(r"\d+$", "", r) not in PERSISTENT]
        out["left_unknown"] = [p for p in post if dom.classify(p)[0] == "UNKNOWN"]
        return out
    finally:
        for pr in (Q, P):
            if pr:
                pr.close()
        dom.destroy()


def phase_of(ext, n):
    return "shutdown" if n >= ext["marks"].get("shutdown", 10 ** 9) else "setup"


def judge(ext, pred, o):
    """Compares one real outcome with the model's prediction; reports the PRIMARY deviation of the run (a hang, a
    refused cleanup, a leftover) - what follows from it (service unusable, still listed) goes into the text."""
    n = o["n"]
    ph = phase_of(ext, n)
    key = (n if o.get("killed_at") else 0, 1 if o.get("second_killed") else 0)
    p = pred.get(key) or pred.get((key[0], 0)) or set()
    predicted = {tuple(sorted(st)) for st, v in p}
    real = tuple(sorted(o["left"]))
    probs = o["problems"]
    conseq = "; ".join(f"{k} {d}" for k, d in probs) or "survivor API fully usable"
    where = f"victim killed before {o.get('killed_at')}" + (f", first cleaner killed before its call {o['second']}" if o.get("second") else "")
    hang = [x for x in probs if x[0] == "hang"]
    if hang:
        why = "zero_size_shm" if o.get("zero_size_shm") else "other"
        return [("V1", f"hang:{hang[0][1]}:{why}",
                 f"survivor hangs in `{hang[0][1]}`: {o.get('hang')} (all peers had finished; a hang is declared only when "
                 f"two samples of the survivor's system-call log show the same retry loop still growing); zero-sized shm "
                 f"objects left by the victim: {o.get('zero_size_shm')} ({where})")]
    crash = [x for x in probs if x[0] == "crash"]
    if crash:
        return [("V1", f"survivor_crash:{collapse(o.get('uninitialized', []))}@{ph}", f"survivor died {crash[0][1]} ({where})")]
    cf = [x for x in probs if x[0] == "cleanup_fails"]
    if cf:
        un = collapse(o.get("uninitialized", []))
        return [("V1", f"cleanup_fails:{cf[0][1]}:{un}@{ph}",
                 f"removing the stale resources of the dead node fails with {cf[0][1]} every time; uninitialised objects "
                 f"left by the victim: {o.get('uninitialized')}; leftovers {list(real)}; {conseq} ({where})")]
    rep = [x for x in probs if x[0] == "reported"]
    if rep:
        return [("V1", f"reported:{rep[0][1]}@{ph}", f"dead node reported as {rep[0][1]}; leftovers {list(real)} ({where})")]
    if real:
        out = []
        if o.get("second_killed"):
            # two crashes compose two causes: the token files the killed CLEANER left (it dies inside its own drop)
            # are reported on their own, the rest is judged like a single crash
            tokens = ("TC", "TS", "TO")
            tok = tuple(r for r in real if r in tokens)
            real = tuple(r for r in real if r not in tokens)
            ptok = any(any(x in tokens for x in st) for st in predicted)
            predicted = {tuple(x for x in st if x not in tokens) for st in predicted}
            if tok:
                out.append(("V2" if ptok else "V1", "leak:TOK@cleaner_crash" if ptok else "leak_unpredicted:TOK@cleaner_crash",
                            f"token files {list(tok)} left for ever after the first cleaner was killed inside its own drop "
                            f"(the node is no longer listed, no API can remove them) ({where})"))
        if real and real in predicted:
            out.append(("V2", f"leak:{collapse(real)}@{ph}",
                        f"leftover {list(real)} after the survivor's cleanup, as TLC predicts for this crash point from "
                        f"the extracted step order; consequences: {conseq} ({where})"))
        elif real:
            out.append(("V1", f"leak_unpredicted:{collapse(real)}@{ph}",
                        f"leftover {list(real)} after the survivor's cleanup (model predicts {sorted(predicted)}); "
                        f"consequences: {conseq} ({where})"))
        if out:
            return out
    if o.get("left_unknown"):
        return [("V1", f"leak_unknown@{ph}", f"leftover of unknown kind {o['left_unknown']} ({where})")]
    other = [x for x in probs if x[0] in ("unusable", "corrupted", "still_listed")]
    if other:
        un = collapse(o.get("uninitialized", []))
        return [("V1", f"{other[0][0]}:{other[0][1]}:{un}@{ph}", f"{conseq}; nothing is left over; uninitialised objects left "
                 f"by the victim: {o.get('uninitialized')} ({where})")]
    if predicted and () not in predicted:
        return [("MODEL", f"model_pessimistic:{collapse(sorted(predicted)[0])}@{ph}",
                 f"model predicts leftovers {sorted(predicted)} but the real system is clean")]
    return []


def run(ctx):
    vp.cargo_build(["drv-crash"])
    if not os.path.exists(shimctl.SHIM):
        subprocess.run(["make", "-s", "-C", os.path.dirname(shimctl.SHIM)], check=True)
    quick = ctx.quick
    rng = random.Random(ctx.seed)
    base = ctx.path("k", "x")[:-2]
    ctx.assumptions += [
        "crash = SIGKILL immediately before a state-changing libc call on a path of the isolated domain "
        "(crashes between two shared-memory writes inside one step are not enumerated)",
        "the survivor runs after the victim is dead; the isolated domain (root path + prefix) is installed as the "
        "global configuration of every process, automatic dead-node cleanup on node creation/destruction is off",
        "resources are classified by path pattern; persistent by design: nodes/ and services/ directories, the "
        "global management segment",
    ]
    names = list(SCENARIOS) + list(SHARED)
    exts, preds, model_failed = {}, {}, {}
    drift_any = False
    for nm in names:
        ext, drift = extract(ctx, nm)
        exts[nm] = ext
        for dmsg in drift:
            drift_any = True
            print(f"DRIFT: {dmsg}")
            ctx.note("drift: " + dmsg)
    ctx.coverage["extracted"] = {nm: {"K": e["K"], "steps": [f"{s['op']}({s['r']})" for s in e["steps"]][:400],
                                      "cleanup_order": e["cleanup_seq"]} for nm, e in exts.items()}
    # ---- TLC on the extracted step sequences
    with concurrent.futures.ThreadPoolExecutor(max_workers=6) as ex:
        futs = {nm: ex.submit(run_model, ctx, exts[nm], exts[nm]["shared"], not quick) for nm in names}
        for nm, f in futs.items():
            model_failed[nm], preds[nm] = f.result()
    ctx.coverage["model_refuted"] = {nm: {inv: f"{len(pts)} crash points, e.g. {sorted(pts)[:6]}" for inv, pts in v.items()}
                                     for nm, v in model_failed.items()}
    # ---- which crash points
    jobs = []
    for nm in names:
        k = exts[nm]["K"]
        if nm in ("node", "pubsub") or not quick:
            pts = list(range(1, k + 2))
        else:
            pts = sorted(rng.sample(range(1, k + 1), 12))
        for n in pts:
            jobs.append((nm, n, None))
    # crash points that leave a zero-sized object behind make the survivor wait for the watchdog: start them first
    def slow(j):
        st = exts[j[0]]["steps"]
        return 0 if 1 <= j[1] - 1 < len(st) and st[j[1] - 1]["op"] == "size" else 1
    if not quick:
        for nm in SCENARIOS:
            ext = exts[nm]
            n0 = ext["marks"]["shutdown"]
            klen = len(ext["cleanup_seq"]) * 4 + 30
            for n in sorted(set([n0] + rng.sample(range(1, ext["K"] + 1), 6))):
                for c in range(1, klen, 1 if n == n0 else 7):
                    jobs.append((nm, n, c))
    jobs.sort(key=slow)
    outcomes = []
    with concurrent.futures.ThreadPoolExecutor(max_workers=10) as ex:
        futs = [ex.submit(kill_run_shared, ctx, exts[nm], n, base) if nm in SHARED else
                ex.submit(kill_run, ctx, exts[nm], n, c, base) for (nm, n, c) in jobs]
        for f in futs:
            outcomes.append(f.result())
    shutil.rmtree(base, ignore_errors=True)
    ctx.evaluations += len(outcomes)
    ctx.distinct += len({(o["scenario"], o.get("killed_at"), o.get("second"), tuple(o["left"]),
                          tuple(o["problems"])) for o in outcomes})
    ctx.traces_validated += sum(1 for o in outcomes if o.get("prefix_ok"))
    bad_prefix = [o for o in outcomes if not o.get("prefix_ok")]
    if bad_prefix:
        drift_any = True
        o = bad_prefix[0]
        print(f"DRIFT: the victim's system calls before crash point {o['n']} of scenario {o['scenario']} differ from the "
              f"extracted step sequence ({len(bad_prefix)} runs)")
        ctx.note(f"prefix drift in {len(bad_prefix)} runs, e.g. {o['scenario']} n={o['n']}")
    # ---- judgement
    by_sig = {}
    clean = 0
    for o in outcomes:
        nm = o["scenario"]
        fs = judge(exts[nm], preds.get(nm, {}) if nm in preds else {}, o)
        if nm not in preds:
            fs = [(("V1" if k == "V2" else k), s.replace("leak:", "leak_unmodelled:") if k == "V2" else s, t) for k, s, t in fs]
        if not fs:
            clean += 1
        for kind, sig, text in fs:
            by_sig.setdefault(sig, []).append((kind, o, text))
    ctx.coverage["kill_runs"] = {"total": len(outcomes), "clean_and_usable": clean,
                                 "per_scenario": {nm: sum(1 for o in outcomes if o["scenario"] == nm) for nm in names},
                                 "with_second_crash_during_cleanup": sum(1 for o in outcomes if o.get("second"))}
    ctx.coverage["signatures"] = {s: len(v) for s, v in sorted(by_sig.items())}
    with open(ctx.path("outcomes.json"), "w") as f:
        json.dump([dict(o, findings=judge(exts[o["scenario"]], preds.get(o["scenario"], {}), o),
                        predicted=sorted(preds.get(o["scenario"], {}).get((o["n"], 0), []))) for o in outcomes], f, default=str)
    for sig, lst in sorted(by_sig.items()):
        kind, o, text = lst[0]
        if kind == "MODEL":
            allm = [(s, v[0][1]["scenario"], sorted(x[1]["n"] for x in v)) for s, v in sorted(by_sig.items()) if v[0][0] == "MODEL"]
            raise vp.ToolError(f"CrashCleanup.tla predicts leftovers the real system does not have: {allm}; e.g. {text} "
                               f"(scenario {o['scenario']} n={o['n']}, killed before {o.get('killed_at')}): fix the "
                               f"specification")
        pts = sorted({(x[1]["scenario"], x[1]["n"]) + ((x[1]["second"],) if x[1]["second"] else ()) for x in lst})
        what = (f"{'TLC-predicted and confirmed' if kind == 'V2' else 'observed on real processes'}: {text}; "
                f"{len(lst)} crash points: {pts[:12]}{'...' if len(pts) > 12 else ''}")
        ctx.report(vp.Violation(what, replay={
            "signature": sig, "kind": kind, "scenario": o["scenario"], "kill_at": o["n"], "second": o["second"],
            "killed_before": o.get("killed_at"), "crash_points": pts, "left": o["left"], "answers": o.get("answers"),
            "zero_size_shm": o.get("zero_size_shm"), "uninitialized": o.get("uninitialized"),
            "cmd": "bin/check C04 --replay <this file>"}, signature=sig))
        if len(ctx.samples) < 6:
            ctx.sample({"signature": sig, "scenario": o["scenario"], "killed_before": o.get("killed_at"),
                        "left": o["left"], "survivor": [(a.get("ev"), a.get("r")) for a in (o.get("answers") or [])]})
    ok = [o for o in outcomes if not judge(exts[o["scenario"]], preds.get(o["scenario"], {}), o)]
    for o in ok[:2]:
        ctx.sample({"clean": True, "scenario": o["scenario"], "killed_before": o.get("killed_at"),
                    "survivor": [(a.get("ev"), a.get("r")) for a in (o.get("answers") or [])]})
    if drift_any:
        ctx.note("DRIFT: the extracted model does not match this build step by step")
    if not quick:
        strace_check(ctx)
    ctx.coverage["rule"] = ("evaluations = real kill runs (victim SIGKILLed before its N-th state-changing call, then "
                            "survivor); distinct = distinct (crash point, leftovers, survivor problems); traces validated "
                            "= runs whose pre-crash system calls equal the extracted step prefix")


def strace_check(ctx):
    base = ctx.path("strace", "x")[:-2]
    dom = Domain(base, "st")
    try:
        victim = SCENARIOS["pubsub"][0].replace(";", "\n") + "\n"
        kern, shim, rc = shimctl.strace_state_calls(dom.argv, dom.roots, stdin_text=victim)
        from collections import Counter
        ck, cs = Counter(c for c, ok in kern if ok), Counter(c for c, ok in shim if ok)
        ctx.coverage["strace_crosscheck"] = {"kernel": dict(ck), "shim": dict(cs), "equal": ck == cs}
        if ck != cs:
            print(f"DRIFT: strace and the shim disagree on the successful state-changing calls: kernel={dict(ck)} shim={dict(cs)}")
            ctx.note("shim/strace mismatch")
    finally:
        dom.destroy()


def replay(ctx, path):
    body = json.load(open(path))
    print(json.dumps({k: body.get(k) for k in ("what", "signature", "scenario", "kill_at", "second", "killed_before")}, indent=1))
    vp.cargo_build(["drv-crash"])
    ext, _ = extract(ctx, body["scenario"])
    if body["scenario"] in SHARED:
        o = kill_run_shared(ctx, ext, body["kill_at"], ctx.path("kill", "x")[:-2])
    else:
        o = kill_run(ctx, ext, body["kill_at"], body.get("second"), ctx.path("kill", "x")[:-2])
    print(json.dumps({k: o.get(k) for k in ("killed_at", "listed", "problems", "left", "zero_size_shm", "uninitialized",
                                            "answers")}, indent=1))
    return 0
