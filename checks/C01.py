"""C01 - Pub-sub delivery: ordered, exactly once, loss only as documented."""
import ps_common as ps
import vp

PID = "C01"

META = {
    "level": "model_checking",
    "engine": "tla-roundtrip",
    "technique": "TLC model checking of an API-level TLA+ specification of publish-subscribe (one action per public "
                 "call, bodies following update_connections / history replay / overflow / discard / retry) with ghost "
                 "history variables, and round-trip conformance: TLC-generated behaviours (trap-invariant witnesses, "
                 "-simulate) and seeded driver-generated programs are executed on real Publisher/Subscriber objects "
                 "and the recorded calls are validated by TLC against the same specification",
    "text": "TLC exhaustively checks PubSub.tla on small instances (1x2, 2x1, reconnecting instances; 2x2 behind a VIEW "
            "in the thorough tier) for Order (received = duplicate-free subsequence of requested history prefix "
            "followed by everything sent while registered), LossOverflow, LossNoOverflow, Recipients and "
            "HasSamplesIff; TLC-generated witness behaviours (overflow interleaved with partial reads, late joiner "
            "with history, publisher dropped with samples in flight, reconnects, two publishers, skip at a full "
            "buffer), TLC-simulated behaviours and seeded random programs over the QoS grid are executed on "
            "ipc::Service and local::Service with u64 and [u8] payloads, and every recorded send/receive/has_samples "
            "result (recipients, blocked receivers, publisher, sample id, canary) must be explained by the "
            "specification, with the property invariants evaluated on every state of the explained trace. "
            "Strengthened: (1) connection faults as environment actions of the specification and the driver (data segment of a "
            "live publisher removed from the system; sender side of a connection occupied by a foreign sender) with ports "
            "carrying degradation handlers Warn / Ignore / DegradeAndFail - the faulty pair delivers nothing, every other "
            "pair must behave as without the fault, the call returns ConnectionFailure iff the handler says fail; "
            "(2) the expired-connection buffer is modelled (sizes 1..3): only a connection without held samples may be "
            "sacrificed, its undelivered samples are the documented loss; (3) send exists in a split form (SendBegin / "
            "Deliver / BpCall / BpRet / SendEnd) that explains calls made from inside the unable-to-deliver handler; "
            "(4) publisher thread || subscriber thread on one connection under the deterministic scheduler, every "
            "execution validated as the set of its linearizations.",
    "note": "Sequential histories plus handler re-entrancy plus 1 publisher || 1 subscriber under the scheduler "
            "(DiscardData strategy, preemption bound 1 quick / 2 thorough; queue-level concurrency is C03). Faults are "
            "permanent within a run (no healing); receiver-side occupation of a connection is not injected. Instances are "
            "bounded (<= 2 live publishers/subscribers in the model, <= 3 in executions, <= 4 loans per model run). "
            "The specification follows the documentation; the code's loss of samples when a publisher is dropped "
            "before a registered subscriber attached to their connection is accepted only as a tagged known-defect "
            "shape and reported with the signature pubsub:sample-lost:publisher-dropped-before-subscriber-attached "
            "(known_findings.json); every other loss is an unlisted violation. "
            "Trusted: TLC, the driver's mapping of port ids / payload canaries to small indices.",
    "design_ref": "DESIGN.md 5 C01, 2.2, 3.3, 3.4",
    "replay": True,
}

TARGETS = ["OverflowPartial", "LateJoiner", "PubDroppedInFlight", "ReconnectSub", "ReconnectPub", "TwoPubs",
           "SkipThenReceive", "CqFull", "ExpiredDiscard"]
NEED_EVENTS = ["send", "recv:some", "recv:none", "has", "create_sub:ok", "create_pub:ok", "drop_pub", "drop_sub",
               "update_pub", "update_sub", "break_seg", "occupy", "recv:ConnectionFailure", "send:ConnectionFailure",
               "send_begin", "bp", "bp_ret:retry", "bp_ret:discard", "send_end:ok"]


def mc_instances(quick):
    Q = ps.qos
    inst = [("A_1x2_overflow", Q(maxpubs=1, maxsubs=2, bufmax=1, hist=1, borrow=1, loan=1, overflow=True),
             [1], [1, 2], [1], [1], 3, None),
            ("B_2x1_retry", Q(maxpubs=2, maxsubs=1, bufmax=1, hist=1, borrow=1, loan=1, overflow=False, strategy="retry_fail"),
             [1, 2], [1], [1], [1], 3, None),
            # split form of send: calls of the subscriber from inside the unable-to-deliver handler
            ("N_1x1_split", Q(maxpubs=1, maxsubs=1, bufmax=1, hist=1, borrow=1, loan=1, overflow=False, strategy="retry_fail"),
             [1], [1], [1], [1], 3, None, ps.inst_opts(split=True)),
            # connection faults: data segment of a publisher gone / sender side of a connection occupied
            ("F_2x1_faults", Q(maxpubs=2, maxsubs=1, bufmax=1, hist=0, borrow=1, loan=1, overflow=True),
             [1, 2], [1], [1], [0], 2, None, ps.inst_opts(faults=True, degs=("fail",)))]
    if not quick:
        inst += [
            ("N_1x2_split", Q(maxpubs=1, maxsubs=2, bufmax=1, hist=0, borrow=1, loan=2, overflow=False, strategy="retry_discard"),
             [1], [1, 2], [1], [0], 4, "SysView", ps.inst_opts(split=True)),
            ("N_1x1_concurrent", Q(maxpubs=1, maxsubs=1, bufmax=2, hist=1, borrow=1, loan=1, overflow=False, strategy="retry_discard"),
             [1], [1], [2], [1], 4, None, ps.inst_opts(split=True, conc=True)),
            ("F_2x1_faults_deg", Q(maxpubs=2, maxsubs=1, bufmax=1, hist=1, borrow=1, loan=1, overflow=True),
             [1, 2], [1], [1], [1], 3, "SysView", ps.inst_opts(faults=True, degs=("warn", "fail"))),
            ("F_1x2_faults", Q(maxpubs=1, maxsubs=2, bufmax=1, hist=0, borrow=1, loan=1, overflow=False),
             [1], [1, 2], [1], [0], 3, "SysView", ps.inst_opts(faults=True, degs=("fail",))),
            ("X_3x1_expired", Q(maxpubs=2, maxsubs=1, bufmax=1, hist=0, borrow=1, loan=1, overflow=True, expbuf=1),
             [1, 2, 3], [1], [1], [0], 3, "SysView"),
            ("R_reconnect", Q(maxpubs=1, maxsubs=1, bufmax=1, hist=1, borrow=1, loan=1, overflow=True),
             [1, 2], [1, 2], [1], [1], 3, None),
            ("C_1x2_discard_b2", Q(maxpubs=1, maxsubs=2, bufmax=2, hist=2, borrow=1, loan=1, overflow=False),
             [1], [1, 2], [1, 2], [0, 2], 3, None),
            ("T_2x2_overflow", Q(maxpubs=2, maxsubs=2, bufmax=2, hist=1, borrow=1, loan=1, overflow=True),
             [1, 2], [1, 2], [2], [0, 1], 3, "SysView"),
            ("T_2x2_retry", Q(maxpubs=2, maxsubs=2, bufmax=1, hist=1, borrow=1, loan=1, overflow=False, strategy="retry_discard"),
             [1, 2], [1, 2], [1], [0, 1], 3, "SysView"),
        ]
    return inst


def tail(target, q):
    """further calls after the witness state: the continuation must be explained too"""
    t = []
    for s in (1, 2):
        t += [{"a": "has", "s": s}, {"a": "recv", "s": s}, {"a": "recv", "s": s}, {"a": "drop_sample", "s": s, "id": 0},
              {"a": "recv", "s": s}, {"a": "has", "s": s}]
    for p in (1, 2):
        t += [{"a": "loan", "p": p}, {"a": "send", "p": p, "id": 0}]
    for s in (1, 2):
        t += [{"a": "recv", "s": s}, {"a": "drop_sample", "s": s, "id": 0}, {"a": "recv", "s": s}, {"a": "has", "s": s}]
    return t


def run(ctx):
    vp.cargo_build([ps.DRIVER])
    ps.cleanup_shm()
    quick = ctx.quick
    ctx.assumptions += [
        "sequential API histories (one driving thread); queue-level concurrency is property C03",
        "retry strategy observed as retry-then-abort via the unable-to-deliver handler",
        "expired-connection buffer 64 (never overflows) or 1..3 (modelled: only a connection without held samples is sacrificed)",
        "connection faults: data segment of a live publisher removed, sender side of a connection occupied (permanent within a run)",
        "model instances: <= 2 publisher and <= 2 subscriber instances alive, <= 4 loans; executions: <= 8/10 instances per run",
    ]
    ps.mc_phase(ctx, PID, mc_instances(quick), code_dependent=False)
    variants = (("u64", "ipc"), ("slice", "local")) if quick else \
        (("u64", "ipc"), ("slice", "local"), ("slice", "ipc"), ("u64", "local"))
    trace, jobs = ps.roundtrip(ctx, PID, TARGETS, tail, NEED_EVENTS,
                               nsim=10 if quick else 120, depth=40 if quick else 60,
                               ngen=10, steps=140 if quick else 80, variants=variants,
                               scripted=ps.history_matrix_jobs(variants) + ps.fault_jobs(variants) + ps.expired_jobs(variants)
                               + ps.nested_jobs(variants)[::2 if quick else 1] + ps.stale_key_jobs(variants))
    ps.concurrent_phase(ctx, PID)
    if not quick:
        ps.selftest(ctx, PID, trace, lambda r: r.get("a") == "recv" and r.get("r") == "some",
                    lambda r: r.update(id=r["id"] + 1), "received_id_changed")
        ps.selftest(ctx, PID, trace, lambda r: r.get("a") == "send" and r.get("r") == "ok" and r.get("n", 0) > 0,
                    lambda r: r.update(n=r["n"] - 1), "recipients_changed")
        ps.selftest(ctx, PID, trace, lambda r: r.get("a") == "recv" and r.get("r") == "ConnectionFailure",
                    lambda r: r.update(r="none"), "connection_failure_dropped")
        ps.selftest(ctx, PID, trace, lambda r: r.get("a") == "bp_ret" and r.get("act") == "retry",
                    lambda r: r.update(act="fail"), "handler_answer_changed")
    ps.cleanup_shm()


def replay(ctx, path):
    return ps.replay_common(ctx, PID, path)
