"""C02 - Zero-copy sample lifetime: no reuse while referenced, no leak after."""
import importlib.util
import os

import ps_common as ps
import vp

PID = "C02"

META = {
    "level": "model_checking",
    "engine": "tla-roundtrip",
    "technique": "TLC model checking of the chunk layer of the publish-subscribe TLA+ specification (reference counter "
                 "per chunk updated where the code borrows/releases, free set, used-chunk list per connection), and "
                 "round-trip conformance on real ports with three observables: canary digest of every held sample "
                 "after every call, chunk index of every loan, loan-to-exhaustion probe",
    "text": "TLC exhaustively checks PubSub.tla (chunk layer) for RefExact, FreeIffZero, ChunkUnique, NoLeak and "
            "Conservation over all histories of loan/send/receive/drop, history and overflow eviction, subscriber and "
            "publisher destruction in either order with samples still held; TLC-generated witnesses (all holder "
            "classes saturated, vanished subscriber still owning borrowed and buffered samples, history eviction of a "
            "sample a late joiner holds), simulated behaviours and seeded random programs over the QoS grid are "
            "executed on real publishers/subscribers; the recorded trace must be explained by the specification: "
            "a loan never returns a chunk that still has a holder in the model (LoanFromFree), the bytes of every held "
            "sample/loan equal their canary after every call, and the probe gets exactly MaxLoan-|loans| loans and "
            "then ExceedsMaxLoans, never OutOfMemory. Strengthened: connection faults with degradation handlers (a failing "
            "connection to one subscriber must not let the publisher reclaim chunks other subscribers hold), the "
            "expired-connection buffer (sizes 1..3: a connection with held samples is never sacrificed; held samples are "
            "checked for being mapped before they are read), the split form of send explaining calls from inside the "
            "unable-to-deliver handler together with the invariant CqFits instantiated with the completion queue capacity "
            "MEASURED on the running code, exact-worst-case witnesses with over-aligned payloads (16/64/256), and "
            "publisher || subscriber executions under the deterministic scheduler validated through their linearizations. "
            "The same statement for request and response payloads is decided by "
            "the request-response part (checks/reqres_parts.c02_reqres: chunk layer of ReqRes.tla, canary and probe "
            "observables on clients/servers), plugged in through EXTRA_PARTS.",
    "note": "Request/response payloads are covered by the plugged-in request-response part (skipped with a note if "
            "checks/reqres_parts.py is missing). Chunks are identified by payload "
            "address (first appearance). A Sample that outlives its Subscriber is not protected by the statement "
            "('subscribers gone'): such samples are dropped later without digest check, the publisher-side reclaim "
            "of their chunks is modelled. Subscriber destruction: orderly, with samples still alive, and by "
            "Abandonable::abandon() (stays registered, keeps its chunks for ever). Sequential histories only.",
    "design_ref": "DESIGN.md 5 C02, 2.2, 3.3, 3.4",
    "replay": True,
}

TARGETS = ["Saturated", "StaleOwner", "HistoryEvictHeld", "PubDroppedInFlight", "OverflowPartial", "CqFull",
           "ChunksExhausted", "ExpiredDiscard"]
NEED_EVENTS = ["loan:ok", "loan:ExceedsMaxLoans", "probe", "send", "recv:some", "drop_sample", "drop_loan", "drop_sub",
               "drop_pub", "update_pub", "occupy", "update_pub:ConnectionFailure", "send_begin", "bp", "bp_ret:retry",
               "send_end:ok"]


def mc_instances(quick):
    Q = ps.qos
    inst = [("K_1x1r_overflow", Q(maxpubs=1, maxsubs=1, bufmax=2, hist=1, borrow=1, loan=1, overflow=True),
             [1], [1, 2], [2], [0, 1], 4, "SysView"),
            # split form of send: the receiver returns everything between the sender's reclaim and its push;
            # CqFits with the completion queue capacity measured on the running code
            ("N_1x1_split", Q(maxpubs=1, maxsubs=1, bufmax=1, hist=0, borrow=1, loan=1, overflow=False, strategy="retry_discard"),
             [1], [1], [1], [0], 3, "SysView", ps.inst_opts(split=True))]
    if not quick:
        inst += [
            ("N_1x2_split", Q(maxpubs=1, maxsubs=2, bufmax=1, hist=0, borrow=1, loan=2, overflow=False, strategy="retry_discard"),
             [1], [1, 2], [1], [0], 4, "SysView", ps.inst_opts(split=True)),
            ("N_1x1_concurrent", Q(maxpubs=1, maxsubs=1, bufmax=2, hist=1, borrow=2, loan=1, overflow=False, strategy="retry_discard"),
             [1], [1], [1, 2], [1], 4, "SysView", ps.inst_opts(split=True, conc=True)),
            ("F_1x2_faults", Q(maxpubs=1, maxsubs=2, bufmax=1, hist=1, borrow=1, loan=1, overflow=True),
             [1], [1, 2, 3], [1], [0], 3, "SysView", ps.inst_opts(faults=True, degs=("fail",))),
            ("X_3x1_expired", Q(maxpubs=2, maxsubs=1, bufmax=1, hist=0, borrow=1, loan=1, overflow=True, expbuf=1),
             [1, 2, 3], [1], [1], [0], 3, "SysView"),
            ("K_1x1r_discard", Q(maxpubs=1, maxsubs=1, bufmax=1, hist=1, borrow=1, loan=1, overflow=False),
             [1], [1, 2], [1], [0, 1], 5, "SysView"),
            ("K_1x2_discard", Q(maxpubs=1, maxsubs=2, bufmax=1, hist=1, borrow=1, loan=1, overflow=False),
             [1], [1, 2], [1], [1], 6, "SysView"),
            ("K_1x2_overflow", Q(maxpubs=1, maxsubs=2, bufmax=2, hist=1, borrow=1, loan=2, overflow=True),
             [1], [1, 2], [2], [1], 5, "SysView"),
            ("K_2x2_overflow", Q(maxpubs=2, maxsubs=2, bufmax=1, hist=1, borrow=1, loan=1, overflow=True),
             [1, 2], [1, 2], [1], [0, 1], 3, "SysView"),
        ]
    return inst


def tail(target, q):
    t = []
    if target == "StaleOwner":
        # the vanished subscriber's chunks are still owned: loans within the limit must succeed anyway,
        # after the update they must all be loanable again
        t += [{"a": "probe", "p": 1}, {"a": "loan", "p": 1}, {"a": "drop_sample", "s": 1, "id": 0},
              {"a": "probe", "p": 1}, {"a": "update_pub", "p": 1}, {"a": "probe", "p": 1},
              {"a": "send", "p": 1, "id": 0}, {"a": "probe", "p": 1}]
    t += ps.saturation_tail(q, pubs=(1,), subs=(1, 2))
    t += [{"a": "drop_sub", "s": 1, "mode": "zombie"}, {"a": "loan", "p": 1}, {"a": "send", "p": 1, "id": 0},
          {"a": "probe", "p": 1}, {"a": "drop_sample", "s": 1, "id": 0}, {"a": "probe", "p": 1},
          {"a": "drop_sub", "s": 2, "mode": "orderly"}, {"a": "update_pub", "p": 1}, {"a": "probe", "p": 1}]
    return t


def _part(module, func):
    """Part living in checks/<module>.py (owned by another builder), imported lazily."""
    def run_part(ctx):
        path = os.path.join(vp.VERIF, "checks", module + ".py")
        if not os.path.exists(path):
            ctx.note(f"part {module}.{func} is not available in this tree - skipped")
            return
        spec = importlib.util.spec_from_file_location(module, path)
        mod = importlib.util.module_from_spec(spec)
        spec.loader.exec_module(mod)
        getattr(mod, func)(ctx)
    return run_part


# further payload kinds: functions(ctx) reporting under ctx.pid
EXTRA_PARTS = [("request_response", _part("reqres_parts", "c02_reqres"))]


def run(ctx):
    vp.cargo_build([ps.DRIVER])
    ps.cleanup_shm()
    quick = ctx.quick
    ctx.assumptions += [
        "sequential API histories (calls from inside the unable-to-deliver handler included); chunk = distinct payload address of one publisher",
        "completion queue capacity measured on the connection type of the service (send/receive/release until refused)",
        "a Sample outliving its Subscriber is outside the statement (not digest-checked)",
        "number of chunks N read from the running code (dynamic config number_of_samples)",
    ]
    ps.mc_phase(ctx, PID, mc_instances(quick), code_dependent=True)
    variants = (("u64", "ipc"), ("slice", "local")) if quick else \
        (("u64", "ipc"), ("slice", "local"), ("slice", "ipc"), ("u64", "local"))
    trace, jobs = ps.roundtrip(ctx, PID, TARGETS, tail, NEED_EVENTS,
                               nsim=10 if quick else 120, depth=40 if quick else 60,
                               ngen=12, steps=140 if quick else 80, variants=variants,
                               scripted=ps.amplifier_jobs(variants) + ps.fault_jobs(variants)[::2 if quick else 1]
                               + ps.expired_jobs(variants) + ps.nested_jobs(variants))
    ps.concurrent_phase(ctx, PID)
    if not quick:
        ps.selftest(ctx, PID, trace, lambda r: r.get("a") == "probe" and r.get("cnt", 0) > 0,
                    lambda r: r.update(cnt=r["cnt"] - 1, cs=r["cs"][:-1]), "probe_count_changed")
        ps.selftest(ctx, PID, trace, lambda r: r.get("a") == "recv" and r.get("r") == "some",
                    lambda r: r.update(bad=[r["id"]]), "canary_mismatch")
    for _name, fn in EXTRA_PARTS:
        fn(ctx)
    ps.cleanup_shm()


def replay(ctx, path):
    return ps.replay_common(ctx, PID, path)
