"""C03 - Lock-free SPSC channels are linearizable FIFOs conserving every element."""
import json
import os

import vp

META = {
    "level": "model_checking",
    "engine": "tla-atomics-scheduler",
    "technique": "TLC model checking of an implementation-shaped TLA+ spec over a C11 view model, instantiated "
                 "with memory orderings extracted from the running code; atomic-level and API-level trace "
                 "validation of real executions enumerated by a deterministic scheduler",
    "text": "(zero-copy channel: schedules of a sender thread (try_send, reclaim) and a receiver thread (receive, release) on "
            "the real zero_copy_connection, process-local and POSIX shm, validated by TLC against ChannelLin.tla "
            "(and random sequential histories over 1..6 channels x 1..3 segments incl. acquire_used_offsets after the receiver is "
            "gone, against ConnChannels.tla): "
            "Conservation, NoDuplication, Bounded, and no failing release.) TLC exhaustively checks SpscImpl.tla (one action per shared-memory access, operational release/"
            "acquire memory model C11Mem.tla) for conservation, FIFO order, no invention/duplication, bounded "
            "cursors and data-race freedom, with the orderings read back from the current build; every "
            "preemption-bounded schedule of the real queues (5 queue flavours) is executed under the "
            "deterministic scheduler and its call/return history is validated by TLC against the linearizable "
            "FIFO of QueueLin.tla, and its atomic accesses against SpscImpl.tla.",
    "note": "Trusted: TLC, the C11Mem simplifications (no load buffering, mo = append order, SeqCst slightly "
            "stronger than C11), the instrumented atomics drop-in, serialised (sequentially consistent) replay "
            "on x86. Stale-read counterexamples are decided in the model only. Number of data cells is taken "
            "as Cap (+1 for the overflowing queue) and confirmed by the API-level traces.",
    "design_ref": "DESIGN.md 5 C03, 3.1-3.4, 3.7",
    "replay": True,
}

PLAIN = {"iq", "iqf", "q"}
OVER = {"oq", "oqf"}
LABELS = ["p_wp", "p_rp", "p_st", "p_cas_s", "p_cas_f", "c_rp", "c_wp", "c_st", "c_cas_s", "c_cas_f", "hc_s", "hc_f", "hc_rel"]


def strip_aux(recs):
    """Accesses that are not cursor accesses of the queue algorithm (the relocatable pointer's distance
    word read inside `at()`) are extra yield points only; they are re-tagged so that neither the
    extraction nor the trace specification treats them as algorithm steps."""
    out = []
    for e in recs:
        if e.get("k") == "atom" and ("relocatable_pointer.rs" in e.get("site", "") or e.get("w") == 1):
            # relocatable pointer distance; 1-byte flags (has_producer / has_consumer token, debug init flag)
            e = dict(e, k="aux")
        out.append(e)
    return out


def extract_ord(recs, overflow):
    """Positional labelling of the atomic accesses of every push/pop -> ordering table."""
    ord_tab, drift, addr = {}, [], {}
    cur = {0: None, 1: None}

    def bind(label, value):
        if label in ord_tab and ord_tab[label] != value:
            drift.append(f"label {label} seen with orderings {ord_tab[label]} and {value}")
        ord_tab.setdefault(label, value)

    def role(name, off):
        if name in addr and addr[name] != off:
            drift.append(f"location role {name} at offsets {addr[name]} and {off}")
        addr.setdefault(name, off)

    for e in recs:
        k = e.get("k")
        if k == "reset":
            cur = {0: None, 1: None}
        elif k == "call":
            cur[e["t"]] = {"a": e["a"], "n": 0}
        elif k == "ret":
            cur[e["t"]] = None
        elif k == "atom":
            c = cur.get(e["t"])
            if c is None:
                drift.append("atomic access outside of an operation")
                continue
            n, op = c["n"], e["op"]
            c["n"] += 1
            p = "p" if c["a"] == "push" else "c"
            first, second = ("wp", "rp") if p == "p" else ("rp", "wp")
            if n == 0 and op == "load":
                bind(f"{p}_{first}", e["ord"])
                role(first, e["off"])
            elif n == 1 and op == "load":
                bind(f"{p}_{second}", e["ord"])
                role(second, e["off"])
            elif n >= 2 and op == "store" and (p == "p" or not overflow):
                bind(f"{p}_st", e["ord"])
                role("wp" if p == "p" else "rp", e["off"])
            elif n >= 2 and op in ("cas", "cas_weak") and overflow:
                bind(f"{p}_cas_s", e["ord"])
                bind(f"{p}_cas_f", e["ordf"])
                role("rp", e["off"])
            else:
                drift.append(f"unexpected access #{n} {op} in {c['a']} at {e.get('site')}")
    return ord_tab, sorted(set(drift))


def extract_handover(recs):
    """orderings of the has_consumer token: acquire_consumer = CAS on a 1-byte flag, drop = store of it"""
    tab = {}
    for e in recs:
        if e.get("k") == "atom" and e.get("w") == 1:
            if e["op"] in ("cas", "cas_weak"):
                tab.setdefault("hc_s", e["ord"])
                tab.setdefault("hc_f", e["ordf"])
            elif e["op"] == "store":
                tab.setdefault("hc_rel", e["ord"])
    return tab if len(tab) == 3 else None


def mc_module(ctx, name, cap, overflow, npush, npop, ord_tab, invariants, handover=False):
    ordv = ", ".join(f'{l} |-> "{ord_tab.get(l, "SeqCst")}"' for l in LABELS)
    d = ctx.path("mc", name, "x")[:-2]
    with open(os.path.join(d, f"{name}.tla"), "w") as f:
        f.write(f"---- MODULE {name} ----\nEXTENDS SpscImpl\nOrdVal == [{ordv}]\n====\n")
    with open(os.path.join(d, f"{name}.cfg"), "w") as f:
        f.write("SPECIFICATION Spec\nCONSTANTS\n"
                f" Cap = {cap}\n NSlots = {cap + (1 if overflow else 0)}\n"
                f" Overflow = {'TRUE' if overflow else 'FALSE'}\n NPush = {npush}\n NPop = {npop}\n"
                f" NCons = {2 if handover else 1}\n Handover = {'TRUE' if handover else 'FALSE'}\n"
                " Ord <- OrdVal\n"
                f"INVARIANTS {' '.join(invariants)}\nCHECK_DEADLOCK FALSE\n")
    return d


def trace_module(ctx, name, cap, overflow, ord_tab):
    ordv = ", ".join(f'{l} |-> "{ord_tab.get(l, "SeqCst")}"' for l in LABELS)
    d = ctx.path("tr", name, "x")[:-2]
    with open(os.path.join(d, f"{name}.tla"), "w") as f:
        f.write(f"---- MODULE {name} ----\nEXTENDS SpscImplTrace\nOrdVal == [{ordv}]\n====\n")
    with open(os.path.join(d, f"{name}.cfg"), "w") as f:
        f.write("SPECIFICATION TraceSpec\nCONSTANTS\n"
                f" Cap = {cap}\n NSlots = {cap + (1 if overflow else 0)}\n"
                f" Overflow = {'TRUE' if overflow else 'FALSE'}\n NPush = 99\n NPop = 99\n NCons = 1\n Handover = FALSE\n"
                " Ord <- OrdVal\n"
                "CONSTRAINT Progress\nPOSTCONDITION Accepted\nCHECK_DEADLOCK FALSE\n")
    return d


INVS = ["TypeOK", "NoInvention", "NoDuplication", "Bounded", "Conservation"]


def cex_summary(res):
    keep = ("pc", "pw", "pr", "cr", "cw", "cval", "popped", "evicted", "nextv", "pushres")
    out = []
    for hdr, lines in res.cex:
        vals = [l.strip()[3:] for l in lines if l.startswith("/\\ ") and l[3:].split(" ")[0] in keep]
        out.append({"action": hdr.split(" line ")[0], "state": vals})
    return out


def run_exec(ctx, kind, cap, push, pop, mode, bound, runs, atoms, tag):
    out = ctx.path("traces", f"{tag}.ndjson")
    args = ["spsc", "--kind", kind, "--cap", cap, "--push", push, "--pop", pop, "--mode", mode,
            "--bound", bound, "--runs", runs, "--out", out]
    if atoms:
        args.append("--atoms")
    args.append("--yield-after")   # also preempt between a publishing store and the plain accesses after it
    _, so, _ = vp.run_driver("drv-lockfree", args, timeout=1800, env={"VERIF_SEED": ctx.seed})
    return out, vp.last_json_line(so)


def validate_api_batch(ctx, items):
    """API-level validation of all recorded executions against the property layer (one JVM): V1."""
    allp = ctx.path("traces", "all-api.ndjson")
    ranges = vp.concat_traces(items, allp)
    v = vp.tlc_trace("lockfree", "QueueLinTrace", allp, timeout=1800)
    vp.record_tlc(ctx, f"QueueLinTrace[{len(items)} files]", v.res, count=False)
    if v.accepted:
        ctx.traces_validated += sum(m[1]["executions"] for _, m in items)
        return True
    _, meta, _ = vp.locate(ranges, v.pos or 1)
    kind, summary = meta if meta else ("?", {"cap": 0, "push": 0, "pop": 0})
    recs = vp.read_ndjson(allp)
    run, rel = vp.run_containing(recs, v.pos) if v.pos else (recs[:50], 0)
    sched = [r for r in run if r.get("k") == "end"]
    ctx.report(vp.Violation(
        f"{kind}: recorded history is not explainable by a linearizable FIFO (event #{rel} of the run: {v.record})",
        replay={"kind": kind, "summary": summary, "run": [r for r in run if r.get("k") != "atom"],
                "first_unexplained": v.record, "schedule": sched[0]["sched"] if sched else None,
                "invariant": v.invariant,
                "cmd": f"harness/target/debug/drv-lockfree spsc --kind {kind} --cap {summary['cap']} --push "
                       f"{summary['push']} --pop {summary['pop']} --mode replay --sched <schedule> --out /dev/stdout"},
        signature=f"lin:{kind}"))
    return False


def zero_copy_channel(ctx):
    """second half of the statement: one channel of a zero-copy connection (sender thread / receiver thread)"""
    quick = ctx.quick

    def on_reject(meta, v, run, rel):
        what, summ = meta if meta else ("?", {})
        end = [r for r in run if r.get("k") == "end"]
        ctx.report(vp.Violation(
            f"{what}: history of the real zero-copy channel is not explainable by ChannelLin (offset lost, duplicated, "
            f"out of order, or a release failed for lack of space) at record #{rel}: {v.record}",
            replay={"what": what, "summary": summ, "run": run, "first_unexplained": v.record, "invariant": v.invariant,
                    "schedule": end[0].get("sched") if end else None},
            signature="lin:channel"))

    bv = vp.BatchValidator(ctx, "lockfree", "ChannelLinTrace", on_reject, name="channel")
    S, C, R, L = "s", "c", "r", "l"
    cfgs = [("local", 2, 2, True, {"s": [S, S, S, C, S], "r": [R, L, R]}, 2),
            ("local", 1, 1, False, {"s": [S, S, C, S], "r": [R, L, R, L]}, 2),
            ("shm", 2, 1, True, {"s": [S, S, S, C], "r": [R, R, L]}, 2),
            # completion queue saturation: every release before the first reclaim
            ("local", 1, 1, False, {"s": [S, S, S, S, S], "r": [R, L, R, L, R, L]}, 2),
            ("local", 1, 2, True, {"s": [S, S, S, S, S], "r": [R, R, L, L, R, L]}, 2)]
    if not quick:
        cfgs += [("local", 2, 2, False, {"s": [S, S, S, C, S, C], "r": [R, R, L, R, L]}, 3),
                 ("shm", 1, 2, True, {"s": [S, S, S, C, C, S], "r": [R, R, L, L]}, 3),
                 ("local", 3, 1, True, {"s": [S, S, S, S, S, C], "r": [R, L, R, L]}, 2)]
    for n, (st, buf, mb, ovf, prog, bound) in enumerate(cfgs):
        for mode, runs in (("dfs", 400 if quick else 30000), ("random", 80 if quick else 3000)):
            out = ctx.path("traces", f"zcc-{n}-{mode}.ndjson")
            args = ["zcc", "--storage", st, "--buf", buf, "--maxbor", mb, "--prog", json.dumps(prog), "--mode", mode,
                    "--bound", bound, "--runs", runs, "--out", out] + (["--overflow"] if ovf else [])
            _, so, _ = vp.run_driver("drv-event", args, timeout=1800, env={"VERIF_SEED": ctx.seed})
            summ = vp.last_json_line(so)
            ctx.evaluations += summ["executions"]
            if summ["anomalies"]:
                ctx.report(vp.Violation(f"zero-copy channel execution did not complete normally ({st} {prog})",
                                        replay={"summary": summ}, signature="anomaly:channel"))
            bv.add(out, (f"channel {st} buf={buf} maxbor={mb} overflow={ovf} {prog} [{mode}]", summ), summ["executions"])
    bv.run()
    # ---- several channels x several segments, sequential random histories (ConnChannels.tla): per-channel borrow limit,
    # release never fails (the sender reclaims before every push, as every port does), and after the receiver is gone
    # acquire_used_offsets hands back exactly the items that are still out, with the right segment
    def on_reject_m(meta, v, run, rel):
        what, summ = meta if meta else ("?", {})
        ctx.report(vp.Violation(
            f"{what}: history of the real zero-copy connection with several channels / segments is not explainable by "
            f"ConnChannels (offset lost, duplicated or invented, wrong segment, borrow limit not per channel, or a release "
            f"failed for lack of space) at record #{rel}: {v.record} (configuration {run[0] if run else None})",
            replay={"what": what, "summary": summ, "run": run[:rel + 1], "first_unexplained": v.record, "invariant": v.invariant},
            signature="lin:connchannels"))
    bvm = vp.BatchValidator(ctx, "lockfree", "ConnChannelsTrace", on_reject_m, name="connchannels")
    for st in ("local", "shm"):
        out = ctx.path("traces", f"zccm-{st}.ndjson")
        _, so, _ = vp.run_driver("drv-event", ["zccm", "--storage", st, "--runs", 120 if quick else 1500, "--steps", 70, "--out", out],
                                 timeout=1800, env={"VERIF_SEED": ctx.seed})
        summ = vp.last_json_line(so)
        ctx.evaluations += summ["executions"]
        c = summ["counts"]
        need = ["send:ok", "send:evicted", "send:full", "recv:some", "recv:maxborrow", "rel:ok", "reclaim:some", "acquire_used:ok"]
        if any(not c.get(k) for k in need):
            raise vp.ToolError(f"vacuous multi-channel run ({st}): {c}")
        if summ["panics"]:
            ctx.note(f"multi-channel run ({st}): {summ['panics']} panics of the code under test (recorded)")
        bvm.add(out, (f"multi-channel connection {st}", summ), summ["executions"])
    bvm.run()


def run(ctx):
    vp.cargo_build(["drv-lockfree", "drv-event"])
    quick = ctx.quick
    ctx.assumptions += [
        "C11Mem: promise-free view model (no load buffering), modification order = append order, SeqCst "
        "synchronises through one global view",
        "schedule enumeration is preemption-bounded; replay on x86 is sequentially consistent",
        "slots: Cap data cells (Cap+1 for the overflowing queue)",
    ]
    ord_tabs = {}
    drift_any = False
    api_items = []
    # ---- 1. real executions: enumerate schedules, validate API level (V1) and atomic level (binding)
    configs = [(1, 2, 2, 2), (1, 3, 2, 1), (2, 3, 3, 1)] if quick else [(1, 3, 3, 3), (2, 4, 3, 3), (2, 5, 4, 2), (3, 5, 4, 2)]
    kinds = ["oq", "iq", "q", "oqf", "iqf"]
    yield_after = True
    for kind in kinds:
        overflow = kind in OVER
        for (cap, push, pop, bound) in configs:
            limit = 600 if quick else 20000
            tag = f"{kind}-c{cap}-p{push}-q{pop}-b{bound}"
            trace, summ = run_exec(ctx, kind, cap, push, pop, "dfs", bound, limit, True, tag)
            if summ["anomalies"]:
                recs = vp.read_ndjson(trace)
                bad = [r for r in recs if r.get("k") == "end" and (r["outcome"] != "completed" or r["panics"])]
                ctx.report(vp.Violation(f"{kind}: execution did not complete: {bad[0]}",
                                        replay={"kind": kind, "end": bad[0], "summary": summ},
                                        signature=f"anomaly:{kind}"))
            recs = strip_aux(vp.read_ndjson(trace))
            vp.write_ndjson(trace, recs)
            tab, drift = extract_ord(recs, overflow)
            ctx.evaluations += summ["executions"]
            scheds = {tuple(r["sched"]) for r in recs if r.get("k") == "end"}
            ctx.distinct += len(scheds)
            if drift:
                drift_any = True
                print(f"DRIFT: {kind}: access structure differs from SpscImpl.tla: {drift[:3]}")
                ctx.note(f"drift {kind}: {drift[:5]}")
            prev = ord_tabs.setdefault(kind, tab)
            if prev != tab:
                ctx.note(f"ordering table differs between runs for {kind}: {prev} vs {tab}")
            api_items.append((trace, (kind, summ)))
            # atomic-level conformance of the impl-shaped spec (structure; drift if it fails)
            if not drift and (not quick or cap == configs[0][0] and push == configs[0][1]):
                d = trace_module(ctx, f"TR_{kind}_{cap}", cap, overflow, tab)
                v = vp.tlc_trace(d, f"TR_{kind}_{cap}", trace, libs=["lockfree"])
                vp.record_tlc(ctx, f"SpscImplTrace[{tag}]", v.res, count=False)
                if not v.accepted:
                    drift_any = True
                    print(f"DRIFT: {kind}: atomic-level trace not explained by SpscImpl.tla at record {v.pos}: {v.record}")
                    ctx.note(f"atomic-level drift {kind} at {v.pos}: {v.record}")
            if len(ctx.samples) < 3:
                run0 = vp.split_runs(recs)[min(5, len(scheds) - 1)]
                ctx.sample({"kind": kind, "cap": cap,
                            "history": [f"t{r['t']}:{r['k']}:{r['a']}:{r.get('r', r.get('v'))}" for r in run0
                                        if r.get("k") in ("call", "ret")]})
        # consumer hand-over between two threads (acquire_consumer / drop of the handle)
        out = ctx.path("traces", f"{kind}-handover.ndjson")
        _, so, _ = vp.run_driver("drv-lockfree", ["spsc", "--kind", kind, "--cap", 2, "--push", 3, "--pop", 1, "--mode", "random",
                                                 "--runs", 80 if quick else 2000, "--handover", "--atoms", "--out", out],
                                 timeout=1800, env={"VERIF_SEED": ctx.seed})
        summ = vp.last_json_line(so)
        ctx.evaluations += summ["executions"]
        hrecs = vp.read_ndjson(out)
        ho = extract_handover(hrecs)
        if ho:
            ord_tabs[kind].update(ho)
        else:
            ctx.note(f"{kind}: orderings of the consumer token not extracted (hand-over model not applicable)")
        api_items.append((out, (kind, summ)))
        # random long schedules
        n = 60 if quick else 3000
        trace, summ = run_exec(ctx, kind, 2, 8, 8, "random", 0, n, False, f"{kind}-random")
        ctx.evaluations += summ["executions"]
        api_items.append((trace, (kind, summ)))
    validate_api_batch(ctx, api_items)
    zero_copy_channel(ctx)

    # ---- 2. TLC on the implementation-shaped model with the EXTRACTED orderings (V2)
    mcs = [("plain", False, 1, 3, 3), ("plain", False, 2, 3, 3), ("over", True, 1, 3, 2), ("over", True, 2, 4, 3),
           ("plain-handover", False, 2, 2, 1), ("over-handover", True, 1, 3, 1)]
    if not quick:
        mcs += [("plain", False, 2, 4, 4), ("plain", False, 3, 4, 4), ("over", True, 1, 4, 3),
                ("over", True, 2, 5, 4), ("over", True, 3, 5, 4)]
    done = set()
    for kind in kinds:
        overflow = kind in OVER
        tab = ord_tabs.get(kind, {})
        key0 = (overflow, json.dumps(tab, sort_keys=True))
        if key0 in done:
            continue
        done.add(key0)
        for (nm, ov, cap, npush, npop) in mcs:
            if ov != overflow:
                continue
            ho = nm.endswith("handover")
            if ho and "hc_s" not in tab:
                continue
            name = f"MC_{kind}_{cap}_{npush}_{npop}" + ("_ho" if ho else "")
            invs = INVS + ([] if overflow else ["NoDataRace"])
            d = mc_module(ctx, name, cap, overflow, npush, npop, tab, invs, handover=ho)
            res = vp.tlc(d, name, workers=8, timeout=900 if quick else 2400, libs=["lockfree"])
            vp.record_tlc(ctx, f"SpscImpl[{kind} cap={cap} push={npush} pop={npop} ord=extracted]", res)
            if res.timed_out:
                raise vp.ToolError(f"TLC timed out on {name}")
            if res.violated:
                weak = [f"{l}={tab.get(l)}" for l in LABELS if l in tab]
                ctx.report(vp.Violation(
                    f"{kind}: TLC refutes {res.violated} for the queue with the memory orderings used by the code "
                    f"({', '.join(weak)}), Cap={cap}, {npush} pushes, {npop} pops",
                    replay={"kind": kind, "invariant": res.violated, "orderings": tab, "cap": cap,
                            "counterexample": cex_summary(res),
                            "cmd": f"tlc {name} (generated by bin/check C03 in work/C03-{ctx.tier}/mc/{name})"},
                    signature=f"c11:{'overflow' if overflow else 'plain'}{'-handover' if ho else ''}:{res.violated}:"
                              + ",".join(f"{l}={tab.get(l)}" for l in ("c_rp", "c_wp", "p_cas_s") if overflow)))
                break
            if not res.ok:
                raise vp.ToolError(f"TLC failed on {name}: {res.error}\n{res.output[-3000:]}")
            need = ["PLoadWp", "PStoreWp", "CLoadWp", "CReadSlot"] + (["PCasRp", "CCasRp"] if overflow else ["CStoreRp"]) \
                + (["CAcquire", "CRelease"] if ho else (["PReadEvicted"] if overflow else []))
            vp.check_action_coverage(res, need, name)

    # ---- 3. non-vacuity: weakened instances MUST be refuted (thorough only)
    if not quick:
        for (label, overflow) in (("p_st", False), ("c_wp", False), ("p_st", True), ("c_cas_f", True)):
            base = dict(ord_tabs.get("oq" if overflow else "iq", {}))
            base[label] = "Relaxed"
            name = f"MF_{'over' if overflow else 'plain'}_{label}"
            d = mc_module(ctx, name, 1, overflow, 3, 3, base, INVS + ([] if overflow else ["NoDataRace"]))
            res = vp.tlc(d, name, workers=8, timeout=600, libs=["lockfree"])
            vp.record_tlc(ctx, f"must-fail {name}", res, count=False)
            if not res.violated:
                ctx.note(f"must-fail instance {name} was NOT refuted (model blind to this weakening)")
    if drift_any:
        ctx.note("DRIFT: the weak-memory argument does not apply to the drifting queue flavour of this build")
    ctx.coverage["orderings_extracted"] = ord_tabs
    ctx.coverage["rule"] = ("executions = schedules of the real queues (DFS with preemption bound + seeded random), "
                            "distinct = distinct schedules; states/transitions = TLC on SpscImpl with extracted orderings")


def replay(ctx, path):
    body = json.load(open(path))
    print(json.dumps({k: body.get(k) for k in ("what", "kind", "schedule", "cmd", "orderings")}, indent=1))
    if body.get("schedule") and body.get("summary"):
        s = body["summary"]
        vp.cargo_build(["drv-lockfree"])
        _, so, _ = vp.run_driver("drv-lockfree", ["spsc", "--kind", body["kind"], "--cap", s["cap"], "--push", s["push"],
                                                 "--pop", s["pop"], "--mode", "replay", "--sched",
                                                 ",".join(map(str, body["schedule"])), "--out", "/dev/stdout"])
        print(so)
    return 0
