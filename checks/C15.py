"""C15 - Shm allocators: disjoint, aligned, in-bounds memory; resizing keeps data."""
import json
import os
import re
import glob

import vp

META = {
    "level": "model_checking",
    "engine": "tla-roundtrip",
    "technique": "TLC model checking of an integer TLA+ model of the pool / bump / one-chunk allocators over all "
                 "layouts of a bounded range, instantiated with parameters probed from the running code; lock-step "
                 "replay of TLC-generated behaviours on the real allocators; TLC trace validation of recorded "
                 "allocator histories and of a real publisher/subscriber pair across data-segment growth",
    "text": "TLC checks AllocImpl.tla (the arithmetic of bb/memory PoolAllocator + UniqueIndexSet free list, "
            "bb/elementary and cal bump allocators, OneChunkAllocator) against the clauses InBounds, Aligned, "
            "SizeSufficient, Disjoint, Reusable, FailsCleanly of Alloc.tla for ALL layouts with segment start offsets "
            "0..15, bucket sizes 1..9, alignments 1..16 and request sizes 0..bucket+1 (bounded); TLC-simulated "
            "behaviours of that model are replayed in lock-step on the six real allocator front ends at every start "
            "offset; seeded random histories on large layouts (alignment up to 4096, sizes that are not multiples of "
            "the alignment, partial last bucket) and the events of a real publisher with a BestFit / PowerOfTwo / "
            "Static data segment whose subscriber holds samples across the growth are validated by TLC against "
            "AllocTrace.tla / GrowthTrace.tla, whose clauses are evaluated on every step.",
    "note": "Bounded model checking (small layouts) plus sampled conformance; trusted: TLC, the transcription of the "
            "allocator arithmetic into AllocImpl.tla (bound by lock-step: result kind exactly, address as drift "
            "indicator), the drivers' event recording. Assumption A1: a segment is at least as large as the alignment "
            "padding of its start - outside it PoolAllocator::new_uninit / FixedSizePoolAllocator::new underflow "
            "(`ptr + size - adjusted_start`, pool_allocator.rs; panic with overflow checks, huge bucket count without); "
            "FixedSizePoolAllocator::<N>::new also panics when the memory provides >= N buckets (its internal bump "
            "allocator holds N instead of N+1 index cells). Both are constructor defects outside the statement of C15 "
            "(not allocation requests); the probe records them as notes and they are not raised. Address-level claims are for "
            "single-threaded histories; concurrent index hand-out is C09. Growth is observed through one publisher and "
            "one subscriber in one process (two mappings of every segment). Growth scenarios whose chunk alignment is "
            ">= 16 (payload start in the shared memory not aligned to it) are validated separately: there the dynamic "
            "segment was found to lose one chunk per reallocation (signature growth:unaligned-payload-start:GrowthServes); "
            "their data-integrity clauses are still checked in a second pass.",
    "design_ref": "DESIGN.md 5 C15, 3.4, 3.5, 7 (hypothesis 7)",
    "replay": True,
}

SIG_STRIDE = "pool:bucket-stride-unaligned:Aligned"
SIG_ONE = "one-chunk:padding-exceeds-size:FailsCleanly"
SIG_GROWTH = "growth:unaligned-payload-start:GrowthServes"
DOC_ERRORS = ("SizeIsZero", "SizeTooLarge", "AlignmentFailure", "OutOfMemory")
ALLOC_INVS = "InBounds Disjoint Aligned SizeSufficient FailsCleanly"


def tla_bool(b):
    return "TRUE" if b else "FALSE"


def align_up(v, a):
    return v if v % a == 0 else v + a - v % a


def last_state(res):
    """Variables of the last state of a TLC counterexample as {name: text}."""
    if not res.cex:
        return {}
    out, cur = {}, None
    for line in res.cex[-1][1]:
        m = re.match(r"^/\\ (\w+) = (.*)$", line)
        if m:
            cur = m.group(1)
            out[cur] = m.group(2)
        elif cur:
            out[cur] += " " + line.strip()
    return out


def probe(ctx):
    _, so, _ = vp.run_driver("drv-alloc", ["probe"], timeout=120)
    pr = vp.last_json_line(so)
    strides = {i: pr.get(f"stride_{i}", {}).get("stride") for i in ("pool", "shmpool", "fpool")}
    vals = set(strides.values())
    if vals == {5}:
        stride_raw = True
    elif vals == {8}:
        stride_raw = False
    else:
        stride_raw = None
    one = pr.get("one_pad_exceeds_size")
    one_guarded = one in DOC_ERRORS
    return pr, strides, stride_raw, one_guarded


def gen_module(ctx, sub, name, base, cfg_lines):
    d = ctx.path(sub, name, "x")[:-2]
    with open(os.path.join(d, f"{name}.tla"), "w") as f:
        f.write(f"---- MODULE {name} ----\nEXTENDS {base}\n====\n")
    with open(os.path.join(d, f"{name}.cfg"), "w") as f:
        f.write("\n".join(cfg_lines) + "\n")
    return d


def mc_run(ctx, tag, stride_raw, guarded, quick, small=False):
    name = f"MCI_{tag}"
    cfg = ["SPECIFICATION Spec", "CONSTANTS",
           f" StrideRaw = {tla_bool(stride_raw)}", f" OneChunkGuarded = {tla_bool(guarded)}",
           " Bases <- AllBases",
           f" BSizes <- {'QuickBSizes' if quick else 'AllBSizes'}",
           " Aligns <- PowAligns", " ReqAligns <- PowAligns",
           f" MaxBuckets = {3 if (quick or small) else 4}",
           f" BumpSizes <- {'QuickSmallSizes' if (quick or small) else 'ThoroughSmallSizes'}",
           f"INVARIANTS {ALLOC_INVS} ReusableImpl", "CHECK_DEADLOCK FALSE"]
    d = gen_module(ctx, "mc", name, "MC_AllocImpl", cfg)
    res = vp.tlc(d, name, workers=8, timeout=600 if quick else 1500, libs=["data"])
    vp.record_tlc(ctx, f"AllocImpl[{tag} StrideRaw={stride_raw} OneChunkGuarded={guarded}]", res,
                  count=not res.violated)
    if res.timed_out:
        raise vp.ToolError(f"TLC timed out on {name}")
    return res


def model_check(ctx, stride_raw, one_guarded):
    quick = ctx.quick
    # the model with both parameters in their guarded form: the design must satisfy every clause
    res = mc_run(ctx, "design", False, True, quick)
    if not res.ok:
        raise vp.ToolError(f"TLC does not accept the design instance of AllocImpl: {res.violated} {res.error}\n"
                           + res.output[-3000:])
    vp.check_action_coverage(res, ["DoPoolAllocate", "DoPoolDeallocate", "DoBumpAllocate", "BumpReset",
                                   "DoOneAllocate", "OneDeallocate"], "MC_AllocImpl design")
    # the model instantiated with what the running code does (V2)
    for tag, sr, og in (("stride", stride_raw, True), ("onechunk", False, one_guarded)):
        if (sr, og) == (False, True):
            continue
        res = mc_run(ctx, f"code_{tag}", sr, og, quick, small=True)
        if res.ok:
            ctx.note(f"model with probed parameter {tag} satisfies every clause")
            continue
        if not res.violated:
            raise vp.ToolError(f"TLC failed on MCI_code_{tag}: {res.error}\n" + res.output[-3000:])
        st = last_state(res)
        if tag == "stride" and res.violated == "Aligned":
            sig, what = SIG_STRIDE, ("pool allocator: bucket count uses the size rounded up to the alignment, but buckets "
                                     "are addressed with the unrounded size: for a bucket layout whose size is not a "
                                     "multiple of its alignment the second bucket is misaligned")
        elif tag == "onechunk" and res.violated == "FailsCleanly":
            sig, what = SIG_ONE, ("OneChunkAllocator::allocate: a request whose alignment padding exceeds the managed "
                                  "memory does not fail with a documented error (unsigned underflow: panic with overflow "
                                  "checks, out-of-bounds pointer without)")
        else:
            sig, what = f"model:{tag}:{res.violated}", f"TLC refutes {res.violated} for AllocImpl with the probed parameters"
        ctx.report(vp.Violation(
            f"{what} [TLC: {res.violated} violated, layout {st.get('lay')}, request/result {st.get('why')}]",
            replay={"source": "TLC on AllocImpl.tla with probed parameters", "invariant": res.violated,
                    "StrideRaw": sr, "OneChunkGuarded": og, "state": st,
                    "cmd": "harness/target/debug/drv-alloc probe"},
            signature=sig))


def generate(ctx, stride_raw, one_guarded):
    quick = ctx.quick
    depth = 12 if quick else 16
    name = "GEN"
    cfg = ["SPECIFICATION GSpec", "CONSTANTS",
           f" StrideRaw = {tla_bool(bool(stride_raw))}", f" OneChunkGuarded = {tla_bool(one_guarded)}",
           " Bases <- AllBases", " BSizes <- AllBSizes", " Aligns <- PowAligns", " ReqAligns <- PowAligns",
           " MaxBuckets = 3", " BumpSizes <- SmallSizes", f" Depth = {depth}",
           "INVARIANTS Emit", "CHECK_DEADLOCK FALSE"]
    d = gen_module(ctx, "gen", name, "MC_AllocGen", cfg)
    num = 350 if quick else 1000
    res = vp.tlc(d, name, workers=4, timeout=900, simulate=f"num={num}", libs=["data"],
                 extra=["-depth", str(depth + 3), "-seed", str(ctx.seed)])
    vp.record_tlc(ctx, f"AllocGen[simulate num={num}x4 depth={depth}]", res, count=False)
    if res.timed_out or res.violated or (res.error and not res.prints):
        raise vp.ToolError(f"behaviour generation failed: {res.violated} {res.error}\n{res.output[-3000:]}")
    behs = []
    for p in res.prints:
        m = re.match(r'<<"BEH", "(.*)">>$', p)
        if not m:
            continue
        b = json.loads(m.group(1).encode().decode("unicode_escape"))
        c = b["cfg"]
        if c["kind"] == "pool" and c["bsize"] % c["balign"]:
            b["cls"] = "awk"
        elif c["kind"] == "one" and any(s["a"] == "alloc" and align_up(c["base"], s["align"]) - c["base"] > c["size"]
                                        for s in b["steps"]):
            b["cls"] = "tight"
        else:
            b["cls"] = "main"
        behs.append(b)
    if len(behs) < 100:
        raise vp.ToolError(f"only {len(behs)} behaviours generated\n{res.output[-2000:]}")
    path = ctx.path("gen", "behaviours.ndjson")
    vp.write_ndjson(path, behs)
    return path, behs


def rec_of_state(recs, st):
    """The record consumed last before the violating state (variable l of the trace spec)."""
    try:
        pos = int(st.get("l", "0")) - 1
    except ValueError:
        return None, None
    if 1 <= pos <= len(recs):
        return pos, recs[pos - 1]
    return None, None


def validate(ctx, module, path, label, cfg=None):
    v = vp.tlc_trace("data", module, path, cfg=cfg, timeout=1200 if ctx.quick else 2400, heap="6g")
    vp.record_tlc(ctx, f"{module}[{label}{' ' + cfg if cfg else ''}]", v.res, count=False)
    return v


def report_trace(ctx, v, path, label, signature_prefix):
    recs = vp.read_ndjson(path)
    st = last_state(v.res)
    pos, rec = rec_of_state(recs, st) if v.invariant else (v.pos, v.record)
    run, rel = vp.run_containing(recs, pos) if pos else (recs[:40], 0)
    clause = v.invariant or "unexplained-event"
    ctx.report(vp.Violation(
        f"{label}: recorded history violates {clause} (record #{pos}: {rec}; layout {run[0] if run else None}; {st.get('why', st.get('gwhy'))})",
        replay={"trace_class": label, "clause": clause, "record": rec, "run": run[:rel + 3], "state": st,
                "cmd": f"TRACE=<run as ndjson> tlc AllocTrace / GrowthTrace (spec/data), see bin/check C15 --replay"},
        signature=f"{signature_prefix}:{clause}"))
    return clause, rec, run, st


def count_runs(path):
    n = 0
    with open(path) as f:
        for line in f:
            if '"k":"reset"' in line:
                n += 1
    return n


def concat(dst, srcs):
    with open(dst, "w") as out:
        for s in srcs:
            if os.path.exists(s):
                with open(s) as f:
                    out.write(f.read())
    return dst


def cleanup_shm(prefix):
    for p in glob.glob(f"/dev/shm/{prefix}*"):
        try:
            os.remove(p)
        except OSError:
            pass


def run(ctx):
    vp.cargo_build(["drv-alloc"])
    quick = ctx.quick
    ctx.assumptions += [
        "A1: a segment handed to an allocator is at least as large as the alignment padding of its start address "
        "(PoolAllocator::new_uninit underflows otherwise; static data segments add align-1 bytes)",
        "single-threaded allocator histories (concurrent index hand-out is C09); LIFO free list as in UniqueIndexSet",
        "growth is observed with one publisher and one subscriber inside one process",
    ]
    # ---- 0. parameters of the running code
    pr, strides, stride_raw, one_guarded = probe(ctx)
    ctx.coverage["probe"] = pr
    if stride_raw is None:
        print(f"DRIFT: bucket stride of the pool allocators is neither the raw nor the aligned bucket size: {strides}")
        ctx.note(f"drift: probed strides {strides}; AllocImpl.tla instantiated with the aligned stride")
    for k in ("create_pad_exceeds_size_pool", "create_pad_exceeds_size_shmpool", "create_pad_exceeds_size_fpool",
              "create_fpool_at_capacity"):
        if pr.get(k) == "panic":
            ctx.note(f"outside the validated domain (note only): {k} -> constructor panics")

    # ---- 1. TLC on the implementation-shaped model, all layouts of the bounded instance
    model_check(ctx, bool(stride_raw), one_guarded)

    # ---- 2. spec -> impl: TLC-generated behaviours replayed in lock-step on the real allocators
    beh_path, behs = generate(ctx, stride_raw, one_guarded)
    tr = {c: ctx.path("traces", f"lockstep_{c}.ndjson") for c in ("main", "awk", "tight")}
    mism = ctx.path("traces", "lockstep_mismatch.ndjson")
    _, so, _ = vp.run_driver("drv-alloc", ["lockstep", "--in", beh_path, "--out", tr["main"], "--out-awk", tr["awk"],
                                          "--out-tight", tr["tight"], "--mism", mism], timeout=900)
    ls = vp.last_json_line(so)
    ctx.coverage["lockstep"] = {k: ls[k] for k in ("behaviours", "executions", "steps", "mismatch_result",
                                                   "mismatch_address", "per_action")}
    ctx.evaluations += ls["executions"]
    ctx.distinct += len({json.dumps(b["cfg"], sort_keys=True) for b in behs})
    mm = vp.read_ndjson(mism)
    hard = [m for m in mm if m["class"] == "create" or
            (m["class"] == "result" and (m["expect"]["r"] == "ok") != (m["got"]["r"] == "ok"))]
    soft = [m for m in mm if m not in hard]
    for m in hard[:3]:
        ctx.report(vp.Violation(
            f"lock-step: {m['impl']} on layout {m['cfg']} answers {m.get('got')} where the model computes "
            f"{m.get('expect')} for request {m.get('request')} (behaviour {m['beh']} step {m.get('step')})",
            replay={"mismatch": m, "behaviour": behs[m["beh"]],
                    "cmd": "harness/target/debug/drv-alloc lockstep --in <behaviour.ndjson> --out o --out-awk a --out-tight t --mism m"},
            signature=f"lockstep:{m['impl']}:{m.get('expect', {}).get('r')}->{m.get('got', {}).get('r') if isinstance(m.get('got'), dict) else m.get('got')}"))
    if soft:
        kinds = sorted({f"{m['class']}:{m['impl']}" for m in soft})
        ctx.note(f"lock-step differences the property leaves open (error precedence / bucket choice), judged by the "
                 f"trace specification: {len(soft)} in {kinds}; first: {soft[0]}")
    ctx.sample({"lockstep_behaviour": behs[0]})

    # ---- 3. impl -> spec: seeded random histories on layouts outside the bounded instance
    rn = {c: ctx.path("traces", f"random_{c}.ndjson") for c in ("main", "awk", "tight")}
    _, so, _ = vp.run_driver("drv-alloc", ["random", "--runs", 360 if quick else 1500, "--ops", 50 if quick else 70,
                                          "--out", rn["main"], "--out-awk", rn["awk"], "--out-tight", rn["tight"]],
                             timeout=900, env={"VERIF_SEED": ctx.seed})
    rs = vp.last_json_line(so)
    ctx.coverage["random"] = rs
    ctx.evaluations += rs["runs"]
    ctx.distinct += rs["distinct_layouts"]
    need = ["alloc:ok", "alloc:OutOfMemory", "alloc:SizeTooLarge", "alloc:AlignmentFailure", "alloc:SizeIsZero",
            "free:ok", "freeall:ok"]
    for src, per in (("lockstep", ls["per_action"]), ("random", rs["per_action"])):
        missing = [a for a in need if not per.get(a)]
        if missing:
            raise vp.ToolError(f"vacuous {src} run: never observed {missing}")
    for k in ("awkward_runs", "partial_bucket_layouts", "unaligned_base", "big_alignment_layouts"):
        if not rs.get(k):
            raise vp.ToolError(f"vacuous random run: {k} = 0")

    files = {c: concat(ctx.path("traces", f"all_{c}.ndjson"), [tr[c], rn[c]]) for c in ("main", "awk", "tight")}
    # main class: every clause must hold
    v = validate(ctx, "AllocTrace", files["main"], "main")
    if v.accepted:
        ctx.traces_validated += count_runs(files["main"])
    else:
        report_trace(ctx, v, files["main"], "allocator history (bucket size multiple of alignment)", "trace:main")
    recs = vp.read_ndjson(files["main"])
    runs = vp.split_runs(recs)
    if len(runs) > 7:
        ctx.sample({"recorded_run": runs[7][:12]})
    # awkward class: bucket size not a multiple of the bucket alignment
    v = validate(ctx, "AllocTrace", files["awk"], "awkward")
    if v.accepted:
        ctx.traces_validated += count_runs(files["awk"])
        if stride_raw:
            ctx.note("probe reported the raw stride but no awkward history broke Aligned")
    elif v.invariant == "Aligned":
        recs_a = vp.read_ndjson(files["awk"])
        st = last_state(v.res)
        pos, rec = rec_of_state(recs_a, st)
        run_a, rel = vp.run_containing(recs_a, pos) if pos else ([], 0)
        ctx.report(vp.Violation(
            f"pool allocator returned a misaligned bucket: layout {run_a[0] if run_a else None}, request {rec}",
            replay={"trace_class": "awkward", "clause": "Aligned", "record": rec, "run": run_a[:rel + 2], "state": st,
                    "cmd": "harness/target/debug/drv-alloc probe"},
            signature=SIG_STRIDE))
        # everything else must still hold on those layouts
        v2 = validate(ctx, "AllocTrace", files["awk"], "awkward", cfg="AllocTrace_noaligned.cfg")
        if v2.accepted:
            ctx.traces_validated += count_runs(files["awk"])
        else:
            report_trace(ctx, v2, files["awk"], "allocator history (awkward bucket layout)", "trace:awk")
    else:
        report_trace(ctx, v, files["awk"], "allocator history (awkward bucket layout)", "trace:awk")
    # tight class: one-chunk requests whose padding exceeds the segment
    if os.path.getsize(files["tight"]) > 0:
        v = validate(ctx, "AllocTrace", files["tight"], "tight")
        if v.accepted:
            ctx.traces_validated += count_runs(files["tight"])
        else:
            st = last_state(v.res)
            if v.invariant == "FailsCleanly" and '"panic"' in st.get("why", ""):
                recs_t = vp.read_ndjson(files["tight"])
                pos, rec = rec_of_state(recs_t, st)
                run_t, rel = vp.run_containing(recs_t, pos) if pos else ([], 0)
                ctx.report(vp.Violation(
                    f"OneChunkAllocator::allocate panics instead of failing with a documented error: segment "
                    f"{run_t[0] if run_t else None}, request {rec}",
                    replay={"trace_class": "tight", "clause": "FailsCleanly", "record": rec, "run": run_t[:rel + 2],
                            "state": st, "cmd": "harness/target/debug/drv-alloc probe"},
                    signature=SIG_ONE))
            else:
                report_trace(ctx, v, files["tight"], "one-chunk allocator, padding exceeds segment", "trace:tight")
    elif not one_guarded:
        ctx.note("no tight one-chunk request was generated")

    # ---- 4. growth: real publisher with a dynamic data segment, subscriber holding samples
    prefix = f"c15{'q' if quick else 't'}{ctx.seed % 1000}_"
    root = ctx.path("dom", "x")[:-2]
    gtrace = ctx.path("traces", "growth.ndjson")
    gtrace_u = ctx.path("traces", "growth_unaligned.ndjson")
    cleanup_shm(prefix)
    try:
        rc, so, se = vp.run_driver("drv-alloc", ["growth", "--root", root, "--prefix", prefix, "--out", gtrace,
                                                "--out-unaligned", gtrace_u,
                                                "--scenarios", 16 if quick else 64, "--steps", 14 if quick else 30],
                                   timeout=900, env={"VERIF_SEED": ctx.seed}, ok_codes=None)
    finally:
        cleanup_shm(prefix)
    if rc != 0:
        # the driver only calls the safe public API and re-reads the samples it holds: a fatal signal (SIGSEGV / SIGBUS when
        # the memory behind a held sample was unmapped, an abort) is the behaviour of the code under test = data, not a
        # tool problem (BUILDING.md); panics are caught inside the driver and arrive as `panic` records instead
        tails = {}
        for f in (gtrace, gtrace_u):
            try:
                lines = [l for l in open(f, errors="replace").read().splitlines() if l.strip()]
                good = []
                for l in lines[-12:]:
                    try:
                        good.append(json.loads(l))
                    except Exception:
                        pass
                tails[os.path.basename(f)] = good
            except OSError:
                pass
        if rc < 0 or rc in (134, 139, 135):
            ctx.report(vp.Violation(
                f"publisher/subscriber across data-segment growth: the process died with "
                f"{'signal ' + str(-rc) if rc < 0 else 'exit code ' + str(rc)} while using the public API (held samples are "
                f"re-read after every step: memory behind a held sample / loan is no longer mapped, or the ports aborted)",
                replay={"exit": rc, "last_records": tails, "stderr": se[-1500:]}, signature=f"growth:crash:{rc}"))
            return
        raise vp.ToolError(f"drv-alloc growth exited {rc}:\n{so[-2000:]}\n{se[-2000:]}")
    gs = vp.last_json_line(so)
    ctx.coverage["growth"] = gs
    per = gs["per_action"]
    missing = [a for a in ("loan:ok", "loan:err", "send:ok", "recv:ok", "check:ok", "pcheck:ok", "release:ok",
                           "droploan:ok", "grow_steps", "scenario:BestFit", "scenario:PowerOfTwo", "scenario:Static",
                           "scenario:staircase")
               if not per.get(a)]
    if missing or not gs.get("events_unaligned"):
        raise vp.ToolError(f"vacuous growth run: never observed {missing} (unaligned events {gs.get('events_unaligned')})")
    ctx.evaluations += gs["scenarios"]
    ctx.distinct += gs["scenarios"]
    # (a) chunk alignment <= 8 or static segment: every clause must hold
    v = validate(ctx, "GrowthTrace", gtrace, "growth")
    if v.accepted:
        ctx.traces_validated += count_runs(gtrace)
    else:
        report_trace(ctx, v, gtrace, "publisher/subscriber across data-segment growth", "growth")
    # (b) growing segment whose chunk alignment exceeds the alignment of the payload start
    v = validate(ctx, "GrowthTrace", gtrace_u, "growth, chunk alignment >= 16")
    if v.accepted:
        ctx.traces_validated += count_runs(gtrace_u)
    else:
        st = last_state(v.res)
        if v.invariant == "GrowthServes" and '"OutOfMemory"' in st.get("gwhy", ""):
            urecs = vp.read_ndjson(gtrace_u)
            pos, rec = rec_of_state(urecs, st)
            run_u, rel = vp.run_containing(urecs, pos) if pos else ([], 0)
            loans = [r for r in run_u[:rel] if r.get("a") == "loan"]
            ctx.report(vp.Violation(
                f"publisher with a growing data segment ({run_u[0] if run_u else None}): loan #{len(loans)} of "
                f"{rec.get('len') if rec else '?'} elements fails with OutOfMemory (every reallocated segment holds one "
                f"chunk fewer than requested when the chunk alignment exceeds the alignment of the payload start; at zero "
                f"chunks all reallocations are used up)",
                replay={"trace_class": "growth-unaligned", "clause": "GrowthServes", "record": rec,
                        "run": run_u[:rel + 1], "state": st},
                signature=SIG_GROWTH))
            v2 = validate(ctx, "GrowthTrace", gtrace_u, "growth, chunk alignment >= 16", cfg="GrowthTrace_data.cfg")
            if v2.accepted:
                ctx.traces_validated += count_runs(gtrace_u)
            else:
                report_trace(ctx, v2, gtrace_u, "publisher/subscriber across data-segment growth (data clauses)", "growth")
        else:
            report_trace(ctx, v, gtrace_u, "publisher/subscriber across data-segment growth", "growth")
    grecs = vp.read_ndjson(gtrace)
    ctx.sample({"growth_scenario": grecs[:10]})

    # ---- 5. the binding is not vacuous: corrupted traces must be rejected (thorough)
    if not quick:
        selftest(ctx, files["main"], gtrace)

    ctx.coverage["rule"] = ("evaluations = lock-step executions (behaviour x allocator front end) + random histories + "
                            "growth scenarios; distinct = distinct layouts (start offset, segment size, bucket size, "
                            "bucket alignment) + scenarios; states/transitions = TLC on AllocImpl (design instance and "
                            "instances with probed parameters that pass)")
    ctx.coverage["probed_parameters"] = {"StrideRaw": stride_raw, "OneChunkGuarded": one_guarded, "strides": strides}


def selftest(ctx, main_trace, growth_trace):
    recs = vp.read_ndjson(main_trace)[:400]
    idx = next((i for i, r in enumerate(recs) if r.get("a") == "alloc" and r.get("r") == "ok" and r["align"] >= 2), None)
    if idx is None:
        raise vp.ToolError("selftest: no aligned allocation in the first records")
    bad = [dict(r) for r in recs]
    bad[idx]["addr"] += 1
    p = ctx.path("selftest", "alloc_bad.ndjson")
    vp.write_ndjson(p, bad)
    v = vp.tlc_trace("data", "AllocTrace", p)
    if v.accepted or v.invariant not in ("Aligned", "InBounds", "Disjoint"):
        raise vp.ToolError(f"selftest: corrupted allocator trace was not rejected ({v.invariant})")
    g = vp.read_ndjson(growth_trace)[:300]
    idx = next((i for i, r in enumerate(g) if r.get("a") == "check"), None)
    if idx is None:
        raise vp.ToolError("selftest: no check event in the growth trace")
    bad = [dict(r) for r in g]
    bad[idx]["ok"] = 0
    p = ctx.path("selftest", "growth_bad.ndjson")
    vp.write_ndjson(p, bad)
    v2 = vp.tlc_trace("data", "GrowthTrace", p)
    if v2.accepted or v2.invariant != "HeldIntact":
        raise vp.ToolError(f"selftest: corrupted growth trace was not rejected ({v2.invariant})")
    ctx.note(f"selftest: address+1 rejected by {v.invariant}; flipped canary rejected by {v2.invariant}")


def replay(ctx, path):
    body = json.load(open(path))
    print(json.dumps({k: body.get(k) for k in ("what", "signature", "clause", "record", "cmd")}, indent=1))
    vp.cargo_build(["drv-alloc"])
    if body.get("behaviour"):
        b = dict(body["behaviour"])
        p = ctx.path("replay", "beh.ndjson")
        vp.write_ndjson(p, [b])
        _, so, _ = vp.run_driver("drv-alloc", ["lockstep", "--in", p, "--out", ctx.path("replay", "o.ndjson"),
                                              "--out-awk", ctx.path("replay", "a.ndjson"),
                                              "--out-tight", ctx.path("replay", "t.ndjson"),
                                              "--mism", ctx.path("replay", "m.ndjson")])
        print(so)
    elif body.get("run"):
        p = ctx.path("replay", "run.ndjson")
        vp.write_ndjson(p, body["run"])
        mod = "GrowthTrace" if "strategy" in body["run"][0] else "AllocTrace"
        v = vp.tlc_trace("data", mod, p)
        print(f"re-validation of the recorded run by {mod}: accepted={v.accepted} invariant={v.invariant} pos={v.pos}")
    else:
        _, so, _ = vp.run_driver("drv-alloc", ["probe"])
        print(so)
    return 0
