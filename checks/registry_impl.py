"""Implementation-shaped part of C10: RegistryImpl.tla (mpmc::Container over RobustUniqueIndexSet, one action per
shared-memory access, C11Mem) instantiated with the memory orderings and step orders EXTRACTED from atomic-level
records of the running code; the same records are validated against RegistryImplTrace.tla (conformance; a
mismatch is DRIFT).  A refutation by TLC with the extracted parameters is a V2 violation (DESIGN.md 4)."""
import json
import os

import vp

EMPTY = 2 ** 64 - 1
LABELS = ["s_gc_ld", "s_acq_s", "s_acq_f", "s_gc_inc", "s_full_s", "s_full_f", "s_rel_s", "s_rel_f",
          "a_ld", "a_cas_s", "a_cas_f", "a_pub", "a_cc", "r_ld", "r_cas_s", "r_cas_f", "r_cc",
          "u_cc", "u_ld", "u_cas_s", "u_cas_f"]
ROBUST = "mpmc/robust_unique_index_set.rs"
CONT = "mpmc/container.rs"
INVS = "NoTorn NoInvention RightSlot NoGhost Noticed SlotConsistent FinalExact"
OPS = {"add": "add", "rem0": "rem", "rem": "rem", "ref": "ref"}


def is_aux(e):
    s = e.get("site", "")
    return e["w"] != 8 or s.split(":")[0].endswith("relocatable_pointer.rs") or not (ROBUST in s or CONT in s)


def prepare(recs):
    """labels every atomic access with its role in RegistryImpl.tla; returns (records for the trace spec,
    ordering table, structural parameters, drift messages)"""
    atoms = [e for e in recs if e.get("k") == "atom" and not is_aux(e)]
    cell_offs = sorted({e["off"] for e in atoms if ROBUST in e["site"] and e["op"] in ("cas", "cas_weak")
                        and (e["expected"] == EMPTY or e["operand"] == EMPTY)})
    gc_offs = {e["off"] for e in atoms if ROBUST in e["site"]} - set(cell_offs)
    drift = []
    if len(gc_offs) > 1:
        drift.append(f"more than one non-cell location in the index set: {sorted(gc_offs)}")
    cur, cc_off = {}, None
    for e in recs:
        if e.get("k") == "call":
            cur[e["t"]] = e["a"]
        elif e.get("k") == "atom" and not is_aux(e) and CONT in e["site"] and cur.get(e["t"]) == "ref" and cc_off is None:
            cc_off = e["off"]
    gen_offs = sorted({e["off"] for e in atoms if CONT in e["site"]} - {cc_off})
    tab, params = {}, {"rem_load_first": set(), "add_marks_empty": set()}

    def bind(label, val):
        if tab.setdefault(label, val) != val:
            drift.append(f"{label}: {tab[label]} vs {val}")

    out, cur, seq, lastrd = [], {}, {}, {}
    idxs = [i for i, e in enumerate(recs)]
    for i in idxs:
        e = recs[i]
        k = e.get("k")
        if k == "reset":
            out.append({"k": "reset"})
            cur, seq = {}, {}
        elif k == "call":
            a = OPS.get(e["a"])
            if a is None:
                drift.append(f"operation {e['a']} is not part of RegistryImpl.tla")
                a = e["a"]
            cur[e["t"]] = a
            seq[e["t"]] = []
            out.append({"k": "call", "t": e["t"] + 1, "a": a})
        elif k == "ret":
            t = e["t"]
            s = seq.get(t, [])
            if cur.get(t) == "rem" and "r_ld" in s and "cell_rel" in s:
                params["rem_load_first"].add(s.index("r_ld") < s.index("cell_rel"))
            out.append({"k": "ret", "t": t + 1})
        elif k == "atom":
            if is_aux(e):
                out.append({"k": "aux"})
                continue
            t, op, off, call = e["t"], e["op"], e["off"], cur.get(e["t"])
            op = "cas" if op == "cas_weak" else op
            role, slot, rd = None, 0, e["rd"]
            if ROBUST in e["site"]:
                if off in cell_offs:
                    slot = cell_offs.index(off)
                    rd = 0 if rd == EMPTY else rd
                    if op == "cas" and e["expected"] == EMPTY:
                        role = "cell_acq"
                        bind("s_acq_s", e["ord"]), bind("s_acq_f", e["ordf"])
                    elif op == "cas" and e["operand"] == EMPTY:
                        role = "cell_rel"
                        bind("s_rel_s", e["ord"]), bind("s_rel_f", e["ordf"])
                elif op == "load":
                    # the relaxed pre-load of increment_generation_counter is folded into the RMW of the model
                    nxt = next((x for x in recs[i + 1:] if x.get("k") == "atom" and x["t"] == t and not is_aux(x)), None)
                    if nxt is not None and nxt["off"] == off and nxt["op"].startswith("cas") and nxt["operand"] == nxt["expected"] + 1:
                        out.append({"k": "aux"})
                        continue
                    role = "s_gc_ld"
                    bind("s_gc_ld", e["ord"])
                elif op == "cas" and e["operand"] == e["expected"] + 1:
                    if not e["ok"]:
                        out.append({"k": "aux"})        # retry of the increment loop
                        continue
                    role = "gc_inc"
                    bind("s_gc_inc", e["ord"])
                elif op == "cas" and e["operand"] == e["expected"]:
                    role = "gc_full"
                    bind("s_full_s", e["ord"]), bind("s_full_f", e["ordf"])
            else:
                if off == cc_off:
                    if op == "load":
                        role = "u_cc"
                        bind("u_cc", e["ord"])
                    elif op == "fetch_add":
                        role = "a_cc" if call == "add" else "r_cc"
                        bind(role, e["ord"])
                elif off in gen_offs:
                    slot = gen_offs.index(off)
                    p = {"add": "a", "rem": "r", "ref": "u"}.get(call)
                    if op == "load" and p:
                        role = f"{p}_ld"
                        bind(role, e["ord"])
                    elif op == "cas" and p:
                        role = f"{p}_cas"
                        bind(f"{p}_cas_s", e["ord"]), bind(f"{p}_cas_f", e["ordf"])
                    elif op == "fetch_add" and call == "add":
                        role = "a_pub"
                        bind("a_pub", e["ord"])
            if role is None:
                drift.append(f"unexpected access {op} at {e.get('site')} in {call}")
                out.append({"k": "aux"})
                continue
            s = seq.setdefault(t, [])
            if s and s[-1] == "a_ld" and lastrd.get(t, 0) % 2 == 1:
                params["add_marks_empty"].add(role == "a_cas")
            s.append(role)
            lastrd[t] = rd
            out.append({"k": "atom", "t": t + 1, "role": role, "slot": slot, "rd": rd if rd < 2 ** 31 else 0,
                        "ok": bool(e["ok"]), "ord": e["ord"], "ordf": e["ordf"]})
        elif k == "end":
            out.append({"k": "end"})
    return out, tab, params, sorted(set(drift))


def tla_prog(prog):
    return "<< " + ", ".join("<<" + ", ".join(f'"{OPS[o]}"' for o in t) + ">>" for t in prog) + " >>"


def gen_module(ctx, name, base, cap, w, prog, tab, rlf, ame, realtime, trace):
    ordv = ", ".join(f'{l} |-> "{tab[l]}"' for l in LABELS)
    d = ctx.path("mc", "regimpl-" + name, "x")[:-2]
    with open(os.path.join(d, f"{name}.tla"), "w") as f:
        f.write(f"---- MODULE {name} ----\nEXTENDS {base}\nOrdVal == [{ordv}]\nProgVal == {tla_prog(prog)}\n====\n")
    consts = (f"CONSTANTS\n Cap = {cap}\n W = {w}\n Prog <- ProgVal\n Ord <- OrdVal\n RemLoadFirst = {'TRUE' if rlf else 'FALSE'}\n"
              f" AddMarksEmpty = {'TRUE' if ame else 'FALSE'}\n RealTime = {'TRUE' if realtime else 'FALSE'}\n")
    with open(os.path.join(d, f"{name}.cfg"), "w") as f:
        if trace:
            f.write("SPECIFICATION TraceSpec\n" + consts + "CONSTRAINT Progress\nPOSTCONDITION Accepted\nCHECK_DEADLOCK FALSE\n")
        else:
            f.write("SPECIFICATION Spec\n" + consts + f"INVARIANTS {INVS}\nCHECK_DEADLOCK FALSE\n")
    return d


def run_impl(ctx):
    q = ctx.quick
    A, R, F = "add", "rem0", "ref"
    # ---- 1. atomic-level records of scheduled executions of the real container
    progs = [(1, [[A, R], [A], [F]], 2), (1, [[A, R, A], [F, F]], 2), (1, [[A, A], [F]], 1), (2, [[A, A, R], [A], [F]], 1)]
    tab, rlf, ame, drift_any, prepared = {}, set(), set(), False, []
    for n, (cap, prog, bound) in enumerate(progs):
        out = ctx.path("traces", f"impl-{n}.ndjson")
        _, so, _ = vp.run_driver("drv-lockfree", ["registry", "--cap", cap, "--prog", json.dumps(prog), "--mode", "dfs",
                                                 "--bound", bound, "--runs", 150 if q else 2000, "--atoms", "--out", out],
                                 timeout=1800, env={"VERIF_SEED": ctx.seed})
        summ = vp.last_json_line(so)
        if summ["anomalies"]:
            ctx.note(f"registry_impl: anomalies in the atomic-level runs of {prog} (reported by the API-level part)")
            continue
        recs, t, p, drift = prepare(vp.read_ndjson(out))
        for k, v in t.items():
            if tab.setdefault(k, v) != v:
                drift.append(f"{k}: {tab[k]} vs {v}")
        rlf |= p["rem_load_first"]
        ame |= p["add_marks_empty"]
        if drift:
            drift_any = True
            print(f"DRIFT: registry: access structure differs from RegistryImpl.tla: {drift[:3]}")
            ctx.note(f"registry_impl drift: {drift[:4]}")
        prepared.append((n, cap, prog, recs, summ["executions"]))
    missing = [l for l in LABELS if l not in tab]
    if missing or len(rlf) != 1 or len(ame) != 1:
        drift_any = True
        print(f"DRIFT: registry: parameters not observed or ambiguous: missing orderings {missing}, "
              f"remove-loads-first {sorted(rlf)}, add-marks-empty {sorted(ame)}")
        ctx.note(f"registry_impl: parameters not extracted (missing {missing}, rlf {sorted(rlf)}, ame {sorted(ame)})")
    ctx.coverage["registry_impl_parameters"] = {"orderings": tab, "remove_loads_generation_before_release": sorted(rlf),
                                                "add_marks_full_slot_empty_first": sorted(ame)}
    if drift_any:
        ctx.note("registry_impl: weak-memory argument not applicable to this build (drift)")
        return
    rlf, ame = rlf.pop(), ame.pop()
    # ---- 2. conformance of the atomic-level records with the model
    for n, cap, prog, recs, execs in prepared[:2 if q else 4]:
        tf = ctx.path("traces", f"impl-{n}-labelled.ndjson")
        vp.write_ndjson(tf, recs)
        name = f"RT_{n}"
        d = gen_module(ctx, name, "RegistryImplTrace", cap, 1, prog, tab, rlf, ame, False, True)
        v = vp.tlc_trace(d, name, tf, libs=["lockfree"], timeout=1500)
        vp.record_tlc(ctx, f"RegistryImplTrace[{prog}]", v.res, count=False)
        if not v.accepted:
            print(f"DRIFT: atomic-level trace of mpmc::Container not explained by RegistryImpl.tla at {v.pos}: {v.record}")
            ctx.note(f"registry_impl: atomic-level drift at {v.pos}: {v.record}; weak-memory argument not applicable")
            return
        ctx.traces_validated += execs
    # ---- 3. TLC with the extracted parameters (V2)
    mcs = [(1, 2, [[A, R], [A], [F]]), (1, 2, [[A, R, A], [F, F]])]
    if not q:
        mcs += [(1, 2, [[A, R], [A, R], [F]]), (1, 2, [[A, R], [A], [F, F]]), (2, 1, [[A, A, R], [A], [F]])]
    for n, (cap, w, prog) in enumerate(mcs):
        name = f"RI_{n}"
        d = gen_module(ctx, name, "RegistryImpl", cap, w, prog, tab, rlf, ame, False, False)
        res = vp.tlc(d, name, workers=6, timeout=1500 if q else 3600, libs=["lockfree"], heap="8g")
        vp.record_tlc(ctx, f"RegistryImpl[cap={cap} W={w} prog={prog} ord=extracted]", res)
        if res.timed_out:
            raise vp.ToolError(f"TLC timed out on {name}")
        if res.violated:
            weak = {k: v for k, v in tab.items() if v != "SeqCst"}
            ctx.report(vp.Violation(
                f"TLC refutes {res.violated} for the registry protocol (mpmc::Container over RobustUniqueIndexSet, "
                f"RegistryImpl.tla) instantiated with what the running code does: cell CAS of acquire {tab['s_acq_s']} / of "
                f"release {tab['s_rel_s']}, remove loads the generation counter before releasing the index: {rlf}, add marks "
                f"a slot it finds full as empty before writing: {ame}; the atomic-level traces of the code conform to that "
                f"model (program {prog}, capacity {cap}; with Relaxed cell exchanges a re-acquiring add has no happens-before "
                f"edge to the previous owner and may act on a stale generation count)",
                replay={"invariant": res.violated, "orderings": tab, "remove_loads_first": rlf, "add_marks_empty": ame,
                        "cap": cap, "W": w, "prog": prog, "counterexample": [h for h, _ in res.cex]},
                signature=f"c11:registry:{res.violated}:acq={tab['s_acq_s']},rel={tab['s_rel_s']}"))
            return
        if not res.ok:
            raise vp.ToolError(f"TLC failed on {name}: {res.error}\n{res.output[-3000:]}")
        writers = sum(1 for t in prog if A in t)
        vp.check_action_coverage(res, ["SGc", "SCell", "SInc", "ALd", "AWr", "APub", "ACc", "RLd", "RCell", "RInc",
                                       "RCas", "RCc", "UCc", "ULd", "URd", "UCas", "JoinAndRefresh"]
                                 + (["ACas"] if writers > 1 else []), name)
    # ---- 4. interleaving semantics: all four clauses for every refresh
    sc = {l: "SeqCst" for l in LABELS}
    cap, w, prog = (1, 2, [[A, R, A], [F, F]]) if q else (1, 2, [[A, R], [A], [F]])
    d = gen_module(ctx, "RI_sc", "RegistryImpl", cap, w, prog, sc, rlf, ame, True, False)
    res = vp.tlc(d, "RI_sc", workers=6, timeout=2400, libs=["lockfree"], heap="8g")
    vp.record_tlc(ctx, f"RegistryImpl[SeqCst, real-time clauses, prog={prog}]", res)
    if res.violated:
        ctx.report(vp.Violation(
            f"TLC refutes {res.violated} for the generation-counter protocol of mpmc::Container under interleaving semantics "
            f"with the step order of the code (remove loads first: {rlf}, add marks empty: {ame})",
            replay={"invariant": res.violated, "prog": prog, "counterexample": [h for h, _ in res.cex]},
            signature=f"sc:registry:{res.violated}:rlf={rlf},ame={ame}"))
        return
    if not res.ok and not res.timed_out:
        raise vp.ToolError(f"TLC failed on RI_sc: {res.error}\n{res.output[-3000:]}")
    # ---- 5. non-vacuity (thorough): the protocol's two safeguards are needed
    if not q:
        for nm, r2, a2, p2 in (("MF_rlf", False, True, [[A, R], [A], [F]]), ("MF_ame", True, False, [[A, R], [A], [F]])):
            d = gen_module(ctx, nm, "RegistryImpl", 1, 2, p2, sc, r2, a2, True, False)
            res = vp.tlc(d, nm, workers=6, timeout=2400, libs=["lockfree"], heap="8g")
            vp.record_tlc(ctx, f"must-fail {nm}", res, count=False)
            if not res.violated:
                raise vp.ToolError(f"must-fail instance {nm} was not refuted: RegistryImpl is vacuous")
    ctx.note("RegistryImpl.tla: generation-counter protocol model-checked with the extracted orderings; atomic-level traces conform")
