"""Implementation-shaped part of C09 for the crash-robust index set: RuisImpl.tla (RobustUniqueIndexSet acquire / release /
lock-if-last, one action per access, C11Mem) instantiated with the memory orderings EXTRACTED from atomic-level records of
the running code, which are also validated against RuisImplTrace.tla (mismatch = DRIFT).  A refutation by TLC is V2."""
import json
import os

import vp

EMPTY = 2 ** 64 - 1      # OwnerId::EMPTY and the LOCK indicator of the generation counter share the value u64::MAX
LABELS = ["gc_ld", "acq_s", "acq_f", "inc", "full_s", "full_f", "rel_s", "rel_f", "il_ld", "cnt_ld", "lock_s", "lock_f"]
INVS = "Exclusive InRange HeldIsMarked LockIsFinal LockedIsEmpty NoAcquireAfterLock FullOnlyWhenFull UnlockedOnlyWhenOthers"
OPS = {"acq": "acq", "rel0": "rel", "rell0": "rell", "obs": "obs"}
ROBUST = "mpmc/robust_unique_index_set.rs"


def is_aux(e):
    return e["w"] != 8 or ROBUST not in e.get("site", "")


def prepare(recs, cap):
    atoms = [e for e in recs if e.get("k") == "atom" and not is_aux(e)]
    # the generation counter is the location of the first access of an acquire
    gc_off = None
    cur = {}
    for e in recs:
        if e.get("k") == "call":
            cur[e["t"]] = e["a"]
        elif e.get("k") == "atom" and not is_aux(e) and cur.get(e["t"]) == "acq" and gc_off is None:
            gc_off = e["off"]
    cell_offs = sorted({e["off"] for e in atoms} - {gc_off})
    tab, drift, out = {}, [], []
    # LockRetries: what does lock() do after a FAILED locking CAS that did not read LOCK - snapshot again (the thread's
    # next access is another gc_ld of the same call) or return?  pending = threads whose last access was such a CAS
    retries, pending = set(), set()

    def bind(label, val):
        if tab.setdefault(label, val) != val:
            drift.append(f"{label}: {tab[label]} vs {val}")

    phase, cur, ncnt = {}, {}, {}
    for i, e in enumerate(recs):
        k = e.get("k")
        if k == "reset":
            out.append({"k": "reset"})
            phase, cur, ncnt = {}, {}, {}
            pending.clear()
        elif k == "call":
            a = e["a"]
            name = a if a in ("acq", "obs") else ("rell" if e.get("m") == 1 else "rel")
            cur[e["t"]] = name
            phase[e["t"]] = "start"
            out.append({"k": "call", "t": e["t"] + 1, "a": name})
        elif k == "ret":
            if e["t"] in pending:
                pending.discard(e["t"])
                retries.add(False)
            out.append({"k": "ret", "t": e["t"] + 1})
        elif k == "end":
            out.append({"k": "end"})
        elif k == "atom":
            if is_aux(e):
                out.append({"k": "aux"})
                continue
            t, op, off = e["t"], ("cas" if e["op"] == "cas_weak" else e["op"]), e["off"]
            ph = phase.get(t, "start")
            role, slot, rd, lk = None, 0, e["rd"], 0
            if t in pending:
                pending.discard(t)
                retries.add(op == "load" and off == gc_off)
            rdv = 999 if rd == EMPTY and off == gc_off else (0 if rd == EMPTY else rd)
            if off in cell_offs:
                slot = cell_offs.index(off)
                if op == "cas" and e["expected"] == EMPTY:
                    role = "cell_acq"
                    bind("acq_s", e["ord"]), bind("acq_f", e["ordf"])
                    if e["ok"]:
                        phase[t] = "inc"
                elif op == "cas" and e["operand"] == EMPTY:
                    role = "cell_rel"
                    bind("rel_s", e["ord"]), bind("rel_f", e["ordf"])
                    phase[t] = "inc_rel"
                elif op == "load":
                    role = "cnt_ld"
                    bind("cnt_ld", e["ord"])
                    ncnt[t] = ncnt.get(t, 0) + 1
                    if ncnt[t] == cap:
                        phase[t] = "inc_lock"
                        ncnt[t] = 0
            elif off == gc_off:
                if ph in ("inc", "inc_rel", "inc_lock"):
                    # increment_generation_counter: relaxed pre-load, CAS loop; a load that reads LOCK ends it
                    if op == "load":
                        if rd == EMPTY:
                            role, lk = "inc", 1
                        else:
                            out.append({"k": "aux"})
                            continue
                    elif op == "cas" and e["operand"] == e["expected"] + 1:
                        if not e["ok"]:
                            if e["rd"] == EMPTY:
                                role, lk = "inc", 1
                            else:
                                out.append({"k": "aux"})
                                continue
                        else:
                            role = "inc"
                            bind("inc", e["ord"])
                    if role == "inc":
                        phase[t] = {"inc": "done", "inc_rel": "after_rel", "inc_lock": "lock_dec"}[ph]
                elif op == "load" and ph == "start" and cur.get(t) == "acq":
                    role = "gc_ld"
                    bind("gc_ld", e["ord"])
                    phase[t] = "scan"
                elif op == "load" and ph == "start" and cur.get(t) == "obs":
                    role = "gc_ld"          # the observer borrowed_indices(): the snapshot loop without the locking CAS
                    bind("gc_ld", e["ord"])
                    phase[t] = "count"
                    ncnt[t] = 0
                elif op == "load" and ph == "after_rel":
                    role = "il_ld"
                    bind("il_ld", e["ord"])
                    phase[t] = "lock_loop"
                elif op == "load" and ph in ("lock_loop", "lock_dec"):
                    role = "gc_ld"
                    bind("gc_ld", e["ord"])
                    phase[t] = "count"
                    ncnt[t] = 0
                elif op == "cas" and e["operand"] == e["expected"] and ph == "scan":
                    role = "full"
                    bind("full_s", e["ord"]), bind("full_f", e["ordf"])
                elif op == "cas" and e["operand"] == EMPTY:
                    role = "lock"
                    bind("lock_s", e["ord"]), bind("lock_f", e["ordf"])
                    phase[t] = "lock_loop"
                    if not e["ok"] and rd != EMPTY:
                        pending.add(t)
            if role is None:
                drift.append(f"unexpected access {op} at {e.get('site')} in {cur.get(t)} (phase {ph})")
                out.append({"k": "aux"})
                continue
            out.append({"k": "atom", "t": t + 1, "role": role, "slot": slot, "rd": rdv if rdv < 2 ** 31 else 0, "lk": lk,
                        "ok": bool(e["ok"]), "ord": e["ord"], "ordf": e["ordf"]})
    if len(retries) == 1:
        tab["LockRetries"] = retries.pop()
    elif retries:
        drift.append("lock(): after a failed locking CAS the call sometimes rescans and sometimes returns")
    return out, tab, sorted(set(drift))


def tla_prog(prog):
    return "<< " + ", ".join("<<" + ", ".join(f'"{OPS[o]}"' for o in t) + ">>" for t in prog) + " >>"


def gen_module(ctx, name, base, cap, prog, tab, trace):
    ordv = ", ".join(f'{l} |-> "{tab[l]}"' for l in LABELS)
    d = ctx.path("mc", "ruis-" + name, "x")[:-2]
    with open(os.path.join(d, f"{name}.tla"), "w") as f:
        # two snapshot loops (lock() / borrowed_indices()) can make each other's generation bracket fail for ever: the
        # counter is bounded by a state CONSTRAINT (every operation increments it at most twice + a few failed brackets), so that
        # the state space is finite and the counter never reaches the model's LOCK value by counting
        gcmax = 2 * sum(len(t) for t in prog) + 4
        f.write(f"---- MODULE {name} ----\nEXTENDS {base}\nOrdVal == [{ordv}]\nProgVal == {tla_prog(prog)}\n"
                f"GcBounded == LatestVal(GC) = LOCK \\/ LatestVal(GC) <= {gcmax}\n====\n")
    consts = f"CONSTANTS\n Cap = {cap}\n Prog <- ProgVal\n Ord <- OrdVal\n LockRetries = {'TRUE' if tab['LockRetries'] else 'FALSE'}\n"
    with open(os.path.join(d, f"{name}.cfg"), "w") as f:
        if trace:
            f.write("SPECIFICATION TraceSpec\n" + consts + "CONSTRAINT Progress\nPOSTCONDITION Accepted\nCHECK_DEADLOCK FALSE\n")
        else:
            f.write("SPECIFICATION Spec\n" + consts + f"INVARIANTS {INVS}\nCONSTRAINT GcBounded\nCHECK_DEADLOCK FALSE\n")
    return d


def run_impl(ctx):
    q = ctx.quick
    A, R, RL = "acq", "rel0", "rell0"
    O = "obs"
    # the last quick program: a lock-if-last release of the last index overlapped by the observer borrowed_indices(), which
    # bumps the generation counter although the set stays empty -> the locking CAS of lock() fails (LockRetries is extracted here)
    progs = [(2, [[A, RL], [A, R, A]], 2), (1, [[A, A], [A, R]], 2), (1, [[A, RL], [O]], 2)]
    if not q:
        progs += [(2, [[A, A, RL], [A, RL]], 1), (1, [[A, RL, A], [A]], 2), (2, [[A, RL, A], [O, O]], 2), (1, [[A, RL], [O], [O]], 2)]
    tab, drift_any, prepared = {}, False, []
    for n, (cap, prog, bound) in enumerate(progs):
        out = ctx.path("traces", f"ruis-impl-{n}.ndjson")
        _, so, _ = vp.run_driver("drv-lockfree", ["uis", "--kind", "robust", "--cap", cap, "--prog", json.dumps(prog), "--mode", "dfs",
                                                 "--bound", bound, "--runs", 150 if q else 3000, "--atoms", "--out", out],
                                 timeout=1800, env={"VERIF_SEED": ctx.seed})
        summ = vp.last_json_line(so)
        if summ["anomalies"]:
            ctx.note(f"ruis_impl: anomalies in the atomic-level runs of {prog} (reported by the API-level part)")
            continue
        recs, t, drift = prepare(vp.read_ndjson(out), cap)
        for k, v in t.items():
            if tab.setdefault(k, v) != v:
                drift.append(f"{k}: {tab[k]} vs {v}")
        if drift:
            drift_any = True
            print(f"DRIFT: robust index set: access structure differs from RuisImpl.tla: {drift[:3]}")
            ctx.note(f"ruis_impl drift: {drift[:4]}")
        prepared.append((n, cap, prog, recs, summ["executions"]))
    # vacuity: every step kind of the model occurs in the recorded executions (the model's Next is one conjunction with
    # the ghost monitor, so TLC's per-action coverage cannot be used here)
    roles = {r.get("role") for _, _, _, recs, _ in prepared for r in recs if r.get("k") == "atom"}
    need = {"gc_ld", "cell_acq", "inc", "full", "cell_rel", "il_ld", "cnt_ld", "lock"}
    if prepared and not need <= roles:
        raise vp.ToolError(f"vacuous: access roles never observed on the robust index set: {sorted(need - roles)}")
    missing = [l for l in LABELS + ["LockRetries"] if l not in tab]
    if missing:
        drift_any = True
        print(f"DRIFT: robust index set: orderings not observed: {missing}")
        ctx.note(f"ruis_impl: orderings not extracted: {missing}")
    ctx.coverage["robust_index_set_orderings_extracted"] = tab
    if drift_any:
        ctx.note("ruis_impl: weak-memory argument for the robust index set not applicable to this build (drift)")
        return
    for n, cap, prog, recs, execs in ([p for p in prepared if p[0] in (0, 2)] if q else prepared):
        tf = ctx.path("traces", f"ruis-impl-{n}-labelled.ndjson")
        vp.write_ndjson(tf, recs)
        name = f"RUT_{n}"
        d = gen_module(ctx, name, "RuisImplTrace", cap, prog, tab, True)
        v = vp.tlc_trace(d, name, tf, libs=["lockfree"], timeout=1500)
        vp.record_tlc(ctx, f"RuisImplTrace[{prog}]", v.res, count=False)
        if not v.accepted:
            print(f"DRIFT: atomic-level trace of RobustUniqueIndexSet not explained by RuisImpl.tla at {v.pos}: {v.record}")
            ctx.note(f"ruis_impl: atomic-level drift at {v.pos}: {v.record}; weak-memory argument not applicable")
            return
        ctx.traces_validated += execs
    mcs = [(2, [[A, RL], [A, R, A]]), (1, [[A, RL, A], [A]]), (1, [[A, RL, A], [O]])]
    if not q:
        # measured (6 workers, loaded machine): 9 s, 59 s (0.5 M states), 118 s (0.8 M), 206 s (1.2 M), 47 s.  Dropped because
        # they do not finish within 5-10 minutes: (2, [[A, RL], [A, RL], [A]]) and its capacity-1 variant (three threads, two
        # racing lock() loops), (2, [[A, RL], [A, R], [O]])
        mcs += [(2, [[A, A], [A, R]]), (2, [[A, A, RL], [A, RL]]), (1, [[A, R], [A, RL], [A]]),
                (1, [[A, RL], [O], [O]]), (2, [[A, RL, A], [O, O]])]
    for n, (cap, prog) in enumerate(mcs):
        name = f"RU_{n}"
        d = gen_module(ctx, name, "RuisImpl", cap, prog, tab, False)
        res = vp.tlc(d, name, workers=6, timeout=1500 if q else 3600, libs=["lockfree"], heap="8g")
        vp.record_tlc(ctx, f"RuisImpl[cap={cap} prog={prog} ord=extracted]", res)
        if res.timed_out:
            raise vp.ToolError(f"TLC timed out on {name}")
        if res.violated:
            ctx.report(vp.Violation(
                f"TLC refutes {res.violated} for RobustUniqueIndexSet (RuisImpl.tla: acquire / release / lock-if-last, one action "
f"per access over C11Mem) with the memory orderings and the lock() retry behaviour (LockRetries) used by the code {tab}; the atomic-level traces of the code "
                f"conform to that model (program {prog}, capacity {cap})",
                replay={"invariant": res.violated, "orderings": tab, "cap": cap, "prog": prog,
                        "counterexample": [h for h, _ in res.cex]},
                signature=f"c11:ruis:{res.violated}"))
            return
        if not res.ok:
            raise vp.ToolError(f"TLC failed on {name}: {res.error}\n{res.output[-3000:]}")
    if not q:
        weak = dict(tab, gc_ld="Relaxed", inc="Relaxed", acq_s="Relaxed", rel_s="Relaxed")
        d = gen_module(ctx, "MF_weak", "RuisImpl", 2, [[A, RL], [A, R, A]], weak, False)
        res = vp.tlc(d, "MF_weak", workers=6, timeout=1500, libs=["lockfree"], heap="8g")
        vp.record_tlc(ctx, "must-fail robust set with relaxed generation counter", res, count=False)
        if not res.violated:
            raise vp.ToolError("must-fail instance (relaxed generation counter) was not refuted: RuisImpl is vacuous")
        # must-fail: lock() that gives up after a failed locking CAS + an observer -> the last release reports Unlocked
        # (another lock-if-last release alone is no such witness: its bump comes from a release that has not returned,
        # which the API-level notion counts as "still taken" - and the last bumper always locks)
        for nm, cap, prog in (("MF_noretry_obs", 1, [[A, RL], [O]]),):
            d = gen_module(ctx, nm, "RuisImpl", cap, prog, dict(tab, LockRetries=False), False)
            res = vp.tlc(d, nm, workers=6, timeout=1500, libs=["lockfree"], heap="8g")
            vp.record_tlc(ctx, f"must-fail robust set, lock() without the retry, {prog}", res, count=False)
            if res.violated != "UnlockedOnlyWhenOthers":
                raise vp.ToolError(f"must-fail instance {nm} (LockRetries = FALSE) was not refuted by UnlockedOnlyWhenOthers "
                                   f"(got {res.violated}): the observer / retry part of RuisImpl is vacuous")
    ctx.note("RuisImpl.tla: robust index set model-checked with the extracted orderings; atomic-level traces conform")
